"""Shared Hypothesis strategies.  Everything drawn is plain JSON data (a
*spec*); arrays are built from specs by pure functions, so a case is replayable
from its JSON form and long records are a pure function of drawn integers."""
import math

import numpy as np
from hypothesis import strategies as st

REPO_DTS = [0.001, 0.002, 0.0025, 0.004, 0.005, 0.01, 0.02, 0.025, 0.05, 0.1, 0.2, 1.0]


def log_uniform(lo, hi):
    """Log-uniform floats on [lo, hi] (drawn as an exponent so shrinking moves
    towards lo)."""
    llo, lhi = math.log10(lo), math.log10(hi)
    return st.floats(llo, lhi, allow_nan=False, allow_infinity=False).map(
        lambda e: float(min(hi, max(lo, 10.0 ** e))))


def dts(lo=1e-4, hi=1.0):
    return st.one_of(log_uniform(lo, hi), st.sampled_from([d for d in REPO_DTS if lo <= d <= hi]))


def xis():
    return st.one_of(
        st.just(0.0), st.just(0.05),
        st.floats(0.0, 0.99, allow_nan=False),
        st.integers(2, 15).map(lambda k: 1.0 - 10.0 ** (-k)),
    )


# element-wise floats: non-zero magnitudes below 1e-30 are flushed to 0 (products of such values underflow, which
# breaks exact scaling laws without being a defect of the library; no physical record has them)
_fl = st.floats(-1e3, 1e3, allow_nan=False, allow_infinity=False, allow_subnormal=False).map(
    lambda x: 0.0 if abs(x) < 1e-30 else x)


def amp_exps(lo=-6, hi=6):
    return st.integers(lo, hi)


@st.composite
def record_specs(draw, min_n=2, max_n=3000, small_max=48, kinds=None, amp_lo=-6, amp_hi=6,
                 allow_zero_runs=True, allow_int=False):
    """A record spec (dict).  Build with :func:`build`."""
    all_kinds = ["vals", "dyadic", "noise", "sines", "pulse", "step", "walk", "const", "quake", "levels"]
    kinds = kinds or all_kinds
    k = draw(st.sampled_from(kinds))
    small_hi = max(min_n, min(small_max, max_n))
    spec = {"k": k}
    if k == "vals":
        spec["v"] = draw(st.lists(_fl, min_size=min_n, max_size=small_hi))
    elif k == "dyadic":
        bits = draw(st.integers(1, 12))
        spec["ints"] = draw(st.lists(st.integers(-2 ** bits, 2 ** bits), min_size=min_n, max_size=small_hi))
        spec["j"] = draw(st.integers(-4, 10))
    elif k == "levels":
        # plateau-rich: few integer levels
        nlev = draw(st.integers(1, 4))
        spec["ints"] = draw(st.lists(st.integers(-nlev, nlev), min_size=min_n, max_size=small_hi))
        spec["j"] = draw(st.integers(-2, 3))
        spec["k"] = "dyadic"
    else:
        n = draw(st.integers(min_n, max_n))
        # one recipe record in three gets a *special* length near the drawn one: an exact power of two (no FFT padding needed,
        # whole blocks), 2^k +- 1, or a multiple of 100 (whole seconds at the usual sampling rates) - lengths a uniform draw
        # practically never hits, and on which padded / blocked / windowed code paths differ (DESIGN 8.5, round 6)
        sn = draw(st.integers(0, 11))
        if sn >= 8 and n >= 8:
            p2 = 1 << (n.bit_length() - 1)
            cand = {8: p2, 9: p2, 10: p2 + 1, 11: (n // 100) * 100}[sn] if sn != 10 or (n % 2) else p2 - 1
            if min_n <= cand <= max_n and cand >= 2:
                n = cand
        spec["n"] = n
        spec["amp"] = draw(amp_exps(amp_lo, amp_hi))
        if k in ("noise", "walk", "quake"):
            spec["seed"] = draw(st.integers(0, 2 ** 31 - 1))
        if k == "sines":
            ncomp = draw(st.integers(1, 3))
            spec["comps"] = [
                [draw(st.floats(0.25, max(0.5, n / 2.0), allow_nan=False)),
                 draw(st.floats(0, 2 * math.pi, allow_nan=False)),
                 draw(st.floats(0.1, 1.0, allow_nan=False))] for _ in range(ncomp)]
        if k in ("pulse", "step"):
            spec["at"] = draw(st.integers(0, n - 1))
            spec["w"] = draw(st.integers(1, max(1, n // 4)))
    if draw(st.integers(0, 7)) == 0:
        spec["neg"] = True  # the whole record negated: downward pulses / steps, one-signed non-positive records
    if allow_zero_runs and draw(st.integers(0, 5)) == 0:
        spec["lead0"] = draw(st.integers(1, 6))
    if allow_zero_runs and draw(st.integers(0, 5)) == 0:
        spec["trail0"] = draw(st.integers(1, 6))
    if allow_int and draw(st.integers(0, 3)) == 0:
        # container / memory-layout variants of the same record: integer dtype, python list, non-contiguous view,
        # negative-stride view, read-only array (the last three hold exactly the float64 values)
        choices = ["int", "list", "int", "list", "view", "negstride", "readonly"] if allow_int is True else list(allow_int)
        spec["as"] = draw(st.sampled_from(choices))
    return spec


def build(spec):
    """Spec -> float64 ndarray (pure)."""
    k = spec["k"]
    if k == "vals":
        a = np.array(spec["v"], dtype=float)
    elif k == "dyadic":
        a = np.array(spec["ints"], dtype=float) * (2.0 ** (-spec["j"]))
    else:
        n = int(spec["n"])
        amp = 10.0 ** spec.get("amp", 0)
        t = np.arange(n, dtype=float)
        if k == "noise":
            a = np.random.RandomState(spec["seed"]).standard_normal(n)
        elif k == "quake":
            rs = np.random.RandomState(spec["seed"])
            x = (t + 1.0) / n
            env = (x ** 2) * np.exp(-6.0 * x)
            env = env / env.max()
            a = rs.standard_normal(n) * env
        elif k == "walk":
            a = np.cumsum(np.random.RandomState(spec["seed"]).standard_normal(n)) / math.sqrt(n)
        elif k == "sines":
            a = np.zeros(n)
            for cyc, ph, am in spec["comps"]:
                a = a + am * np.sin(2 * math.pi * cyc * t / n + ph)
        elif k == "pulse":
            a = np.zeros(n)
            at, w = spec["at"], spec["w"]
            idx = np.arange(max(0, at - w), min(n, at + w + 1))
            a[idx] = 1.0 - np.abs(idx - at) / float(w + 1)
        elif k == "step":
            a = np.zeros(n)
            a[spec["at"]:] = 1.0
        elif k == "const":
            a = np.ones(n)
        else:
            raise ValueError("unknown record kind %r" % k)
        a = a * amp
    a = np.where(np.abs(a) < 1e-200, 0.0, a)  # no subnormal / near-underflow samples (see _fl): recipes can produce them too
    if spec.get("neg"):
        a = 0.0 - a  # (0.0 - a, not -a: no negative zeros are introduced)
    if spec.get("lead0"):
        a = np.concatenate([np.zeros(spec["lead0"]), a])
    if spec.get("trail0"):
        a = np.concatenate([a, np.zeros(spec["trail0"])])
    return np.ascontiguousarray(a, dtype=float)


def as_container(spec, a):
    """Honour the optional integer / list variant of a spec."""
    how = spec.get("as")
    if how == "int":
        return np.array(np.round(a), dtype=np.int64)
    if how == "list":
        return [float(v) for v in a]
    if how == "view":        # every other element of a twice-as-long buffer: non-contiguous
        buf = np.empty(2 * len(a), dtype=float)
        buf[0::2] = a
        buf[1::2] = -12345.678
        return buf[0::2]
    if how == "negstride":   # reversed copy viewed backwards: negative stride
        return np.array(a[::-1])[::-1]
    if how == "readonly":
        b = np.array(a, dtype=float)
        b.flags.writeable = False
        return b
    return a


def describe(spec, a=None):
    a = build(spec) if a is None else a
    return "%s:n=%d" % (spec["k"], len(a))


def size_class(n):
    if n <= 8:
        return "n<=8"
    if n <= 64:
        return "n<=64"
    if n <= 512:
        return "n<=512"
    if n > 50000:
        return "n>50000"
    return "n>512"


def sign_changes(a):
    s = np.sign(a)
    s = s[s != 0]
    if len(s) < 2:
        return 0
    return int(np.sum(s[1:] != s[:-1]))


@st.composite
def period_ratios(draw, lo=0.2, hi=2e4, min_size=1, max_size=6):
    """Ratios r = T/dt: log-uniform plus the boundary family of DESIGN §2.3."""
    boundary = [r for r in (0.2, 1.0, 5.999, 6.0, 6.001, 20.0, 2e4) if lo <= r <= hi]
    el = st.one_of(log_uniform(lo, hi), st.sampled_from(boundary)) if boundary else log_uniform(lo, hi)
    return draw(st.lists(el, min_size=min_size, max_size=max_size))


def scalars(lo=1e-3, hi=1e3):
    """Non-zero scale factors: signed log-uniform on [lo, hi] or an exact power of two."""
    return st.one_of(
        st.tuples(st.sampled_from([-1.0, 1.0]), log_uniform(lo, hi)).map(lambda t: t[0] * t[1]),
        st.tuples(st.sampled_from([-1.0, 1.0]), st.integers(-8, 8)).map(lambda t: t[0] * 2.0 ** t[1]),
    )


# ---------------------------------------------------------------------------
# size ladders and the source-mined dictionary (added after round 5 of the seeding, DESIGN 8.5)
#
# A code path that only exists in a *window* of sizes (a blocked / streamed / cached variant above some length or
# above some product of two dimensions) is invisible to a generator whose sizes stop at a few thousand samples and to
# a fixed list of giant sizes alike.  Two devices close that class:
#   * ladder(): sizes spread log-uniformly over [lo, hi], one per log-bin, placed inside the bin by a hash of
#     (VERIF_SEED, tag) - every run covers every octave, different seeds land on different lengths (odd, even,
#     prime-ish: nothing is round on purpose);
#   * mined_ints(): the integer literals of the source of the tree under test (the fuzzing idea of an automatic
#     dictionary): a window boundary written into the code as `n > 8192` or `BLOCK = 4096` is read from the code and
#     the sizes just below / above it and its first multiples are added to the ladder.  Only the *generator* looks at
#     the code under test; no oracle does.

import hashlib as _hashlib
import os as _os


def run_seed():
    try:
        return int(_os.environ.get("VERIF_SEED", "1"))
    except ValueError:
        return 1


def _h(*parts):
    s = ":".join(str(p) for p in parts)
    return int(_hashlib.blake2b(s.encode(), digest_size=8).hexdigest(), 16)


def ladder(lo, hi, count, tag="", seed=None):
    """`count` integers in [lo, hi]: one per logarithmic bin, placed inside its bin by a hash of (seed, tag, bin)."""
    seed = run_seed() if seed is None else seed
    lo, hi = int(lo), int(hi)
    if hi <= lo or count <= 1:
        return [lo]
    out = []
    llo, lhi = math.log(lo), math.log(hi + 1)
    for i in range(count):
        a = llo + (lhi - llo) * i / count
        b = llo + (lhi - llo) * (i + 1) / count
        u = (_h(seed, tag, i) % 10 ** 6) / 1e6
        n = int(math.exp(a + (b - a) * u))
        out.append(min(hi, max(lo, n)))
    return sorted(set(out))


_MINED = None


def _mine():
    """Integer and float literals of eqsig's source (tree under test), with the module constants they are bound to."""
    global _MINED
    if _MINED is not None:
        return _MINED
    import ast
    import glob
    root = _os.path.realpath(_os.environ.get("VERIF_EQSIG_PATH", "/repo"))
    ints, floats = set(), set()
    for f in sorted(glob.glob(_os.path.join(root, "eqsig", "**", "*.py"), recursive=True)):
        try:
            tree = ast.parse(open(f).read())
        except Exception:  # noqa
            continue
        for node in ast.walk(tree):
            if isinstance(node, ast.Constant) and not isinstance(node.value, bool):
                v = node.value
                if isinstance(v, int):
                    ints.add(v)
                elif isinstance(v, float) and math.isfinite(v):
                    floats.add(v)
                    if v == int(v) and abs(v) < 2 ** 40:
                        ints.add(int(v))
            # 2 ** 20, 1 << 20, 4 * 1024 ... : constant-fold small integer expressions
            if isinstance(node, ast.BinOp):
                try:
                    v = _fold(node)
                except Exception:  # noqa
                    v = None
                if isinstance(v, int) and 0 < v < 2 ** 40:
                    ints.add(v)
                elif isinstance(v, float) and math.isfinite(v):
                    floats.add(v)
                    if v == int(v) and 0 < v < 2 ** 40:
                        ints.add(int(v))
    _MINED = (sorted(ints), sorted(floats))
    return _MINED


def _fold(node):
    import ast
    if isinstance(node, ast.Constant) and isinstance(node.value, (int, float)) and not isinstance(node.value, bool):
        return node.value
    if isinstance(node, ast.BinOp):
        a, b = _fold(node.left), _fold(node.right)
        if isinstance(node.op, ast.Pow):
            if abs(a) > 64 or abs(b) > 64:
                raise ValueError
            return a ** b
        if isinstance(node.op, ast.Mult):
            return a * b
        if isinstance(node.op, ast.LShift):
            if b > 62:
                raise ValueError
            return a << b
        if isinstance(node.op, ast.Add):
            return a + b
        if isinstance(node.op, ast.Sub):
            return a - b
        if isinstance(node.op, ast.FloorDiv):
            return a // b
    raise ValueError


def mined_ints(lo, hi):
    """Integer literals c of the source under test with lo <= c <= hi (sorted)."""
    return [c for c in _mine()[0] if lo <= c <= hi]


def mined_floats(lo, hi):
    return [c for c in _mine()[1] if lo <= c <= hi]


def mined_sizes(lo, hi, limit=12, tag=""):
    """Sizes aimed at window boundaries written into the code: for each mined integer c >= 16 the sizes c-1, c, c+1,
    2c+1 and 3c+2 (a blocked algorithm shows its seams at the second and third block) and, for products, isqrt-free
    divisors are left to the caller.  At most `limit` sizes (hash-selected by seed when there are more)."""
    cand = set()
    for c in _mine()[0]:
        if c < 16:
            continue
        for n in (c - 1, c, c + 1, 2 * c + 1, 3 * c + 2):
            if lo <= n <= hi:
                cand.add(n)
    cand = sorted(cand)
    if len(cand) > limit:
        cand = sorted(sorted(cand, key=lambda n: _h(run_seed(), tag, n))[:limit])
    return cand


def size_ladder(lo, hi, count, tag="", mined_limit=8):
    """ladder() plus mined_sizes(): the sizes of a mid-range / window enumeration (sorted, distinct)."""
    return sorted(set(ladder(lo, hi, count, tag)) | set(mined_sizes(lo, hi, mined_limit, tag)))


def product_pairs(total_lo, total_hi, count, a_range, b_range, tag=""):
    """Pairs (a, b) whose product a*b is spread over [total_lo, total_hi] like ladder(); a in a_range, b in b_range.
    For windows defined on a product of two dimensions (periods x samples, targets x frequencies, rows x columns);
    mined integers c in the range are also aimed at (a*b just above c)."""
    totals = list(ladder(total_lo, total_hi, count, tag + ":prod"))
    for c in mined_ints(total_lo, total_hi):
        totals.append(int(c * 1.07) + 3)
    out = []
    for i, t in enumerate(sorted(set(totals))):
        # split t into a*b with a log-uniform in its admissible range
        a_lo = max(a_range[0], -(-t // b_range[1]))
        a_hi = min(a_range[1], max(1, t // max(1, b_range[0])))
        if a_hi < a_lo:
            continue
        u = (_h(run_seed(), tag, "split", i) % 10 ** 6) / 1e6
        a = int(math.exp(math.log(a_lo) + (math.log(a_hi + 1) - math.log(a_lo)) * u))
        a = min(a_hi, max(a_lo, a))
        b = min(b_range[1], max(b_range[0], -(-t // a)))
        out.append((a, b))
    return out


# ---------------------------------------------------------------------------
# narrow integer containers (added after the audits of round 6, DESIGN 8.6): raw digitiser counts arrive as int16 / int32
# arrays; a library that keeps computing in that dtype wraps around in sums, differences, squares and in abs() of the most
# negative value.  narrow_int() turns a float record into such a container that uses the dtype's FULL range.

NARROW_DTYPES = ("int16", "int32", "int8")


def narrow_int(a, dtype="int16", extreme=True):
    """(container, exact float64 values) - the record scaled to the full range of `dtype` and rounded; with `extreme` the
    most negative sample is the dtype's minimum (the one value whose abs() does not exist in the dtype).  A record without
    negative samples keeps its sign pattern (no sample is made negative)."""
    info = np.iinfo(dtype)
    a = np.asarray(a, dtype=float)
    peak = float(np.max(np.abs(a))) if a.size else 0.0
    if peak > 0:
        q = np.round(a * (float(info.max) / peak))
    else:
        q = np.zeros_like(a)
    q = np.clip(q, info.min, info.max)
    if extreme and a.size and np.min(q) < 0:
        q[int(np.argmin(q))] = info.min
    c = np.array(q, dtype=dtype)
    return c, np.array(c, dtype=float)
