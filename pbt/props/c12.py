"""C12 - zero crossings and switched (per-half-cycle) peaks are exact."""
import itertools

import numpy as np
from hypothesis import strategies as st

from eqsig.fns import peaks_and_crossings as pc

from pbt import gen
from pbt.core import clause, enum_clause, HarnessError
from pbt.ref import peaks as ref

PROPERTY = "C12"
CLAUSES = []
ASSUMPTIONS = [
    "samples with |value| < 1e-100 are flushed to exactly 0 before the call (non-zero |values| and differences stay >= 1e-116): "
    "the code multiplies neighbouring samples / successive differences and a product below 1e-308 underflows - an implicit "
    "precondition no ground motion violates (DESIGN C12.2, as C11)",
    "on the all-zero series (no excursion, no turning point) the switched peaks must be in-range and strictly ascending like for "
    "every series; the library returns [0, 0] there (open known finding C12-KF2); non-zero constant series are asserted (one "
    "excursion, reported at index 0); the tolerance clauses skip constant series for the switched peaks; crossings are asserted "
    "on every series of length >= 1",
    "where the statement leaves a choice the check accepts every choice: an excursion that attains its largest |value| at several "
    "indices may report any of them, and a zero-valued first sample / final run may or may not be reported; the canonical "
    "reference (first index of the largest |value|, all zero-valued reported local peaks) is compared for equality only where no "
    "such freedom exists; the predicate must accept the canonical reference on every case, otherwise the oracle is broken "
    "(harness error, exit 2)",
    "tolerance clauses are metamorphic against the library's own zero-tolerance result, as the statement is worded; tol = f * |a "
    "sample of the series| with f in {0.3, 1, 1.5} or f * (largest of the first 1-4 non-zero peaks) with f in {1, 1.25, 2, 8}; no rounding is involved in "
    "the comparison peak + tol*sign <= 0 (sign of a floating sum is exact), so there is no ambiguous band",
    "tol < 0 must be rejected by get_zero_crossings_array_indices (any exception accepted); get_switched_peak_array_indices "
    "documents a meaning for negative tol and is not called with one",
    "known finding C12-KF1 (open): with tol > 0 an index absent from the zero-tolerance result is tolerated only if it precedes "
    "the first reported local peak with |value| >= tol (the undocumented 'opening group'); matcher = kf1_matcher below",
]
FLUSH = 1e-100
KINDS = ["vals", "dyadic", "levels", "noise", "noise", "sines", "sines", "pulse", "step", "walk", "walk", "quake", "quake"]
ENUM_TOLS = (0.5, 1.0, 1.5, 2.5)


# ---------------------------------------------------------------------------
# building the series from a case


def series(case):
    """Case -> (float64 array actually analysed, argument handed to the library)."""
    if "v" in case:  # enumerated / hand-written
        a = np.array(case["v"], dtype=float)
        return a, a.copy()
    if "exc" in case:  # structured excursions: [sign, [magnitudes...]] segments, sign 0 = run of zeros
        out = []
        for sg, mags in case["exc"]:
            out.extend([float(sg) * float(m) for m in mags])
        a = np.array(out, dtype=float) * 2.0 ** (-case.get("j", 0))
        if case.get("as") == "list":
            return a, [float(x) for x in a]
        return a, a.copy()
    spec = case["rec"]
    a = gen.build(spec)
    off = case.get("offset")
    if off:
        a = a + float(off) * float(np.max(np.abs(a)) or 1.0)
    lv = case.get("levels")
    if lv:
        peak = float(np.max(np.abs(a)))
        if peak > 0:
            g = peak / lv
            a = np.round(a / g) * g  # symmetric grid containing 0: zero runs, ties and plateaus
    p2 = case.get("pow2")
    if p2 and spec.get("as") != "int":
        a = a * 2.0 ** p2  # exact rescaling: the answer does not depend on the unit of the series
    dec = case.get("decay")
    if dec and spec.get("as") != "int":
        # geometric envelope over `dec` decades (free-vibration tail, tapered record): later half cycles are many orders
        # of magnitude below the first ones
        a = a * 10.0 ** (-dec * np.arange(len(a)) / max(1, len(a) - 1))
    a = np.where(np.abs(a) < FLUSH, 0.0, a)
    if spec.get("as") == "int":
        peak = float(np.max(np.abs(a)))
        if 0 < peak < 8:
            a = a * (8.0 / peak)
    if case.get("negzero") and spec.get("as") != "int":
        # IEEE negative zero is a valid exact zero (rounding of small negative values, a polarity flip, '-0.000' in a text file)
        a = np.where((a == 0) & (np.arange(len(a)) % 2 == case["negzero"] % 2), -0.0, a)
    arg = gen.as_container(spec, a)
    a = np.array(arg, dtype=float)
    if isinstance(arg, np.ndarray):
        arg = arg.copy()
    return a, arg


@st.composite
def _exc_cases(draw):
    nseg = draw(st.integers(1, 8))
    segs = []
    for _ in range(nseg):
        sg = draw(st.sampled_from([-1, 1, -1, 1, 0]))
        if sg == 0:
            segs.append([0, [0] * draw(st.integers(1, 3))])
        else:
            segs.append([sg, draw(st.lists(st.integers(1, 9), min_size=3, max_size=9))])
    case = {"exc": segs, "j": draw(st.integers(-2, 6))}
    if draw(st.integers(0, 4)) == 0:
        case["as"] = "list"
    return case


@st.composite
def _rec_cases(draw, max_n=5000):
    spec = draw(gen.record_specs(min_n=4, max_n=max_n, kinds=KINDS, allow_int=True))
    case = {"rec": spec}
    if draw(st.integers(0, 2)) == 0:
        # shift by a fraction of the peak: non-zero starts, long one-signed stretches with many peaks per excursion
        case["offset"] = draw(st.sampled_from([-1.5, -0.75, -0.5, -0.25, -0.125, 0.125, 0.25, 0.5, 0.75, 1.5]))
    if draw(st.integers(0, 3)) == 0:
        case["levels"] = draw(st.integers(2, 12))
    if draw(st.integers(0, 5)) == 0:
        case["pow2"] = draw(st.sampled_from([-300, -200, -60, -30, 60, 200, 300]))
    elif draw(st.integers(0, 4)) == 0:
        case["decay"] = draw(st.integers(10, 60))
    if draw(st.integers(0, 3)) == 0:
        case["negzero"] = draw(st.integers(1, 2))
    return case


def _cases(max_n=5000):
    return st.one_of(_rec_cases(max_n=max_n), _exc_cases())


def _classify(ctx, case, a):
    """Classes + non-trivial flag (an excursion whose largest |value| is not at its first reported peak)."""
    if "rec" in case:
        ctx.cls("kind=" + case["rec"]["k"])
        if case["rec"].get("as"):
            ctx.cls("as=" + case["rec"]["as"])
        if case.get("offset"):
            ctx.cls("offset")
        if case.get("levels"):
            ctx.cls("coarse-grid")
        if case.get("pow2") and case["rec"].get("as") != "int":
            ctx.cls("rescaled")
    elif "exc" in case:
        ctx.cls("kind=excursions")
    ctx.cls(gen.size_class(len(a)))
    ctx.cls("nonzero-start" if a[0] != 0 else "zero-start")
    if ref.is_constant(a):
        ctx.cls("constant")
        return
    v = a.tolist()
    exc = ref.excursions(v)
    pk = ref.local_peaks(v)[0]
    if any(v[i] == 0 for i in pk[1:-1]):
        ctx.cls("zero-turning-point")
    if any(v[i] == 0 and v[i + 1] == 0 for i in range(len(v) - 1)):
        ctx.cls("zero-run")
    tie, end_zero = ref.switched_freedom(v)
    if tie:
        ctx.cls("tie")
    late = False
    three = False
    j = 0
    for s, e, _sg in exc:
        while j < len(pk) and pk[j] < s:
            j += 1
        if j < len(pk) and pk[j] < e:
            m = max(abs(x) for x in v[s:e])
            if abs(v[pk[j]]) != m:
                late = True
        if not three and e - s >= 3 and len(set(v[s:e])) >= 3:
            three = True
    if three:
        ctx.cls("3+levels-excursion")
    if late:
        ctx.cls("max-not-first-peak")
    if exc and exc[0][0] == 0:
        s, e, _sg = exc[0]
        m = max(abs(x) for x in v[s:e])
        if abs(v[0]) == m and e - s >= 2:
            ctx.cls("first-sample-is-excursion-max")
    ctx.nt(late)


def _ints(ctx, out, what):
    out = np.asarray(out)
    if out.ndim != 1:
        ctx.fail("%s: result is not one-dimensional: shape %s" % (what, out.shape))
    if out.size and out.dtype.kind not in "iu":
        ctx.fail("%s: indices have dtype %s" % (what, out.dtype))
    return out.tolist()


def _sh(lst, n=12):
    lst = list(lst)
    return repr(lst) if len(lst) <= n else "%r...(%d)" % (lst[:n], len(lst))


def _check_crossings(ctx, a, arg, default_too=False):
    for keep in (False, True):
        raw = ctx.lib(pc.get_zero_crossings_array_indices, arg, keep_adj_zeros=keep)
        got = _ints(ctx, raw, "crossings")
        want = ref.zero_crossings(a, keep)
        if got != want:
            ctx.fail("zero crossings (keep_adj_zeros=%s): got %s, expected %s" % (keep, _sh(got), _sh(want)))
        # the answer belongs to the caller: shifting it in place (e.g. to a window offset) must not influence later calls
        if isinstance(raw, np.ndarray) and raw.flags.writeable and raw.size:
            raw += 7
            again = _ints(ctx, ctx.lib(pc.get_zero_crossings_array_indices, arg, keep_adj_zeros=keep), "crossings")
            if again != want:
                ctx.fail("zero crossings (keep_adj_zeros=%s) changed after the caller edited the previous result in place: "
                         "got %s, expected %s" % (keep, _sh(again), _sh(want)))
    if default_too:
        got = _ints(ctx, ctx.lib(pc.get_zero_crossings_array_indices, arg), "crossings")
        want = ref.zero_crossings(a, False)
        if got != want:
            ctx.fail("zero crossings (defaults): got %s, expected %s" % (_sh(got), _sh(want)))


def _check_switched(ctx, a, arg):
    raw = ctx.lib(pc.get_switched_peak_array_indices, arg)
    got = _ints(ctx, raw, "switched peaks")
    if isinstance(raw, np.ndarray) and raw.flags.writeable and raw.size:
        raw += 7  # the answer belongs to the caller: editing it in place must not influence a later call
        again = _ints(ctx, ctx.lib(pc.get_switched_peak_array_indices, arg), "switched peaks")
        if again != got:
            ctx.fail("switched peaks changed after the caller edited the previous result in place: %s then %s" % (_sh(got), _sh(again)))
    v = a.tolist()
    canon = ref.switched_peaks(v)
    msg = ref.switched_violation(v, got)
    if got == canon:
        if msg is not None:
            raise HarnessError("switched-peak predicate rejects the canonical reference %r (%s) for %r" % (canon, msg, v[:40]))
        return got
    if ref.switched_violation(v, canon) is not None:
        raise HarnessError("switched-peak predicate rejects the canonical reference %r for %r" % (canon, v[:40]))
    if msg is not None:
        ctx.fail("switched peaks: %s; got %s, canonical reference %s" % (msg, _sh(got), _sh(canon)))
    tie, end_zero = ref.switched_freedom(v)
    if not (tie or end_zero):
        # the statement determines the answer uniquely here
        ctx.fail("switched peaks: got %s, expected %s" % (_sh(got), _sh(canon)))
    ctx.cls("non-canonical-choice")
    return got


# ---------------------------------------------------------------------------
# 1. exhaustive


def _enum_lengths(tier):
    return (8, 6) if tier == "thorough" else (7, 5)


def _enum(tier, shard, nshards):
    n5, n7 = _enum_lengths(tier)
    idx = 0
    for alphabet, top in ((range(-2, 3), n5), (range(-3, 4), n7)):
        for n in range(1, top + 1):
            for tup in itertools.product(alphabet, repeat=n):
                if idx % nshards == shard:
                    yield {"v": list(tup)}
                idx += 1
    # IEEE negative zero as a symbol of its own: {-1, -0.0, +0.0, 1} up to length 7 (symbol "z" = -0.0)
    for n in range(1, 8):
        for tup in itertools.product((-1, "z", 0, 1), repeat=n):
            if "z" in tup:
                if idx % nshards == shard:
                    yield {"v": [(-0.0 if t == "z" else float(t)) for t in tup], "negzero": True}
                idx += 1


@enum_clause(CLAUSES, "exhaustive", _enum,
             rule="every sequence over {-2..2} of length 1..8 (quick: 1..7) and over {-3..3} of length 1..6 (quick: 1..5), "
                  "488 280 + 137 256 series (quick 97 655 + 19 607); each with keep_adj_zeros in {False, True} for the crossings and "
                  "(all but the all-zero series) the switched peaks; non-trivial = some excursion's largest |value| is not at its first reported peak",
             oracle="reference model: crossings = {0} + zeros (first of each run unless keep_adj_zeros) + first sample after each strict "
                    "sign change (exact list equality); switched peaks: the statement's predicates (ascending, exactly one per excursion "
                    "at its largest |value|, others zero-valued turning points, consecutive ones never share a strict sign, global |max| "
                    "included), cross-checked against the canonical reference wherever the statement leaves no choice",
             exhaustive_note="all sequences over {-2..2} up to length 8 and over {-3..3} up to length 6 in the thorough tier "
                             "(7 / 5 quick), keep_adj_zeros in {F,T}; sharded by enumeration index % nshards",
             require={"nonzero-start": 0.40, "zero-turning-point": 0.05, "zero-run": 0.05, "tie": 0.05,
                      "first-sample-is-excursion-max": 0.05},
             min_nontrivial=0.05)
def exhaustive(case, ctx):
    a, arg = series(case)
    _classify(ctx, case, a)
    _check_crossings(ctx, a, arg)
    if np.any(a != 0):
        _check_switched(ctx, a, arg)
    else:
        _check_switched_all_zero(ctx, a, arg)


def _check_switched_all_zero(ctx, a, arg):
    """The all-zero series has no excursion: every reported index must be a (zero-valued) sample of the series and the
    list strictly ascending, as for every series."""
    got = _ints(ctx, ctx.lib(pc.get_switched_peak_array_indices, arg), "switched peaks")
    ctx.cls("all-zero")
    ctx.check(all(0 <= i < len(a) for i in got), "switched peaks of the all-zero series outside the series: %s" % _sh(got))
    if all(x < y for x, y in zip(got, got[1:])):
        return
    if ctx.kf("C12-KF2") and all(i == 0 for i in got):
        return  # known finding: index 0 reported twice
    ctx.fail("switched peaks of the all-zero series are not strictly ascending: %s" % _sh(got))


# ---------------------------------------------------------------------------
# 2. random


@clause(CLAUSES, "random", _cases(), quick=500, thorough=3000,
        rule="records of all kinds (n 4..5000; ndarray / int / list), optionally shifted by a fraction of the peak (non-zero starts, "
             "long one-signed stretches), rounded to a symmetric coarse grid (zero runs, ties) or rescaled by 2^k (|k| <= 300), plus structured series of 1-8 "
             "excursions with 3-9 dyadic levels each and zero runs between; "
             "non-trivial = some excursion's largest |value| is not at its first reported peak",
        oracle="reference model for crossings (exact), statement predicates + canonical reference for switched peaks; "
               "object-level wrappers agree with the array functions; input unchanged",
        require={"nonzero-start": 0.40, "3+levels-excursion": 0.35, "zero-turning-point": 0.03, "n>512": 0.03, "rescaled": 0.02},
        min_nontrivial=0.2)
def random(case, ctx):
    a, arg = series(case)
    _classify(ctx, case, a)
    before = np.array(arg, dtype=float).copy()
    _check_crossings(ctx, a, arg, default_too=True)
    if np.any(a != 0):
        got = _check_switched(ctx, a, arg)
        via = _ints(ctx, ctx.lib(pc.get_switched_peak_indices, arg), "get_switched_peak_indices")
        ctx.check(via == got, "get_switched_peak_indices differs from the array function: %s vs %s" % (_sh(via), _sh(got)))
        t0 = _ints(ctx, ctx.lib(pc.get_switched_peak_array_indices, arg, tol=0.0), "switched peaks tol=0.0")
        ctx.check(t0 == got, "explicit tol=0.0 differs from the default: %s vs %s" % (_sh(t0), _sh(got)))
    ctx.equal(np.array(arg, dtype=float), before, "input series after the calls")


# ---------------------------------------------------------------------------
# 3. tolerance


def kf1_matcher(a, tol, extras, local_peaks=None):
    """C12-KF1 matcher: every index of result(tol) absent from result(0) precedes the first reported local peak
    with |value| >= tol (the opening group of get_switched_peak_array_indices)."""
    v = [float(x) for x in a]
    first_big = len(v)
    for i in (local_peaks if local_peaks is not None else ref.local_peaks(v)[0]):
        if abs(v[i]) >= tol:
            first_big = i
            break
    return all(i < first_big for i in extras), first_big


def _tol_of(case, a):
    ts = case["tol"]
    v = a.tolist()
    if "value" in ts:
        return float(ts["value"])
    if ts["mode"] == "level":
        nz = [abs(x) for x in v if x != 0]
        base = nz[ts["k"] % len(nz)] if nz else 1.0
    else:  # larger than the first peaks
        pk = ref.local_peaks(v)[0]
        vals = [abs(v[i]) for i in pk if v[i] != 0][:ts["m"]]
        base = max(vals) if vals else 1.0
    return float(ts["f"]) * base


@st.composite
def _tol_cases(draw):
    case = draw(_cases(max_n=2000))
    if draw(st.booleans()):
        case["tol"] = {"mode": "level", "f": draw(st.sampled_from([0.3, 1.0, 1.5])), "k": draw(st.integers(0, 4000))}
    else:
        case["tol"] = {"mode": "first", "f": draw(st.sampled_from([1.0, 1.25, 2.0, 8.0])), "m": draw(st.integers(1, 4))}
    return case


def _tol_base(ctx, a, arg):
    """Zero-tolerance results of both functions (computed once per series)."""
    base = {}
    for keep in (False, True):
        base[keep] = _ints(ctx, ctx.lib(pc.get_zero_crossings_array_indices, arg, keep_adj_zeros=keep, tol=0.0), "crossings")
    base["const"] = ref.is_constant(a)
    if not base["const"]:
        base["sw"] = _ints(ctx, ctx.lib(pc.get_switched_peak_array_indices, arg, tol=0.0), "switched peaks")
        base["lp"] = ref.local_peaks(a.tolist())[0]
    return base


def _check_tol(ctx, a, arg, tol, base=None):
    """Both functions at tolerance `tol` against their own zero-tolerance results."""
    base = base or _tol_base(ctx, a, arg)
    pruned = False
    for keep in (False, True):
        z0 = base[keep]
        zt = _ints(ctx, ctx.lib(pc.get_zero_crossings_array_indices, arg, keep_adj_zeros=keep, tol=tol), "crossings tol>0")
        if not ref.is_subsequence(zt, z0):
            ctx.fail("crossings with tol=%r (keep_adj_zeros=%s) %s are not a subsequence of the zero-tolerance result %s" % (
                tol, keep, _sh(zt), _sh(z0)))
        if len(zt) < len(z0):
            pruned = True
            ctx.cls("zc-pruned")
    ctx.raises(Exception, pc.get_zero_crossings_array_indices, arg, tol=-tol)
    if base["const"]:
        return pruned
    s0 = base["sw"]
    s_t = _ints(ctx, ctx.lib(pc.get_switched_peak_array_indices, arg, tol=tol), "switched peaks tol>0")
    for a_, b_ in zip(s_t[:-1], s_t[1:]):
        if not a_ < b_:
            ctx.fail("switched peaks with tol=%r not strictly ascending: %s" % (tol, _sh(s_t)))
    if len(s_t) < len(s0):
        pruned = True
        ctx.cls("sw-pruned")
    in0 = set(s0)
    extras = [i for i in s_t if i not in in0]
    if extras:
        match, first_big = kf1_matcher(a, tol, extras, base["lp"])
        if match and ctx.kf("C12-KF1"):
            # relaxed bound: the extras must still be reported local peaks; everything from the first big peak on is strict
            ctx.cls("kf1-match")
            lp = set(base["lp"])
            ctx.check(all(i in lp for i in extras), "switched peaks with tol=%r: extra indices %s are not local peaks" % (tol, _sh(extras)))
        else:
            ctx.fail("switched peaks with tol=%r: %s is not a subsequence of the zero-tolerance result %s (extra %s; first local "
                     "peak with |value| >= tol at %s)" % (tol, _sh(s_t), _sh(s0), _sh(extras), first_big if first_big < len(a) else None))
    return pruned


@clause(CLAUSES, "tol", _tol_cases(), quick=400, thorough=2500,
        rule="same series generator (n <= 2000); tol = f*|a sample| with f in {0.3, 1, 1.5}, or f*(largest of the first 1-4 "
             "non-zero peaks) with f in {1, 1.25, 2, 8} (tol larger than the first peaks); non-trivial = the tolerance removes something",
        oracle="metamorphic: result(tol) is a subsequence of result(0) for crossings (both keep_adj_zeros modes) and switched "
               "peaks; tol < 0 rejected by the crossings function; C12-KF1 routes extras that precede the first peak >= tol",
        require={"tol>first-peak": 0.2, "sw-pruned": 0.2, "zc-pruned": 0.1, "nonzero-start": 0.3},
        min_nontrivial=0.2)
def tol(case, ctx):
    a, arg = series(case)
    _classify(ctx, case, a)
    ctx.nontrivial = False
    t = _tol_of(case, a)
    ctx.cls("tol-mode=" + case["tol"].get("mode", "value"))
    v = a.tolist()
    pk = [abs(v[i]) for i in ref.local_peaks(v)[0] if v[i] != 0]
    if pk and t > pk[0]:
        ctx.cls("tol>first-peak")
    if pk and t > max(pk):
        ctx.cls("tol>all-peaks")
    ctx.nt(_check_tol(ctx, a, arg, t))


def _tol_enum(tier, shard, nshards):
    top = 6 if tier == "thorough" else 5
    idx = 0
    for n in range(2, top + 1):
        for tup in itertools.product(range(-3, 4), repeat=n):
            if idx % nshards == shard:
                yield {"v": list(tup)}
            idx += 1


@enum_clause(CLAUSES, "tol-exhaustive", _tol_enum,
             rule="every sequence over {-3..3} of length 2..6 (quick: 2..5) with tol in {0.5, 1, 1.5, 2.5}; "
                  "non-trivial = some tolerance removes something",
             oracle="metamorphic subsequence relation as clause tol (addition to DESIGN: the integer alphabet reaches C12-KF1 at tol=2.5)",
             exhaustive_note="all sequences over {-3..3} of length 2..6 (2..5 quick) x tol in {0.5,1,1.5,2.5}; sharded by index % nshards",
             min_nontrivial=0.3, quick_shards=2)
def tol_exhaustive(case, ctx):
    a, arg = series(case)
    ctx.cls("nonzero-start" if a[0] != 0 else "zero-start")
    pruned = False
    base = _tol_base(ctx, a, arg)
    for t in ENUM_TOLS:
        if _check_tol(ctx, a, arg, t, base):
            pruned = True
    ctx.nt(pruned)
