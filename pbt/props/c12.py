"""C12 - zero crossings and switched (per-half-cycle) peaks are exact."""
import hashlib
import itertools
import math

import numpy as np
from hypothesis import strategies as st

import eqsig
from eqsig.fns import peaks_and_crossings as pc

from pbt import gen
from pbt.core import clause, enum_clause, HarnessError
from pbt.ref import peaks as ref
from pbt.ref import peaks_mid as pm

PROPERTY = "C12"
CLAUSES = []
ASSUMPTIONS = [
    "clauses exhaustive / random / tol / tol-exhaustive / mid-range*: samples with |value| < 1e-100 are flushed to exactly 0 before the "
    "call (non-zero |values| and differences stay >= 1e-116) and |values| <= 1e100; the statement's 'every series' beyond that range "
    "(values of 1e-160 .. 1e-200, where products of two samples underflow, and of 1e150 .. 1e305, where they overflow) is asserted by "
    "the separate clause extreme-magnitudes with the same oracles and NO flush",
    "on the all-zero series (no excursion, no turning point) the switched peaks must be in-range and strictly ascending like for "
    "every series; the library returns [0, 0] there (open known finding C12-KF2, matched by exactly that answer); non-zero constant "
    "series are asserted (one excursion, reported at index 0); the tolerance clauses skip constant series for the switched peaks; "
    "crossings are asserted on every series of length >= 1",
    "where the statement leaves a choice the check accepts every choice: an excursion that attains its largest |value| at several "
    "indices may report any of them, and a zero-valued first sample / final run may or may not be reported; the canonical "
    "reference (first index of the largest |value|, all zero-valued reported local peaks) is compared for equality only where no "
    "such freedom exists; the predicate must accept the canonical reference on every case, otherwise the oracle is broken "
    "(harness error, exit 2); the mid-range clauses use the vectorised twins (pbt/ref/peaks_mid.py, cross-checked at import)",
    "tolerance clauses are metamorphic against the library's own zero-tolerance result, as the statement is worded; tol = f * |a "
    "sample of the series| with f in {0.3, 1, 1.5} or f * (largest of the first 1-4 non-zero peaks) with f in {1, 1.25, 2, 8}; no rounding is involved in "
    "the comparison peak + tol*sign <= 0 (sign of a floating sum is exact), so there is no ambiguous band",
    "negative tolerances are not passed: the statement's quantifier is tol in {0, > 0}, and the docstrings give tol < 0 a meaning "
    "('does not need to cross zero') that the pinned code does not implement (it raises); the earlier demand 'tol < 0 must raise' was "
    "not in the statement and was removed",
    "known finding C12-KF1 (open): with tol > 0 exactly ONE index absent from the zero-tolerance result is tolerated, and only when it "
    "is the largest-|value| reported local peak of the opening group (the local peaks from the first non-zero-valued one up to, "
    "excluding, the first one that lies at least tol beyond zero on the other side of the group's first peak) and that group's first "
    "peak is smaller than tol; matcher = kf1_matcher below (narrowed after the audit: the recorded defect can produce nothing else)",
    "reported indices must have an integer dtype: they are positions, and every caller in the repository indexes with them",
    "the aliasing (caller edits the returned array in place) and input-unchanged assertions of earlier versions were removed: purity / "
    "ownership of results is property C05's promise, not C12's",
    "object-level wrappers get_zero_crossings_indices(asig) / get_switched_peak_indices(asig) are called with real eqsig.Signal / "
    "eqsig.AccSignal objects and their DEFAULT arguments only (the statement: first zero of each run unless adjacent zeros are "
    "requested - nothing is requested); the reference is computed from the values the object holds (asig.values); "
    "get_switched_peak_indices is no longer called with a bare array (documented argument: an AccSignal)",
    "narrow integer containers (int8 / int16 / int32 from gen.narrow_int: full range of the dtype, the most negative sample equal to the dtype's "
    "minimum) are part of the random / tol / mid-range families; the oracle works at the exact float64 values of the counts; tolerances for them "
    "are floats derived from those values",
    "get_zero_and_peak_array_indices is not asserted: no sentence of the statement describes its result (and the pinned code raises "
    "IndexError on about a quarter of ordinary series)",
]
FLUSH = 1e-100
KINDS = ["vals", "dyadic", "levels", "noise", "noise", "sines", "sines", "pulse", "step", "walk", "walk", "quake", "quake"]
ENUM_TOLS = (0.5, 1.0, 1.5, 2.5)


# ---------------------------------------------------------------------------
# building the series from a case


def series(case):
    """Case -> (float64 array actually analysed, argument handed to the library)."""
    if "v" in case:  # enumerated / hand-written
        a = np.array(case["v"], dtype=float)
        if case.get("dtype"):  # hand-written narrow-integer record: the container holds exactly these (integral) values
            return a, np.array(case["v"], dtype=case["dtype"])
        return a, a.copy()
    if "exc" in case:  # structured excursions: [sign, [magnitudes...]] segments, sign 0 = run of zeros
        out = []
        for sg, mags in case["exc"]:
            out.extend([float(sg) * float(m) for m in mags])
        a = np.array(out, dtype=float) * 2.0 ** (-case.get("j", 0))
        if case.get("narrow"):
            arg, a = gen.narrow_int(a, case["narrow"])
            return a, arg
        if case.get("as") == "list":
            return a, [float(x) for x in a]
        return a, a.copy()
    spec = case["rec"]
    a = gen.build(spec)
    off = case.get("offset")
    if off:
        a = a + float(off) * float(np.max(np.abs(a)) or 1.0)
    lv = case.get("levels")
    if lv:
        peak = float(np.max(np.abs(a)))
        if peak > 0:
            g = peak / lv
            a = np.round(a / g) * g  # symmetric grid containing 0: zero runs, ties and plateaus
    p2 = case.get("pow2")
    if p2 and spec.get("as") != "int":
        a = a * 2.0 ** p2  # exact rescaling: the answer does not depend on the unit of the series
    dec = case.get("decay")
    if dec and spec.get("as") != "int":
        # geometric envelope over `dec` decades (free-vibration tail, tapered record): later half cycles are many orders
        # of magnitude below the first ones
        a = a * 10.0 ** (-dec * np.arange(len(a)) / max(1, len(a) - 1))
    xm = case.get("xmag")
    if xm is not None:
        # clause extreme-magnitudes: the largest |value| is moved to (2^(xm-1), 2^xm] by an exact power-of-two factor; NO flush
        peak = float(np.max(np.abs(a)))
        if peak > 0:
            a = np.ldexp(a, int(xm) - int(math.ceil(math.log2(peak))))  # exact; the factor itself may exceed 2^1023
    else:
        a = np.where(np.abs(a) < FLUSH, 0.0, a)
    if spec.get("as") == "int":
        peak = float(np.max(np.abs(a)))
        if 0 < peak < 8:
            a = a * (8.0 / peak)
    if case.get("negzero") and spec.get("as") != "int":
        # IEEE negative zero is a valid exact zero (rounding of small negative values, a polarity flip, '-0.000' in a text file)
        a = np.where((a == 0) & (np.arange(len(a)) % 2 == case["negzero"] % 2), -0.0, a)
    if case.get("narrow") and not spec.get("as"):
        # 8 / 16 / 32-bit digitiser counts over the full range of the dtype, the most negative sample = the dtype's minimum
        # (abs() and products of such samples do not exist in the dtype); the oracle works at the exact float64 values
        arg, a = gen.narrow_int(a, case["narrow"])
        return a, arg
    arg = gen.as_container(spec, a)
    a = np.array(arg, dtype=float)
    if isinstance(arg, np.ndarray):
        arg = arg.copy()
    return a, arg


@st.composite
def _exc_cases(draw):
    nseg = draw(st.integers(1, 8))
    segs = []
    for _ in range(nseg):
        sg = draw(st.sampled_from([-1, 1, -1, 1, 0]))
        if sg == 0:
            segs.append([0, [0] * draw(st.integers(1, 3))])
        else:
            segs.append([sg, draw(st.lists(st.integers(1, 9), min_size=3, max_size=9))])
    case = {"exc": segs, "j": draw(st.integers(-2, 6))}
    if draw(st.integers(0, 4)) == 0:
        case["as"] = "list"
    elif draw(st.integers(0, 4)) == 0:
        case["narrow"] = draw(st.sampled_from(gen.NARROW_DTYPES))
    return case


@st.composite
def _rec_cases(draw, max_n=5000):
    spec = draw(gen.record_specs(min_n=4, max_n=max_n, kinds=KINDS, allow_int=True))
    case = {"rec": spec}
    if draw(st.integers(0, 2)) == 0:
        # shift by a fraction of the peak: non-zero starts, long one-signed stretches with many peaks per excursion
        case["offset"] = draw(st.sampled_from([-1.5, -0.75, -0.5, -0.25, -0.125, 0.125, 0.25, 0.5, 0.75, 1.5]))
    if draw(st.integers(0, 3)) == 0:
        case["levels"] = draw(st.integers(2, 12))
    if draw(st.integers(0, 5)) == 0:
        case["pow2"] = draw(st.sampled_from([-300, -200, -60, -30, 60, 200, 300]))
    elif draw(st.integers(0, 4)) == 0:
        case["decay"] = draw(st.integers(10, 60))
    if draw(st.integers(0, 1)) == 0:
        case["negzero"] = draw(st.integers(1, 2))
    if draw(st.integers(0, 4)) == 0:
        case["narrow"] = draw(st.sampled_from(gen.NARROW_DTYPES))
    if draw(st.integers(0, 2)) == 0:
        # the object-level wrappers with a real Signal / AccSignal holding the series
        case["obj"] = [draw(st.sampled_from(["AccSignal", "Signal", "AccSignal"])), draw(st.sampled_from(gen.REPO_DTS))]
    return case


def _cases(max_n=5000):
    # three record cases for two structured ones (the audit found records starved: 37 %)
    return st.one_of(_rec_cases(max_n=max_n), _exc_cases(), _rec_cases(max_n=max_n), _exc_cases(), _rec_cases(max_n=max_n))


def _classify(ctx, case, a):
    """Classes + non-trivial flag (an excursion whose largest |value| is not at its first reported peak)."""
    if "rec" in case:
        ctx.cls("kind=" + case["rec"]["k"])
        if case["rec"].get("as"):
            ctx.cls("as=" + case["rec"]["as"])
        if case.get("offset"):
            ctx.cls("offset")
        if case.get("levels"):
            ctx.cls("coarse-grid")
        if case.get("pow2") and case["rec"].get("as") != "int":
            ctx.cls("rescaled")
        elif case.get("decay") and case["rec"].get("as") != "int":
            ctx.cls("decay")
        if case.get("negzero") and case["rec"].get("as") != "int" and bool(np.any(np.signbit(a) & (a == 0))):
            ctx.cls("negzero")
    elif "exc" in case:
        ctx.cls("kind=excursions")
    if case.get("narrow") and not (case.get("rec") or {}).get("as"):
        ctx.cls("narrow-int", "narrow=" + case["narrow"])
        if bool(np.any(a == float(np.iinfo(case["narrow"]).min))):
            ctx.cls("narrow-int-minimum")
    ctx.cls(gen.size_class(len(a)))
    ctx.cls("nonzero-start" if a[0] != 0 else "zero-start")
    if ref.is_constant(a):
        ctx.cls("constant")
        return
    v = a.tolist()
    exc = ref.excursions(v)
    pk = ref.local_peaks(v)[0]
    if any(v[i] == 0 for i in pk[1:-1]):
        ctx.cls("zero-turning-point")
    if any(v[i] == 0 and v[i + 1] == 0 for i in range(len(v) - 1)):
        ctx.cls("zero-run")
    tie, end_zero = ref.switched_freedom(v)
    if tie:
        ctx.cls("tie")
    late = False
    three = False
    j = 0
    for s, e, _sg in exc:
        while j < len(pk) and pk[j] < s:
            j += 1
        if j < len(pk) and pk[j] < e:
            m = max(abs(x) for x in v[s:e])
            if abs(v[pk[j]]) != m:
                late = True
        if not three and e - s >= 3 and len(set(v[s:e])) >= 3:
            three = True
    if three:
        ctx.cls("3+levels-excursion")
    if late:
        ctx.cls("max-not-first-peak")
    if exc and exc[0][0] == 0:
        s, e, _sg = exc[0]
        m = max(abs(x) for x in v[s:e])
        if abs(v[0]) == m and e - s >= 2:
            ctx.cls("first-sample-is-excursion-max")
    ctx.nt(late)


def _ints(ctx, out, what):
    out = np.asarray(out)
    if out.ndim != 1:
        ctx.fail("%s: result is not one-dimensional: shape %s" % (what, out.shape))
    if out.size and out.dtype.kind not in "iu":
        ctx.fail("%s: indices have dtype %s" % (what, out.dtype))
    return out.tolist()


def _sh(lst, n=12):
    lst = list(lst)
    return repr(lst) if len(lst) <= n else "%r...(%d)" % (lst[:n], len(lst))


def _check_crossings(ctx, a, arg, default_too=False):
    for keep in (False, True):
        raw = ctx.lib(pc.get_zero_crossings_array_indices, arg, keep_adj_zeros=keep)
        got = _ints(ctx, raw, "crossings")
        want = ref.zero_crossings(a, keep)
        if got != want:
            ctx.fail("zero crossings (keep_adj_zeros=%s): got %s, expected %s" % (keep, _sh(got), _sh(want)))
    if default_too:
        got = _ints(ctx, ctx.lib(pc.get_zero_crossings_array_indices, arg), "crossings")
        want = ref.zero_crossings(a, False)
        if got != want:
            ctx.fail("zero crossings (defaults): got %s, expected %s" % (_sh(got), _sh(want)))


def _judge_switched(ctx, v, got, what="switched peaks"):
    """A reported answer against the statement's predicates and (where the statement leaves no choice) the canonical reference."""
    canon = ref.switched_peaks(v)
    msg = ref.switched_violation(v, got)
    if got == canon:
        if msg is not None:
            raise HarnessError("switched-peak predicate rejects the canonical reference %r (%s) for %r" % (canon, msg, v[:40]))
        return
    if ref.switched_violation(v, canon) is not None:
        raise HarnessError("switched-peak predicate rejects the canonical reference %r for %r" % (canon, v[:40]))
    if msg is not None:
        ctx.fail("%s: %s; got %s, canonical reference %s" % (what, msg, _sh(got), _sh(canon)))
    tie, end_zero = ref.switched_freedom(v)
    if not (tie or end_zero):
        # the statement determines the answer uniquely here
        ctx.fail("%s: got %s, expected %s" % (what, _sh(got), _sh(canon)))
    ctx.cls("non-canonical-choice")


def _check_switched(ctx, a, arg, explicit_zero=False):
    got = _ints(ctx, ctx.lib(pc.get_switched_peak_array_indices, arg), "switched peaks")
    v = a.tolist()
    _judge_switched(ctx, v, got)
    if explicit_zero:
        # tol = 0.0 spelled out is the statement's zero-tolerance result as well (judged by the statement, not by equality with the default call)
        t0 = _ints(ctx, ctx.lib(pc.get_switched_peak_array_indices, arg, tol=0.0), "switched peaks tol=0.0")
        _judge_switched(ctx, v, t0, "switched peaks (tol=0.0)")
    return got


def _signal(kind, arg, dt):
    """A real eqsig object holding the series -> (object, float64 copy of the values it holds)."""
    cls = eqsig.AccSignal if kind == "AccSignal" else eqsig.Signal
    try:
        sig = cls(arg, float(dt))
        return sig, np.array(sig.values, dtype=float)
    except Exception:  # noqa  (building / reading the object is not this property's promise: C04 / C05)
        return None, None


def _check_wrappers(ctx, kind, arg, dt):
    """get_zero_crossings_indices(asig) and get_switched_peak_indices(asig), default arguments, real Signal / AccSignal."""
    ctx.cls("wrapper=" + kind)
    sig, held = _signal(kind, arg, dt)
    if sig is None or held.ndim != 1 or len(held) < 1:
        ctx.cls("wrapper-skipped")
        return
    got = _ints(ctx, ctx.lib(pc.get_zero_crossings_indices, sig), "get_zero_crossings_indices")
    want = ref.zero_crossings(held, False)
    if got != want:
        ctx.fail("get_zero_crossings_indices(%s) (default arguments: adjacent zeros not requested): got %s, expected %s" % (kind, _sh(got), _sh(want)))
    if np.any(held != 0):
        got = _ints(ctx, ctx.lib(pc.get_switched_peak_indices, sig), "get_switched_peak_indices")
        _judge_switched(ctx, held.tolist(), got, "get_switched_peak_indices(%s)" % kind)


# ---------------------------------------------------------------------------
# 1. exhaustive


def _enum_lengths(tier):
    return (8, 6) if tier == "thorough" else (7, 5)


def _enum(tier, shard, nshards):
    n5, n7 = _enum_lengths(tier)
    idx = 0
    for alphabet, top in ((range(-2, 3), n5), (range(-3, 4), n7)):
        for n in range(1, top + 1):
            for tup in itertools.product(alphabet, repeat=n):
                if idx % nshards == shard:
                    yield {"v": list(tup)}
                idx += 1
    # IEEE negative zero as a symbol of its own: {-1, -0.0, +0.0, 1} up to length 7 (symbol "z" = -0.0)
    for n in range(1, 8):
        for tup in itertools.product((-1, "z", 0, 1), repeat=n):
            if "z" in tup:
                if idx % nshards == shard:
                    yield {"v": [(-0.0 if t == "z" else float(t)) for t in tup], "negzero": True}
                idx += 1


@enum_clause(CLAUSES, "exhaustive", _enum,
             rule="every sequence over {-2..2} of length 1..8 (quick: 1..7) and over {-3..3} of length 1..6 (quick: 1..5), "
                  "488 280 + 137 256 series (quick 97 655 + 19 607); each with keep_adj_zeros in {False, True} for the crossings and "
                  "(all but the all-zero series) the switched peaks; non-trivial = some excursion's largest |value| is not at its first reported peak",
             oracle="reference model: crossings = {0} + zeros (first of each run unless keep_adj_zeros) + first sample after each strict "
                    "sign change (exact list equality); switched peaks: the statement's predicates (ascending, exactly one per excursion "
                    "at its largest |value|, others zero-valued turning points, consecutive ones never share a strict sign, global |max| "
                    "included), cross-checked against the canonical reference wherever the statement leaves no choice",
             exhaustive_note="all sequences over {-2..2} up to length 8 and over {-3..3} up to length 6 in the thorough tier "
                             "(7 / 5 quick), keep_adj_zeros in {F,T}; sharded by enumeration index % nshards",
             require={"nonzero-start": 0.40, "zero-turning-point": 0.05, "zero-run": 0.05, "tie": 0.05,
                      "first-sample-is-excursion-max": 0.05},
             min_nontrivial=0.05)
def exhaustive(case, ctx):
    a, arg = series(case)
    _classify(ctx, case, a)
    _check_crossings(ctx, a, arg)
    if np.any(a != 0):
        _check_switched(ctx, a, arg)
    else:
        _check_switched_all_zero(ctx, a, arg)


def _check_switched_all_zero(ctx, a, arg):
    """The all-zero series has no excursion: every reported index must be a (zero-valued) sample of the series and the
    list strictly ascending, as for every series."""
    got = _ints(ctx, ctx.lib(pc.get_switched_peak_array_indices, arg), "switched peaks")
    ctx.cls("all-zero")
    ctx.check(all(0 <= i < len(a) for i in got), "switched peaks of the all-zero series outside the series: %s" % _sh(got))
    if all(x < y for x, y in zip(got, got[1:])):
        return
    if got == [0, 0] and ctx.kf("C12-KF2"):
        return  # known finding: index 0 reported twice (exactly that answer)
    ctx.fail("switched peaks of the all-zero series are not strictly ascending: %s" % _sh(got))


# ---------------------------------------------------------------------------
# 2. random


@clause(CLAUSES, "random", _cases(), quick=500, thorough=3000,
        rule="records of all kinds (n 4..5000; ndarray / int / list / views; 60 % of the cases), optionally shifted by a fraction of the peak "
             "(non-zero starts, long one-signed stretches), rounded to a symmetric coarse grid (zero runs, ties), rescaled by 2^k (|k| <= 300), "
             "under a geometric envelope of 10-60 decades, with IEEE negative zeros; plus structured series of 1-8 "
             "excursions with 3-9 dyadic levels each and zero runs between (40 %); a third of the record cases also through the object-level "
             "wrappers with a real Signal / AccSignal; non-trivial = some excursion's largest |value| is not at its first reported peak",
        oracle="reference model for crossings (exact; both keep_adj_zeros values and the default), statement predicates + canonical reference "
               "for switched peaks (default and explicit tol=0.0); object-level wrappers with default arguments against the same oracles",
        require={"nonzero-start": 0.40, "3+levels-excursion": 0.35, "zero-turning-point": 0.03, "n>512": 0.08, "rescaled": 0.03,
                 "decay": 0.03, "negzero": 0.02, "wrapper=Signal": 0.03, "wrapper=AccSignal": 0.03, "wrapper&zero-run": 0.02,
                 "narrow-int": 0.08, "narrow-int-minimum": 0.04},
        min_nontrivial=0.2)
def random(case, ctx):
    a, arg = series(case)
    _classify(ctx, case, a)
    _check_crossings(ctx, a, arg, default_too=True)
    if np.any(a != 0):
        _check_switched(ctx, a, arg, explicit_zero=True)
    if case.get("obj"):
        if "zero-run" in ctx.classes:
            ctx.cls("wrapper&zero-run")
        _check_wrappers(ctx, case["obj"][0], arg, case["obj"][1])


# ---------------------------------------------------------------------------
# 3. tolerance


def kf1_matcher(a, tol, extras, local_peaks=None):
    """C12-KF1 matcher, exactly the recorded defect: result(tol) holds ONE index absent from result(0), and it is the largest-|value|
    (first of equals) reported local peak of the opening group - the reported local peaks from the first one on (the second one when
    the series starts with a zero-valued peak, which closes a group of its own) up to, excluding, the first one that lies at least
    tol beyond zero on the other side of the group's first peak - while that first peak is smaller than tol.  Later groups start at a
    peak of magnitude >= tol and always report a zero-tolerance representative; an opening group that runs to the end of the series
    reports the largest peak of all, which is one as well (DESIGN C12.F(b)).  Returns (match, index the defect may report or None)."""
    lp = local_peaks if local_peaks is not None else pm.local_peaks(a)[0]
    if len(extras) != 1 or len(lp) < 2:
        return False, None
    k0 = 0 if a[lp[0]] != 0 else 1
    last = float(a[lp[k0]])
    if not (0 < abs(last) < tol):
        return False, None
    best, best_abs = int(lp[k0]), abs(last)
    closed = False
    for k in range(k0 + 1, len(lp)):
        c = float(a[lp[k]])
        if (last > 0 and c <= -tol) or (last < 0 and c >= tol):
            closed = True
            break
        if abs(c) > best_abs:
            best, best_abs = int(lp[k]), abs(c)
    if not closed:
        return False, None
    return int(extras[0]) == best, best


def _tol_of(case, a):
    ts = case["tol"]
    v = a.tolist()
    if "value" in ts:
        return float(ts["value"])
    if ts["mode"] == "level":
        nz = [abs(x) for x in v if x != 0]
        base = nz[ts["k"] % len(nz)] if nz else 1.0
    else:  # larger than the first peaks
        pk = ref.local_peaks(v)[0]
        vals = [abs(v[i]) for i in pk if v[i] != 0][:ts["m"]]
        base = max(vals) if vals else 1.0
    return float(ts["f"]) * base


@st.composite
def _tol_cases(draw):
    case = draw(_cases(max_n=5000))
    case.pop("obj", None)
    if draw(st.booleans()):
        case["tol"] = {"mode": "level", "f": draw(st.sampled_from([0.3, 1.0, 1.5])), "k": draw(st.integers(0, 4000))}
    else:
        case["tol"] = {"mode": "first", "f": draw(st.sampled_from([1.0, 1.25, 2.0, 8.0])), "m": draw(st.integers(1, 4))}
    return case


def _tol_base(ctx, a, arg):
    """Zero-tolerance results of both functions (computed once per series)."""
    base = {}
    for keep in (False, True):
        base[keep] = _ints(ctx, ctx.lib(pc.get_zero_crossings_array_indices, arg, keep_adj_zeros=keep, tol=0.0), "crossings")
    base["const"] = ref.is_constant(a)
    if not base["const"]:
        base["sw"] = _ints(ctx, ctx.lib(pc.get_switched_peak_array_indices, arg, tol=0.0), "switched peaks")
        base["lp"] = pm.local_peaks(a)[0]
    return base


def _check_tol(ctx, a, arg, tol, base=None):
    """Both functions at tolerance `tol` against their own zero-tolerance results."""
    base = base or _tol_base(ctx, a, arg)
    pruned = False
    for keep in (False, True):
        z0 = base[keep]
        zt = _ints(ctx, ctx.lib(pc.get_zero_crossings_array_indices, arg, keep_adj_zeros=keep, tol=tol), "crossings tol>0")
        if not ref.is_subsequence(zt, z0):
            ctx.fail("crossings with tol=%r (keep_adj_zeros=%s) %s are not a subsequence of the zero-tolerance result %s" % (
                tol, keep, _sh(zt), _sh(z0)))
        if len(zt) < len(z0):
            pruned = True
            ctx.cls("zc-pruned")
    if base["const"]:
        return pruned
    s0 = base["sw"]
    s_t = _ints(ctx, ctx.lib(pc.get_switched_peak_array_indices, arg, tol=tol), "switched peaks tol>0")
    if _judge_tol_switched(ctx, a, tol, s_t, s0, base["lp"]):
        pruned = True
    return pruned


def _judge_tol_switched(ctx, a, tol, s_t, s0, lp):
    """result(tol) of the switched peaks is a subsequence of result(0) (both lists of ints); True when something was removed."""
    for a_, b_ in zip(s_t[:-1], s_t[1:]):
        if not a_ < b_:
            ctx.fail("switched peaks with tol=%r not strictly ascending: %s" % (tol, _sh(s_t)))
    in0 = set(s0)
    extras = [i for i in s_t if i not in in0]
    if extras:
        match, allowed = kf1_matcher(a, tol, extras, lp)
        if match and ctx.kf("C12-KF1"):
            ctx.cls("kf1-match")    # exactly the recorded defect: the one extra index is the opening group's largest local peak
        else:
            ctx.fail("switched peaks with tol=%r: %s is not a subsequence of the zero-tolerance result %s (extra %s; the open finding "
                     "C12-KF1 could only explain the single extra index %s)" % (tol, _sh(s_t), _sh(s0), _sh(extras), allowed))
    if not ref.is_subsequence([i for i in s_t if i in in0], s0):
        ctx.fail("switched peaks with tol=%r: %s is not a subsequence of the zero-tolerance result %s" % (tol, _sh(s_t), _sh(s0)))
    if len(s_t) < len(s0):
        ctx.cls("sw-pruned")
        return True
    return False


@clause(CLAUSES, "tol", _tol_cases(), quick=400, thorough=2500,
        rule="same series generator (n <= 5000); tol = f*|a sample| with f in {0.3, 1, 1.5}, or f*(largest of the first 1-4 "
             "non-zero peaks) with f in {1, 1.25, 2, 8} (tol larger than the first peaks); non-trivial = the tolerance removes something",
        oracle="metamorphic: result(tol) is a subsequence of result(0) for crossings (both keep_adj_zeros modes) and switched "
               "peaks; C12-KF1 routes exactly one extra index, the largest local peak of the opening group",
        require={"tol>first-peak": 0.2, "sw-pruned": 0.2, "zc-pruned": 0.1, "nonzero-start": 0.3, "n>512": 0.08, "narrow-int": 0.08},
        min_nontrivial=0.2)
def tol(case, ctx):
    a, arg = series(case)
    _classify(ctx, case, a)
    ctx.nontrivial = False
    t = _tol_of(case, a)
    ctx.cls("tol-mode=" + case["tol"].get("mode", "value"))
    v = a.tolist()
    pk = [abs(v[i]) for i in ref.local_peaks(v)[0] if v[i] != 0]
    if pk and t > pk[0]:
        ctx.cls("tol>first-peak")
    if pk and t > max(pk):
        ctx.cls("tol>all-peaks")
    ctx.nt(_check_tol(ctx, a, arg, t))


def _tol_enum(tier, shard, nshards):
    top = 6 if tier == "thorough" else 5
    idx = 0
    for n in range(2, top + 1):
        for tup in itertools.product(range(-3, 4), repeat=n):
            if idx % nshards == shard:
                yield {"v": list(tup)}
            idx += 1


@enum_clause(CLAUSES, "tol-exhaustive", _tol_enum,
             rule="every sequence over {-3..3} of length 2..6 (quick: 2..5) with tol in {0.5, 1, 1.5, 2.5}; "
                  "non-trivial = some tolerance removes something",
             oracle="metamorphic subsequence relation as clause tol (addition to DESIGN: the integer alphabet reaches C12-KF1 at tol=2.5)",
             exhaustive_note="all sequences over {-3..3} of length 2..6 (2..5 quick) x tol in {0.5,1,1.5,2.5}; sharded by index % nshards",
             min_nontrivial=0.3, quick_shards=2)
def tol_exhaustive(case, ctx):
    a, arg = series(case)
    ctx.cls("nonzero-start" if a[0] != 0 else "zero-start")
    pruned = False
    base = _tol_base(ctx, a, arg)
    for t in ENUM_TOLS:
        if _check_tol(ctx, a, arg, t, base):
            pruned = True
    ctx.nt(pruned)


# ---------------------------------------------------------------------------
# 4. mid-range sizes (DESIGN 8.5): series of 2e3 .. 3e5 samples (thorough 2e6).  Deterministic enumerations: lengths from
# gen.size_ladder (one per logarithmic bin, placed by a hash of VERIF_SEED, plus lengths aimed at the integer literals mined from the
# source under test); every other parameter is a hash of (VERIF_SEED, tag, index).  The WHOLE output of every function is compared
# with the vectorised reference / predicate of pbt/ref/peaks_mid.py.


def _hu(*parts):
    """Uniform number in [0, 1): hash of (VERIF_SEED, parts)."""
    s = ":".join(str(p) for p in (gen.run_seed(), "c12") + parts)
    return (int(hashlib.blake2b(s.encode(), digest_size=8).hexdigest(), 16) % 10 ** 9) / 1e9


def _pick(seq, *parts):
    return seq[min(len(seq) - 1, int(_hu(*parts) * len(seq)))]


def _logu(lo, hi, *parts):
    return float(math.exp(math.log(lo) + (math.log(hi) - math.log(lo)) * _hu(*parts)))


def _sd(*parts):
    return int(_hu("seed", *parts) * (2 ** 31 - 1))


MR_KINDS = ("noise", "grid-noise", "smooth", "grid-smooth", "band", "rectified", "decay")
MR_STARTS = ("zero", "offset", "lead")


def _mr_series(c):
    """Series of a mid-range case (pure function of the case).  Ordinary data that keep an error visible everywhere: noise /
    band-limited noise / modulated sines times a slowly varying envelope plus a small non-zero mean (every stretch differs; many
    local peaks per excursion), optionally rounded to a symmetric grid containing 0 (zero runs, zero-valued turning points, ties),
    rectified (one-signed, touching 0), under a geometric envelope of many decades; exact zeros and short zero runs sprinkled in;
    the first sample is 0 / ordinary / the largest value of its excursion; leading / trailing zero runs."""
    n = int(c["n"])
    rs = np.random.RandomState(int(c["seed"]))
    t = np.arange(n, dtype=float)
    kind = c["kind"]
    if kind in ("noise", "grid-noise"):
        a = rs.standard_normal(n)
    elif kind == "band":
        w = int(c["w"])
        w2 = w // 2 + 1
        cs = np.cumsum(rs.standard_normal(n + w + w2))
        a = (cs[w:] - cs[:-w]) / math.sqrt(w)
        cs = np.cumsum(a)
        a = (cs[w2:] - cs[:-w2]) / math.sqrt(w2)
    else:
        cyc = float(c["cyc"])
        ph = rs.uniform(0, 2 * math.pi, 4)
        a = (np.sin(2 * math.pi * cyc * t / n + ph[0]) * (1 + 0.4 * np.sin(2 * math.pi * 3.3 * t / n + ph[1]))
             + 0.3 * np.sin(2 * math.pi * 0.377 * cyc * t / n + ph[2]) + 0.08 * np.sin(2 * math.pi * 7.1 * cyc * t / n + ph[3]))
    x = t / n
    e = {"up": 0.6 + 0.8 * x, "down": 1.4 - 0.8 * x, "hump": 0.6 + 0.8 * np.sin(math.pi * x)}[c.get("env", "up")]
    a = a[:n] * e + float(c.get("mean", 0.11))
    if kind == "decay":
        a = a * 10.0 ** (-float(c["decades"]) * x)
    q = float(c.get("grid", 0))
    if q:
        a = np.round(a / q) * q
    if kind == "rectified":
        a = np.abs(a) * float(c.get("side", 1.0))
    nz = int(c.get("zeros", 0))
    if nz:
        at = rs.randint(1, n - 4, nz)
        for r in range(int(c.get("zero_run", 1))):
            a[at + r] = 0.0
    start = c.get("start", "offset")
    if start == "zero":
        a[0] = 0.0
    elif start == "lead":
        # the series starts AT the largest value of its first excursion
        sg = (1.0 if a[1] > 0 else -1.0) if a[1] != 0 else 1.0
        other = np.flatnonzero((a[1:] > 0) != (sg > 0)) if sg > 0 else np.flatnonzero((a[1:] < 0) != (sg < 0))
        k = int(other[0]) + 1 if len(other) else n
        a[0] = sg * 1.25 * max(float(np.max(np.abs(a[1:k + 1]))), 1e-3)
    elif a[0] == 0:
        a[0] = 0.11
    lead0 = int(c.get("lead0", 0))
    if lead0:
        a[:lead0] = 0.0
    trail0 = int(c.get("trail0", 0))
    if trail0:
        a[n - trail0:] = 0.0
    a = a * 2.0 ** int(c.get("unit", 0))
    a = np.where(np.abs(a) < FLUSH, 0.0, a)
    if c.get("negzero"):
        a = np.where((a == 0) & (np.arange(n) % 2 == int(c["negzero"]) % 2), -0.0, a)
    if not np.any(a != 0):
        a[n // 2] = 2.0 ** int(c.get("unit", 0))
    return np.ascontiguousarray(a)


def _mr_container(a, how):
    """(argument handed to the library, the float64 values it represents)."""
    if how == "int":
        k = 30 - int(math.ceil(math.log2(float(np.max(np.abs(a))))))
        ai = np.round(a * 2.0 ** k).astype(np.int64)
        if not np.any(ai != 0):
            ai[len(ai) // 2] = 1
        return ai, ai.astype(float)
    if how in gen.NARROW_DTYPES:
        ai, av = gen.narrow_int(a, how)
        if not np.any(av != 0):
            ai[len(ai) // 2] = 1
            av = ai.astype(float)
        return ai, av
    if how == "list":
        return [float(v) for v in a], a
    if how in ("view", "negstride", "readonly"):
        return gen.as_container({"as": how}, a), a
    return a.copy(), a


def _mr_params(kind, n, tol_case, *parts):
    """Hash-chosen parameters of a family.  tol_case: the library's pruning loop for tol > 0 is quadratic in the number of zero
    crossings (a list membership test per crossing), so series of the tolerance enumeration hold at most ~6000 crossings."""
    c = {"kind": kind, "env": _pick(["up", "down", "hump"], "env", *parts)}
    if kind == "band":
        lo = max(4, n // 1500) if tol_case else 4
        c["w"] = int(_logu(lo, max(lo + 1, 120 if not tol_case else 2 * lo + 8), "w", *parts))
    if kind in ("smooth", "grid-smooth", "rectified", "decay"):
        c["cyc"] = round(_logu(3, max(10, min(1200 if tol_case else 3000, n / 40.0)), "cyc", *parts), 3)
    if kind == "grid-noise":
        c["grid"] = _pick([1.0, 0.5, 0.25], "grid", *parts)
    if kind == "grid-smooth":
        c["grid"] = _pick([0.25, 2.0 ** -4, 2.0 ** -7], "grid", *parts)
    if kind == "rectified":
        c["grid"] = _pick([0, 2.0 ** -3, 2.0 ** -6], "grid", *parts)
        c["side"] = _pick([1.0, -1.0], "side", *parts)
        c["mean"] = 0.0
    if kind == "decay":
        c["decades"] = int(_logu(8, 60, "dec", *parts))
    c["mean"] = c.get("mean", _pick([0.11, -0.07, 0.3, 0.0], "mean", *parts))
    if _hu("zeros", *parts) < 0.6:
        c["zeros"] = int(_logu(1, 400 if tol_case else max(2, n // 150), "nz", *parts))
        c["zero_run"] = int(_pick([1, 1, 2, 3], "zr", *parts))
    u = _hu("lead0", *parts)
    if u < 0.35:
        c["lead0"] = int(_pick([1, 2, 3], "l0", *parts)) if u < 0.15 else int(_logu(4, 800 if tol_case else max(5, n // 3), "l0", *parts))
    u = _hu("trail0", *parts)
    if u < 0.25:
        c["trail0"] = int(_pick([1, 2, 3], "t0", *parts)) if u < 0.12 else int(_logu(4, 800 if tol_case else max(5, n // 4), "t0", *parts))
    c["unit"] = _pick([0, 0, 0, -7, 5, -40, 33], "unit", *parts)
    c["container"] = _pick(["ndarray", "ndarray", "ndarray", "list", "int", "readonly", "negstride", "view", "int16", "int32", "int8", "int16"],
                           "cont", *parts)
    if kind == "decay" and c["container"] in ("int",) + tuple(gen.NARROW_DTYPES):
        c["container"] = "ndarray"      # integer counts would round the decayed tail to one long zero run
    if _hu("nzero", *parts) < 0.25 and c["container"] not in ("int",) + tuple(gen.NARROW_DTYPES):
        c["negzero"] = int(_pick([1, 2], "nzp", *parts))
    return c


def _mid_sizes(tier, tag):
    """The last rung is an anchor just above the nominal end of the range: a window that opens anywhere below the end is entered
    by at least one series."""
    if tier == "quick":
        top = int(300000 * (1 + 0.1 * _hu("top", tag)))
        return sorted(set(gen.size_ladder(2000, 300000, 14, "c12:n" + tag)) | {top})
    top = int(2000000 * (1 + 0.05 * _hu("top:t", tag)))
    return sorted(set(gen.size_ladder(2000, 2000000, 30, "c12:n:t" + tag, mined_limit=16)) | set(gen.ladder(2000, 300000, 14, "c12:n" + tag)) | {top})


# micro-seconds per sample of one case (the library walks over the local peaks in Python)
_COST = {"smooth": 0.15, "grid-smooth": 0.2, "rectified": 0.2, "decay": 0.2, "band": 0.7, "noise": 2.2, "grid-noise": 1.8}


def _mid_cases(tier):
    cases = []
    for i, n in enumerate(_mid_sizes(tier, "")):
        # every length: the peak-dense and the zero-rich family always, two of the other five by hash; the first-sample mode rotates
        others = [k for k in MR_KINDS if k not in ("noise", "grid-noise")]
        chosen = ["noise", "grid-noise"] + sorted(others, key=lambda k: _hu("kinds", i, k))[:2]
        for r, kind in enumerate(chosen):
            c = dict(n=int(n), seed=_sd("mid", i, kind), start=MR_STARTS[(i + r) % 3], cost=_COST[kind] * n, **_mr_params(kind, n, False, "mid", i, kind))
            if (i + r) % 2 == 0:
                c["obj"] = [_pick(["Signal", "AccSignal"], "objk", i, kind), _pick(gen.REPO_DTS, "objdt", i, kind)]
            cases.append(c)
    return cases


def _deal(cases, shard, nshards):
    """Costly cases first, then dealt round-robin: shards of equal weight."""
    order = sorted(range(len(cases)), key=lambda i: (-cases[i].get("cost", 0), i))
    for rank, i in enumerate(order):
        if rank % nshards == shard:
            yield cases[i]


def _mid_enum(tier, shard, nshards):
    return _deal(_mid_cases(tier), shard, nshards)


def _ints_arr(ctx, out, what):
    out = np.asarray(out)
    if out.ndim != 1:
        ctx.fail("%s: result is not one-dimensional: shape %s" % (what, out.shape))
    if out.size and out.dtype.kind not in "iu":
        ctx.fail("%s: indices have dtype %s" % (what, out.dtype))
    return out.astype(np.int64)


def _first_diff(got, want):
    m = min(len(got), len(want))
    bad = np.flatnonzero(got[:m] != want[:m])
    k = int(bad[0]) if len(bad) else m
    return "%d indices vs %d expected; first difference at position %d: got %s, expected %s" % (
        len(got), len(want), k, _sh(got[k:k + 4].tolist()), _sh(want[k:k + 4].tolist()))


def _crossings_fast(ctx, a, fn, arg, what, kws=((("keep_adj_zeros", False),), (("keep_adj_zeros", True),), ())):
    for kw in kws:
        kw = dict(kw)
        got = _ints_arr(ctx, ctx.lib(fn, arg, **kw), what)
        want = pm.zero_crossings(a, kw.get("keep_adj_zeros", False))
        if not np.array_equal(got, want):
            ctx.fail("%s (%s): %s" % (what, ", ".join("%s=%s" % kv for kv in kw.items()) or "default arguments", _first_diff(got, want)))


def _judge_switched_fast(ctx, a, got, what, canon_tie=None):
    canon, tie = canon_tie if canon_tie is not None else pm.switched(a)
    msg = pm.switched_violation(a, got)
    if np.array_equal(got, canon):
        if msg is not None:
            raise HarnessError("vectorised switched-peak predicate rejects the canonical reference (%s), n=%d" % (msg, len(a)))
        return
    if pm.switched_violation(a, canon) is not None:
        raise HarnessError("vectorised switched-peak predicate rejects the canonical reference, n=%d" % len(a))
    if msg is not None:
        ctx.fail("%s: %s; %s" % (what, msg, _first_diff(got, canon)))
    if not (tie or a[0] == 0 or a[-1] == 0):
        ctx.fail("%s: %s" % (what, _first_diff(got, canon)))
    ctx.cls("non-canonical-choice")


def _wrappers_fast(ctx, kind, arg, dt):
    """Object-level wrappers (default arguments) with a real Signal / AccSignal, then the history variant: the same object is given
    other values of the same length, first and last sample (interior reversed and negated around 0) and read again."""
    ctx.cls("wrapper=" + kind)
    sig, held = _signal(kind, arg, dt)
    if sig is None or held.ndim != 1 or len(held) < 3:
        ctx.cls("wrapper-skipped")
        return
    for step in ("fresh", "after reset_values"):
        _crossings_fast(ctx, held, pc.get_zero_crossings_indices, sig, "get_zero_crossings_indices(%s) %s" % (kind, step), kws=((),))
        got = _ints_arr(ctx, ctx.lib(pc.get_switched_peak_indices, sig), "get_switched_peak_indices")
        _judge_switched_fast(ctx, held, got, "get_switched_peak_indices(%s) %s" % (kind, step))
        if step == "fresh":
            b = held.copy()
            b[1:-1] = -held[1:-1][::-1]
            try:
                sig.reset_values(b)
                held = np.array(sig.values, dtype=float)
            except Exception:  # noqa  (not this property's promise)
                return
            if held.ndim != 1 or len(held) < 3 or not np.any(held != 0):
                return
            ctx.cls("wrapper-history")


def _mid_classes(ctx, case, a):
    n = len(a)
    z = a == 0
    ctx.cls("kind=" + case["kind"], "n>50000" if n > 50000 else "n<=50000", "container=" + case.get("container", "ndarray"),
            "start=" + case.get("start", "offset"), "zero-run" if bool(np.any(z[1:] & z[:-1])) else None,
            "long-zero-run" if max(case.get("lead0", 0), case.get("trail0", 0)) >= 8 else None,
            "negzero" if case.get("negzero") else None,
            "narrow-int" if case.get("container") in gen.NARROW_DTYPES else None)


def _mid_check(ctx, case):
    a0 = _mr_series(case)
    arg, a = _mr_container(a0, case.get("container", "ndarray"))
    _mid_classes(ctx, case, a)
    _crossings_fast(ctx, a, pc.get_zero_crossings_array_indices, arg, "zero crossings")
    canon, tie = pm.switched(a)
    got = _ints_arr(ctx, ctx.lib(pc.get_switched_peak_array_indices, arg), "switched peaks")
    _judge_switched_fast(ctx, a, got, "switched peaks", (canon, tie))
    lp = pm.local_peaks(a)[0]
    ctx.cls("tie" if tie else None, "zero-turning-point" if bool(np.any(a[lp[1:-1]] == 0)) else None,
            "switched>%d" % (10 ** int(math.log10(max(1, len(canon))))))
    # non-trivial: some excursion holds three or more reported local peaks (its largest is not simply the only one)
    sg = (a > 0).astype(np.int8) - (a < 0).astype(np.int8)
    rs = pm.run_starts(sg)
    per_run = np.bincount(np.searchsorted(rs, lp, side="right") - 1, minlength=len(rs))
    ctx.nt(bool(np.any((per_run >= 3) & (sg[rs] != 0))))
    if case.get("obj"):
        _wrappers_fast(ctx, case["obj"][0], arg, case["obj"][1])


@enum_clause(CLAUSES, "mid-range", _mid_enum,
             rule="series lengths gen.size_ladder(2000, 300000, 14) + an anchor just above 300 000 (thorough: to 2 000 000, 30 + 14 rungs; plus "
                  "lengths aimed at the integer literals of the source) x four families per length (white noise, noise on a symmetric grid, two of "
                  "{modulated sines, sines on a grid, band-limited noise, rectified one-signed wave, 8-60 decades of decay}); sprinkled exact zeros "
                  "and zero runs, leading / trailing zero runs of 1..n/3 samples, negative zeros, first sample zero / ordinary / largest of its "
                  "excursion (rotating), units 2^-40..2^33, ndarray / list / int64 / int8 / int16 / int32 (full range, most negative sample = the dtype's minimum) / read-only / strided "
                  "containers by hash of (VERIF_SEED, index); every case calls the crossings with keep_adj_zeros in {False, True, default} and the switched peaks; half of the cases also the "
                  "object-level wrappers with a real Signal / AccSignal, fresh and after reset_values; non-trivial = some excursion holds >= 3 reported local peaks",
             oracle="reference model over the WHOLE output (vectorised references cross-checked against the loops at import): crossings exact index "
                    "equality; switched peaks: the statement's predicates, and equality with the canonical reference where the statement leaves no choice",
             exhaustive_note="deterministic size ladder: one series length per logarithmic bin of [2000, 300000] (thorough [2000, 2000000]) and per "
                             "mined literal, four families each, keep_adj_zeros in {F, T, default}",
             require={"kind=noise": 0.2, "kind=grid-noise": 0.2, "n>50000": 0.1, "zero-run": 0.3, "start=lead": 0.2, "wrapper-history": 0.2,
                      "zero-turning-point": 0.1, "narrow-int": 0.1},
             min_nontrivial=0.8, quick_shards=4)
def mid_range(case, ctx):
    _mid_check(ctx, case)


# ---- mid-range, tolerance > 0 ---------------------------------------------------------------------------------------------

TOL_KINDS = ("smooth", "band", "decay", "rectified", "noise")


def _mid_tol_cases(tier):
    cases = []
    for i, n in enumerate(_mid_sizes(tier, ":tol")):
        chosen = sorted(TOL_KINDS[:4], key=lambda k: _hu("tkinds", i, k)) + ["noise"]
        for r, kind in enumerate(chosen):
            m = int(n)
            if kind == "noise":
                m = int(_logu(2000, 9000, "noise-n", i))      # white noise: n/2 crossings (see _mr_params)
            c = dict(n=m, seed=_sd("midtol", i, kind), start=MR_STARTS[(i + r + 1) % 3], cost=_COST[kind] * m + 2e4,
                     **_mr_params(kind, m, True, "midtol", i, kind))
            if _hu("tmode", i, kind) < 0.5:
                c["tol"] = {"mode": "level", "f": _pick([0.3, 1.0, 1.5], "tf", i, kind), "q": round(_hu("tq", i, kind), 4)}
            else:
                c["tol"] = {"mode": "first", "f": _pick([1.0, 1.25, 2.0, 8.0], "tf", i, kind), "m": int(_pick([1, 2, 3, 4], "tm", i, kind))}
            cases.append(c)
    return cases


def _mid_tol_enum(tier, shard, nshards):
    return _deal(_mid_tol_cases(tier), shard, nshards)


@enum_clause(CLAUSES, "mid-range-tol", _mid_tol_enum,
             rule="series lengths gen.size_ladder(2000, 300000, 14) + an anchor (thorough to 2 000 000; own tag) x {modulated sines, "
                  "band-limited noise, decay, rectified wave} at that length plus white noise of 2000..9000 samples (the library's pruning loop is "
                  "quadratic in the number of crossings: every series holds <= ~6000 of them); tol = f*|value at a hash-chosen quantile of the "
                  "non-zero samples| with f in {0.3, 1, 1.5}, or f*(largest of the first 1-4 non-zero peaks) with f in {1, 1.25, 2, 8}; "
                  "non-trivial = the tolerance removes something",
             oracle="metamorphic over the whole output: result(tol) is strictly ascending and every index of it belongs to result(0), for the "
                    "crossings (keep_adj_zeros in {False, True}; result(0) itself equals the reference) and the switched peaks (result(0) itself "
                    "satisfies the statement); C12-KF1 routes exactly one extra index, the largest local peak of the opening group",
             exhaustive_note="deterministic size ladder (one length per logarithmic bin and per mined literal) x five families, one tolerance each",
             require={"n>50000": 0.1, "tol-mode=level": 0.2, "tol-mode=first": 0.2, "zc-pruned": 0.3, "sw-pruned": 0.3, "narrow-int": 0.1},
             min_nontrivial=0.5, quick_shards=4)
def mid_range_tol(case, ctx):
    a0 = _mr_series(case)
    arg, a = _mr_container(a0, case.get("container", "ndarray"))
    _mid_classes(ctx, case, a)
    ts = case["tol"]
    ctx.cls("tol-mode=" + ts["mode"])
    lp = pm.local_peaks(a)[0]
    if ts["mode"] == "level":
        nzv = np.sort(np.abs(a[a != 0]))
        base = float(nzv[min(len(nzv) - 1, int(ts["q"] * len(nzv)))])
    else:
        pv = np.abs(a[lp])
        pv = pv[pv != 0][:ts["m"]]
        base = float(np.max(pv)) if len(pv) else 1.0
    tol = float(ts["f"]) * base
    pruned = False
    for keep in (False, True):
        z0 = _ints_arr(ctx, ctx.lib(pc.get_zero_crossings_array_indices, arg, keep_adj_zeros=keep, tol=0.0), "crossings tol=0.0")
        want = pm.zero_crossings(a, keep)
        if not np.array_equal(z0, want):
            ctx.fail("zero crossings (keep_adj_zeros=%s, tol=0.0): %s" % (keep, _first_diff(z0, want)))
        if len(want) > 12000:
            # guard: the pinned pruning loop is quadratic in the number of crossings (minutes beyond ~2e4); the generator aims at
            # <= 6000, this only catches an unlucky draw
            ctx.cls("too-many-crossings-skipped")
            continue
        zt = _ints_arr(ctx, ctx.lib(pc.get_zero_crossings_array_indices, arg, keep_adj_zeros=keep, tol=tol), "crossings tol>0")
        if not pm.is_subsequence_sorted(zt, z0):
            extra = zt[~np.isin(zt, z0)]
            ctx.fail("crossings with tol=%r (keep_adj_zeros=%s): %d indices are not a subsequence of the %d zero-tolerance ones (not ascending, or "
                     "foreign indices %s)" % (tol, keep, len(zt), len(z0), _sh(extra[:6].tolist())))
        if len(zt) < len(z0):
            pruned = True
            ctx.cls("zc-pruned")
    s0 = _ints_arr(ctx, ctx.lib(pc.get_switched_peak_array_indices, arg, tol=0.0), "switched peaks tol=0.0")
    _judge_switched_fast(ctx, a, s0, "switched peaks (tol=0.0)")
    s_t = _ints_arr(ctx, ctx.lib(pc.get_switched_peak_array_indices, arg, tol=tol), "switched peaks tol>0")
    if np.any(np.diff(s_t) <= 0):
        ctx.fail("switched peaks with tol=%r not strictly ascending" % tol)
    extras = s_t[~np.isin(s_t, s0)]
    if len(extras):
        match, allowed = kf1_matcher(a, tol, extras.tolist(), lp)
        if match and ctx.kf("C12-KF1"):
            ctx.cls("kf1-match")
        else:
            ctx.fail("switched peaks with tol=%r: %d indices, %d of them absent from the zero-tolerance result: %s (the open finding C12-KF1 "
                     "could only explain the single extra index %s)" % (tol, len(s_t), len(extras), _sh(extras[:6].tolist()), allowed))
    if len(s_t) < len(s0):
        pruned = True
        ctx.cls("sw-pruned")
    ctx.nt(pruned)


# ---------------------------------------------------------------------------
# 5. extreme magnitudes: the statement says "for every series"


@st.composite
def _extreme_cases(draw):
    if draw(st.integers(0, 2)) == 0:
        case = draw(_exc_cases())
        case.pop("j", None)
    else:
        spec = draw(gen.record_specs(min_n=4, max_n=2000, kinds=KINDS, allow_int=["list", "view", "readonly"]))
        case = {"rec": spec}
        if draw(st.integers(0, 2)) == 0:
            case["offset"] = draw(st.sampled_from([-1.5, -0.75, -0.5, -0.25, -0.125, 0.125, 0.25, 0.5, 0.75, 1.5]))
        if draw(st.integers(0, 3)) == 0:
            case["levels"] = draw(st.integers(2, 12))
    if draw(st.booleans()):
        case["xmag"] = draw(st.integers(-665, -532))      # largest |value| 6.5e-201 .. 1.4e-160
    else:
        case["xmag"] = draw(st.integers(500, 1015))       # largest |value| 3.3e150 .. 3.5e305
    case["tolf"] = draw(st.sampled_from([0.3, 1.0, 1.5]))
    case["tolk"] = draw(st.integers(0, 4000))
    return case


@clause(CLAUSES, "extreme-magnitudes", _extreme_cases(), quick=300, thorough=1500,
        rule="the series of clause random (records n <= 2000 with optional offset / coarse grid, and structured excursions) rescaled by an exact "
             "power of two so that the largest |value| is 2^-665..2^-532 (6.5e-201 .. 1.4e-160) or 2^500..2^1015 (3e150 .. 3.5e305), WITHOUT the "
             "1e-100 flush of the other clauses; tol = f*|a sample| with f in {0.3, 1, 1.5}; non-trivial = some excursion's largest |value| is "
             "not at its first reported peak",
        oracle="as clauses random and tol: reference model for the crossings (exact), statement predicates + canonical reference for the switched "
               "peaks, subsequence relation for tol > 0; the references compare samples and never multiply, so they have no range precondition",
        require={"tiny": 0.3, "huge": 0.3}, min_nontrivial=0.15)
def extreme_magnitudes(case, ctx):
    if "exc" in case:
        v = []
        for sg, mags in case["exc"]:
            v.extend([float(sg) * float(m) for m in mags])
        a = np.array(v, dtype=float)
        if np.any(a != 0):
            a = np.ldexp(a, int(case["xmag"]) - int(math.ceil(math.log2(float(np.max(np.abs(a)))))))
        arg = a.copy()
    else:
        a, arg = series(case)
    ctx.cls("tiny" if case["xmag"] < 0 else "huge")
    _classify(ctx, case, a)
    _check_crossings(ctx, a, arg, default_too=True)
    if not np.any(a != 0):
        return
    _check_switched(ctx, a, arg)
    nz = [abs(x) for x in a.tolist() if x != 0]
    t = float(case["tolf"]) * nz[case["tolk"] % len(nz)]
    if np.isfinite(t) and t > 0:
        _check_tol(ctx, a, arg, t)
