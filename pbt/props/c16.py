"""C16 - saved signals load back unchanged (to the precision of the eqsig text format)."""
import atexit
import os
import shutil
import tempfile
from fractions import Fraction

import numpy as np
from hypothesis import strategies as st

import eqsig

from pbt import gen
from pbt.core import clause, enum_clause, HarnessError

PROPERTY = "C16"
CLAUSES = []
ASSUMPTIONS = [
    "records: finite values with |v| <~ 1e15 (DESIGN: 0, +-tiny < 5e-7, +-O(1), +-1e6..1e15, integers), 1 <= n <= 400, passed as "
    "float64 ndarray, int64 ndarray or list; dt in [1e-4, 100] (float, or int when integral)",
    "labels: str of printable ASCII (0x20..0x7e, so no line breaks), at most 30 characters, including empty, leading/trailing "
    "blanks, digits first, '#', ','",
    "the format's own rounding is the model: value written with 6 decimals, dt with 4 decimals, each correctly rounded from the "
    "exact binary value (computed here in rational arithmetic, cross-checked at import against C printf rounding); on an exact "
    "decimal tie (v = odd/128, dt = odd/32) either neighbour is accepted and the case is counted as ambiguous",
    "reading tolerance 1e-12 relative on values (after the factor m) and on dt: one decimal-to-binary conversion and one "
    "multiplication cost <= 2 eps; a value that rounds to 0.000000 must load as exactly 0",
    "load_signal is only asserted for the explicit requests astype='signal' / 'acc_sig' (its default 'sig' returns None; the "
    "statement speaks of the requested type); the label is only asserted when load_label=True",
    "'Signal requested' is read as: an eqsig.Signal that is not an AccSignal; 'AccSignal requested' as isinstance AccSignal",
    "'the same to 6 / 4 decimals' is read literally: the loaded number is within half a unit of the 6th (4th) decimal of the "
    "saved one (times |m|), which the format's own '%.6f' / '%.4f' rounding satisfies; a writer keeping more decimals is fine",
    "files are written to a temporary directory created by the check process (tempfile.mkdtemp, honours TMPDIR; forked workers "
    "share it, file names carry the pid); every file is deleted after its case and the directory at interpreter exit; nothing "
    "is written under the code under test",
]
RTOL = 1e-12
M_SET = [1.0, -2.5, 1e-3]


# ---------------------------------------------------------------------------
# temporary files

_OWNER = os.getpid()
_BASE = tempfile.mkdtemp(prefix="verif_c16_")
_COUNT = [0]


def _cleanup():
    if os.getpid() == _OWNER:  # forked workers share the directory, only its creator removes it
        shutil.rmtree(_BASE, ignore_errors=True)


atexit.register(_cleanup)


def _new_path():
    """Users overwrite the same file over and over (re-exported records): two cases out of three re-use one of two fixed
    paths of this process, so a path is saved, loaded, overwritten with another record and loaded again; one in three
    gets a brand-new name."""
    _COUNT[0] += 1
    if not os.path.isdir(_BASE):
        os.makedirs(_BASE, exist_ok=True)
    if _COUNT[0] % 3 == 0:
        return os.path.join(_BASE, "p%d_%d.txt" % (os.getpid(), _COUNT[0]))
    return os.path.join(_BASE, "p%d_reused_%d.txt" % (os.getpid(), _COUNT[0] % 3))


def _remove(path):
    if "_reused_" in path:
        return  # overwritten by a later case; the directory is removed at exit
    try:
        os.remove(path)
    except OSError:
        pass


# ---------------------------------------------------------------------------
# model of the format's rounding (rational arithmetic; independent of '%' formatting)


def _round_model(x, places):
    """Floats a reader may obtain for `x` written with `places` decimals: the correctly rounded decimal first
    (ties to even, as C printf does on the exact binary value), then the other neighbour when x is an exact tie."""
    scale = 10 ** places
    r = Fraction(float(x)) * scale
    k = r.numerator // r.denominator
    rem2 = 2 * (r - k)
    if rem2 > 1:
        ks = [k + 1]
    elif rem2 < 1:
        ks = [k]
    else:
        ks = [k, k + 1] if k % 2 == 0 else [k + 1, k]
    return [kk / scale for kk in ks]  # int / int is correctly rounded, like parsing the decimal string


def _validate_model():
    """Oracle guard: the rational model must agree with printf-style formatting + float() parsing."""
    probe = [0.0, -0.0, 1.0, -2.5, 0.1, -0.1, 4.9e-7, 5e-7, 5.1e-7, -5.1e-7, 1e-12, 0.0078125, 0.0234375, -0.0078125,
             1.0000005, 0.9999995, 123456.654321, 999999.9999995, 1e6, -1e15, 123456789012345.678, 2.0 / 3.0, -1e-6,
             0.01, 0.0025, 0.03125, 0.09375, 0.99996, 1.5, 99.9999, 99.99996, 100.0, 1e-4]
    for x in probe:
        for places in (6, 4):
            got = _round_model(x, places)
            want = float(("%%.%df" % places) % x)
            if got[0] != want or len(got) > 2 or (len(got) == 2 and abs(got[0] - got[1]) > 1.5 * 10.0 ** -places):
                raise HarnessError("format rounding model disagrees with printf for %r at %d decimals: %r vs %r" % (
                    x, places, got, want))
    if len(_round_model(0.0078125, 6)) != 2 or len(_round_model(0.03125, 4)) != 2 or len(_round_model(0.1, 6)) != 1:
        raise HarnessError("format rounding model: tie detection broken")


_validate_model()


class _Model(object):
    """What a saved record must look like after loading (before the factor m)."""

    def __init__(self, seen):
        self.n = len(seen)
        first = np.empty(self.n)
        other = np.empty(self.n)
        self.ties = 0
        for i, v in enumerate(seen):
            c = _round_model(v, 6)
            first[i] = c[0]
            other[i] = c[-1]
            self.ties += len(c) - 1
        self.first = first
        self.other = other
        self.seen = np.array([float(v) for v in seen], dtype=float)


# ---------------------------------------------------------------------------
# generators

_SIGN = st.sampled_from([-1.0, 1.0])


def _signed(s):
    return st.tuples(_SIGN, s).map(lambda t: t[0] * t[1])


_EDGE = [0.0, -0.0, 5e-7, -5e-7, 4.9e-7, 5.1e-7, -5.1e-7, 1e-6, -1e-6, 2.5e-6, 0.0078125, -0.0078125, 0.0234375, 0.5,
         1.0000005, 0.9999995, -0.9999995, 0.1, -0.1, 123456.654321, 999999.9999995, 1e6, -1e6, 1e15, -1e15]
_ELEM = st.one_of(
    st.sampled_from(_EDGE),
    _signed(gen.log_uniform(1e-12, 4.99e-7)),                          # +-tiny: lost by the format
    st.floats(-100.0, 100.0, allow_nan=False, allow_subnormal=False),  # +-O(1)
    _signed(gen.log_uniform(1e6, 1e15)),                               # +-large
    st.integers(-10 ** 6, 10 ** 6).map(float),                         # integers
)
_DT_SPECIAL = [1.0, 1.5, 2.0, 10.0, 99.9999, 0.0001, 100.0, 0.99996, 0.99994, 99.99996, 0.01, 0.02, 0.005, 0.0025, 0.5,
               0.03125, 1.03125, 12.3456]
_DT_SUB1 = [d for d in gen.REPO_DTS if d < 1]
_ASCII = st.characters(min_codepoint=0x20, max_codepoint=0x7e)
_LABEL_SPECIAL = ["", "", "", " ", "m1", "a b", "1st record", "#1", "# commented", "a,b", "1,2,3", "12", "3 0.0100", "1.5",
                  "  lead", "trail  ", " both ", "Kobe 1995 NS (g)", "x" * 30]
_MS = st.one_of(st.sampled_from(M_SET), st.sampled_from(M_SET), st.none(), gen.scalars())
_RECIPES = ["noise", "sines", "pulse", "step", "walk", "const", "quake"]


@st.composite
def _dts(draw):
    """dt in [1e-4, 100]; the band is drawn first so that both sides of 1 s are well populated."""
    band = draw(st.integers(0, 9))
    if band < 3:
        return draw(gen.log_uniform(1.0, 100.0))
    if band < 5:
        return draw(st.sampled_from(_DT_SPECIAL))
    if band < 6:
        return draw(gen.log_uniform(1e-4, 100.0))
    if band < 7:
        return draw(st.sampled_from(_DT_SUB1))
    return draw(gen.log_uniform(1e-4, 0.9999))


@st.composite
def _labels(draw):
    band = draw(st.integers(0, 9))
    if band < 3:
        return draw(st.text(_ASCII, min_size=1, max_size=30))
    if band < 5:  # words separated by single blanks
        return " ".join(draw(st.lists(st.text(_ASCII, min_size=1, max_size=8), min_size=2, max_size=3)))[:30]
    if band < 7:
        return draw(st.sampled_from(_LABEL_SPECIAL))
    if band < 8:  # leading / trailing blanks
        core_ = draw(st.text(_ASCII, min_size=0, max_size=20))
        return draw(st.sampled_from([" ", "  "])) * draw(st.integers(0, 1)) + core_ + draw(st.sampled_from([" ", "   "]))
    sep = draw(st.sampled_from(["#", ",", " #", ", ", "# "]))  # comment and delimiter characters of the reader
    parts = draw(st.lists(st.text(_ASCII, min_size=0, max_size=8), min_size=2, max_size=3))
    return sep.join(parts)[:30]


@st.composite
def _records(draw, min_n, max_n):
    band = draw(st.integers(0, 9))
    if band < 5:
        n = draw(st.integers(min_n, max(min_n, min(max_n, 40))))
        spec = {"k": "mix", "v": draw(st.lists(_ELEM, min_size=n, max_size=n))}
        how = draw(st.sampled_from(["ndarray", "ndarray", "list", "int"]))
        if how != "ndarray":
            spec["as"] = how
        return spec
    kinds = _RECIPES if band < 8 else ["vals", "dyadic", "levels"]
    return draw(gen.record_specs(min_n=min_n, max_n=max_n, small_max=48, kinds=kinds, amp_lo=-7, amp_hi=14,
                                 allow_int=True, allow_zero_runs=max_n > 1))


@st.composite
def _cases(draw, min_n=2, max_n=400, objects=True):
    case = {"rec": draw(_records(min_n, max_n)), "dt": draw(_dts()), "label": draw(_labels())}
    if case["dt"] == int(case["dt"]) and draw(st.booleans()):
        case["dt_int"] = True
    if objects:
        case["m"] = draw(_MS)
        case["saved_as"] = draw(st.sampled_from(["signal", "acc_sig"]))
    return case


def _build(spec):
    """-> (argument handed to the library, float64 array of the values the library sees)."""
    a = np.array(spec["v"], dtype=float) if spec["k"] == "mix" else gen.build(spec)
    arg = gen.as_container(spec, a)
    return arg, np.array(arg, dtype=float)


def _dt_arg(case):
    dt = case["dt"]
    return int(dt) if case.get("dt_int") and dt == int(dt) else dt


def _classify(ctx, case, seen, model):
    spec = case["rec"]
    ctx.cls("kind=" + spec["k"], gen.size_class(len(seen)), "as=" + spec.get("as", "ndarray"))
    mag = np.abs(seen)
    if np.any(model.first < 0):
        ctx.cls("neg")
    if np.any((mag > 0) & (mag < 5e-7)):
        ctx.cls("tiny")
    if np.any(mag >= 1e6):
        ctx.cls("big")
    if np.any(seen == 0):
        ctx.cls("zero")
    if model.ties:
        ctx.cls("value-tie")
        ctx.amb()
    dtm = _round_model(case["dt"], 4)
    ctx.cls("dt>=1" if dtm[0] >= 1 else "dt<1")
    if dtm[0] >= 10:
        ctx.cls("dt>=10")
    if len(dtm) > 1:
        ctx.cls("dt-tie")
        ctx.amb()
    if case.get("dt_int"):
        ctx.cls("dt-int")
    lab = case["label"]
    if " " in lab:
        ctx.cls("label-space")
    if lab != lab.strip():
        ctx.cls("label-edge-blank")
    if lab == "":
        ctx.cls("label-empty")
    if lab[:1].isdigit():
        ctx.cls("label-digit-first")
    if "#" in lab:
        ctx.cls("label-#")
    if "," in lab:
        ctx.cls("label-comma")
    if "m" in case:
        m = case["m"]
        ctx.cls("m=default" if m is None else ("m=1" if m == 1 else ("m<0" if m < 0 else "m-other")))
    if "saved_as" in case:
        ctx.cls("saved=" + case["saved_as"])
    # non-trivial: the value comparison is not 0 == 0
    ctx.nt(bool(np.any(model.first != 0)))


# ---------------------------------------------------------------------------
# oracle pieces


def _check_dt(ctx, got, dt, what):
    cands = _round_model(dt, 4)
    try:
        g = float(got)
    except (TypeError, ValueError):
        ctx.fail("%s: loaded dt %r is not a number" % (what, got))
    # literal reading of "the same time step to 4 decimals": within half a unit of the 4th decimal (the format's own
    # rounding, cands, always satisfies this; a writer keeping more decimals is not a violation)
    ok = any(abs(g - c) <= RTOL * abs(c) for c in cands) or abs(g - float(dt)) <= 0.5e-4 * (1 + 1e-9)
    ctx.check(ok, "%s: dt=%r was loaded back as %r, expected %r (dt to 4 decimals)" % (what, dt, g, cands[0]))


def _check_values(ctx, got, model, m, what):
    got = np.asarray(got)
    ctx.check(got.ndim == 1, "%s: loaded values have shape %s, expected a series of %d point(s)" % (
        what, got.shape, model.n))
    ctx.check(len(got) == model.n, "%s: %d points loaded, %d saved" % (what, len(got), model.n))
    ctx.check(got.dtype.kind in "fiu", "%s: loaded values have dtype %s" % (what, got.dtype))
    got = got.astype(float)
    e1 = model.first * m
    e2 = model.other * m
    expect = np.where(np.abs(got - e2) < np.abs(got - e1), e2, e1)  # exact ties: the nearer of the two neighbours
    # literal reading of "the same values to 6 decimals": within half a unit of the 6th decimal of the saved value
    # (times |m|); the format's own rounding (expect) always satisfies it
    exact = model.seen * m
    tol = np.where(np.abs(got - expect) <= RTOL * np.abs(expect), np.inf, abs(m) * 0.5e-6 * (1 + 1e-9) + RTOL * np.abs(exact))
    ctx.close(got, exact, tol,
              "%s: loaded values vs saved values (to 6 decimals)%s" % (what, "" if m == 1 else " times m=%r" % m))


def _check_obj(ctx, obj, want, model, dt, m, what):
    if want == "signal":
        ctx.check(isinstance(obj, eqsig.Signal) and not isinstance(obj, eqsig.AccSignal),
                  "%s returned %s, a Signal was requested" % (what, type(obj).__name__))
    else:
        ctx.check(isinstance(obj, eqsig.AccSignal), "%s returned %s, an AccSignal was requested" % (
            what, type(obj).__name__))
    _check_values(ctx, ctx.lib(lambda: obj.values), model, m, what)
    npts = ctx.lib(lambda: obj.npts)
    ctx.check(npts == model.n, "%s: npts=%r, %d points saved" % (what, npts, model.n))
    _check_dt(ctx, ctx.lib(lambda: obj.dt), dt, what)


def _array_level(ctx, path, model, dt, what="load_values_and_dt"):
    out = ctx.lib(eqsig.load_values_and_dt, path)
    ctx.check(isinstance(out, tuple) and len(out) == 2, "%s did not return (values, dt)" % what)
    _check_values(ctx, out[0], model, 1.0, what)
    _check_dt(ctx, out[1], dt, what)


def _object_level(ctx, path, model, dt, m, label):
    # optional arguments by keyword or - in every other case - positionally in the documented order:
    # load_signal(ffp, astype), load_sig(ffp, m), load_asig(ffp, load_label, m)
    form = "pos" if (model.n + len(label or "")) % 2 == 0 else "kw"
    _check_obj(ctx, ctx.libf(form, eqsig.load_signal, ["astype"], path, astype="signal"), "signal", model, dt, 1.0,
               "load_signal(astype='signal')")
    _check_obj(ctx, ctx.libf(form, eqsig.load_signal, ["astype"], path, astype="acc_sig"), "acc_sig", model, dt, 1.0,
               "load_signal(astype='acc_sig')")
    if m is None:
        mm = 1.0
        sig = ctx.lib(eqsig.load_sig, path)
        asig = ctx.libf(form, eqsig.load_asig, ["load_label", "m"], path, load_label=True)
        asig2 = ctx.lib(eqsig.load_asig, path)
    else:
        mm = m
        sig = ctx.libf(form, eqsig.load_sig, ["m"], path, m=m)
        asig = ctx.libf(form, eqsig.load_asig, ["load_label", "m"], path, load_label=True, m=m)
        asig2 = ctx.libf(form, eqsig.load_asig, ["load_label", "m"], path, load_label=False, m=m)
    _check_obj(ctx, sig, "signal", model, dt, mm, "load_sig")
    _check_obj(ctx, asig, "acc_sig", model, dt, mm, "load_asig(load_label=True)")
    got = ctx.lib(lambda: asig.label)
    ctx.check(got == label, "load_asig(load_label=True): label %r was loaded back as %r" % (label, got))
    _check_obj(ctx, asig2, "acc_sig", model, dt, mm, "load_asig")


def _save_object(ctx, path, case, arg):
    cls = eqsig.Signal if case["saved_as"] == "signal" else eqsig.AccSignal
    obj = ctx.lib(cls, arg, _dt_arg(case), label=case["label"])
    ctx.lib(eqsig.save_signal, path, obj)


# ---------------------------------------------------------------------------
# clauses

_REQ = {"dt>=1": 0.25, "neg": 0.30, "label-space": 0.15, "label-edge-blank": 0.04, "tiny": 0.10, "big": 0.10,
        "label-empty": 0.005, "label-#": 0.03}


@clause(CLAUSES, "values-and-dt", _cases(objects=False), quick=400, thorough=2000,
        rule="records n 2..400 (element-wise mix of 0, +-tiny<5e-7, +-O(1), +-1e6..1e15, integers, format edge values; or "
             "recipes with amplitude 1e-7..1e14; ndarray/int64/list), dt log-uniform [1e-4,100] + {1,1.5,2,10,99.9999,1e-4,100,"
             "0.99996,...}, printable-ASCII labels (blanks, digits first, '#', ',', empty); "
             "non-trivial = some value is non-zero after rounding to 6 decimals",
        oracle="round trip save_values_and_dt -> load_values_and_dt against the rational model of the format's rounding: "
               "same n, dt == round(dt,4 decimals), values == round(v,6 decimals), 1e-12 relative",
        require=_REQ)
def values_and_dt(case, ctx):
    arg, seen = _build(case["rec"])
    model = _Model(seen)
    _classify(ctx, case, seen, model)
    path = _new_path()
    try:
        ctx.lib(eqsig.save_values_and_dt, path, arg, _dt_arg(case), case["label"])
        _array_level(ctx, path, model, case["dt"])
    finally:
        _remove(path)


@clause(CLAUSES, "signal-objects", _cases(objects=True), quick=400, thorough=2000,
        rule="same generator; the record is saved with save_signal from a Signal or an AccSignal carrying the label; "
             "m in {1,-2.5,1e-3} + signed log-uniform [1e-3,1e3] + powers of two + not given; "
             "non-trivial = some value is non-zero after rounding to 6 decimals",
        oracle="round trip save_signal -> load_signal('signal'|'acc_sig'), load_sig(m), load_asig(load_label, m), "
               "load_values_and_dt: requested type, npts, dt to 4 decimals, values == round(v,6)*m (1e-12 relative), label equal "
               "when requested",
        require=dict(_REQ, **{"m<0": 0.10, "m=default": 0.05, "saved=signal": 0.2, "saved=acc_sig": 0.2}))
def signal_objects(case, ctx):
    arg, seen = _build(case["rec"])
    model = _Model(seen)
    _classify(ctx, case, seen, model)
    path = _new_path()
    try:
        _save_object(ctx, path, case, arg)
        _object_level(ctx, path, model, case["dt"], case["m"], case["label"])
        _array_level(ctx, path, model, case["dt"])
    finally:
        _remove(path)


@clause(CLAUSES, "one-sample", _cases(min_n=1, max_n=1, objects=True), quick=200, thorough=1000,
        rule="records of exactly one point (the lower end of 'length >= 1'), same value classes, dt, labels and m; saved with "
             "save_values_and_dt and with save_signal; non-trivial = the value is non-zero after rounding",
        oracle="same round-trip oracle through every loader entry point; in particular the loaded series is 1-d with one point",
        require={"dt>=1": 0.25, "neg": 0.10, "label-space": 0.10}, min_nontrivial=0.3)
def one_sample(case, ctx):
    arg, seen = _build(case["rec"])
    if len(seen) != 1:
        raise HarnessError("one-sample clause drew %d points" % len(seen))
    model = _Model(seen)
    _classify(ctx, case, seen, model)
    path = _new_path()
    try:
        ctx.lib(eqsig.save_values_and_dt, path, arg, _dt_arg(case), case["label"])
        _array_level(ctx, path, model, case["dt"])
        _object_level(ctx, path, model, case["dt"], case["m"], case["label"])
        _remove(path)
        _save_object(ctx, path, case, arg)
        _array_level(ctx, path, model, case["dt"], what="save_signal -> load_values_and_dt")
        _object_level(ctx, path, model, case["dt"], case["m"], case["label"])
    finally:
        _remove(path)


# ---------------------------------------------------------------------------
# long records with lengths on and next to powers of two (block-wise writers / readers)


def _block_enum(tier, shard, nshards):
    ks = (12, 13, 14, 15) if tier == "quick" else (10, 11, 12, 13, 14, 15, 16, 17)
    i = 0
    for k in ks:
        for j in (-1, 0, 1):
            if i % nshards == shard:
                yield {"n": 2 ** k + j, "seed": 100 + i, "dt": [0.01, 0.005, 1.5][i % 3]}
            i += 1
    for n in (3 * 2 ** 14, 5 * 2 ** 13, 40000) if tier == "thorough" else (3 * 2 ** 13,):
        if i % nshards == shard:
            yield {"n": n, "seed": 100 + i, "dt": 0.02}
        i += 1


@enum_clause(CLAUSES, "block-lengths", _block_enum,
             rule="records of 2^k-1, 2^k, 2^k+1 samples, k = 12..15 (thorough 10..17) and a few multiples of 2^13 / 2^14: save_values_and_dt -> load_values_and_dt",
             oracle="round trip against the rational model of the format's rounding (same n, dt, values)",
             exhaustive_note="the listed lengths", quick_shards=4)
def block_lengths(case, ctx):
    n = case["n"]
    seen = np.round(np.random.RandomState(case["seed"]).standard_normal(n) * 3.0, 4)
    ctx.nt(True)
    path = _new_path()
    try:
        ctx.lib(eqsig.save_values_and_dt, path, seen, case["dt"], "block %d" % n)
        vals, dt = ctx.lib(eqsig.load_values_and_dt, path)
        vals = np.asarray(vals)
        ctx.check(vals.ndim == 1 and len(vals) == n, "%d points saved, loaded shape %s" % (n, vals.shape))
        _check_dt(ctx, dt, case["dt"], "load_values_and_dt (n=%d)" % n)
        ctx.close(vals, seen, 0.5e-6 * (1 + 1e-9) + 1e-12 * np.abs(seen), "loaded values vs saved values (n=%d)" % n)
        sig = ctx.lib(eqsig.load_signal, path, astype="acc_sig")
        ctx.check(sig.npts == n, "load_signal: npts %r for %d saved points" % (sig.npts, n))
    finally:
        _remove(path)
