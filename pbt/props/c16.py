"""C16 - saved signals load back unchanged (to the precision of the eqsig text format)."""
import atexit
import os
import shutil
import tempfile
from fractions import Fraction

import numpy as np
from hypothesis import strategies as st

import eqsig

from pbt import gen
from pbt.core import clause, enum_clause, HarnessError

PROPERTY = "C16"
CLAUSES = []
ASSUMPTIONS = [
    "records: finite values (DESIGN: 0, +-tiny < 5e-7, +-O(1), +-1e6..1e15, integers, format edge values and exact decimal ties; "
    "'every magnitude': also a few +-1e15..1e300, |v*m| stays below 1e304; the int64 variant is clipped to +-1e15), passed as float64 ndarray, int64 ndarray, list or a strided / reversed / read-only view (save_values_and_dt "
    "documents `values: array_like`); 1 <= n <= 400 in the Hypothesis clauses, 401 .. ~110 000 (thorough ~1 000 000) samples in the "
    "deterministic enumeration `mid-range` and 2^k-1, 2^k, 2^k+1 in `block-lengths`, both with the same oracle (every value, dt, npts, "
    "type, label, m) as the short records; dt in [1e-4, 100] (float, or int when integral: an int is acceptable wherever a float "
    "is documented)",
    "labels: 'labels with spaces' is read as plain printable labels: str of printable ASCII (0x20..0x7e, so no line breaks, no tab, no "
    "non-ASCII), 0..200 characters (long records: 0..300), including empty, leading/trailing blanks, digits first, '#', ','.  'The same label' is read "
    "literally (string equality, blanks at either end included: a label that comes back stripped is not the same label).  "
    "Non-ASCII and tab labels are NOT generated (the quantifier does not name them)",
    "load factor m: 'all ... m' - 1, -2.5, 1e-3, signed log-uniform [1e-3,1e3], +-2^k, small integers given as int, 0 (the loaded "
    "record is then all zero) and 'not given'",
    "paths: the loaders document `ffp: str, full file path`: absolute str paths inside the temporary directory with the extension "
    ".txt, with another extension (.dat, two dots), without extension and with a blank and a '#' in the file name; the same str "
    "is given to the saver and to every loader.  pathlib.Path objects and relative paths are not documented and not used",
    "'the same to 6 / 4 decimals' is read literally: the loaded number is within half a unit of the 6th (4th) decimal of the "
    "saved one (times |m|) plus 1e-12 relative (one decimal-to-binary conversion and one multiplication cost <= 2 eps), which the "
    "format's own '%.6f' / '%.4f' rounding satisfies; a writer keeping more decimals, or rounding half-up instead of half-even, is "
    "fine; a writer that truncates or keeps fewer decimals is not.  For short records (n <= 400) the correctly rounded value "
    "(rational arithmetic, cross-checked at import against C printf rounding) is computed as well and accepted outright; on an "
    "exact decimal tie (v = odd/128, dt = odd/32) either neighbour is accepted and the case is counted as ambiguous.  For long "
    "records only the literal bound is evaluated (vectorised over the WHOLE record): it is implied by the rounding model",
    "load_signal is only asserted for the explicit requests astype='signal' / 'acc_sig' (its default 'sig' returns None; the "
    "statement speaks of the requested type); the label is only asserted when load_label=True",
    "'Signal requested' is read as: an eqsig.Signal that is not an AccSignal; 'AccSignal requested' as isinstance AccSignal (the "
    "statement names the two as different requested types: 'the requested object type (Signal or AccSignal)')",
    "load_values_and_dt returns a pair (tuple or list) (values, dt); loaded values are a 1-d numeric array convertible to float",
    "optional arguments are passed by keyword or positionally in the order of the pinned public signature (load_signal(ffp, astype), "
    "load_sig(ffp, m), load_asig(ffp, load_label, m)): the signature is part of the public interface, as everywhere in this framework",
    "objects handed to save_signal are fresh from the constructor or - history variant - constructed with another record and given "
    "the record through reset_values before saving (the signal IS the object in its present state)",
    "files are written to a temporary directory created by the check process (tempfile.mkdtemp, honours TMPDIR; forked workers "
    "share it, file names carry the pid); every file is deleted after its case and the directory at interpreter exit; nothing "
    "is written under the code under test",
]
RTOL = 1e-12
M_SET = [1.0, -2.5, 1e-3]


# ---------------------------------------------------------------------------
# temporary files

_OWNER = os.getpid()
_BASE = tempfile.mkdtemp(prefix="verif_c16_")
_COUNT = [0]


def _cleanup():
    if os.getpid() == _OWNER:  # forked workers share the directory, only its creator removes it
        shutil.rmtree(_BASE, ignore_errors=True)


atexit.register(_cleanup)


def _new_path():
    """Users overwrite the same file over and over (re-exported records): two cases out of three re-use one of two fixed
    paths of this process, so a path is saved, loaded, overwritten with another record and loaded again; one in three
    gets a brand-new name."""
    _COUNT[0] += 1
    if not os.path.isdir(_BASE):
        os.makedirs(_BASE, exist_ok=True)
    if _COUNT[0] % 3 == 0:
        return os.path.join(_BASE, "p%d_%d.txt" % (os.getpid(), _COUNT[0]))
    return os.path.join(_BASE, "p%d_reused_%d.txt" % (os.getpid(), _COUNT[0] % 3))


PATH_FORMS = ["txt", "txt", "txt", "noext", "dat", "blank", "dots"]


def _path(form):
    """A str path of the given form (see ASSUMPTIONS); 'txt' keeps the overwrite-the-same-file behaviour of _new_path."""
    if form in (None, "txt"):
        return _new_path()
    _COUNT[0] += 1
    if not os.path.isdir(_BASE):
        os.makedirs(_BASE, exist_ok=True)
    stem = "q%d_%d" % (os.getpid(), _COUNT[0])
    name = {"noext": stem, "dat": stem + ".dat", "blank": "my record #" + stem + ".txt", "dots": stem + ".v2.acc"}[form]
    return os.path.join(_BASE, name)


def _remove(path):
    if "_reused_" in path:
        return  # overwritten by a later case; the directory is removed at exit
    try:
        os.remove(path)
    except OSError:
        pass


# ---------------------------------------------------------------------------
# model of the format's rounding (rational arithmetic; independent of '%' formatting)


def _round_model(x, places):
    """Floats a reader may obtain for `x` written with `places` decimals: the correctly rounded decimal first
    (ties to even, as C printf does on the exact binary value), then the other neighbour when x is an exact tie."""
    scale = 10 ** places
    r = Fraction(float(x)) * scale
    k = r.numerator // r.denominator
    rem2 = 2 * (r - k)
    if rem2 > 1:
        ks = [k + 1]
    elif rem2 < 1:
        ks = [k]
    else:
        ks = [k, k + 1] if k % 2 == 0 else [k + 1, k]
    return [kk / scale for kk in ks]  # int / int is correctly rounded, like parsing the decimal string


def _validate_model():
    """Oracle guard: the rational model must agree with printf-style formatting + float() parsing."""
    probe = [0.0, -0.0, 1.0, -2.5, 0.1, -0.1, 4.9e-7, 5e-7, 5.1e-7, -5.1e-7, 1e-12, 0.0078125, 0.0234375, -0.0078125,
             1.0000005, 0.9999995, 123456.654321, 999999.9999995, 1e6, -1e15, 123456789012345.678, 2.0 / 3.0, -1e-6,
             0.01, 0.0025, 0.03125, 0.09375, 0.99996, 1.5, 99.9999, 99.99996, 100.0, 1e-4]
    for x in probe:
        for places in (6, 4):
            got = _round_model(x, places)
            want = float(("%%.%df" % places) % x)
            if got[0] != want or len(got) > 2 or (len(got) == 2 and abs(got[0] - got[1]) > 1.5 * 10.0 ** -places):
                raise HarnessError("format rounding model disagrees with printf for %r at %d decimals: %r vs %r" % (
                    x, places, got, want))
    if len(_round_model(0.0078125, 6)) != 2 or len(_round_model(0.03125, 4)) != 2 or len(_round_model(0.1, 6)) != 1:
        raise HarnessError("format rounding model: tie detection broken")


_validate_model()


class _Model(object):
    """What a saved record must look like after loading (before the factor m)."""

    def __init__(self, seen):
        self.n = len(seen)
        first = np.empty(self.n)
        other = np.empty(self.n)
        self.ties = 0
        for i, v in enumerate(seen):
            c = _round_model(v, 6)
            first[i] = c[0]
            other[i] = c[-1]
            self.ties += len(c) - 1
        self.first = first
        self.other = other
        self.seen = np.array([float(v) for v in seen], dtype=float)


class _FastModel(object):
    """Long records: only the literal bound is evaluated (vectorised); see ASSUMPTIONS."""
    first = None
    other = None
    ties = 0

    def __init__(self, seen):
        self.seen = np.array(seen, dtype=float)
        self.n = len(self.seen)


# ---------------------------------------------------------------------------
# generators

_SIGN = st.sampled_from([-1.0, 1.0])


def _signed(s):
    return st.tuples(_SIGN, s).map(lambda t: t[0] * t[1])


_EDGE = [0.0, -0.0, 5e-7, -5e-7, 4.9e-7, 5.1e-7, -5.1e-7, 1e-6, -1e-6, 2.5e-6, 0.0078125, -0.0078125, 0.0234375, 0.5,
         1.0000005, 0.9999995, -0.9999995, 0.1, -0.1, 123456.654321, 999999.9999995, 1e6, -1e6, 1e15, -1e15]
_ELEM = st.one_of(
    st.sampled_from(_EDGE),
    _signed(gen.log_uniform(1e-12, 4.99e-7)),                          # +-tiny: lost by the format
    st.floats(-100.0, 100.0, allow_nan=False, allow_subnormal=False),  # +-O(1)
    _signed(gen.log_uniform(1e6, 1e15)),                               # +-large
    _signed(gen.log_uniform(1e15, 1e300)),                             # +-huge ('every value sign and magnitude')
    st.integers(-10 ** 6, 10 ** 6).map(float),                         # integers
)
_DT_SPECIAL = [1.0, 1.5, 2.0, 10.0, 99.9999, 0.0001, 100.0, 0.99996, 0.99994, 99.99996, 0.01, 0.02, 0.005, 0.0025, 0.5,
               0.03125, 1.03125, 12.3456]
_DT_SUB1 = [d for d in gen.REPO_DTS if d < 1]
_ASCII = st.characters(min_codepoint=0x20, max_codepoint=0x7e)
_LABEL_SPECIAL = ["", "", "", " ", "m1", "a b", "1st record", "#1", "# commented", "a,b", "1,2,3", "12", "3 0.0100", "1.5",
                  "  lead", "trail  ", " both ", "Kobe 1995 NS (g)", "x" * 30, "station 12, channel HNE, 1999-09-20 Chi-Chi " * 3]
_MS = st.one_of(st.sampled_from(M_SET), st.sampled_from(M_SET), st.none(), gen.scalars(),
                st.sampled_from([0, 0.0, 2, -3, 10, 1]))
_RECIPES = ["noise", "sines", "pulse", "step", "walk", "const", "quake"]


@st.composite
def _dts(draw):
    """dt in [1e-4, 100]; the band is drawn first so that both sides of 1 s are well populated."""
    band = draw(st.integers(0, 9))
    if band < 3:
        return draw(gen.log_uniform(1.0, 100.0))
    if band < 5:
        return draw(st.sampled_from(_DT_SPECIAL))
    if band < 6:
        return draw(gen.log_uniform(1e-4, 100.0))
    if band < 7:
        return draw(st.sampled_from(_DT_SUB1))
    return draw(gen.log_uniform(1e-4, 0.9999))


@st.composite
def _labels(draw):
    band = draw(st.integers(0, 10))
    if band == 10:  # long labels (a header cut at 80 / 128 columns would lose them)
        words = draw(st.lists(st.text(_ASCII, min_size=1, max_size=12), min_size=4, max_size=20))
        return (" ".join(words) + " " + "Z" * 200)[:draw(st.integers(31, 200))]
    if band < 3:
        return draw(st.text(_ASCII, min_size=1, max_size=30))
    if band < 5:  # words separated by single blanks
        return " ".join(draw(st.lists(st.text(_ASCII, min_size=1, max_size=8), min_size=2, max_size=3)))[:30]
    if band < 7:
        return draw(st.sampled_from(_LABEL_SPECIAL))
    if band < 8:  # leading / trailing blanks
        core_ = draw(st.text(_ASCII, min_size=0, max_size=20))
        return draw(st.sampled_from([" ", "  "])) * draw(st.integers(0, 1)) + core_ + draw(st.sampled_from([" ", "   "]))
    sep = draw(st.sampled_from(["#", ",", " #", ", ", "# "]))  # comment and delimiter characters of the reader
    parts = draw(st.lists(st.text(_ASCII, min_size=0, max_size=8), min_size=2, max_size=3))
    return sep.join(parts)[:30]


@st.composite
def _records(draw, min_n, max_n):
    band = draw(st.integers(0, 9))
    if band < 4:
        n = draw(st.integers(min_n, max(min_n, min(max_n, draw(st.sampled_from([12, 40, 40, 150]))))))
        spec = {"k": "mix", "v": draw(st.lists(_ELEM, min_size=n, max_size=n))}
        how = draw(st.sampled_from(["ndarray", "ndarray", "list", "int"]))
        if how != "ndarray":
            spec["as"] = how
        return spec
    kinds = _RECIPES if band < 8 else ["vals", "dyadic", "levels"]
    return draw(gen.record_specs(min_n=min_n, max_n=max_n, small_max=48, kinds=kinds, amp_lo=-7, amp_hi=14,
                                 allow_int=True, allow_zero_runs=max_n > 1))


@st.composite
def _cases(draw, min_n=2, max_n=400, objects=True):
    case = {"rec": draw(_records(min_n, max_n)), "dt": draw(_dts()), "label": draw(_labels())}
    if case["dt"] == int(case["dt"]) and draw(st.booleans()):
        case["dt_int"] = True
    if objects:
        case["m"] = draw(_MS)
        case["saved_as"] = draw(st.sampled_from(["signal", "acc_sig"]))
        if draw(st.integers(0, 3)) == 0:
            case["via_reset"] = True
    form = draw(st.sampled_from(PATH_FORMS))
    if form != "txt":
        case["path"] = form
    return case


def _build(spec):
    """-> (argument handed to the library, float64 array of the values the library sees)."""
    a = np.array(spec["v"], dtype=float) if spec["k"] == "mix" else gen.build(spec)
    if spec.get("as") == "int":
        a = np.clip(a, -1e15, 1e15)  # the int64 variant of the record cannot hold the huge class
    arg = gen.as_container(spec, a)
    return arg, np.array(arg, dtype=float)


def _dt_arg(case):
    dt = case["dt"]
    return int(dt) if case.get("dt_int") and dt == int(dt) else dt


def _classify(ctx, case, seen, model):
    spec = case["rec"]
    ctx.cls("kind=" + spec["k"], gen.size_class(len(seen)), "as=" + spec.get("as", "ndarray"))
    mag = np.abs(seen)
    if np.any(model.first < 0):
        ctx.cls("neg")
    if np.any((mag > 0) & (mag < 5e-7)):
        ctx.cls("tiny")
    if np.any(mag >= 1e6):
        ctx.cls("big")
    if np.any(seen == 0):
        ctx.cls("zero")
    if model.ties:
        ctx.cls("value-tie")
        ctx.amb()
    dtm = _round_model(case["dt"], 4)
    ctx.cls("dt>=1" if dtm[0] >= 1 else "dt<1")
    if dtm[0] >= 10:
        ctx.cls("dt>=10")
    if len(dtm) > 1:
        ctx.cls("dt-tie")
        ctx.amb()
    if case.get("dt_int"):
        ctx.cls("dt-int")
    lab = case["label"]
    if " " in lab:
        ctx.cls("label-space")
    if lab != lab.strip():
        ctx.cls("label-edge-blank")
    if lab == "":
        ctx.cls("label-empty")
    if lab[:1].isdigit():
        ctx.cls("label-digit-first")
    if "#" in lab:
        ctx.cls("label-#")
    if "," in lab:
        ctx.cls("label-comma")
    if len(lab) > 30:
        ctx.cls("label-long")
    ctx.cls("path=" + case.get("path", "txt"))
    if "m" in case:
        m = case["m"]
        ctx.cls("m=default" if m is None else ("m=1" if m == 1 else ("m<0" if m < 0 else ("m=0" if m == 0 else "m-other"))))
        if isinstance(m, int):
            ctx.cls("m-int")
        if case.get("via_reset"):
            ctx.cls("via-reset")
    if "saved_as" in case:
        ctx.cls("saved=" + case["saved_as"])
    # non-trivial: the value comparison is not 0 == 0
    ctx.nt(bool(np.any(model.first != 0)))


# ---------------------------------------------------------------------------
# oracle pieces


def _check_dt(ctx, got, dt, what):
    cands = _round_model(dt, 4)
    try:
        g = float(got)
    except (TypeError, ValueError):
        ctx.fail("%s: loaded dt %r is not a number" % (what, got))
    # literal reading of "the same time step to 4 decimals": within half a unit of the 4th decimal (the format's own
    # rounding, cands, always satisfies this; a writer keeping more decimals is not a violation)
    ok = any(abs(g - c) <= RTOL * abs(c) for c in cands) or abs(g - float(dt)) <= 0.5e-4 * (1 + 1e-9)
    ctx.check(ok, "%s: dt=%r was loaded back as %r, expected %r (dt to 4 decimals)" % (what, dt, g, cands[0]))


def _check_values(ctx, got, model, m, what):
    got = np.asarray(got)
    ctx.check(got.ndim == 1, "%s: loaded values have shape %s, expected a series of %d point(s)" % (
        what, got.shape, model.n))
    ctx.check(len(got) == model.n, "%s: %d points loaded, %d saved" % (what, len(got), model.n))
    try:
        got = got.astype(float)
    except (TypeError, ValueError):
        ctx.fail("%s: loaded values (dtype %s) are not real numbers" % (what, got.dtype))
    # literal reading of "the same values to 6 decimals": within half a unit of the 6th decimal of the saved value
    # (times |m|); the format's own rounding (expect) always satisfies it
    exact = model.seen * m
    tol = abs(m) * 0.5e-6 * (1 + 1e-9) + RTOL * np.abs(exact)
    if model.first is not None:
        e1 = model.first * m
        e2 = model.other * m
        expect = np.where(np.abs(got - e2) < np.abs(got - e1), e2, e1)  # exact ties: the nearer of the two neighbours
        tol = np.where(np.abs(got - expect) <= RTOL * np.abs(expect), np.inf, tol)
    ctx.close(got, exact, tol,
              "%s: loaded values vs saved values (to 6 decimals)%s" % (what, "" if m == 1 else " times m=%r" % m))


def _check_obj(ctx, obj, want, model, dt, m, what):
    if want == "signal":
        ctx.check(isinstance(obj, eqsig.Signal) and not isinstance(obj, eqsig.AccSignal),
                  "%s returned %s, a Signal was requested" % (what, type(obj).__name__))
    else:
        ctx.check(isinstance(obj, eqsig.AccSignal), "%s returned %s, an AccSignal was requested" % (
            what, type(obj).__name__))
    _check_values(ctx, ctx.lib(lambda: obj.values), model, m, what)
    npts = ctx.lib(lambda: obj.npts)
    ctx.check(npts == model.n, "%s: npts=%r, %d points saved" % (what, npts, model.n))
    _check_dt(ctx, ctx.lib(lambda: obj.dt), dt, what)


def _array_level(ctx, path, model, dt, what="load_values_and_dt"):
    out = ctx.lib(eqsig.load_values_and_dt, path)
    ctx.check(isinstance(out, (tuple, list)) and len(out) == 2, "%s did not return (values, dt)" % what)
    _check_values(ctx, out[0], model, 1.0, what)
    _check_dt(ctx, out[1], dt, what)


def _object_level(ctx, path, model, dt, m, label):
    # optional arguments by keyword or - in every other case - positionally in the documented order:
    # load_signal(ffp, astype), load_sig(ffp, m), load_asig(ffp, load_label, m)
    form = "pos" if (model.n + len(label or "")) % 2 == 0 else "kw"
    _check_obj(ctx, ctx.libf(form, eqsig.load_signal, ["astype"], path, astype="signal"), "signal", model, dt, 1.0,
               "load_signal(astype='signal')")
    _check_obj(ctx, ctx.libf(form, eqsig.load_signal, ["astype"], path, astype="acc_sig"), "acc_sig", model, dt, 1.0,
               "load_signal(astype='acc_sig')")
    if m is None:
        mm = 1.0
        sig = ctx.lib(eqsig.load_sig, path)
        asig = ctx.libf(form, eqsig.load_asig, ["load_label", "m"], path, load_label=True)
        asig2 = ctx.lib(eqsig.load_asig, path)
    else:
        mm = m
        sig = ctx.libf(form, eqsig.load_sig, ["m"], path, m=m)
        asig = ctx.libf(form, eqsig.load_asig, ["load_label", "m"], path, load_label=True, m=m)
        asig2 = ctx.libf(form, eqsig.load_asig, ["load_label", "m"], path, load_label=False, m=m)
    _check_obj(ctx, sig, "signal", model, dt, mm, "load_sig")
    _check_obj(ctx, asig, "acc_sig", model, dt, mm, "load_asig(load_label=True)")
    got = ctx.lib(lambda: asig.label)
    ctx.check(got == label, "load_asig(load_label=True): label %r was loaded back as %r" % (label, got))
    _check_obj(ctx, asig2, "acc_sig", model, dt, mm, "load_asig")


def _save_object(ctx, path, case, arg):
    cls = eqsig.Signal if case["saved_as"] == "signal" else eqsig.AccSignal
    if case.get("via_reset"):
        # history variant: the object is built with another record (other length, other values) and then given the record
        n0 = len(arg)
        obj = ctx.lib(cls, np.linspace(-3.3, 7.7, n0 // 2 + 3), _dt_arg(case), label=case["label"])
        ctx.lib(lambda: (obj.npts, obj.time[-1]))
        ctx.lib(obj.reset_values, arg)
    else:
        obj = ctx.lib(cls, arg, _dt_arg(case), label=case["label"])
    ctx.lib(eqsig.save_signal, path, obj)


# ---------------------------------------------------------------------------
# clauses

_REQ = {"dt>=1": 0.25, "neg": 0.30, "label-space": 0.15, "label-edge-blank": 0.04, "tiny": 0.10, "big": 0.10,
        "label-empty": 0.005, "label-#": 0.03}


@clause(CLAUSES, "values-and-dt", _cases(objects=False), quick=400, thorough=2000,
        rule="records n 2..400 (element-wise mix of 0, +-tiny<5e-7, +-O(1), +-1e6..1e15, integers, format edge values; or "
             "recipes with amplitude 1e-7..1e14; ndarray/int64/list/views), dt log-uniform [1e-4,100] + {1,1.5,2,10,99.9999,1e-4,100,"
             "0.99996,...}, printable-ASCII labels (blanks, digits first, '#', ',', empty, up to 200 characters), five path forms "
             "(.txt, other / no extension, blank and '#' in the name); "
             "non-trivial = some value is non-zero after rounding to 6 decimals",
        oracle="round trip save_values_and_dt -> load_values_and_dt against the rational model of the format's rounding: "
               "same n, dt == round(dt,4 decimals), values == round(v,6 decimals), 1e-12 relative",
        require=_REQ)
def values_and_dt(case, ctx):
    arg, seen = _build(case["rec"])
    model = _Model(seen)
    _classify(ctx, case, seen, model)
    path = _path(case.get("path"))
    try:
        ctx.lib(eqsig.save_values_and_dt, path, arg, _dt_arg(case), case["label"])
        _array_level(ctx, path, model, case["dt"])
    finally:
        _remove(path)


@clause(CLAUSES, "signal-objects", _cases(objects=True), quick=400, thorough=2000,
        rule="same generator; the record is saved with save_signal from a Signal or an AccSignal carrying the label; "
             "m in {1,-2.5,1e-3} + signed log-uniform [1e-3,1e3] + powers of two + {0, 2, -3, 10 as int} + not given; in one case of "
             "four the object is built with another record and given the record through reset_values; "
             "non-trivial = some value is non-zero after rounding to 6 decimals",
        oracle="round trip save_signal -> load_signal('signal'|'acc_sig'), load_sig(m), load_asig(load_label, m), "
               "load_values_and_dt: requested type, npts, dt to 4 decimals, values == round(v,6)*m (1e-12 relative), label equal "
               "when requested",
        require=dict(_REQ, **{"m<0": 0.10, "m=default": 0.05, "saved=signal": 0.2, "saved=acc_sig": 0.2, "m=0": 0.02,
                              "path=noext": 0.04, "label-long": 0.02, "via-reset": 0.1}))
def signal_objects(case, ctx):
    arg, seen = _build(case["rec"])
    model = _Model(seen)
    _classify(ctx, case, seen, model)
    path = _path(case.get("path"))
    try:
        _save_object(ctx, path, case, arg)
        _object_level(ctx, path, model, case["dt"], case["m"], case["label"])
        _array_level(ctx, path, model, case["dt"])
    finally:
        _remove(path)


@clause(CLAUSES, "one-sample", _cases(min_n=1, max_n=1, objects=True), quick=200, thorough=1000,
        rule="records of exactly one point (the lower end of 'length >= 1'), same value classes, dt, labels and m; saved with "
             "save_values_and_dt and with save_signal; non-trivial = the value is non-zero after rounding",
        oracle="same round-trip oracle through every loader entry point; in particular the loaded series is 1-d with one point",
        require={"dt>=1": 0.25, "neg": 0.10, "label-space": 0.10}, min_nontrivial=0.3)
def one_sample(case, ctx):
    arg, seen = _build(case["rec"])
    if len(seen) != 1:
        raise HarnessError("one-sample clause drew %d points" % len(seen))
    model = _Model(seen)
    _classify(ctx, case, seen, model)
    path = _path(case.get("path"))
    try:
        ctx.lib(eqsig.save_values_and_dt, path, arg, _dt_arg(case), case["label"])
        _array_level(ctx, path, model, case["dt"])
        _object_level(ctx, path, model, case["dt"], case["m"], case["label"])
        _remove(path)
        _save_object(ctx, path, case, arg)
        _array_level(ctx, path, model, case["dt"], what="save_signal -> load_values_and_dt")
        _object_level(ctx, path, model, case["dt"], case["m"], case["label"])
    finally:
        _remove(path)


# ---------------------------------------------------------------------------
# long records: the mid-range ladder (401 .. ~110 000 samples, thorough ~1e6) and lengths on / next to powers of two
# (block-wise writers / readers), both with the full oracle of the short records

import hashlib as _hashlib  # noqa: E402
import math  # noqa: E402


def _hu(*parts):
    """Uniform number in [0, 1): hash of (VERIF_SEED, parts)."""
    t = ":".join(str(p) for p in (gen.run_seed(), "c16") + parts)
    return (int(_hashlib.blake2b(t.encode(), digest_size=8).hexdigest(), 16) % 10 ** 9) / 1e9


def _hpick(seq, *parts):
    return seq[min(len(seq) - 1, int(_hu(*parts) * len(seq)))]


def _sd(*parts):
    return int(_hu("seed", *parts) * (2 ** 31 - 1))


def _long_values(n, seed, kind, amp, polarity="both"):
    """Record of a long case (pure function of its arguments).  Ordinary data (noise x rising envelope + offset: every stretch
    differs, all six decimals populated) or the element-wise class mix of the short records (tiny, large, integers, zeros, format
    edge values / exact ties sprinkled over it); first and last sample non-zero and unlike their neighbours."""
    rs = np.random.RandomState(int(seed))
    t = np.arange(n, dtype=float) / n
    v = rs.standard_normal(n) * (0.6 + 0.8 * t) * float(amp) + 0.11 * float(amp)
    if kind == "mix":
        u = rs.random_sample(n)
        sg = np.where(rs.random_sample(n) < 0.5, -1.0, 1.0)
        v = np.where(u < 0.10, sg * 10.0 ** rs.uniform(-12.0, math.log10(4.99e-7), n), v)
        v = np.where((u >= 0.10) & (u < 0.20), sg * 10.0 ** rs.uniform(6.0, 15.0, n), v)
        v = np.where((u >= 0.20) & (u < 0.30), rs.randint(-10 ** 6, 10 ** 6, n).astype(float), v)
        v = np.where((u >= 0.30) & (u < 0.34), sg * 0.0, v)
        v = np.where((u >= 0.34) & (u < 0.38), np.array(_EDGE)[rs.randint(0, len(_EDGE), n)], v)
        v = np.where((u >= 0.38) & (u < 0.39), sg * 10.0 ** rs.uniform(15.0, 300.0, n), v)
    elif kind != "ordinary":
        raise ValueError(kind)
    v[0] = 0.654321 * float(amp)
    v[-1] = -1.234567 * float(amp)
    if polarity == "neg":    # a property of the WHOLE record: no positive sample at all
        v = -np.abs(v)
    elif polarity == "pos":
        v = np.abs(v)
    return v


def _long_label(case):
    k = case["label_kind"]
    if k == "special":
        return _LABEL_SPECIAL[int(case["label_i"]) % len(_LABEL_SPECIAL)]
    rs = np.random.RandomState(int(case["seed"]) ^ 0x5A5A)
    n = int(case["label_len"])
    chars = rs.randint(0x21, 0x7f, n)
    chars[rs.random_sample(n) < 0.15] = 0x20  # words
    return "".join(chr(c) for c in chars)


def _round_sizes(lo, hi, tag):
    """Lengths people actually have: one per octave, rounded to one or two significant digits (1000, 2500, 16000 ...), plus the
    exact 2nd and 3rd multiples of the integer literals mined from the source under test (a writer working in blocks of c)."""
    out = set()
    k = 0
    a = lo
    while a < hi:
        b = min(hi, 2 * a)
        v = int(math.exp(math.log(a) + (math.log(b) - math.log(a)) * _hu("round", tag, k)))
        mag = 10 ** (len(str(v)) - (1 if k % 2 == 0 else 2))
        r = max(mag, int(round(v / mag)) * mag)
        if lo <= r <= hi:
            out.add(r)
        a = b
        k += 1
    mult = sorted({q * c for c in gen.mined_ints(64, hi) for q in (2, 3) if lo <= q * c <= hi})
    if len(mult) > 6:
        mult = sorted(mult, key=lambda c: _hu("mult", tag, c))[:6]
    return out | set(mult)


def _long_sizes(tier):
    if tier == "quick":
        top = int(100000 * (1 + 0.1 * _hu("top")))  # anchor just above the nominal end of the range
        return sorted(set(gen.size_ladder(401, 100000, 14, "c16:n")) | _round_sizes(401, 100000, "q") | {top})
    top = int(1000000 * (1 + 0.05 * _hu("top:t")))
    return sorted(set(gen.size_ladder(401, 1000000, 34, "c16:n:t", mined_limit=16)) | set(gen.ladder(401, 100000, 14, "c16:n"))
                  | _round_sizes(401, 1000000, "t") | _round_sizes(401, 100000, "q") | {top})


_LONG_M = [None, 1.0, -2.5, 1e-3, 0, 2, -3, 9.81, -0.0625, 386.0886]
_LONG_DT = [0.01, 0.005, 0.02, 0.0025, 0.004, 0.001, 0.1, 1.0, 1.5, 2, 10, 12.3456, 99.9999, 100, 0.0001, 0.99996]


def _long_dt(tag, i):
    """Two cases in five: one of the listed steps; otherwise log-uniform in [1e-4, 100] cut to 4 decimals (all four decimals of
    the header carry information, so a header written with fewer is seen whatever the record length)."""
    if _hu(tag, "dtk", i) < 0.4:
        return _hpick(_LONG_DT, tag, "dt", i)
    return max(1e-4, min(100.0, round(math.exp(math.log(1e-4) + math.log(1e6) * _hu(tag, "dtv", i)), 4)))


def _long_case(n, i, tag):
    c = {"n": int(n), "seed": _sd(tag, i), "kind": _hpick(["ordinary", "mix", "mix"], tag, "kind", i),
         "amp": _hpick([1.0, 1.0, 0.01, 37.5, 2500.0, 1e-4], tag, "amp", i), "polarity": _hpick(["both", "both", "neg", "pos"], tag, "pol", i),
         "as": _hpick(["ndarray", "ndarray", "list", "int", "view", "readonly"], tag, "as", i),
         "dt": _long_dt(tag, i), "m": _hpick(_LONG_M, tag, "m", i),
         "saved_as": _hpick(["values", "signal", "acc_sig"], tag, "sv", i), "via_reset": _hu(tag, "vr", i) < 0.35,
         "path": _hpick(PATH_FORMS, tag, "path", i)}
    if _hu(tag, "lab", i) < 0.5:
        c.update(label_kind="special", label_i=int(1000 * _hu(tag, "labi", i)))
    else:
        c.update(label_kind="random", label_len=_hpick(gen.ladder(3, 300, 8, "c16:lab:%s:%d" % (tag, i)), tag, "labl", i))
    return c


def _mid_enum(tier, shard, nshards):
    for i, n in enumerate(_long_sizes(tier)):
        if i % nshards == shard:
            yield _long_case(n, i, "mid")


def _block_enum(tier, shard, nshards):
    ks = (9, 10, 11, 12, 13, 14, 15, 16) if tier == "quick" else (9, 10, 11, 12, 13, 14, 15, 16, 17, 18)
    sizes = [2 ** k + j for k in ks for j in (-1, 0, 1)]
    sizes += [3 * 2 ** 13, 3 * 2 ** 10] if tier == "quick" else [3 * 2 ** 14, 5 * 2 ** 13, 3 * 2 ** 13, 3 * 2 ** 10, 40000]
    for i, n in enumerate(sizes):
        if i % nshards == shard:
            yield _long_case(n, i, "blk")


def _long_check(case, ctx):
    n = int(case["n"])
    v = _long_values(n, case["seed"], case["kind"], case["amp"], case.get("polarity", "both"))
    spec = {"as": case["as"]} if case["as"] != "ndarray" else {}
    if case["as"] == "int":
        v = np.clip(v, -1e15, 1e15)  # the int64 variant of the record cannot hold the huge class
    arg = gen.as_container(spec, v)
    seen = np.array(arg, dtype=float)
    model = _FastModel(seen)
    label = _long_label(case)
    dt, m = case["dt"], case["m"]
    mag = np.abs(seen)
    ctx.cls("kind=" + case["kind"], "as=" + case["as"], "saved=" + case["saved_as"], gen.size_class(n), "path=" + case["path"],
            "polarity=" + case.get("polarity", "both"),
            "dt>=1" if dt >= 1 else "dt<1", "dt-int" if isinstance(dt, int) else None,
            "m=default" if m is None else ("m=0" if m == 0 else ("m<0" if m < 0 else "m>0")), "m-int" if isinstance(m, int) else None,
            "label-long" if len(label) > 30 else None, "label-space" if " " in label else None,
            "tiny" if np.any((mag > 0) & (mag < 5e-7)) else None, "big" if np.any(mag >= 1e6) else None,
            "via-reset" if case["via_reset"] and case["saved_as"] != "values" else None)
    ctx.nt(True)
    path = _path(case["path"])
    try:
        if case["saved_as"] == "values":
            ctx.lib(eqsig.save_values_and_dt, path, arg, dt, label)
        else:
            _save_object(ctx, path, {"saved_as": case["saved_as"], "via_reset": case["via_reset"], "dt": dt,
                                     "dt_int": isinstance(dt, int), "label": label}, arg)
        _array_level(ctx, path, model, dt)
        if n <= 150000:
            _object_level(ctx, path, model, dt, m, label)
        else:
            # very long records (thorough): two hash-chosen object-level entry points instead of all six reads
            mm = 1.0 if m is None else m
            kw = {} if m is None else {"m": m}
            which = _hpick(["sig+asig", "asig+signal", "sig+acc"], "which", case["seed"])
            if "sig+" in which:
                _check_obj(ctx, ctx.lib(eqsig.load_sig, path, **kw), "signal", model, dt, mm, "load_sig")
            if "asig" in which:
                asig = ctx.lib(eqsig.load_asig, path, load_label=True, **kw)
                _check_obj(ctx, asig, "acc_sig", model, dt, mm, "load_asig(load_label=True)")
                ctx.check(asig.label == label, "load_asig(load_label=True): label %r was loaded back as %r" % (label, asig.label))
            if "signal" in which:
                _check_obj(ctx, ctx.lib(eqsig.load_signal, path, astype="signal"), "signal", model, dt, 1.0, "load_signal(astype='signal')")
            if "acc" in which:
                _check_obj(ctx, ctx.lib(eqsig.load_signal, path, astype="acc_sig"), "acc_sig", model, dt, 1.0, "load_signal(astype='acc_sig')")
    finally:
        _remove(path)
        if not path.endswith(".txt"):  # a writer that appends an extension of its own
            _remove(path + ".txt")


_LONG_ORACLE = ("round trip save_values_and_dt | save_signal(Signal | AccSignal, fresh or after reset_values) -> load_values_and_dt, "
                "load_signal('signal'|'acc_sig'), load_sig(m), load_asig(load_label, m): requested type, npts, dt to 4 decimals, EVERY value "
                "within 0.5e-6*|m| + 1e-12*|v m| of v*m (vectorised over the whole record), label equal when requested")


@enum_clause(CLAUSES, "mid-range", _mid_enum,
             rule="record lengths gen.size_ladder(401, 100000, 14) + one 'round' length per octave (1000, 2500, 16000 ...) + 2nd / 3rd multiples "
                  "of the integer literals of the source + an anchor just above 100000 (thorough: to 1 000 000, 34 + 14 rungs); ordinary "
                  "(noise x envelope + offset, amplitudes 1e-4 .. 2500, two-sided / all non-positive / all non-negative) or the class mix (tiny, +-1e6..1e15, a few up to 1e300, integers, zeros, format edge values "
                  "and exact ties sprinkled in); ndarray / list / int64 / strided / read-only; dt from 16 listed values incl. >= 1 s and int or log-uniform [1e-4,100] with 4 decimals; m from "
                  "{not given, 1, -2.5, 1e-3, 0, 2, -3, 9.81, -1/16, 386.0886}; labels special or random printable of laddered length 3..300; "
                  "five path forms; by hash of (VERIF_SEED, index)",
             oracle=_LONG_ORACLE,
             exhaustive_note="deterministic size ladder: one record length per logarithmic bin of [401, 100000] (thorough [401, 1000000]), per "
                             "octave one round length, per mined literal its neighbours and 2nd / 3rd multiples",
             require={"kind=mix": 0.3, "n>50000": 0.05}, min_nontrivial=0.9, quick_shards=4)
def mid_range(case, ctx):
    _long_check(case, ctx)


@enum_clause(CLAUSES, "block-lengths", _block_enum,
             rule="records of 2^k-1, 2^k, 2^k+1 samples, k = 9..16 (thorough 9..18) and a few multiples of 2^10 / 2^13 / 2^14; every other "
                  "parameter as in `mid-range`",
             oracle=_LONG_ORACLE,
             exhaustive_note="the listed lengths", quick_shards=4)
def block_lengths(case, ctx):
    _long_check(case, ctx)
