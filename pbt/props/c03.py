"""C03 - response spectra are peak responses with consistent pseudo-spectral relations."""
import math
from fractions import Fraction

import numpy as np
from hypothesis import strategies as st
from scipy.integrate import cumulative_trapezoid

import eqsig
from eqsig import sdof, im

from pbt import core, gen
from pbt.core import clause, enum_clause
from pbt.ref import sdof as ref

PROPERTY = "C03"
CLAUSES = []
ASSUMPTIONS = [
    "domain as C01; records are ndarrays (pseudo_response_spectra documents 'array floats'); n <= 1500 (quick <= 500)",
    "'below 6 time steps' is decided in exact rational arithmetic on the doubles T and dt: a period of exactly six steps (6*dt "
    "representable) is not below; periods within 8 eps (relative) of 6*dt, where the rounding of dt*6 or T/dt decides, are ambiguous and "
    "accept either branch (the first version used a 1e-9 band, which hid a '<=' for '<' at exactly six steps)",
    "spectra vs the exact reference use the C01 tolerance on the robust scale, with the 16*eps/(w dt)^3 rounding term for "
    "T/dt >= 1000 (consequence of C01-KF1, recorded under C01); equality with the library's own series is asserted exactly",
    "the exact reference is evaluated for w = 6.2831853/T, the angular frequency the library's series use: C03 relates spectra to "
    "the (C01) series; the effect of the truncated constant itself is C01's business (known finding C01-KF2)",
    "period lists: any order of the non-zero periods (ascending / descending / shuffled) for the object API and the energy functions, "
    "T_min = the smallest non-zero period wherever it sits; a zero period only as the FIRST entry (the array functions decide the T=0 "
    "row by periods[0] == 0; the quantifier says 'leading 0') and never for the energy functions (energy of a zero-period oscillator is "
    "undefined) or the intensities (ascending 0.01 s grids: an integral over the period axis); for the object the integration step "
    "h=dt/k replaces dt in the 6-step rule, so S_a may be either w^2 S_d or PGA for 6h <= T < 6dt",
    "object API oracle: exists integer k >= dt/h* (searched over [kmin, 2 kmin + 1] and 3, 4, 6, 8, 16 x kmin) with S_d in [S_d(record refined k x), "
    "S_d(refined k x, last value held k-1 samples)] +- 1e-9 of scale: the statement fixes only 'no coarser than'.  NOT accepted although legal: a "
    "non-integer refinement, other integer factors, a band-limited resampling - a bound wide enough to admit every finer grid (continuous peak "
    "minus max|u''| h*^2/8) also admits the coarser steps the sentence exists to exclude for T of a few dt, so it cannot be decided soundly here",
    "input energy: what is asserted, unconditionally and first, is the equality with the defining sum (sum a_i v_i dt over the library's own "
    "velocity series, eps (n+8) sum|terms|).  'Non-negative at the end of the record' is asserted strictly, but while known finding C03-KF1 "
    "(the rectangle-rule sum is not sign-definite) is open its matcher - E_end < 0 and E_end equals its defining sum - is true for EVERY "
    "negative energy that passed the equality, so the non-negativity sentence has NO detection power of its own (about 11 % of the energy "
    "cases are negative on the pinned tree); a defect that makes the energy negative is caught by the equality or not at all",
    "tolerances: relations between two entry points (S_d vs max|u| of response_series, true vs pseudo S_d, object vs array function without "
    "interpolation) hold to the rounding of a reordered n-step recurrence (64 n eps of the robust scale), not bit for bit; PGA entries "
    "(max|record|, no arithmetic) and S_d(T=0) = 0 are exact; pseudo S_v / S_a accept w = 2 pi/T or the series' own 6.2831853/T (2e-9 / 4e-9); "
    "against the exact reference evaluated for the library's own w: min(C01 statement tolerance, 256 n eps + 16 eps/(w dt)^3 + 64 eps n dt/T)",
    "records: float64 ndarrays and their memory-layout variants, python lists, int16 / int32 arrays scaled to the full range with the most "
    "negative sample = the dtype's minimum (gen.narrow_int); the oracle works on the float64 values the container holds",
    "mid-range clauses: sizes are one per logarithmic bin, placed by a hash of VERIF_SEED, plus sizes aimed at integer literals of the "
    "source under test (generator only); dt in {0.01, 0.005, 2^-7, 0.02, 0.0025}, xi in {0, 0.02, 0.05, 0.1, 0.2}, T/dt in [0.45, 290] ascending "
    "(log-spaced), float64 ndarray records of one family (noise on a non-zero mean + three resonant bursts + optional spike): the record "
    "kinds, dt and xi ranges of the quantifier are the business of the Hypothesis clauses at small sizes",
    "mid-range clauses: the exact long-double reference is evaluated on all oscillators when oscillators x samples <= 1.2e6 (thorough 4e6), "
    "otherwise on a sample (first / last rows, rows -1, 0, 1 modulo 2^5..2^12, hash-chosen rows); the other rows are covered by the exact "
    "differential relations between entry points, the third-series identity, the pseudo relations and S_d >= raw S_d",
    "mid-range clauses, quick tier: record length <= 120 000 (array functions), 70 000 (energy), 30 000 (intensities), 30 000 x sub-steps "
    "(object); products <= 1e7 (array), 8e6 (energy), 1.2e7 (object, samples x periods x sub-steps): the library's time loop is a Python loop "
    "(~12 us per sample, ~0.11 us per cell), a single call beyond that exceeds the per-case budget; the thorough tier goes to 1e6 / 6e5 / 3e5 / "
    "3e5 samples and 4e7 / 3e7 / 4e7 cells",
    "mid-range-object histories: a lazy read follows only explicit requests made with xi = 0.05 (the docstring's 'default or previously set' "
    "damping is then unambiguous); a lazy read promises the default min_dt_ratio 4 and any finer integer refinement is accepted",
]
EPS = np.finfo(float).eps
LD = np.longdouble
MAX_N = 500 if core.tier() == "quick" else 1500


def _tol_order(n):
    """Relative (to the robust scale of the series) difference between two correct double-precision evaluations of the same
    n-step recurrence that order / block their operations differently: local error <= 4 eps sum|terms| <= 16 eps scale per step,
    propagated by powers of A whose entries (coordinates u, v/w) are bounded by 1.07 for every xi in [0, 1) -> 2.2 * 16 * n * eps;
    64 n eps leaves a factor ~2.  Used where the statement relates two entry points ('S_d is max|u| of the response series')."""
    return 64.0 * max(2, n) * EPS


def _tol_lib_w(n, T, dt):
    """Relative bound between the library series and the exact solution FOR THE SAME angular frequency (6.2831853/T): rounding of
    the recurrence and of its coefficients (256 n eps: _tol_order plus n * |dA| with |dA| a few eps), the cancellation in the closed-form
    load coefficients for long periods (16 eps/(w dt)^3, bound of C01-KF1) and the rounding of the period handed to the reference
    (phase 2 pi eps per cycle: 64 eps n dt/T)."""
    T = np.asarray(T, dtype=float)
    wdt = 2 * np.pi / T * dt
    return 256.0 * max(2, n) * EPS + 16.0 * EPS / wdt ** 3 + 64.0 * EPS * max(2, n) * dt / T


def _tol_ref(n, T, dt):
    """Tolerance against the exact reference evaluated for the library's own angular frequency: the statement tolerance of C01
    (kept as the ceiling: it is what the statement promises against the true 2 pi solution) or the arithmetic bound, whichever is smaller."""
    T = np.asarray(T, dtype=float)
    dur = (n - 1) * dt
    st = np.where(T / dt >= 1000, ref.tol_c01(dur, T, dt, relaxed=True), ref.tol_c01(dur, T, dt))
    return np.minimum(st, _tol_lib_w(n, T, dt))


REL_SV = 2e-9   # pseudo S_v = w S_d: either 2 pi or the series' own 6.2831853 (1.1e-9 apart) is 'w'
REL_SA = 4e-9   # pseudo S_a = w^2 S_d likewise


def _rec_arg(case, a):
    """(what is handed to the library, the exact float64 values it stands for): integer-typed (full range of int16 / int32, most
    negative sample = the dtype's minimum) and list records besides the memory-layout variants of the spec."""
    how = case.get("rec_as")
    if how in ("int16", "int32"):
        return gen.narrow_int(a, how)
    if how == "list":
        return [float(v) for v in a], a
    return gen.as_container(case["rec"], a), a


def _perm(case, m):
    """Order of the (non-zero) periods: ascending, descending or a permutation (a leading 0 stays first)."""
    how = case.get("order", "asc")
    if how == "desc":
        return np.arange(m)[::-1]
    if how == "shuffle":
        return np.random.RandomState(case.get("perm_seed", 0) % (2 ** 31 - 1)).permutation(m)
    return np.arange(m)


def _as_periods(P, kind):
    if kind == "list":
        return [float(t) for t in P]
    if kind == "tuple":
        return tuple(float(t) for t in P)
    return np.array(P, dtype=float)


@st.composite
def _cases(draw, max_n=None, max_p=8, containers=("ndarray",)):
    spec = draw(gen.record_specs(min_n=2, max_n=max_n or MAX_N, allow_int=["view", "negstride", "readonly"]))
    c = {"rec": spec, "dt": draw(gen.dts(1e-4, 3.0)), "xi": draw(gen.xis()),
         "lead0": draw(st.integers(0, 3)) == 0, "container": draw(st.sampled_from(list(containers))),
         "rec_as": draw(st.sampled_from([None, None, None, None, None, "int16", "int32", "list"]))}
    # periods straddling 6*dt: mix of a log-uniform family and a family concentrated around 6
    around6 = st.one_of(gen.log_uniform(2.0, 20.0), st.sampled_from([5.999, 6.0, 6.001, 5.5, 6.5]))
    c["ratios"] = draw(st.lists(st.one_of(gen.log_uniform(0.2, 2e4), around6), min_size=1, max_size=max_p))
    if draw(st.integers(0, 9)) == 3:
        # a period of EXACTLY six steps (dyadic dt, so that 6*dt is representable): 'below 6 time steps' does not include it
        c["dt"] = draw(st.sampled_from([1.0, 0.5, 0.25, 0.125, 0.0078125, 2.0]))
        c["ratios"] = c["ratios"][:max_p - 1] + [6.0]
    if draw(st.integers(0, 4)) == 0:
        # integer-typed periods (python ints / integer ndarray), as the repo's own test passes ([0, 2, 4]): dt chosen so that
        # T/dt stays inside the quantifier
        c["dt"] = draw(st.sampled_from([1.0, 0.5, 0.25, 0.1, 0.05]))
        ints = draw(st.lists(st.integers(1, 60), min_size=1, max_size=max_p))
        c["int_periods"] = ints
        c["ratios"] = [t / c["dt"] for t in ints]
    return c


def _T(case):
    if case.get("int_periods"):
        return np.array([float(t) for t in case["int_periods"]])
    T = np.array([float(r) * case["dt"] for r in case["ratios"]])
    if case.get("container") == "float32":
        T = T.astype(np.float32).astype(float)  # the single-precision roundings are the periods that were asked for
    return T


def _periods(case):
    if case.get("int_periods"):
        T = [int(t) for t in case["int_periods"]]
        if case["lead0"]:
            T = [0] + T
    else:
        T = list(_T(case))
        if case["lead0"]:
            T = [0.0] + T
    k = case.get("container", "ndarray")
    if k == "float32" and not case.get("int_periods"):
        return np.array(T, dtype=np.float32)  # e.g. periods read from a single-precision file
    return np.array(T) if k in ("ndarray", "float32") else (list(T) if k == "list" else tuple(T))


def _cls(ctx, case, a):
    r = np.array(case["ratios"])
    ctx.cls(gen.size_class(len(a)), "T<6dt" if np.any(r < 6 * (1 - 1e-9)) else None, "T>6dt" if np.any(r > 6 * (1 + 1e-9)) else None,
            "both-sides-of-6dt" if (np.any(r < 5.99) and np.any(r > 6.01)) else None,
            "lead0" if case["lead0"] else None, "xi=0" if case["xi"] == 0 else None, "periods=" + case.get("container", "ndarray"),
            "int-periods" if case.get("int_periods") else None, "int-periods+lead0" if case.get("int_periods") and case["lead0"] else None)


def _band(r, T=None, dt=None):
    """ambiguous / below / above the 6-step rule.  With the period and the step given, the comparison is made in exact rational
    arithmetic on the two doubles: a period of exactly six steps (6*dt representable) is 'not below'; only periods within a few ulp
    of 6*dt - where rounding of the product or the quotient decides - are ambiguous."""
    if T is None:
        if abs(r / 6.0 - 1.0) < 1e-9:
            return "amb"
        return "below" if r < 6 else "above"
    t, six = Fraction(float(T)), 6 * Fraction(float(dt))
    if t == six and Fraction(float(dt) * 6.0) == six:
        return "above"
    if abs(t - six) <= Fraction(8 * np.finfo(float).eps) * six:
        return "amb"
    return "below" if t < six else "above"


@clause(CLAUSES, "sd-is-peak", _cases(), quick=700, thorough=1800,
        rule="records of all kinds, 1-8 periods (log-uniform on [0.2,2e4]*dt mixed with a family around 6*dt), optional leading 0; "
             "non-trivial = spectrum not identically zero and periods on both sides of 6*dt",
        oracle="differential: S_d/S_v/S_a(true) == max|.| of response_series rows (exact); reference model: S_d, true S_v vs the "
               "long-double exact series within the C01 bound; true S_a == pseudo S_a at xi=0 (1e-8)",
        require={"both-sides-of-6dt": 0.2}, min_nontrivial=0.15)
def sd_is_peak(case, ctx):
    arg, a = _rec_arg(case, gen.build(case["rec"]))  # memory-layout / integer / list variant and the float64 values it holds
    dt, xi = case["dt"], case["xi"]
    _cls(ctx, case, a)
    P = _periods(case)
    T = _T(case)
    s = 1 if case["lead0"] else 0
    n = len(a)
    r = np.array(case["ratios"], dtype=float)
    ctx.nt(bool(np.any(a) and np.any(r < 5.99) and np.any(r > 6.01)))
    ru, rv, ra = ctx.lib(sdof.response_series, arg, dt, P, xi)
    if case["rec"].get("as") and not case.get("rec_as"):
        ctx.cls("as=" + case["rec"]["as"])
    ctx.cls("rec=" + case["rec_as"] if case.get("rec_as") else None)
    psd, psv, psa = [np.asarray(x) for x in ctx.lib(sdof.pseudo_response_spectra, arg, dt, P, xi)]
    tsd, tsv, tsa = [np.asarray(x) for x in ctx.lib(sdof.true_response_spectra, arg, dt, np.asarray(P), xi)]
    # 'S_d is max|u| of the response series': the spectra functions may step / block the recurrence in another order than
    # response_series, so the relation holds to the rounding of the recurrence (_tol_order), not bit for bit
    lsu, lsv, lsa = ref.lib_scales(a, dt, T, xi, np.asarray(ru)[s:], np.asarray(rv)[s:])
    z = np.zeros(s)
    to = _tol_order(n)
    ctx.close(psd, np.max(np.abs(ru), axis=1), np.concatenate([z, to * lsu]), "pseudo S_d vs max|u| of response_series")
    ctx.close(tsd, np.max(np.abs(ru), axis=1), np.concatenate([z, to * lsu]), "true S_d vs max|u| of response_series")
    ctx.close(tsv, np.max(np.abs(rv), axis=1), np.concatenate([z, to * lsv]), "true S_v vs max|v| of response_series")
    wt = 2 * np.pi / T
    ctx.close(psv[s:], wt * psd[s:], REL_SV * wt * psd[s:], "pseudo S_v vs w*S_d")
    pga = float(np.max(np.abs(a)))  # PGA = max|record|: no arithmetic involved, exact for every implementation
    amax = np.max(np.abs(ra), axis=1)
    tola = to * lsa * 2 + core.TINY
    for j in range(len(T)):
        b = _band(r[j], T[j], dt)
        if b == "amb":
            ctx.amb()
            ctx.check(abs(tsa[s + j] - amax[s + j]) <= tola[j] or tsa[s + j] == pga, "true S_a at T=6dt is neither max|a_total| nor PGA")
        elif b == "above":
            ctx.check(abs(tsa[s + j] - amax[s + j]) <= tola[j], "true S_a[%d]=%r != max|a_total|=%r (T/dt=%r)" % (j, tsa[s + j], amax[s + j], r[j]))
            if xi == 0:
                ctx.check(abs(tsa[s + j] - psa[s + j]) <= 1e-8 * max(tsa[s + j], psa[s + j]) + core.TINY,
                          "xi=0: true S_a %r != pseudo S_a %r" % (tsa[s + j], psa[s + j]))
        else:
            ctx.check(tsa[s + j] == pga, "true S_a[%d]=%r != PGA %r for T/dt=%r < 6" % (j, tsa[s + j], pga, r[j]))
    if s:
        ctx.check(tsa[0] == pga and psa[0] == pga, "S_a(T=0) != PGA")
        ctx.check(psd[0] == 0 and tsd[0] == 0 and tsv[0] == 0 and psv[0] == 0, "S_d/S_v(T=0) != 0")
    # against the exact series (for the angular frequency the library uses, see ASSUMPTIONS)
    u, v = ref.response(a, dt, ref.library_periods(T), xi)
    su, sv, _, _ = ref.robust_scales(a, dt, T, u, v)
    tol = _tol_ref(n, T, dt)
    ctx.close(psd[s:], np.max(np.abs(u), axis=1).astype(float), tol * su, "S_d vs peak of the exact displacement")
    ctx.close(tsv[s:], np.max(np.abs(v), axis=1).astype(float), tol * sv, "true S_v vs peak of the exact velocity")


@clause(CLAUSES, "pseudo-relations", _cases(containers=("ndarray", "list", "tuple", "ndarray", "list", "tuple", "float32")), quick=800, thorough=1800,
        rule="same generator, periods as ndarray/list/tuple; non-trivial = non-zero record with periods on both sides of 6*dt",
        oracle="reference model: S_v == (2pi/T) S_d, S_a == (2pi/T)^2 S_d (1e-12 rel) for T >= 6dt; S_a == max|record| exactly for T < 6dt "
               "and T=0; all outputs finite, >= 0, shape (len(periods),)",
        require={"both-sides-of-6dt": 0.2, "periods=list": 0.15, "int-periods+lead0": 0.02}, min_nontrivial=0.15)
def pseudo_relations(case, ctx):
    arg, a = _rec_arg(case, gen.build(case["rec"]))
    dt, xi = case["dt"], case["xi"]
    _cls(ctx, case, a)
    ctx.cls("rec=" + case["rec_as"] if case.get("rec_as") else None)
    P = _periods(case)
    T = _T(case)
    s = 1 if case["lead0"] else 0
    r = T / dt if case.get("container") == "float32" else np.array(case["ratios"], dtype=float)
    ctx.nt(bool(np.any(a) and np.any(r < 5.99) and np.any(r > 6.01)))
    pga = float(np.max(np.abs(a)))
    for fname, f in (("pseudo_response_spectra", sdof.pseudo_response_spectra), ("true_response_spectra", sdof.true_response_spectra)):
        out = ctx.lib(f, arg, dt, P, xi)
        ctx.check(len(out) == 3, "%s does not return three spectra" % fname)
        for name, x in zip(("S_d", "S_v", "S_a"), out):
            x = np.asarray(x)
            ctx.shape(x, (len(P),), "%s %s" % (fname, name))
            ctx.finite(x, "%s %s" % (fname, name))
            ctx.check(bool(np.all(x >= 0)), "%s %s has negative entries" % (fname, name))
        sd, sv_, sa_ = [np.asarray(x) for x in out]
        if s:
            ctx.check(sd[0] == 0 and sa_[0] == pga, "%s at T=0: S_d=%r S_a=%r (PGA %r)" % (fname, sd[0], sa_[0], pga))
        for j in range(len(T)):
            b = _band(r[j], T[j], dt)
            if b == "below":
                ctx.check(sa_[s + j] == pga, "%s S_a[%d]=%r != PGA=%r for T/dt=%r" % (fname, j, sa_[s + j], pga, r[j]))
        if fname.startswith("pseudo"):
            w = 2 * np.pi / T
            ctx.close(sv_[s:], w * sd[s:], REL_SV * w * sd[s:], "pseudo S_v vs w*S_d")
            for j in range(len(T)):
                b = _band(r[j], T[j], dt)
                ctx.cls("T==6dt-exactly" if Fraction(float(T[j])) == 6 * Fraction(float(dt)) else None)
                want = w[j] ** 2 * sd[s + j]
                if b == "above":
                    ctx.check(abs(sa_[s + j] - want) <= REL_SA * want + core.TINY, "pseudo S_a[%d]=%r != w^2 S_d=%r (T/dt=%r)" % (j, sa_[s + j], want, r[j]))
                elif b == "amb":
                    ctx.amb()
                    ctx.check(sa_[s + j] == pga or abs(sa_[s + j] - want) <= REL_SA * want, "pseudo S_a at T=6dt is neither w^2 S_d nor PGA")


# ---------------------------------------------------------------------------

@st.composite
def _obj_cases(draw):
    spec = draw(gen.record_specs(min_n=2, max_n=160, small_max=40))
    dt = draw(gen.dts(1e-3, 1.0))
    # T_min/dt decides whether interpolation happens: h* = max(Tmin/20, dt/ratio) < dt  <=>  Tmin < 20 dt (and ratio > 1)
    first = draw(st.one_of(gen.log_uniform(0.3, 19.0), gen.log_uniform(19.0, 400.0)))
    steps = draw(st.lists(gen.log_uniform(1.01, 8.0), min_size=0, max_size=4))
    ratios = [first]
    for m in steps:
        ratios.append(ratios[-1] * m)
    return {"rec": spec, "dt": dt, "ratios": ratios, "lead0": draw(st.integers(0, 3)) == 0,
            "min_dt_ratio": draw(st.sampled_from([1, 2, 4, 8])), "xi": draw(st.sampled_from([0.05, 0.0, 0.2, 0.5])),
            "via": draw(st.sampled_from(["ctor", "gen", "gen-default-xi", "cached-then-ratio", "cached-then-ratio"])),
            # the quantifier says 'all period lists' and 'list/tuple/array containers': the smallest period may sit anywhere
            "order": draw(st.sampled_from(["asc", "shuffle", "desc", "shuffle"])), "perm_seed": draw(st.integers(0, 2 ** 20)),
            "pcontainer": draw(st.sampled_from(["ndarray", "list", "tuple"])),
            "rec_as": draw(st.sampled_from([None, None, None, None, "int16", "int32", "list"])),
            # which of s_d / s_v / s_a is read first (it triggers the lazy computation on a fresh object) and in which order
            "read_order": draw(st.permutations(["s_d", "s_v", "s_a"]))}


def _refined(a, k, hold):
    n = len(a)
    if hold:
        t = np.arange(n * k) / float(k)
    else:
        t = np.arange((n - 1) * k + 1) / float(k)
    return np.interp(t, np.arange(n), a)


K_FINER = (3, 4, 6, 8, 16)  # besides [kmin, 2 kmin + 1]: integer multiples of the coarsest admissible refinement ('no coarser than')


def _k_candidates(kmin):
    ks = list(range(kmin, 2 * kmin + 2))
    for m in K_FINER:
        if m * kmin not in ks:
            ks.append(m * kmin)
    return ks


def _read(ctx, asig, order):
    """Read the three spectra in the given order (the first read of a fresh / invalidated object triggers the lazy computation);
    returns them as (s_d, s_v, s_a)."""
    got = {}
    for name in order:
        got[name] = ctx.lib(lambda nm=name: getattr(asig, nm))
    ctx.cls("first-read=" + order[0])
    for name in ("s_d", "s_v", "s_a"):
        ctx.check(got[name] is not None, "AccSignal.%s is None (read order %s)" % (name, "/".join(order)))
    return [np.asarray(got[k]) for k in ("s_d", "s_v", "s_a")]


def _small_object_oracle(ctx, a, dt, P, xi, ratio, sd, sv, sa, what=""):
    """Object-API sentence for one reading; P = periods in the order given to the object (0 only as the first entry)."""
    P = np.asarray(P, dtype=float)
    s = 1 if P[0] == 0 else 0
    T = P[s:]
    n = len(a)
    for name, x in (("s_d", sd), ("s_v", sv), ("s_a", sa)):
        ctx.shape(x, (len(P),), "AccSignal." + name + what)
        ctx.finite(x, "AccSignal." + name + what)
        ctx.check(bool(np.all(x >= 0)), "AccSignal.%s%s negative" % (name, what))
    hstar = max(float(np.min(T)) / 20.0, dt / ratio)
    raw = [np.asarray(x) for x in sdof.pseudo_response_spectra(a, dt, P, xi)]
    pga = float(np.max(np.abs(a)))
    w = 2 * np.pi / T
    ru, rv, _ = sdof.response_series(a, dt, T, xi)
    su, _, _ = ref.lib_scales(a, dt, T, xi, ru, rv)
    z = np.zeros(s)
    if hstar >= dt:
        ctx.cls("no-interp")
        # equal to the array function on the raw record up to the rounding of a differently ordered recurrence
        to = _tol_order(n)
        ctx.close(sd, raw[0], np.concatenate([z, to * su]), "AccSignal.s_d%s vs array function on the raw record (no interpolation needed)" % what)
        ctx.close(sv, raw[1], np.concatenate([z, to * su * w + REL_SV * raw[1][s:]]), "AccSignal.s_v%s vs array function on the raw record" % what)
        tsa = np.where(raw[2][s:] == pga, 0.0, to * su * w ** 2 + REL_SA * raw[2][s:])
        ctx.close(sa, raw[2], np.concatenate([z, tsa]), "AccSignal.s_a%s vs array function on the raw record" % what)
        return False
    ctx.cls("interp")
    kmin = int(math.ceil(dt / hstar * (1 - 1e-12)))
    found = None
    for k in _k_candidates(kmin):
        lo = np.asarray(sdof.pseudo_response_spectra(_refined(a, k, False), dt / k, P, xi)[0])
        hi = np.asarray(sdof.pseudo_response_spectra(_refined(a, k, True), dt / k, P, xi)[0])
        slack = 1e-9 * su
        if np.all(sd[s:] >= np.minimum(lo, hi)[s:] - slack) and np.all(sd[s:] <= np.maximum(lo, hi)[s:] + slack):
            found = k
            break
    ctx.check(found is not None,
              "AccSignal S_d%s %r is not the spectrum of the record integrated at any step dt/k, k in %r (h*=%.4g, dt=%.4g, min_dt_ratio=%d, "
              "periods %r)" % (what, sd.tolist(), _k_candidates(kmin), hstar, dt, ratio, P.tolist()))
    ctx.cls("k=kmin" if found == kmin else "k>kmin")
    if s:
        ctx.check(sd[0] == 0 and sv[0] == 0 and sa[0] == pga, "T=0 entry of object spectra%s: %r %r %r" % (what, sd[0], sv[0], sa[0]))
    ctx.close(sv[s:], w * sd[s:], REL_SV * w * sd[s:], "object S_v%s vs w*S_d" % what)
    for j in range(len(T)):
        want = w[j] ** 2 * sd[s + j]
        is_pseudo = abs(sa[s + j] - want) <= REL_SA * want + core.TINY
        rj = T[j] / dt
        if _band(rj, T[j], dt) == "above":
            ctx.check(is_pseudo, "object S_a%s[%d]=%r != w^2 S_d=%r although T >= 6 dt" % (what, j, sa[s + j], want))
        else:
            ctx.check(is_pseudo or sa[s + j] == pga, "object S_a%s[%d]=%r is neither w^2 S_d=%r nor PGA=%r" % (what, j, sa[s + j], want, pga))
            if T[j] < 6 * (dt / found) * (1 - 1e-9):
                ctx.check(sa[s + j] == pga, "object S_a%s[%d]=%r != PGA=%r for T below 6 integration steps" % (what, j, sa[s + j], pga))
    # never below the values computed from the raw samples: the raw grid is a subset of the refined grid and the refinement of a
    # piecewise-linear record is exact, so only the rounding of the two recurrences separates them
    tol = np.minimum(ref.tol_c01((n - 1) * dt, T, dt, relaxed=True) * 2, _tol_lib_w(n, T, dt) + _tol_lib_w(n * found, T, dt / found))
    ctx.check(bool(np.all(sd[s:] >= raw[0][s:] - tol * su - core.TINY)),
              "object S_d%s %r below the raw-sample S_d %r" % (what, sd.tolist(), raw[0].tolist()))
    return True


@clause(CLAUSES, "object-api", _obj_cases(), quick=600, thorough=1000,
        rule="AccSignal(values, dt, response_times=P).s_d/.s_v/.s_a and gen_response_spectrum(P, xi, min_dt_ratio in {1,2,4,8}); period "
             "lists ascending / descending / shuffled (optional 0 first) as ndarray / list / tuple, smallest period below / above 20*dt; "
             "float64, int16 / int32 (full range) and list records; the three spectra read in a drawn order, every lazily computed value "
             "checked; non-trivial = non-zero record and h* < dt (interpolation required)",
        oracle="reference model: agreement with the array function (rounding of a reordered recurrence) when h* >= dt; otherwise existence of an "
               "integer refinement k in [kmin, 2 kmin + 1] or k = 3, 4, 6, 8, 16 x kmin (kmin = ceil(dt/h*), h* from the SMALLEST non-zero period) whose "
               "S_d sandwich [no tail, held tail] contains the object's S_d (1e-9 of scale); S_v == w S_d (2e-9: w = 2 pi/T or 6.2831853/T); "
               "S_a in {w^2 S_d, PGA}; S_d >= raw S_d - rounding",
        require={"interp": 0.3, "no-interp": 0.1, "order=shuffle": 0.2, "first-read=s_v": 0.1, "first-read=s_a": 0.1}, min_nontrivial=0.2)
def object_api(case, ctx):
    arg, a = _rec_arg(case, gen.build(case["rec"]))
    dt = case["dt"]
    T0 = _T(case)
    T = T0[_perm(case, len(T0))]
    P = np.concatenate([[0.0], T]) if case["lead0"] else T.copy()
    Parg = _as_periods(P, case["pcontainer"])
    ratio = case["min_dt_ratio"]
    via = case["via"]
    xi = case["xi"]
    ro = list(case["read_order"])
    ctx.cls("via=" + via, "lead0" if case["lead0"] else None, "order=" + case["order"], "periods=" + case["pcontainer"],
            "rec=" + case["rec_as"] if case.get("rec_as") else None)
    if via == "ctor":
        ratio, xi = 4, 0.05
        asig = ctx.lib(eqsig.AccSignal, arg, dt, response_times=Parg)
    elif via == "gen":
        asig = ctx.lib(eqsig.AccSignal, arg, dt)
        ctx.lib(asig.gen_response_spectrum, response_times=Parg, xi=xi, min_dt_ratio=ratio)
    elif via == "cached-then-ratio":
        # spectra are first read lazily (default damping and ratio) - and looked at -, then requested at another min_dt_ratio /
        # damping without passing the periods again: the request must be honoured, not answered from the cache
        asig = ctx.lib(eqsig.AccSignal, arg, dt, response_times=Parg)
        sd, sv, sa = _read(ctx, asig, ro)
        _small_object_oracle(ctx, a, dt, P, 0.05, 4, sd, sv, sa, " (lazy read)")
        ctx.lib(asig.generate_response_spectrum, xi=xi, min_dt_ratio=ratio)
        ro = ro[1:] + ro[:1]
    else:
        xi = 0.05
        asig = ctx.lib(eqsig.AccSignal, arg, dt)
        ctx.lib(asig.generate_response_spectrum, response_times=Parg, min_dt_ratio=ratio)
    ctx.cls("ratio=%d" % ratio)
    sd, sv, sa = _read(ctx, asig, ro)
    ctx.nt(bool(_small_object_oracle(ctx, a, dt, P, xi, ratio, sd, sv, sa) and np.any(a)))


# ---------------------------------------------------------------------------
# a long record with a dense period grid and a high refinement ratio: n_periods x n_refined_steps ~ 1e8 (several GB inside the
# library; thorough tier only)


def _dense_long_enum(tier, shard, nshards):
    if tier == "quick":
        return
    items = [{"n": 30000, "np": 350, "ratio": 8, "seed": 11}, {"n": 52000, "np": 210, "ratio": 8, "seed": 12},
             {"n": 100000, "np": 230, "ratio": 4, "seed": 13}]
    for i, it in enumerate(items):
        if i % nshards == shard:
            yield it


@enum_clause(CLAUSES, "dense-long", _dense_long_enum, thorough_only=True,
             rule="fixed long records (30000-100000 samples at 100 Hz) with 210-350 log-spaced periods from 0.02 s and "
                  "min_dt_ratio 4 / 8, so that the object must integrate at dt/4 or dt/8; eight of the periods are checked",
             oracle="reference model: as object-api - an integer refinement k >= dt/h* exists whose S_d sandwich [no tail, held tail] "
                    "contains the object's S_d (1e-9 of scale); S_v == w S_d",
             exhaustive_note="the listed (length, periods, ratio) triples")
def dense_long(case, ctx):
    n, dt, xi, ratio = case["n"], 0.01, 0.05, case["ratio"]
    t = np.arange(n) * dt
    a = np.random.RandomState(case["seed"]).standard_normal(n) * (t / 20.0) * np.exp(1 - t / 20.0)
    P = np.logspace(np.log10(0.02), np.log10(5.0), case["np"])
    ctx.nt(True)
    asig = ctx.lib(eqsig.AccSignal, a, dt)
    ctx.lib(asig.gen_response_spectrum, response_times=P, xi=xi, min_dt_ratio=ratio)
    sd = np.asarray(ctx.lib(lambda: asig.s_d))
    sv = np.asarray(ctx.lib(lambda: asig.s_v))
    ctx.shape(sd, (len(P),), "AccSignal.s_d")
    ctx.finite(sd, "AccSignal.s_d")
    hstar = max(P[0] / 20.0, dt / ratio)
    kmin = int(math.ceil(dt / hstar * (1 - 1e-12)))
    inds = np.array(sorted(set([0, 1, 5, len(P) // 6, len(P) // 3, len(P) // 2, len(P) - 20, len(P) - 1])))
    T = P[inds]
    ru, rv, _ = sdof.response_series(a, dt, T, xi)
    su, _, _ = ref.lib_scales(a, dt, T, xi, ru, rv)
    found = None
    for k in range(kmin, 2 * kmin + 2):
        lo = np.asarray(sdof.pseudo_response_spectra(_refined(a, k, False), dt / k, T, xi)[0])
        hi = np.asarray(sdof.pseudo_response_spectra(_refined(a, k, True), dt / k, T, xi)[0])
        slack = 1e-9 * su
        if np.all(sd[inds] >= np.minimum(lo, hi) - slack) and np.all(sd[inds] <= np.maximum(lo, hi) + slack):
            found = k
            break
    ctx.check(found is not None, "AccSignal S_d at periods %r = %r is not the spectrum of the record integrated at any step dt/k, "
                                 "k in [%d, %d] (h*=%.4g, dt=%.4g, min_dt_ratio=%d, %d samples, %d periods)" % (
                                     T.tolist(), sd[inds].tolist(), kmin, 2 * kmin + 1, hstar, dt, ratio, n, len(P)))
    w = 2 * np.pi / P
    ctx.close(sv, w * sd, 1e-12 * w * sd, "object S_v vs w*S_d")


# ---------------------------------------------------------------------------

@st.composite
def _energy_cases(draw):
    c = draw(_cases(max_n=min(MAX_N, 800), max_p=5))
    c["periods_arg"] = draw(st.sampled_from(["explicit", "attribute", "attribute-setter"]))
    c["order"] = draw(st.sampled_from(["asc", "shuffle", "desc"]))
    c["perm_seed"] = draw(st.integers(0, 2 ** 20))
    c["pcontainer"] = draw(st.sampled_from(["ndarray", "list", "tuple"]))
    c["rec_as"] = None
    return c


@clause(CLAUSES, "energy", _energy_cases(), quick=700, thorough=1400,
        rule="same record/period generator (no leading 0: energy of a zero-period oscillator is undefined); periods passed explicitly "
             "or via the signal's response_times; non-trivial = non-zero record",
        oracle="reference model: input energy == sum a_i v_i dt (and its running sum) over the library's own velocity series (1e-12 of "
               "sum|terms|) and over the exact velocity (C01 bound); kinetic-energy spectrum == sum |delta(v^2/2)|; input energy at the end >= 0")
def energy(case, ctx):
    a = gen.build(case["rec"])
    dt, xi = case["dt"], case["xi"]
    pm = _perm(case, len(case["ratios"]))
    T = _T(case)[pm]
    n = len(a)
    r = np.array(case["ratios"], dtype=float)[pm]
    ctx.cls(gen.size_class(n), "periods=" + case["periods_arg"], "xi=0" if xi == 0 else None, "order=" + case.get("order", "asc"),
            "container=" + case.get("pcontainer", "ndarray"))
    ctx.nt(bool(np.any(a)))
    Targ = _as_periods(T, case.get("pcontainer", "ndarray"))
    if case["periods_arg"] == "explicit":
        asig = eqsig.AccSignal(a, dt)
        kw = {"periods": Targ}
    elif case["periods_arg"] == "attribute-setter":  # the setter keeps a list / tuple as it is
        asig = eqsig.AccSignal(a, dt)
        asig.response_times = Targ
        kw = {}
    else:
        asig = eqsig.AccSignal(a, dt, response_times=Targ)
        kw = {}
    e_end = np.asarray(ctx.lib(sdof.calc_input_energy_spectrum, asig, xi=xi, **kw))
    e_ser = np.asarray(ctx.lib(sdof.calc_input_energy_spectrum, asig, xi=xi, series=True, **kw))
    uke = np.asarray(ctx.lib(sdof.calc_resp_uke_spectrum, asig, xi=xi, **kw))
    ctx.shape(e_end, (len(T),), "input energy spectrum")
    ctx.shape(e_ser, (len(T), n), "input energy series")
    ctx.shape(uke, (len(T),), "kinetic energy spectrum")
    _, rv, _ = sdof.response_series(a, dt, T, xi)
    rv = np.asarray(rv)
    terms = a.astype(LD)[None, :] * rv.astype(LD) * LD(dt)
    sabs = np.sum(np.abs(terms), axis=1).astype(float)
    run = np.cumsum(terms, axis=1)
    ctx.close(e_end, run[:, -1], EPS * (n + 8) * sabs, "input energy vs sum a_i v_i dt")
    ctx.close(e_ser, run, (EPS * (n + 8) * sabs)[:, None] + 0 * e_ser, "input energy series vs running sum a_i v_i dt")
    ke = rv.astype(LD) ** 2 / 2
    uref = np.sum(np.abs(np.diff(ke, axis=1)), axis=1)
    ctx.close(uke, uref, EPS * (n + 8) * np.sum(np.abs(ke), axis=1).astype(float) * 4, "kinetic energy spectrum vs sum |delta(v^2/2)|")
    ctx.check(bool(np.all(uke >= 0)), "kinetic energy spectrum negative")
    # against the exact velocity (for the angular frequency the library uses, see ASSUMPTIONS)
    u, v = ref.response(a, dt, ref.library_periods(T), xi)
    su, sv, _, _ = ref.robust_scales(a, dt, T, u, v)
    tol = _tol_ref(n, T, dt)
    eref = np.sum(a.astype(LD)[None, :] * v * LD(dt), axis=1)
    ctx.close(e_end, eref, tol * sv * float(np.sum(np.abs(a))) * dt + EPS * (n + 8) * sabs, "input energy vs sum over the exact velocity series")
    # sign
    neg = e_end < -(EPS * (n + 8) * sabs) - core.TINY
    if np.any(neg):
        j = int(np.argmax(neg))
        if ctx.kf("C03-KF1"):
            ctx.check(bool(np.all(e_end >= -sabs * (1 + 1e-12))), "input energy below -sum|a_i v_i|dt")
        else:
            ctx.fail("input energy at the end of the record is negative: E=%r for T/dt=%r, xi=%r (sum|a_i v_i|dt=%r)" % (
                float(e_end[j]), float(r[j]), xi, float(sabs[j])))


@st.composite
def _si_cases(draw):
    return {"rec": draw(gen.record_specs(min_n=2, max_n=300)), "dt": draw(gen.dts(1e-3, 0.1)),
            "xi": draw(st.sampled_from([0.05, 0.0, 0.2])), "default_periods": draw(st.booleans()),
            "p0": draw(st.floats(0.05, 0.5, allow_nan=False)), "np": draw(st.integers(2, 30)),
            "pcontainer": draw(st.sampled_from(["ndarray", "list", "tuple"])), "xi_omitted": draw(st.integers(0, 3)) == 0}


@clause(CLAUSES, "intensities", _si_cases(), quick=60, thorough=200,
        rule="acceleration / velocity spectrum intensity with default and custom period grids (step 0.01 s); non-trivial = non-zero record",
        oracle="differential: calc_asi/calc_vsi == max(0.01*cumulative trapezoid(pseudo spectrum)) (/9.81) of pseudo_response_spectra (1e-12 rel)")
def intensities(case, ctx):
    a = gen.build(case["rec"])
    dt, xi = case["dt"], case["xi"]
    ctx.cls(gen.size_class(len(a)), "default-periods" if case["default_periods"] else "custom-periods")
    ctx.nt(bool(np.any(a)))
    asig = eqsig.AccSignal(a, dt)
    if case["default_periods"]:
        pa, pv, kw = np.arange(0.1, 1.51, 0.01), np.arange(0.1, 2.51, 0.01), {}
    else:
        pa = pv = case["p0"] + 0.01 * np.arange(case["np"])
        kw = {"periods": _as_periods(pa, case.get("pcontainer", "ndarray"))}
        ctx.cls("container=" + case.get("pcontainer", "ndarray"))
    if case.get("xi_omitted"):
        xi = 0.05
    else:
        kw["xi"] = xi
    asi = ctx.lib(im.calc_asi, asig, **kw)
    vsi = ctx.lib(im.calc_vsi, asig, **kw)
    _, _, psa = sdof.pseudo_response_spectra(a, dt, pa, xi)
    _, psv, _ = sdof.pseudo_response_spectra(a, dt, pv, xi)
    want_a = float(np.max(0.01 * cumulative_trapezoid(np.abs(psa)))) / 9.81
    want_v = float(np.max(0.01 * cumulative_trapezoid(np.abs(psv))))
    ctx.check(abs(asi - want_a) <= 1e-12 * want_a + core.TINY, "calc_asi %r != %r" % (asi, want_a))
    ctx.check(abs(vsi - want_v) <= 1e-12 * want_v + core.TINY, "calc_vsi %r != %r" % (vsi, want_v))


# ---------------------------------------------------------------------------
# mid-range sizes and option interactions (DESIGN 8.5).  A code path that exists only inside a window of sizes - a blocked or
# streamed variant above some record length / number of periods / product of the two (x refinement sub-steps for the object API) -
# is invisible to the Hypothesis generators above (<= 1500 samples, <= 8 periods).  The enumerations below walk size ladders
# (gen.ladder / gen.size_ladder / gen.product_pairs: one size per logarithmic bin, placed by a hash of VERIF_SEED) for every
# public function the property anchors and for every size dimension it has.
#
# Reference: the exact response (long-double matrix exponentials of pbt/ref/sdof.py) stepped through the record by cyclic
# reduction (pbt/ref/sdof_scan.py) instead of a sample-by-sample Python loop - O(N) vectorised, so the whole series of the sampled
# oscillators is available at 1e5..1e6 samples.  Tolerances are those of the clauses above (C01 bound on the robust scale for the
# exact reference; equality for the differential relations between two entry points; c*eps*sum|terms| for the energy sums).
#
# Data: noise on a non-zero mean with three resonant bursts - an early one tuned to the longest period, one at a hash-chosen
# position tuned to a middle period and one that grows up to the very last sample tuned to the shortest period >= 6 dt - and an
# optional spike (first / last / hash-chosen sample) that sets the PGA and the peak of the quasi-static (T < dt) oscillators: the
# peaks of different rows of one call lie in the first block, in the middle and in the last few samples of the record, so a
# reduction over time that loses its head, a seam block or its tail changes some row.

from pbt.ref import sdof_scan as scanref  # noqa: E402
import hashlib as _hashlib  # noqa: E402

MID_DTS = [0.01, 0.005, 0.0078125, 0.02, 0.0025]
MID_XIS = [0.05, 0.02, 0.1, 0.2]
MID_SPIKES = ["last", "first", "mid", "none"]
MID_CONTAINERS = ["ndarray", "list", "ndarray", "tuple"]
THOROUGH = core.tier() != "quick"
# reference budget: (sampled oscillators) x (samples) handled by the long-double scan per call (~0.3 us per cell)
REF_CELLS = 4.0e6 if THOROUGH else 1.2e6


def _scan_selfcheck():
    """The cyclic-reduction stepping must reproduce the sample-by-sample reference of the Hypothesis clauses (long double)."""
    a = np.random.RandomState(7).standard_normal(67)
    T = np.array([0.003, 0.07, 0.9])
    for xi in (0.0, 0.05):
        u, v = ref.response(a, 0.01, T, xi)
        u2, v2 = scanref.response_exact(a, 0.01, T, xi)
        eu = float(np.max(np.abs(u - u2) / np.max(np.abs(u), axis=1)[:, None]))
        ev = float(np.max(np.abs(v - v2) / np.max(np.abs(v), axis=1)[:, None]))
        if not (eu < 1e-16 and ev < 1e-16):
            raise core.HarnessError("pbt/ref/sdof_scan.py disagrees with pbt/ref/sdof.py: %.3g %.3g" % (eu, ev))


if ref.longdouble_ok():
    _scan_selfcheck()


def _hh(*parts):
    s = ":".join(str(p) for p in ("c03-mid", gen.run_seed()) + parts)
    return int(_hashlib.blake2b(s.encode(), digest_size=8).hexdigest(), 16)


def _pick(seq, *parts):
    return seq[_hh(*parts) % len(seq)]


def _est_iter_s(p):
    """Measured cost of one step of the library's time loop with p oscillators (seconds; quiet machine)."""
    return 12e-6 + 0.11e-6 * p


def _mid_ratios(case):
    """T/dt of the oscillators of a mid-range case (ascending)."""
    p = int(case["p"])
    if case.get("template"):
        u = np.random.RandomState(case["seed"] % (2 ** 31 - 1)).uniform(0.92, 1.08, 5)
        return (np.array([0.45, 3.3, 7.3, 31.0, 117.0]) * u)[:max(1, p)] if p < 5 else np.array([0.45, 3.3, 7.3, 31.0, 117.0]) * u
    lo, hi = float(case["rlo"]), float(case["rhi"])
    if p == 1:
        return np.array([math.sqrt(lo * hi)])
    return np.geomspace(lo, hi, p)


def _mid_record(n, seed, ratios, spike):
    rs = np.random.RandomState(seed % (2 ** 31 - 1))
    a = 0.04 * rs.standard_normal(n) + 0.01
    r = sorted(float(x) for x in ratios if x >= 6.2)
    if not r:
        r = [8.0, 30.0, 100.0]
    cap = max(8.0, n / 40.0)
    r_end, r_mid, r_early = min(r[0], cap), min(r[len(r) // 2], cap), min(r[-1], cap)
    le = int(min(n // 5, max(120, 5 * r_early)))
    s0 = min(40, n // 50)
    if le > 2:
        a[s0:s0 + le] += np.sin(2 * np.pi * np.arange(le) / r_early)
    lm = int(min(n // 5, max(120, 8 * r_mid)))
    pos = int(n * (0.3 + 0.4 * rs.rand()))
    if lm > 2:
        a[pos:pos + lm] += 0.9 * np.sin(2 * np.pi * np.arange(lm) / r_mid)
    ln = int(min(n // 4, max(160, 20 * r_end)))
    if ln > 2:
        j = np.arange(ln)
        a[n - ln:] += 1.2 * ((j + 1.0) / ln) ** 2 * np.sin(2 * np.pi * j / r_end + 0.3)
    at = int(n * (0.15 + 0.7 * rs.rand()))
    if spike == "first":
        a[0] = 3.0
    elif spike == "last":
        a[-1] = -3.0
    elif spike == "mid":
        a[at] = 3.0
    return a


def _container(T, kind, lead0):
    T = list(np.asarray(T, dtype=float))
    if lead0:
        T = [0.0] + T
    if kind == "list":
        return [float(t) for t in T]
    if kind == "tuple":
        return tuple(float(t) for t in T)
    return np.array(T)


def _sample_rows(p, budget, seed):
    """Row indices (sorted) of the oscillators evaluated by the reference: the first and last ones, every index that is
    -1, 0, 1 modulo 2^k (k = 12..5, seams of power-of-two blocks) and hash-chosen ones, cut to the budget (never below 4)."""
    budget = int(max(4, budget))
    if p <= budget:
        return np.arange(p)
    order = [0, p - 1, 1, p - 2, 2]
    rs = np.random.RandomState(seed % (2 ** 31 - 1))
    rnd = list(rs.permutation(p)[:budget])
    seams = []
    for k in range(12, 4, -1):
        b = 2 ** k
        for m in range(b, p, b):
            seams.extend([m, m - 1, m + 1])
    # interleave seams and random rows so that a small budget still has both
    mix = []
    for i in range(max(len(seams), len(rnd))):
        if i < len(seams):
            mix.append(seams[i])
        if i < len(rnd):
            mix.append(rnd[i])
    out = []
    seen = set()
    for i in order + mix:
        i = int(i)
        if 0 <= i < p and i not in seen:
            seen.add(i)
            out.append(i)
            if len(out) >= budget:
                break
    return np.array(sorted(out))


def _exact_rows(a, dt, T, xi, idx):
    """Exact u, v (float64 copies of the long-double series) of the oscillators idx, their robust scales and C01 tolerances."""
    Ti = np.asarray(T, dtype=float)[idx]
    u, v = scanref.response_exact(a, dt, ref.library_periods(Ti), xi)
    su, sv, _, _ = ref.robust_scales(a, dt, Ti, u, v)
    tol = _tol_ref(len(a), Ti, dt) + scanref.scan_slack(len(a))
    return u, v, su, sv, tol


def _bands(T, dt):
    """Vectorised 6-step rule: arrays (below, above, amb) of booleans, exact rational decision near the boundary."""
    T = np.asarray(T, dtype=float)
    rel = T / (6.0 * dt)
    below = rel < 1 - 1e-9
    above = rel > 1 + 1e-9
    amb = np.zeros(len(T), dtype=bool)
    for j in np.nonzero(~(below | above))[0]:
        b = _band(T[j] / dt, T[j], dt)
        below[j], above[j], amb[j] = b == "below", b == "above", b == "amb"
    return below, above, amb


def _common_spectra_checks(ctx, name, out, npd):
    ctx.check(len(out) == 3, "%s does not return three spectra" % name)
    res = []
    for lab, x in zip(("S_d", "S_v", "S_a"), out):
        x = np.asarray(x)
        ctx.shape(x, (npd,), "%s %s" % (name, lab))
        ctx.finite(x, "%s %s" % (name, lab))
        ctx.check(bool(np.all(x >= 0)), "%s %s has negative entries" % (name, lab))
        res.append(x)
    return res


def _pseudo_rules(ctx, name, T, dt, s, sd, sv, sa, pga, step=None):
    """S_v == w S_d; S_a == w^2 S_d for T >= 6 steps, PGA below (either at the boundary); T = 0 entry.  `step` (object API): the
    integration step h <= dt replaces dt, so for 6h <= T < 6dt either value is admissible."""
    w = 2 * np.pi / T
    if s:
        ctx.check(sd[0] == 0 and sv[0] == 0 and sa[0] == pga, "%s at T=0: S_d=%r S_v=%r S_a=%r (PGA %r)" % (name, sd[0], sv[0], sa[0], pga))
    ctx.close(sv[s:], w * sd[s:], REL_SV * w * sd[s:], "%s S_v vs w*S_d" % name)
    want = w ** 2 * sd[s:]
    is_pseudo = np.abs(sa[s:] - want) <= REL_SA * want + core.TINY
    is_pga = sa[s:] == pga
    below, above, amb = _bands(T, dt)
    if np.any(amb):
        ctx.amb()
    bad = above & ~is_pseudo
    if np.any(bad):
        j = int(np.argmax(bad))
        ctx.fail("%s S_a[%d]=%r != w^2 S_d=%r although T/dt=%r >= 6" % (name, j, sa[s + j], want[j], T[j] / dt))
    if step is None:
        bad = below & ~is_pga
        if np.any(bad):
            j = int(np.argmax(bad))
            ctx.fail("%s S_a[%d]=%r != PGA=%r for T/dt=%r < 6" % (name, j, sa[s + j], pga, T[j] / dt))
    else:
        bad = ~above & ~(is_pga | is_pseudo)
        if np.any(bad):
            j = int(np.argmax(bad))
            ctx.fail("%s S_a[%d]=%r is neither w^2 S_d=%r nor PGA=%r" % (name, j, sa[s + j], want[j], pga))
        bad = (T < 6 * step * (1 - 1e-9)) & ~is_pga
        if np.any(bad):
            j = int(np.argmax(bad))
            ctx.fail("%s S_a[%d]=%r != PGA=%r for T below 6 integration steps" % (name, j, sa[s + j], pga))
    bad = amb & ~(is_pga | is_pseudo)
    if np.any(bad):
        ctx.fail("%s S_a at T=6dt is neither w^2 S_d nor PGA" % name)


def _row_chunks(p, n, cells=2.0e6):
    step = int(max(1, cells // max(1, n)))
    for i0 in range(0, p, step):
        yield i0, min(p, i0 + step)


# --- array functions ------------------------------------------------------------------------------------------------------

def _array_case_list(tier):
    th = tier != "quick"
    tg = "t:" if th else ""
    cases = []

    def add(kind, n, p, i, fns, **kw):
        c = {"kind": kind, "n": int(n), "p": int(p), "fns": list(fns), "seed": _hh(tg, "arr", kind, i, n, p) % (2 ** 31 - 1),
             "dt": _pick(MID_DTS, tg, "dt", kind, i), "xi": _pick(MID_XIS, tg, "xi", kind, i),
             "spike": MID_SPIKES[i % len(MID_SPIKES)], "container": _pick(MID_CONTAINERS, tg, "cont", kind, i), "lead0": bool(i % 2)}
        c["rec_as"] = _pick([None, "int32", None, "list", "int16", None], tg, "recas", kind, i) if n <= 20000 else None
        c.update(kw)
        cases.append(c)

    # (a) record length, a handful of oscillators on both sides of 6 dt
    hi = 1000000 if th else 120000
    sizes = sorted(set(gen.ladder(2000, hi, 22 if th else 8, tg + "c03:len")) | set(gen.mined_sizes(2000, hi, 4 if th else 1, tg + "c03:len")))
    for i, n in enumerate(sizes):
        if 3 * n * _est_iter_s(6) <= 2.0:
            add("len", n, 5, i, ["series", "pseudo", "true"], template=True)
        else:  # one entry point per case (each walks the record once)
            for f in ("series", "pseudo", "true"):
                add("len", n, 5, i, [f], template=True)
    # (b) number of oscillators, short record; with and without the leading 0
    for i, p in enumerate(gen.size_ladder(1, 9000 if th else 4000, 30 if th else 13, tg + "c03:per", mined_limit=10 if th else 5)):
        n = 200 + _hh(tg, "pern", i) % 500
        for lead0 in (False, True):
            add("periods", n, p, 2 * i + int(lead0), ["series", "pseudo", "true"], lead0=lead0, xi=_pick([0.0] + MID_XIS, tg, "pxi", i, lead0),
                rlo=_pick([0.53, 2.1, 7.7], tg, "rlo", i), rhi=_pick([61.0, 290.0], tg, "rhi", i))
    # (c) products oscillators x samples
    pairs = gen.product_pairs(1e5, 4e7 if th else 1.0e7, 20 if th else 8, (6, 4000), (300, 200000 if th else 40000), tg + "c03:prod")
    for i, (p, n) in enumerate(pairs):
        kw = dict(rlo=_pick([0.53, 2.1], tg, "prlo", i), rhi=_pick([61.0, 290.0], tg, "prhi", i), xi=_pick([0.0] + MID_XIS, tg, "prxi", i))
        if 3 * n * _est_iter_s(p) <= 2.0:
            add("product", n, p, i, ["series", "pseudo", "true"], **kw)
        else:
            add("product", n, p, i, ["series"], **kw)
            add("product", n, p, i, ["pseudo", "true"], **kw)
    cases.sort(key=lambda c: -len(c["fns"]) * c["n"] * _est_iter_s(c["p"]))
    return cases


def _shard(cases, shard, nshards):
    for i, c in enumerate(cases):
        if i % nshards == shard:
            yield c


def _array_enum(tier, shard, nshards):
    return _shard(_array_case_list(tier), shard, nshards)


@enum_clause(CLAUSES, "mid-range", _array_enum, quick_shards=4,
             rule="response_series / pseudo_response_spectra / true_response_spectra on (a) record-length ladder 2000..120000 samples "
                  "(thorough 1e6) with five oscillators T/dt ~ 0.45, 3.3, 7.3, 31, 117, (b) 1..4000 (9000) oscillators log-spaced over "
                  "[0.5..8, 60..290] dt on 200-700 samples, with and without leading 0, (c) products oscillators x samples 1e5..1e7 (4e7); "
                  "plus sizes mined from integer literals of the source; burst records with the peaks of different rows at the start, "
                  "middle and end, spike first/last/mid/none, periods as ndarray/list/tuple",
             oracle="reference model: whole u, v series (sampled rows: first/last, power-of-two seams, hash-chosen; all rows when "
                    "rows x samples <= 1.2e6) and S_d / true S_v / true S_a vs the exact long-double series within the C01 bound on the "
                    "robust scale; differential (exact, all rows): spectra == max|.| of response_series rows, pseudo S_d == true S_d; third "
                    "series == -(2 xi w v + w^2 u) of the returned u, v (1e-8, all rows); pseudo relations and PGA rule on all rows",
             exhaustive_note="the size ladders of this run (hash of VERIF_SEED), not the whole size range")
def mid_range(case, ctx):
    n, dt, xi, lead0 = case["n"], case["dt"], case["xi"], case["lead0"]
    ratios = _mid_ratios(case)
    T = ratios * dt
    npd = len(T) + (1 if lead0 else 0)
    s = 1 if lead0 else 0
    a = _mid_record(n, case["seed"], ratios, case["spike"])
    arg = a
    if case.get("rec_as") in ("int16", "int32"):
        arg, a = gen.narrow_int(a, case["rec_as"])
    elif case.get("rec_as") == "list":
        arg = [float(x) for x in a]
    ctx.cls("rec=" + case["rec_as"] if case.get("rec_as") else None)
    P = _container(T, case["container"], lead0)
    fns = case["fns"]
    to = _tol_order(n)
    floor_u = np.concatenate([np.zeros(1 if lead0 else 0), float(np.max(np.abs(a))) * np.minimum(dt * dt / 2, (T / (2 * np.pi)) ** 2)])
    wfull = np.concatenate([np.zeros(1 if lead0 else 0), 2 * np.pi / T])
    ctx.cls("kind=" + case["kind"], "n>=%d" % (10 ** int(math.log10(n))), "p>=%d" % (10 ** int(math.log10(max(1, len(T))))),
            "cells>=1e%d" % int(math.log10(n * npd)), "lead0" if lead0 else None, "spike=" + case["spike"], "periods=" + case["container"],
            "xi=0" if xi == 0 else None, *["fn=" + f for f in fns])
    ctx.nt(True)
    pga = float(np.max(np.abs(a)))
    idx = _sample_rows(len(T), REF_CELLS // n, case["seed"])
    ctx.cls("all-rows-exact" if len(idx) == len(T) else "sampled-rows-exact")
    u, v, su, sv, tol = _exact_rows(a, dt, T, xi, idx)
    pu = np.max(np.abs(u), axis=1).astype(float)
    pv = np.max(np.abs(v), axis=1).astype(float)
    wl = ref.LIB_TWO_PI / T[idx]
    below_i, above_i, amb_i = _bands(T[idx], dt)
    ru = rv = ra = None
    if "series" in fns:
        ru, rv, ra = [np.asarray(x) for x in ctx.lib(sdof.response_series, arg, dt, P, xi)]
        for name, x in (("displacement", ru), ("velocity", rv), ("acceleration", ra)):
            ctx.shape(x, (npd, n), "response " + name)
        ctx.finite(ru, "response displacement")
        ctx.finite(rv, "response velocity")
        ctx.finite(ra, "response acceleration")
        ctx.close(ru[s + idx], u.astype(float), (tol * su)[:, None] + np.zeros((1, n)), "displacement series vs the exact series")
        ctx.close(rv[s + idx], v.astype(float), (tol * sv)[:, None] + np.zeros((1, n)), "velocity series vs the exact series")
        if s:
            ctx.check(not np.any(ru[0]) and not np.any(rv[0]), "T=0 row of the displacement / velocity series is not zero")
            ctx.equal(np.abs(ra[0]), np.abs(a), "|T=0 row of the acceleration series| vs |record|")
        w = (2 * np.pi / T)[:, None]
        for i0, i1 in _row_chunks(len(T), n):
            t1 = 2 * xi * w[i0:i1] * rv[s + i0:s + i1]
            t2 = w[i0:i1] ** 2 * ru[s + i0:s + i1]
            scale = np.max(np.abs(t1) + np.abs(t2), axis=1)[:, None]
            ctx.close(ra[s + i0:s + i1], -(t1 + t2), 1e-8 * scale + 0 * t1, "third series vs -(2 xi w v + w^2 u)")
    psd = tsd = None
    if "pseudo" in fns:
        psd, psv, psa = _common_spectra_checks(ctx, "pseudo_response_spectra", ctx.lib(sdof.pseudo_response_spectra, arg, dt, P, xi), npd)
        ctx.close(psd[s + idx], pu, tol * su, "pseudo S_d vs peak of the exact displacement")
        _pseudo_rules(ctx, "pseudo_response_spectra", T, dt, s, psd, psv, psa, pga)
        if ru is not None:
            mu = np.max(np.abs(ru), axis=1)
            ctx.close(psd, mu, to * np.maximum(mu, floor_u), "pseudo S_d vs max|u| of response_series")
    if "true" in fns:
        tsd, tsv, tsa = _common_spectra_checks(ctx, "true_response_spectra", ctx.lib(sdof.true_response_spectra, arg, dt, P, xi), npd)
        ctx.close(tsd[s + idx], pu, tol * su, "true S_d vs peak of the exact displacement")
        ctx.close(tsv[s + idx], pv, tol * sv, "true S_v vs peak of the exact velocity")
        below, above, amb = _bands(T, dt)
        if np.any(amb):
            ctx.amb()
        if s:
            ctx.check(tsd[0] == 0 and tsv[0] == 0 and tsa[0] == pga, "true spectra at T=0: %r %r %r (PGA %r)" % (tsd[0], tsv[0], tsa[0], pga))
        bad = below & ~(tsa[s:] == pga)
        if np.any(bad):
            j = int(np.argmax(bad))
            ctx.fail("true S_a[%d]=%r != PGA %r for T/dt=%r < 6" % (j, tsa[s + j], pga, ratios[j]))
        # total acceleration of the exact series (for the angular frequency the library's series use)
        at = np.max(np.abs(2 * xi * wl[:, None] * v + (wl ** 2)[:, None] * u), axis=1).astype(float)
        tol_a = tol * (2 * xi * wl * sv + wl ** 2 * su)
        ok = np.where(above_i, np.abs(tsa[s + idx] - at) <= tol_a + core.TINY, True) & \
            np.where(amb_i, (np.abs(tsa[s + idx] - at) <= tol_a + core.TINY) | (tsa[s + idx] == pga), True)
        if not np.all(ok):
            j = int(np.argmin(ok))
            ctx.fail("true S_a[%d]=%r vs peak total acceleration of the exact series %r (tol %.3g, T/dt=%r)" % (
                idx[j], tsa[s + idx[j]], at[j], tol_a[j], ratios[idx[j]]))
        if ru is not None:
            mu = np.max(np.abs(ru), axis=1)
            mv = np.max(np.abs(rv), axis=1)
            scu = np.maximum(np.maximum(mu, floor_u), np.where(wfull > 0, mv / np.where(wfull > 0, wfull, 1.0), 0.0))
            ctx.close(tsd, mu, to * scu, "true S_d vs max|u| of response_series")
            ctx.close(tsv, mv, to * scu * wfull, "true S_v vs max|v| of response_series")
            amax = np.max(np.abs(ra), axis=1)
            tola = 2 * to * scu * wfull ** 2 * (1 + 2 * xi) + core.TINY
            near = np.abs(tsa - amax) <= tola
            bad = above & ~near[s:]
            if np.any(bad):
                j = int(np.argmax(bad))
                ctx.fail("true S_a[%d]=%r != max|a_total|=%r (T/dt=%r)" % (j, tsa[s + j], amax[s + j], ratios[j]))
            bad = amb & ~(near[s:] | (tsa[s:] == pga))
            ctx.check(not np.any(bad), "true S_a at T=6dt is neither max|a_total| nor PGA")
        if psd is not None:
            ctx.close(tsd, psd, to * np.maximum(psd, floor_u), "true S_d vs pseudo S_d")
            if xi == 0:
                d = np.abs(tsa[s:] - psa[s:]) <= 1e-8 * np.maximum(tsa[s:], psa[s:]) + core.TINY
                bad = above & ~d
                if np.any(bad):
                    j = int(np.argmax(bad))
                    ctx.fail("xi=0: true S_a %r != pseudo S_a %r (row %d)" % (tsa[s + j], psa[s + j], j))


# --- object API -----------------------------------------------------------------------------------------------------------

SCREEN_S = 3.0 if THOROUGH else 0.8  # all-rows differential against the array function when its estimated cost is below this


def _check_object(ctx, a, dt, P, xi, ratio, spectra, seed, what=""):
    """The object-API sentence of the statement for one reading of (s_d, s_v, s_a); the oracle of clause object-api with the exact
    reference in place of the library's array function on the sampled rows, and the array function as an all-rows screen."""
    a = np.asarray(a, dtype=float)
    n = len(a)
    P = np.asarray(P, dtype=float)
    s = 1 if P[0] == 0 else 0
    T = P[s:]
    name = "AccSignal" + what
    sd, sv, sa = _common_spectra_checks(ctx, name, spectra, len(P))
    pga = float(np.max(np.abs(a)))
    hstar = max(float(np.min(T)) / 20.0, dt / ratio)
    raw = [np.asarray(x) for x in sdof.pseudo_response_spectra(a, dt, P, xi)]
    if hstar >= dt:
        ctx.cls("no-interp")
        to = _tol_order(n)
        w0 = np.concatenate([np.zeros(s), 2 * np.pi / T])
        sc = np.concatenate([np.zeros(s), np.maximum(raw[0][s:], pga * np.minimum(dt * dt / 2, (T / (2 * np.pi)) ** 2))])
        ctx.close(sd, raw[0], to * sc, name + ".s_d vs array function on the raw record (no interpolation needed)")
        ctx.close(sv, raw[1], to * sc * w0 + REL_SV * raw[1], name + ".s_v vs array function on the raw record")
        ctx.close(sa, raw[2], np.where(raw[2] == pga, 0.0, to * sc * w0 ** 2 + REL_SA * raw[2]), name + ".s_a vs array function on the raw record")
        return 1
    ctx.cls("interp")
    kmin = int(math.ceil(dt / hstar * (1 - 1e-12)))
    idx = _sample_rows(len(T), REF_CELLS // (n * kmin), seed)
    found = None
    for k in _k_candidates(kmin):
        ak = _refined(a, k, True)
        u, _, su, _, tol = _exact_rows(ak, dt / k, T, xi, idx)
        au = np.abs(u)
        hi = np.max(au, axis=1).astype(float)
        lo = np.max(au[:, :(n - 1) * k + 1], axis=1).astype(float)  # causal: the record without the held tail is a prefix
        if np.all(sd[s + idx] >= lo - tol * su - core.TINY) and np.all(sd[s + idx] <= hi + tol * su + core.TINY):
            found = k
            break
    ctx.check(found is not None,
              "%s S_d at rows %r = %r is not the peak of the exact response of the record refined to any step dt/k, k in %r "
              "(h*=%.4g, dt=%.4g, min_dt_ratio=%r, %d samples, %d periods)" % (
                  name, idx[:6].tolist(), sd[s + idx][:6].tolist(), _k_candidates(kmin), hstar, dt, ratio, n, len(P)))
    ctx.cls("k=kmin" if found == kmin else "k>kmin")
    _pseudo_rules(ctx, name, T, dt, s, sd, sv, sa, pga, step=dt / found)
    dur = (n - 1) * dt
    w = 2 * np.pi / T
    su_all = np.maximum(raw[0][s:], pga * np.minimum(dt * dt / 2, 1.0 / w ** 2))
    tolr = np.minimum(ref.tol_c01(dur, T, dt, relaxed=True) * 2, _tol_lib_w(n, T, dt) + _tol_lib_w(n * found, T, dt / found))
    bad = ~(sd[s:] >= raw[0][s:] - tolr * su_all - core.TINY)
    if np.any(bad):
        j = int(np.argmax(bad))
        ctx.fail("%s S_d[%d]=%r below the raw-sample S_d %r" % (name, j, sd[s + j], raw[0][s + j]))
    if len(idx) < len(T) and n * found * _est_iter_s(len(P)) <= SCREEN_S:
        ctx.cls("all-rows-screen")
        lib = [np.asarray(x) for x in sdof.pseudo_response_spectra(_refined(a, found, True), dt / found, P, xi)]
        if not (np.array_equal(sd, lib[0]) and np.array_equal(sv, lib[1])):
            # some row differs from the array function at the step found on the sampled rows: decide by the oracle of clause
            # object-api on every row (sandwich between the array function without / with the held tail, 1e-9 of scale)
            ok2 = False
            for k in _k_candidates(kmin):
                lo = np.asarray(sdof.pseudo_response_spectra(_refined(a, k, False), dt / k, P, xi)[0])
                hi = lib[0] if k == found else np.asarray(sdof.pseudo_response_spectra(_refined(a, k, True), dt / k, P, xi)[0])
                slack = 1e-9 * su_all
                if np.all(sd[s:] >= np.minimum(lo, hi)[s:] - slack) and np.all(sd[s:] <= np.maximum(lo, hi)[s:] + slack):
                    ok2 = True
                    break
            bad = np.nonzero(sd != lib[0])[0]
            ctx.check(ok2, "%s S_d differs from the array function on the record refined %d x at %d rows (first %r: %r vs %r) and is not "
                           "the spectrum of the record integrated at any step dt/k, k in [%d, %d]" % (
                               name, found, len(bad), bad[:3].tolist(), sd[bad[:3]].tolist(), lib[0][bad[:3]].tolist(), kmin, 2 * kmin + 1))
    return found


def _object_ratios(case):
    p = int(case["p"])
    lo, hi = float(case["rlo"]), float(case["rhi"])
    return np.array([lo]) if p == 1 else np.geomspace(lo, hi, p)


def _object_case_list(tier):
    th = tier != "quick"
    tg = "t:" if th else ""
    cases = []
    vias = ["gen", "ctor", "cached-then-ratio", "gen", "gen-default-xi", "bare-ratio"]
    rlos = [0.47, 3.1, 7.4, 0.61, 12.9, 2.3]
    ks = [4, 8, 2]

    def add(kind, n, p, i, ratio, **kw):
        c = {"kind": kind, "n": int(n), "p": int(p), "seed": _hh(tg, "obj", kind, i, n, p) % (2 ** 31 - 1), "min_dt_ratio": ratio,
             "dt": _pick(MID_DTS, tg, "odt", kind, i), "xi": _pick([0.0] + MID_XIS, tg, "oxi", kind, i), "via": vias[i % len(vias)],
             "spike": MID_SPIKES[i % len(MID_SPIKES)], "lead0": bool(i % 2), "rlo": rlos[i % len(rlos)],
             "rhi": _pick([61.0, 290.0], tg, "orhi", kind, i)}
        c.update(kw)
        cases.append(c)

    for i, n in enumerate(gen.size_ladder(2000, 300000 if th else 30000, 14 if th else 6, tg + "c03:olen", mined_limit=2)):
        add("len", n, 6, i, ks[i % 3])
    for i, p in enumerate(gen.size_ladder(1, 9000 if th else 5000, 24 if th else 12, tg + "c03:oper", mined_limit=4)):
        add("periods", 120 + _hh(tg, "opn", i) % 300, p, i, [4, 8, 2, 1][i % 4])
    for j, k in enumerate(ks):
        pairs = gen.product_pairs(1e5 / k, (4e7 if th else 1.2e7) / k, 7 if th else 3, (4, 3000), (200, 100000 if th else 30000), tg + "c03:otri%d" % k)
        for i, (p, n) in enumerate(pairs):
            add("product", n, p, 3 * i + j, k, rlo=[0.47, 3.1, 0.61][i % 3])
    sz = gen.ladder(1500, 40000 if th else 9000, 8 if th else 3, tg + "c03:ohn")
    ps = gen.ladder(20, 1500 if th else 300, 8 if th else 3, tg + "c03:ohp")[::-1]
    for i, (n, p) in enumerate(zip(sz, ps)):
        add("history", n, p, i, [8, 2][i % 2], rlo=[0.47, 3.1][i % 2], p2=max(3, int(p * 0.6) + 1), xi=0.05)
    cases.sort(key=lambda c: -(4 if c["kind"] == "history" else 2) * c["n"] * c["min_dt_ratio"] * _est_iter_s(c["p"]))
    return cases


def _object_enum(tier, shard, nshards):
    return _shard(_object_case_list(tier), shard, nshards)


READ_ORDERS = [("s_d", "s_v", "s_a"), ("s_v", "s_a", "s_d"), ("s_a", "s_d", "s_v"), ("s_v", "s_d", "s_a"), ("s_a", "s_v", "s_d"), ("s_d", "s_a", "s_v")]


def _read_spectra(ctx, asig, key=0):
    """The three spectra read in a hash-chosen order (the first read triggers the lazy computation); every value is returned and checked."""
    return _read(ctx, asig, READ_ORDERS[int(key) % len(READ_ORDERS)])


@enum_clause(CLAUSES, "mid-range-object", _object_enum, quick_shards=4,
             rule="AccSignal spectra (constructor + lazy read, gen_response_spectrum with periods / xi / min_dt_ratio given or not, "
                  "generate_response_spectrum after a cached read) on (a) record-length ladder 2000..30000 (thorough 3e5) x 6 periods, "
                  "(b) 1..5000 (9000) ascending periods on 120-420 samples, (c) products samples x periods x sub-steps 1e5..1.2e7 (4e7) for "
                  "min_dt_ratio 2/4/8, (d) histories at 1500..9000 samples x 20..300 periods: lazy read, new min_dt_ratio without "
                  "periods, new (shorter) period list, new record - every reading checked; smallest period 0.47..12.9 dt so that "
                  "either term of the step rule decides; with and without leading 0",
             oracle="reference model: as object-api with the exact long-double series on the sampled rows (first/last, power-of-two "
                    "seams, hash-chosen): an integer k in [ceil(dt/h*), 2 ceil + 1] exists whose S_d sandwich [no tail, held tail] contains the "
                    "object's S_d within the C01 bound; S_v == w S_d, S_a in {w^2 S_d, PGA} by the 6-step rule and S_d >= raw S_d on all rows; "
                    "exact equality with the array function when h* >= dt; when affordable all rows are screened against the array function "
                    "on the refined record and rows that differ are decided by the object-api sandwich (1e-9)",
             exhaustive_note="the size ladders of this run (hash of VERIF_SEED), not the whole size range")
def mid_range_object(case, ctx):
    n, dt, xi, ratio, via = case["n"], case["dt"], case["xi"], case["min_dt_ratio"], case["via"]
    ratios = _object_ratios(case)
    T = ratios * dt
    if case["kind"] != "history":  # the smallest period anywhere in the list; list / tuple containers
        T = T[_perm({"order": ["asc", "shuffle", "desc", "shuffle"][case["seed"] % 4], "perm_seed": case["seed"]}, len(T))]
        ctx.cls("order=" + ["asc", "shuffle", "desc", "shuffle"][case["seed"] % 4])
    P = np.concatenate([[0.0], T]) if case["lead0"] else T.copy()
    Parg = _as_periods(P, ["ndarray", "list", "tuple"][(case["seed"] // 4) % 3]) if case["kind"] != "history" else P
    a = _mid_record(n, case["seed"], ratios, case["spike"])
    ctx.cls("kind=" + case["kind"], "n>=%d" % (10 ** int(math.log10(n))), "p>=%d" % (10 ** int(math.log10(len(P)))),
            "ratio=%d" % ratio, "lead0" if case["lead0"] else None)
    ctx.nt(True)
    if case["kind"] == "history":
        ctx.cls("cells>=1e%d" % int(math.log10(n * len(P) * ratio)))
        asig = ctx.lib(eqsig.AccSignal, a, dt, response_times=P)
        _check_object(ctx, a, dt, P, 0.05, 4, _read_spectra(ctx, asig, case["seed"]), case["seed"], " (lazy read)")
        ctx.lib(asig.generate_response_spectrum, xi=0.05, min_dt_ratio=ratio)
        _check_object(ctx, a, dt, P, 0.05, ratio, _read_spectra(ctx, asig, case["seed"] + 1), case["seed"] + 1, " (after min_dt_ratio=%d without periods)" % ratio)
        P2 = P[:1 + case["p2"]] if case["lead0"] else P[1:1 + case["p2"]]  # another (shorter) ascending list with another smallest period
        asig.response_times = P2
        # lazy read after the explicit request: the default ratio 4 is promised; a finer step is admissible ('no coarser than')
        _check_object(ctx, a, dt, P2, 0.05, 4, _read_spectra(ctx, asig, case["seed"] + 2), case["seed"] + 2, " (lazy read after new response_times)")
        a2 = _mid_record(n + 7, case["seed"] + 5, ratios, "mid")
        ctx.lib(asig.reset_values, a2)
        _check_object(ctx, a2, dt, P2, 0.05, 4, _read_spectra(ctx, asig, case["seed"] + 3), case["seed"] + 3, " (lazy read after reset_values)")
        return
    ctx.cls("via=" + via)
    if via == "ctor":
        ratio, xi = 4, 0.05
        asig = ctx.lib(eqsig.AccSignal, a, dt, response_times=Parg)
    elif via == "gen":
        asig = ctx.lib(eqsig.AccSignal, a, dt)
        ctx.lib(asig.gen_response_spectrum, response_times=Parg, xi=xi, min_dt_ratio=ratio)
    elif via == "cached-then-ratio":
        asig = ctx.lib(eqsig.AccSignal, a, dt, response_times=Parg)
        first = _read_spectra(ctx, asig, case["seed"])  # the lazily computed values are looked at (rules on all rows; cheap)
        fs = 1 if case["lead0"] else 0
        _pseudo_rules(ctx, "AccSignal (lazy read)", T, dt, fs, *_common_spectra_checks(ctx, "AccSignal (lazy read)", first, len(P)),
                      float(np.max(np.abs(a))), step=dt / 64.0)
        rawl = np.asarray(sdof.pseudo_response_spectra(a, dt, P, 0.05)[0])
        ctx.check(bool(np.all(first[0] >= rawl * (1 - 1e-6))), "AccSignal (lazy read) S_d below the raw-sample S_d")
        ctx.lib(asig.generate_response_spectrum, xi=xi, min_dt_ratio=ratio)
    elif via == "bare-ratio":  # periods from the constructor, damping default, only the ratio given
        xi = 0.05
        asig = ctx.lib(eqsig.AccSignal, a, dt, response_times=Parg)
        ctx.lib(asig.gen_response_spectrum, min_dt_ratio=ratio)
    else:
        xi = 0.05
        asig = ctx.lib(eqsig.AccSignal, a, dt)
        ctx.lib(asig.generate_response_spectrum, response_times=Parg, min_dt_ratio=ratio)
    hstar = max(float(np.min(T)) / 20.0, dt / ratio)
    sub = 1 if hstar >= dt else int(math.ceil(dt / hstar * (1 - 1e-12)))
    ctx.cls("cells>=1e%d" % int(math.log10(n * len(P) * sub)), "substeps=%d" % sub)
    _check_object(ctx, a, dt, P, xi, ratio, _read_spectra(ctx, asig, case["seed"] + 1), case["seed"])


# --- energy spectra and spectrum intensities ------------------------------------------------------------------------------

def _energy_oracle(ctx, a, dt, T, xi, seed, e_end=None, e_ser=None, uke=None):
    """The energy sentence of the statement (oracle of clause energy) on every row and every sample: defining sums over the
    library's own velocity series in long double, row chunks; the exact velocity on the sampled rows."""
    n = len(a)
    T = np.asarray(T, dtype=float)
    p = len(T)
    if e_end is not None:
        e_end = np.asarray(e_end)
        ctx.shape(e_end, (p,), "input energy spectrum")
    if e_ser is not None:
        e_ser = np.asarray(e_ser)
        ctx.shape(e_ser, (p, n), "input energy series")
    if uke is not None:
        uke = np.asarray(uke)
        ctx.shape(uke, (p,), "kinetic energy spectrum")
        ctx.check(bool(np.all(uke >= 0)), "kinetic energy spectrum negative")
    _, rv, _ = sdof.response_series(a, dt, T, xi)
    rv = np.asarray(rv)
    ald = a.astype(LD)[None, :]
    sabs_all = np.zeros(p)
    for i0, i1 in _row_chunks(p, n, 5.0e5):
        terms = ald * rv[i0:i1].astype(LD) * LD(dt)
        sabs = np.sum(np.abs(terms), axis=1).astype(float)
        sabs_all[i0:i1] = sabs
        tol = EPS * (n + 8) * sabs
        if e_ser is not None:
            run = np.cumsum(terms, axis=1)
            ctx.close(e_ser[i0:i1], run, tol[:, None] + np.zeros((1, n)), "input energy series vs running sum a_i v_i dt (rows %d..)" % i0)
            last = run[:, -1]
        else:
            last = np.sum(terms, axis=1)
        if e_end is not None:
            ctx.close(e_end[i0:i1], last, tol, "input energy vs sum a_i v_i dt (rows %d..)" % i0)
        if uke is not None:
            ke = rv[i0:i1].astype(LD) ** 2 / 2
            uref = np.sum(np.abs(np.diff(ke, axis=1)), axis=1)
            ctx.close(uke[i0:i1], uref, EPS * (n + 8) * np.sum(np.abs(ke), axis=1).astype(float) * 4,
                      "kinetic energy spectrum vs sum |delta(v^2/2)| (rows %d..)" % i0)
    if e_end is not None:
        idx = _sample_rows(p, REF_CELLS // n, seed)
        _, v, _, sv, tol = _exact_rows(a, dt, T, xi, idx)
        eref = np.sum(ald * v * LD(dt), axis=1)
        ctx.close(e_end[idx], eref, tol * sv * float(np.sum(np.abs(a))) * dt + EPS * (n + 8) * sabs_all[idx],
                  "input energy vs sum over the exact velocity series")
        neg = e_end < -(EPS * (n + 8) * sabs_all) - core.TINY
        if np.any(neg):
            j = int(np.argmax(neg))
            if ctx.kf("C03-KF1"):
                ctx.check(bool(np.all(e_end >= -sabs_all * (1 + 1e-12))), "input energy below -sum|a_i v_i|dt")
            else:
                ctx.fail("input energy at the end of the record is negative: E=%r for T/dt=%r, xi=%r (sum|a_i v_i|dt=%r)" % (
                    float(e_end[j]), float(T[j] / dt), xi, float(sabs_all[j])))


def _si_oracle(ctx, a, dt, xi, pa, pv, asi=None, vsi=None):
    """calc_asi / calc_vsi == max of 0.01 * cumulative trapezoid of the pseudo spectrum (/9.81); long-double sums,
    tolerance eps * (number of periods + 8) * value (all terms are non-negative)."""
    for name, got, per, col, div in (("calc_asi", asi, pa, 2, 9.81), ("calc_vsi", vsi, pv, 1, 1.0)):
        if got is None:
            continue
        y = np.abs(np.asarray(sdof.pseudo_response_spectra(a, dt, per, xi)[col])).astype(LD)
        want = float(np.max(LD(0.01) * np.cumsum((y[1:] + y[:-1]) / 2))) / div if len(y) > 1 else None
        ctx.check(want is not None, "intensity over a single period is undefined")
        ctx.check(abs(got - want) <= EPS * (len(y) + 8) * want + 1e-12 * want * 0 + core.TINY, "%s %r != %r (%d periods)" % (name, got, want, len(y)))


def _energy_case_list(tier):
    th = tier != "quick"
    tg = "t:" if th else ""
    cases = []

    def add(kind, n, p, i, fns, **kw):
        c = {"kind": kind, "n": int(n), "p": int(p), "fns": list(fns), "seed": _hh(tg, "en", kind, i, n, p) % (2 ** 31 - 1),
             "dt": _pick(MID_DTS, tg, "edt", kind, i), "xi": _pick([0.0] + MID_XIS, tg, "exi", kind, i),
             "spike": MID_SPIKES[i % len(MID_SPIKES)], "periods_arg": ["explicit", "attribute"][i % 2]}
        c.update(kw)
        cases.append(c)

    for i, n in enumerate(gen.size_ladder(2000, 600000 if th else 70000, 18 if th else 7, tg + "c03:elen", mined_limit=2 if th else 1)):
        if 4 * n * _est_iter_s(6) <= 2.0:
            add("len", n, 5, i, ["end", "series", "uke"], template=True)
        else:
            add("len", n, 5, i, ["end", "series"], template=True)
            add("len", n, 5, i, ["uke"], template=True)
    for i, p in enumerate(gen.size_ladder(1, 9000 if th else 5000, 24 if th else 12, tg + "c03:eper", mined_limit=4)):
        add("periods", 150 + _hh(tg, "epn", i) % 300, p, i, ["end", "series", "uke"], rlo=_pick([0.53, 2.1, 7.7], tg, "erlo", i),
            rhi=_pick([61.0, 290.0], tg, "erhi", i))
    pairs = gen.product_pairs(1e5, 3e7 if th else 8e6, 16 if th else 7, (6, 4000), (300, 150000 if th else 30000), tg + "c03:eprod")
    for i, (p, n) in enumerate(pairs):
        kw = dict(rlo=_pick([0.53, 2.1], tg, "eprlo", i), rhi=_pick([61.0, 290.0], tg, "eprhi", i))
        if 4 * n * _est_iter_s(p) <= 2.0:
            add("product", n, p, i, ["end", "series", "uke"], **kw)
        else:
            add("product", n, p, i, ["end", "series"], **kw)
            add("product", n, p, i, ["uke"], **kw)
    # spectrum intensities: default period grids over a record-length ladder; custom grids (step 0.01 s) over a period-count ladder
    for i, n in enumerate(gen.size_ladder(2000, 300000 if th else 30000, 12 if th else 4, tg + "c03:silen", mined_limit=1)):
        add("si", n, 0, i, ["asi", "vsi"], dt=_pick([0.01, 0.005, 0.02], tg, "sidt", i), xi=_pick([0.05, 0.0, 0.2], tg, "sixi", i))
    for i, p in enumerate(gen.size_ladder(2, 6000 if th else 3000, 18 if th else 9, tg + "c03:siper", mined_limit=3)):
        add("si", 150 + _hh(tg, "sipn", i) % 300, p, i, ["asi", "vsi"], dt=_pick([0.01, 0.005, 0.02], tg, "sipdt", i),
            xi=_pick([0.05, 0.0, 0.2], tg, "sipxi", i), p0=_pick([0.05, 0.1, 0.013, 0.31], tg, "sip0", i))
    cases.sort(key=lambda c: -(len(c["fns"]) + 1) * c["n"] * _est_iter_s(c["p"] or 200))
    return cases


def _energy_enum(tier, shard, nshards):
    return _shard(_energy_case_list(tier), shard, nshards)


@enum_clause(CLAUSES, "mid-range-energy", _energy_enum, quick_shards=4,
             rule="calc_input_energy_spectrum (end value and series) / calc_resp_uke_spectrum on (a) record-length ladder 2000..70000 "
                  "(thorough 6e5) x 5 periods, (b) 1..5000 (9000) periods on 150-450 samples, (c) products periods x samples 1e5..8e6 (3e7); "
                  "periods explicit or from the signal; calc_asi / calc_vsi on default grids x record-length ladder 2000..30000 (3e5) and on "
                  "custom grids of 2..3000 (6000) periods; burst records as in mid-range",
             oracle="reference model: every row and every sample of the input-energy series == running sum a_i v_i dt, end value == its "
                    "total, kinetic-energy spectrum == sum |delta(v^2/2)| over the library's own velocity series in long double "
                    "(eps (n+8) sum|terms|); sampled rows vs the exact velocity (C01 bound); end value >= 0 (C03-KF1 routed); differential: "
                    "intensities == max(0.01 * cumulative trapezoid of pseudo_response_spectra) in long double (eps (periods+8))",
             exhaustive_note="the size ladders of this run (hash of VERIF_SEED), not the whole size range")
def mid_range_energy(case, ctx):
    n, dt, xi, fns = case["n"], case["dt"], case["xi"], case["fns"]
    ctx.cls("kind=" + case["kind"], "n>=%d" % (10 ** int(math.log10(n))), "xi=0" if xi == 0 else None, *["fn=" + f for f in fns])
    ctx.nt(True)
    if case["kind"] == "si":
        if case["p"]:
            pa = pv = case["p0"] + 0.01 * np.arange(case["p"])
            kw = {"periods": pa}
            ctx.cls("custom-periods", "p>=%d" % (10 ** int(math.log10(case["p"]))))
        else:
            pa, pv, kw = np.arange(0.1, 1.51, 0.01), np.arange(0.1, 2.51, 0.01), {}
            ctx.cls("default-periods")
        a = _mid_record(n, case["seed"], pv / dt, case["spike"])
        asig = eqsig.AccSignal(a, dt)
        _si_oracle(ctx, a, dt, xi, pa, pv, asi=ctx.lib(im.calc_asi, asig, xi=xi, **kw), vsi=ctx.lib(im.calc_vsi, asig, xi=xi, **kw))
        return
    ratios = _mid_ratios(case)
    T = ratios * dt
    ctx.cls("p>=%d" % (10 ** int(math.log10(len(T)))), "cells>=1e%d" % int(math.log10(n * len(T))), "periods=" + case["periods_arg"])
    a = _mid_record(n, case["seed"], ratios, case["spike"])
    if case["periods_arg"] == "explicit":
        asig = eqsig.AccSignal(a, dt)
        kw = {"periods": T}
    else:
        asig = eqsig.AccSignal(a, dt, response_times=T)
        kw = {}
    e_end = ctx.lib(sdof.calc_input_energy_spectrum, asig, xi=xi, **kw) if "end" in fns else None
    e_ser = ctx.lib(sdof.calc_input_energy_spectrum, asig, xi=xi, series=True, **kw) if "series" in fns else None
    uke = ctx.lib(sdof.calc_resp_uke_spectrum, asig, xi=xi, **kw) if "uke" in fns else None
    _energy_oracle(ctx, a, dt, T, xi, case["seed"], e_end=e_end, e_ser=e_ser, uke=uke)


# --- option interactions ----------------------------------------------------------------------------------------------------

def _option_case_list(tier):
    th = tier != "quick"
    tg = "t:" if th else ""
    cases = []
    i = 0
    reps = 3 if th else 1
    for rep in range(reps):
        for size in (0, 1):
            # energy spectra: periods (signal attribute | explicit) x xi (omitted | given) x series (omitted | False | True)
            for per in ("attribute", "explicit"):
                for xi in (None, 0.0, 0.2):
                    for series in (None, False, True, "uke"):
                        i += 1
                        cases.append({"what": "energy", "periods_arg": per, "xi": xi, "series": series, "i": i,
                                      "n": [230, 1500][size] + _hh(tg, "optn", i) % 400, "p": [12, 90][size] + _hh(tg, "optp", i) % 30})
            # intensities: xi (omitted | given) x periods (omitted | given)
            for xi in (None, 0.0, 0.2):
                for per in ("default", "custom"):
                    i += 1
                    cases.append({"what": "si", "periods_arg": per, "xi": xi, "i": i, "n": [260, 3300][size] + _hh(tg, "optn", i) % 400,
                                  "p": [9, 260][size] + _hh(tg, "optp", i) % 40})
            # object: periods (constructor list | constructor range | default range | given to the call) x xi (omitted | given) x
            # min_dt_ratio (omitted | 1 | 2 | 8) x spelling (gen_ / generate_)
            for per in ("ctor-list", "ctor-range", "default-range", "given"):
                for xi in (None, 0.0, 0.2):
                    for ratio in (None, 1, 2, 8):
                        i += 1
                        if size == 1 and (_hh(tg, "optsel", i) % 3):
                            continue
                        cases.append({"what": "object", "periods_arg": per, "xi": xi, "min_dt_ratio": ratio, "i": i,
                                      "call": ["gen_response_spectrum", "generate_response_spectrum"][_hh(tg, "optcall", i) % 2],
                                      "n": [180, 1300][size] + _hh(tg, "optn", i) % 300, "p": [7, 60][size] + _hh(tg, "optp", i) % 20,
                                      "lead0": bool(_hh(tg, "optl0", i) % 2) and per in ("ctor-list", "given")})
    for c in cases:
        c["seed"] = _hh(tg, "opt", c["i"]) % (2 ** 31 - 1)
        c["dt"] = _pick([0.01, 0.02, 0.04] if c["what"] == "object" else [0.01, 0.005, 0.02], tg, "optdt", c["i"])
        c["spike"] = MID_SPIKES[c["i"] % len(MID_SPIKES)]
    return cases


def _option_enum(tier, shard, nshards):
    return _shard(_option_case_list(tier), shard, nshards)


@enum_clause(CLAUSES, "mid-range-options", _option_enum, quick_shards=4,
             rule="cross product of the optional arguments at two sizes (200-600 and 1300-3700 samples; 7-40 and 60-300 periods; the larger size for a hash-chosen third of the object combinations): "
                  "calc_input_energy_spectrum periods (attribute | explicit) x xi (omitted | 0 | 0.2) x series (omitted | False | True) and "
                  "calc_resp_uke_spectrum periods x xi; calc_asi / calc_vsi xi (omitted | 0 | 0.2) x periods (omitted | custom grid); "
                  "gen_response_spectrum / generate_response_spectrum periods (constructor list | constructor response_period_range | "
                  "default range | given) x xi (omitted | 0 | 0.2) x min_dt_ratio (omitted | 1 | 2 | 8), with and without leading 0",
             oracle="the oracles of mid-range-energy and mid-range-object with the documented defaults (xi 0.05, min_dt_ratio 4, "
                    "100 periods linearly spaced over response_period_range, default (0.1, 5))",
             exhaustive_note="the listed cross products at the two sizes")
def mid_range_options(case, ctx):
    n, dt, xi, what = case["n"], case["dt"], case["xi"], case["what"]
    xi_eff = 0.05 if xi is None else xi
    ctx.cls("what=" + what, "periods=" + case["periods_arg"], "xi=omitted" if xi is None else "xi=given", "n>=1000" if n >= 1000 else "n<1000")
    ctx.nt(True)
    if what == "energy":
        ratios = np.geomspace(0.53, 61.0, case["p"])
        T = ratios * dt
        a = _mid_record(n, case["seed"], ratios, case["spike"])
        kw = {}
        cont = ["ndarray", "list", "tuple"][case["i"] % 3]
        ctx.cls("container=" + cont)
        if case["periods_arg"] == "explicit":
            asig = eqsig.AccSignal(a, dt)
            kw["periods"] = _as_periods(T, cont)
        else:
            asig = eqsig.AccSignal(a, dt, response_times=_as_periods(T, cont))
        if xi is not None:
            kw["xi"] = xi
        series = case["series"]
        ctx.cls("series=%s" % series)
        if series == "uke":
            _energy_oracle(ctx, a, dt, T, xi_eff, case["seed"], uke=ctx.lib(sdof.calc_resp_uke_spectrum, asig, **kw))
            return
        if series is not None:
            kw["series"] = series
        out = ctx.lib(sdof.calc_input_energy_spectrum, asig, **kw)
        if series:
            _energy_oracle(ctx, a, dt, T, xi_eff, case["seed"], e_ser=out)
        else:
            _energy_oracle(ctx, a, dt, T, xi_eff, case["seed"], e_end=out)
        return
    if what == "si":
        kw = {}
        if case["periods_arg"] == "custom":
            pa = pv = 0.05 + 0.01 * np.arange(case["p"])
            kw["periods"] = _as_periods(pa, ["ndarray", "list", "tuple"][case["i"] % 3])
        else:
            pa, pv = np.arange(0.1, 1.51, 0.01), np.arange(0.1, 2.51, 0.01)
        if xi is not None:
            kw["xi"] = xi
        a = _mid_record(n, case["seed"], pv / dt, case["spike"])
        asig = eqsig.AccSignal(a, dt)
        _si_oracle(ctx, a, dt, xi_eff, pa, pv, asi=ctx.lib(im.calc_asi, asig, **kw), vsi=ctx.lib(im.calc_vsi, asig, **kw))
        return
    ratio = case["min_dt_ratio"]
    ratio_eff = 4 if ratio is None else ratio
    ctx.cls("ratio=omitted" if ratio is None else "ratio=%d" % ratio, "call=" + case["call"], "lead0" if case["lead0"] else None)
    per = case["periods_arg"]
    kw = {}
    Pc = None
    if per in ("ctor-list", "given"):
        T = np.geomspace([0.47, 3.1, 7.4][case["i"] % 3], 61.0, case["p"]) * dt
        T = T[_perm({"order": ["shuffle", "asc", "desc"][case["seed"] % 3], "perm_seed": case["seed"]}, len(T))]
        P = np.concatenate([[0.0], T]) if case["lead0"] else T
        Pc = _as_periods(P, ["list", "ndarray", "tuple"][(case["seed"] // 3) % 3])
    elif per == "ctor-range":
        lo = [0.013, 0.05, 0.31][case["i"] % 3]
        P = np.linspace(lo, lo + 1.7, 100)
    else:
        P = np.linspace(0.1, 5, 100)
    a = _mid_record(n, case["seed"], P[P > 0] / dt, case["spike"])
    if per == "ctor-list":
        asig = ctx.lib(eqsig.AccSignal, a, dt, response_times=Pc)
    elif per == "ctor-range":
        asig = ctx.lib(eqsig.AccSignal, a, dt, response_period_range=(float(P[0]), float(P[-1])))
    else:
        asig = ctx.lib(eqsig.AccSignal, a, dt)
        if per == "given":
            kw["response_times"] = Pc
    if xi is not None:
        kw["xi"] = xi
    if ratio is not None:
        kw["min_dt_ratio"] = ratio
    ctx.lib(getattr(asig, case["call"]), **kw)
    _check_object(ctx, a, dt, P, xi_eff, ratio_eff, _read_spectra(ctx, asig, case["seed"]), case["seed"])
