"""C03 - response spectra are peak responses with consistent pseudo-spectral relations."""
import math
from fractions import Fraction

import numpy as np
from hypothesis import strategies as st
from scipy.integrate import cumulative_trapezoid

import eqsig
from eqsig import sdof, im

from pbt import core, gen
from pbt.core import clause, enum_clause
from pbt.ref import sdof as ref

PROPERTY = "C03"
CLAUSES = []
ASSUMPTIONS = [
    "domain as C01; records are ndarrays (pseudo_response_spectra documents 'array floats'); n <= 1500 (quick <= 500)",
    "'below 6 time steps' is decided in exact rational arithmetic on the doubles T and dt: a period of exactly six steps (6*dt "
    "representable) is not below; periods within 8 eps (relative) of 6*dt, where the rounding of dt*6 or T/dt decides, are ambiguous and "
    "accept either branch (the first version used a 1e-9 band, which hid a '<=' for '<' at exactly six steps)",
    "spectra vs the exact reference use the C01 tolerance on the robust scale, with the 16*eps/(w dt)^3 rounding term for "
    "T/dt >= 1000 (consequence of C01-KF1, recorded under C01); equality with the library's own series is asserted exactly",
    "the exact reference is evaluated for w = 6.2831853/T, the angular frequency the library's series use: C03 relates spectra to "
    "the (C01) series; the effect of the truncated constant itself is C01's business (known finding C01-KF2)",
    "object API: response period lists are ascending (every caller in the repo passes ascending lists; the code takes the first "
    "non-zero entry as the minimum); for the object the integration step h=dt/k replaces dt in the 6-step rule, so S_a may be "
    "either w^2 S_d or PGA for 6h <= T < 6dt",
    "object API oracle: exists integer k >= dt/h* (searched up to 2*ceil+1) with S_d in [S_d(record refined k x), S_d(refined k x, "
    "last value held k-1 samples)] +- 1e-9 of scale: the statement fixes only 'no coarser than'",
    "input energy >= 0 is asserted strictly; open known finding C03-KF1 (rectangle-rule sum is not sign-definite) routes cases whose "
    "energy equals the defining sum but is negative",
]
EPS = np.finfo(float).eps
LD = np.longdouble
MAX_N = 500 if core.tier() == "quick" else 1500


@st.composite
def _cases(draw, max_n=None, max_p=8, containers=("ndarray",)):
    spec = draw(gen.record_specs(min_n=2, max_n=max_n or MAX_N, allow_int=["view", "negstride", "readonly"]))
    c = {"rec": spec, "dt": draw(gen.dts(1e-4, 3.0)), "xi": draw(gen.xis()),
         "lead0": draw(st.integers(0, 3)) == 0, "container": draw(st.sampled_from(list(containers)))}
    # periods straddling 6*dt: mix of a log-uniform family and a family concentrated around 6
    around6 = st.one_of(gen.log_uniform(2.0, 20.0), st.sampled_from([5.999, 6.0, 6.001, 5.5, 6.5]))
    c["ratios"] = draw(st.lists(st.one_of(gen.log_uniform(0.2, 2e4), around6), min_size=1, max_size=max_p))
    if draw(st.integers(0, 9)) == 3:
        # a period of EXACTLY six steps (dyadic dt, so that 6*dt is representable): 'below 6 time steps' does not include it
        c["dt"] = draw(st.sampled_from([1.0, 0.5, 0.25, 0.125, 0.0078125, 2.0]))
        c["ratios"] = c["ratios"][:max_p - 1] + [6.0]
    if draw(st.integers(0, 4)) == 0:
        # integer-typed periods (python ints / integer ndarray), as the repo's own test passes ([0, 2, 4]): dt chosen so that
        # T/dt stays inside the quantifier
        c["dt"] = draw(st.sampled_from([1.0, 0.5, 0.25, 0.1, 0.05]))
        ints = draw(st.lists(st.integers(1, 60), min_size=1, max_size=max_p))
        c["int_periods"] = ints
        c["ratios"] = [t / c["dt"] for t in ints]
    return c


def _T(case):
    if case.get("int_periods"):
        return np.array([float(t) for t in case["int_periods"]])
    T = np.array([float(r) * case["dt"] for r in case["ratios"]])
    if case.get("container") == "float32":
        T = T.astype(np.float32).astype(float)  # the single-precision roundings are the periods that were asked for
    return T


def _periods(case):
    if case.get("int_periods"):
        T = [int(t) for t in case["int_periods"]]
        if case["lead0"]:
            T = [0] + T
    else:
        T = list(_T(case))
        if case["lead0"]:
            T = [0.0] + T
    k = case.get("container", "ndarray")
    if k == "float32" and not case.get("int_periods"):
        return np.array(T, dtype=np.float32)  # e.g. periods read from a single-precision file
    return np.array(T) if k in ("ndarray", "float32") else (list(T) if k == "list" else tuple(T))


def _cls(ctx, case, a):
    r = np.array(case["ratios"])
    ctx.cls(gen.size_class(len(a)), "T<6dt" if np.any(r < 6 * (1 - 1e-9)) else None, "T>6dt" if np.any(r > 6 * (1 + 1e-9)) else None,
            "both-sides-of-6dt" if (np.any(r < 5.99) and np.any(r > 6.01)) else None,
            "lead0" if case["lead0"] else None, "xi=0" if case["xi"] == 0 else None, "periods=" + case.get("container", "ndarray"),
            "int-periods" if case.get("int_periods") else None, "int-periods+lead0" if case.get("int_periods") and case["lead0"] else None)


def _band(r, T=None, dt=None):
    """ambiguous / below / above the 6-step rule.  With the period and the step given, the comparison is made in exact rational
    arithmetic on the two doubles: a period of exactly six steps (6*dt representable) is 'not below'; only periods within a few ulp
    of 6*dt - where rounding of the product or the quotient decides - are ambiguous."""
    if T is None:
        if abs(r / 6.0 - 1.0) < 1e-9:
            return "amb"
        return "below" if r < 6 else "above"
    t, six = Fraction(float(T)), 6 * Fraction(float(dt))
    if t == six and Fraction(float(dt) * 6.0) == six:
        return "above"
    if abs(t - six) <= Fraction(8 * np.finfo(float).eps) * six:
        return "amb"
    return "below" if t < six else "above"


@clause(CLAUSES, "sd-is-peak", _cases(), quick=700, thorough=1800,
        rule="records of all kinds, 1-8 periods (log-uniform on [0.2,2e4]*dt mixed with a family around 6*dt), optional leading 0; "
             "non-trivial = spectrum not identically zero and periods on both sides of 6*dt",
        oracle="differential: S_d/S_v/S_a(true) == max|.| of response_series rows (exact); reference model: S_d, true S_v vs the "
               "long-double exact series within the C01 bound; true S_a == pseudo S_a at xi=0 (1e-8)",
        require={"both-sides-of-6dt": 0.2}, min_nontrivial=0.15)
def sd_is_peak(case, ctx):
    a = gen.build(case["rec"])
    dt, xi = case["dt"], case["xi"]
    _cls(ctx, case, a)
    P = _periods(case)
    T = _T(case)
    s = 1 if case["lead0"] else 0
    n = len(a)
    r = np.array(case["ratios"], dtype=float)
    ctx.nt(bool(np.any(a) and np.any(r < 5.99) and np.any(r > 6.01)))
    ru, rv, ra = ctx.lib(sdof.response_series, a, dt, P, xi)
    arg = gen.as_container(case["rec"], a)  # memory-layout variant of the same float64 record
    if case["rec"].get("as"):
        ctx.cls("as=" + case["rec"]["as"])
    psd, psv, psa = [np.asarray(x) for x in ctx.lib(sdof.pseudo_response_spectra, arg, dt, P, xi)]
    tsd, tsv, tsa = [np.asarray(x) for x in ctx.lib(sdof.true_response_spectra, arg, dt, np.asarray(P), xi)]
    ctx.equal(psd, np.max(np.abs(ru), axis=1), "pseudo S_d vs max|u| of response_series")
    ctx.equal(tsd, np.max(np.abs(ru), axis=1), "true S_d vs max|u| of response_series")
    ctx.equal(tsv, np.max(np.abs(rv), axis=1), "true S_v vs max|v| of response_series")
    pga = float(np.max(np.abs(a)))
    amax = np.max(np.abs(ra), axis=1)
    for j in range(len(T)):
        b = _band(r[j], T[j], dt)
        if b == "amb":
            ctx.amb()
            ctx.check(tsa[s + j] in (amax[s + j], pga), "true S_a at T=6dt is neither max|a_total| nor PGA")
        elif b == "above":
            ctx.check(tsa[s + j] == amax[s + j], "true S_a[%d]=%r != max|a_total|=%r (T/dt=%r)" % (j, tsa[s + j], amax[s + j], r[j]))
            if xi == 0:
                ctx.check(abs(tsa[s + j] - psa[s + j]) <= 1e-8 * max(tsa[s + j], psa[s + j]) + core.TINY,
                          "xi=0: true S_a %r != pseudo S_a %r" % (tsa[s + j], psa[s + j]))
        else:
            ctx.check(tsa[s + j] == pga, "true S_a[%d]=%r != PGA %r for T/dt=%r < 6" % (j, tsa[s + j], pga, r[j]))
    if s:
        ctx.check(tsa[0] == pga and psa[0] == pga, "S_a(T=0) != PGA")
        ctx.check(psd[0] == 0 and tsd[0] == 0 and tsv[0] == 0 and psv[0] == 0, "S_d/S_v(T=0) != 0")
    # against the exact series (for the angular frequency the library uses, see ASSUMPTIONS)
    u, v = ref.response(a, dt, ref.library_periods(T), xi)
    su, sv, _, _ = ref.robust_scales(a, dt, T, u, v)
    dur = (n - 1) * dt
    tol = np.where(r >= 1000, ref.tol_c01(dur, T, dt, relaxed=True), ref.tol_c01(dur, T, dt))
    ctx.close(psd[s:], np.max(np.abs(u), axis=1).astype(float), tol * su, "S_d vs peak of the exact displacement")
    ctx.close(tsv[s:], np.max(np.abs(v), axis=1).astype(float), tol * sv, "true S_v vs peak of the exact velocity")


@clause(CLAUSES, "pseudo-relations", _cases(containers=("ndarray", "list", "tuple", "ndarray", "list", "tuple", "float32")), quick=800, thorough=1800,
        rule="same generator, periods as ndarray/list/tuple; non-trivial = non-zero record with periods on both sides of 6*dt",
        oracle="reference model: S_v == (2pi/T) S_d, S_a == (2pi/T)^2 S_d (1e-12 rel) for T >= 6dt; S_a == max|record| exactly for T < 6dt "
               "and T=0; all outputs finite, >= 0, shape (len(periods),)",
        require={"both-sides-of-6dt": 0.2, "periods=list": 0.15, "int-periods+lead0": 0.02}, min_nontrivial=0.15)
def pseudo_relations(case, ctx):
    a = gen.build(case["rec"])
    dt, xi = case["dt"], case["xi"]
    _cls(ctx, case, a)
    P = _periods(case)
    T = _T(case)
    s = 1 if case["lead0"] else 0
    r = T / dt if case.get("container") == "float32" else np.array(case["ratios"], dtype=float)
    ctx.nt(bool(np.any(a) and np.any(r < 5.99) and np.any(r > 6.01)))
    pga = float(np.max(np.abs(a)))
    for fname, f in (("pseudo_response_spectra", sdof.pseudo_response_spectra), ("true_response_spectra", sdof.true_response_spectra)):
        out = ctx.lib(f, a, dt, P, xi)
        ctx.check(len(out) == 3, "%s does not return three spectra" % fname)
        for name, x in zip(("S_d", "S_v", "S_a"), out):
            x = np.asarray(x)
            ctx.shape(x, (len(P),), "%s %s" % (fname, name))
            ctx.finite(x, "%s %s" % (fname, name))
            ctx.check(bool(np.all(x >= 0)), "%s %s has negative entries" % (fname, name))
        sd, sv_, sa_ = [np.asarray(x) for x in out]
        if s:
            ctx.check(sd[0] == 0 and sa_[0] == pga, "%s at T=0: S_d=%r S_a=%r (PGA %r)" % (fname, sd[0], sa_[0], pga))
        for j in range(len(T)):
            b = _band(r[j], T[j], dt)
            if b == "below":
                ctx.check(sa_[s + j] == pga, "%s S_a[%d]=%r != PGA=%r for T/dt=%r" % (fname, j, sa_[s + j], pga, r[j]))
        if fname.startswith("pseudo"):
            w = 2 * np.pi / T
            ctx.close(sv_[s:], w * sd[s:], 1e-12 * w * sd[s:], "pseudo S_v vs w*S_d")
            for j in range(len(T)):
                b = _band(r[j], T[j], dt)
                ctx.cls("T==6dt-exactly" if Fraction(float(T[j])) == 6 * Fraction(float(dt)) else None)
                want = w[j] ** 2 * sd[s + j]
                if b == "above":
                    ctx.check(abs(sa_[s + j] - want) <= 1e-12 * want + core.TINY, "pseudo S_a[%d]=%r != w^2 S_d=%r (T/dt=%r)" % (j, sa_[s + j], want, r[j]))
                elif b == "amb":
                    ctx.amb()
                    ctx.check(sa_[s + j] == pga or abs(sa_[s + j] - want) <= 1e-12 * want, "pseudo S_a at T=6dt is neither w^2 S_d nor PGA")


# ---------------------------------------------------------------------------

@st.composite
def _obj_cases(draw):
    spec = draw(gen.record_specs(min_n=2, max_n=160, small_max=40))
    dt = draw(gen.dts(1e-3, 1.0))
    # T_min/dt decides whether interpolation happens: h* = max(Tmin/20, dt/ratio) < dt  <=>  Tmin < 20 dt (and ratio > 1)
    first = draw(st.one_of(gen.log_uniform(0.3, 19.0), gen.log_uniform(19.0, 400.0)))
    steps = draw(st.lists(gen.log_uniform(1.01, 8.0), min_size=0, max_size=4))
    ratios = [first]
    for m in steps:
        ratios.append(ratios[-1] * m)
    return {"rec": spec, "dt": dt, "ratios": ratios, "lead0": draw(st.integers(0, 3)) == 0,
            "min_dt_ratio": draw(st.sampled_from([1, 2, 4, 8])), "xi": draw(st.sampled_from([0.05, 0.0, 0.2, 0.5])),
            "via": draw(st.sampled_from(["ctor", "gen", "gen-default-xi", "cached-then-ratio", "cached-then-ratio"]))}


def _refined(a, k, hold):
    n = len(a)
    if hold:
        t = np.arange(n * k) / float(k)
    else:
        t = np.arange((n - 1) * k + 1) / float(k)
    return np.interp(t, np.arange(n), a)


@clause(CLAUSES, "object-api", _obj_cases(), quick=600, thorough=1000,
        rule="AccSignal(values, dt, response_times=P).s_d/.s_v/.s_a and gen_response_spectrum(P, xi, min_dt_ratio in {1,2,4,8}); ascending "
             "period lists whose first period is below / above 20*dt; non-trivial = non-zero record and h* < dt (interpolation required)",
        oracle="reference model: exact equality with the array function when h* >= dt; otherwise existence of an integer refinement "
               "k >= dt/h* whose S_d sandwich [no tail, held tail] contains the object's S_d (1e-9 of scale); S_v == w S_d; S_a in {w^2 S_d, PGA}; "
               "S_d >= raw S_d - refinement tolerance",
        require={"interp": 0.3, "no-interp": 0.1}, min_nontrivial=0.2)
def object_api(case, ctx):
    a = gen.build(case["rec"])
    dt = case["dt"]
    T = _T(case)
    P = np.concatenate([[0.0], T]) if case["lead0"] else T.copy()
    s = 1 if case["lead0"] else 0
    ratio = case["min_dt_ratio"]
    via = case["via"]
    xi = case["xi"]
    if via == "ctor":
        ratio, xi = 4, 0.05
        asig = ctx.lib(eqsig.AccSignal, a, dt, response_times=P)
    elif via == "gen":
        asig = ctx.lib(eqsig.AccSignal, a, dt)
        ctx.lib(asig.gen_response_spectrum, response_times=P, xi=xi, min_dt_ratio=ratio)
    elif via == "cached-then-ratio":
        # spectra are first read lazily (default ratio 4) and only then requested at another min_dt_ratio / damping, without
        # passing the periods again: the request must be honoured, not answered from the cache
        asig = ctx.lib(eqsig.AccSignal, a, dt, response_times=P)
        _ = ctx.lib(lambda: asig.s_a)
        ctx.lib(asig.generate_response_spectrum, xi=xi, min_dt_ratio=ratio)
    else:
        xi = 0.05
        asig = ctx.lib(eqsig.AccSignal, a, dt)
        ctx.lib(asig.generate_response_spectrum, response_times=P, min_dt_ratio=ratio)
    sd = np.asarray(ctx.lib(lambda: asig.s_d))
    sv = np.asarray(ctx.lib(lambda: asig.s_v))
    sa = np.asarray(ctx.lib(lambda: asig.s_a))
    ctx.cls("via=" + via, "ratio=%d" % ratio, "lead0" if s else None)
    for name, x in (("s_d", sd), ("s_v", sv), ("s_a", sa)):
        ctx.shape(x, (len(P),), "AccSignal." + name)
        ctx.finite(x, "AccSignal." + name)
        ctx.check(bool(np.all(x >= 0)), "AccSignal.%s negative" % name)
    hstar = max(T[0] / 20.0, dt / ratio)
    raw = [np.asarray(x) for x in sdof.pseudo_response_spectra(a, dt, P, xi)]
    pga = float(np.max(np.abs(a)))
    w = 2 * np.pi / T
    if hstar >= dt:
        ctx.cls("no-interp")
        ctx.nt(False)
        ctx.equal(sd, raw[0], "AccSignal.s_d vs array function on the raw record (no interpolation needed)")
        ctx.equal(sv, raw[1], "AccSignal.s_v vs array function on the raw record")
        ctx.equal(sa, raw[2], "AccSignal.s_a vs array function on the raw record")
        return
    ctx.cls("interp")
    ctx.nt(bool(np.any(a)))
    kmin = int(math.ceil(dt / hstar * (1 - 1e-12)))
    ru, rv, _ = sdof.response_series(a, dt, T, xi)
    su, _, _ = ref.lib_scales(a, dt, T, xi, ru, rv)
    found = None
    for k in range(kmin, 2 * kmin + 2):
        lo = np.asarray(sdof.pseudo_response_spectra(_refined(a, k, False), dt / k, P, xi)[0])
        hi = np.asarray(sdof.pseudo_response_spectra(_refined(a, k, True), dt / k, P, xi)[0])
        slack = 1e-9 * su
        if np.all(sd[s:] >= np.minimum(lo, hi)[s:] - slack) and np.all(sd[s:] <= np.maximum(lo, hi)[s:] + slack):
            found = k
            break
    ctx.check(found is not None,
              "AccSignal S_d %r is not the spectrum of the record integrated at any step dt/k, k in [%d, %d] (h*=%.4g, dt=%.4g, min_dt_ratio=%d)" % (
                  sd.tolist(), kmin, 2 * kmin + 1, hstar, dt, ratio))
    ctx.cls("k=kmin" if found == kmin else "k>kmin")
    if s:
        ctx.check(sd[0] == 0 and sv[0] == 0 and sa[0] == pga, "T=0 entry of object spectra: %r %r %r" % (sd[0], sv[0], sa[0]))
    ctx.close(sv[s:], w * sd[s:], 1e-12 * w * sd[s:], "object S_v vs w*S_d")
    for j in range(len(T)):
        want = w[j] ** 2 * sd[s + j]
        is_pseudo = abs(sa[s + j] - want) <= 1e-12 * want + core.TINY
        rj = T[j] / dt
        if _band(rj, T[j], dt) == "above":
            ctx.check(is_pseudo, "object S_a[%d]=%r != w^2 S_d=%r although T >= 6 dt" % (j, sa[s + j], want))
        else:
            ctx.check(is_pseudo or sa[s + j] == pga, "object S_a[%d]=%r is neither w^2 S_d=%r nor PGA=%r" % (j, sa[s + j], want, pga))
            if T[j] < 6 * (dt / found) * (1 - 1e-9):
                ctx.check(sa[s + j] == pga, "object S_a[%d]=%r != PGA=%r for T below 6 integration steps" % (j, sa[s + j], pga))
    # never below the values computed from the raw samples (up to the refinement-invariance tolerance)
    dur = (len(a) - 1) * dt
    tol = ref.tol_c01(dur, T, dt, relaxed=True) + ref.tol_c01(dur, T, dt / found, relaxed=True)
    ctx.check(bool(np.all(sd[s:] >= raw[0][s:] - tol * su - core.TINY)),
              "object S_d %r below the raw-sample S_d %r" % (sd.tolist(), raw[0].tolist()))


# ---------------------------------------------------------------------------
# a long record with a dense period grid and a high refinement ratio: n_periods x n_refined_steps ~ 1e8 (several GB inside the
# library; thorough tier only)


def _dense_long_enum(tier, shard, nshards):
    if tier == "quick":
        return
    items = [{"n": 30000, "np": 350, "ratio": 8, "seed": 11}, {"n": 52000, "np": 210, "ratio": 8, "seed": 12},
             {"n": 100000, "np": 230, "ratio": 4, "seed": 13}]
    for i, it in enumerate(items):
        if i % nshards == shard:
            yield it


@enum_clause(CLAUSES, "dense-long", _dense_long_enum, thorough_only=True,
             rule="fixed long records (30000-100000 samples at 100 Hz) with 210-350 log-spaced periods from 0.02 s and "
                  "min_dt_ratio 4 / 8, so that the object must integrate at dt/4 or dt/8; eight of the periods are checked",
             oracle="reference model: as object-api - an integer refinement k >= dt/h* exists whose S_d sandwich [no tail, held tail] "
                    "contains the object's S_d (1e-9 of scale); S_v == w S_d",
             exhaustive_note="the listed (length, periods, ratio) triples")
def dense_long(case, ctx):
    n, dt, xi, ratio = case["n"], 0.01, 0.05, case["ratio"]
    t = np.arange(n) * dt
    a = np.random.RandomState(case["seed"]).standard_normal(n) * (t / 20.0) * np.exp(1 - t / 20.0)
    P = np.logspace(np.log10(0.02), np.log10(5.0), case["np"])
    ctx.nt(True)
    asig = ctx.lib(eqsig.AccSignal, a, dt)
    ctx.lib(asig.gen_response_spectrum, response_times=P, xi=xi, min_dt_ratio=ratio)
    sd = np.asarray(ctx.lib(lambda: asig.s_d))
    sv = np.asarray(ctx.lib(lambda: asig.s_v))
    ctx.shape(sd, (len(P),), "AccSignal.s_d")
    ctx.finite(sd, "AccSignal.s_d")
    hstar = max(P[0] / 20.0, dt / ratio)
    kmin = int(math.ceil(dt / hstar * (1 - 1e-12)))
    inds = np.array(sorted(set([0, 1, 5, len(P) // 6, len(P) // 3, len(P) // 2, len(P) - 20, len(P) - 1])))
    T = P[inds]
    ru, rv, _ = sdof.response_series(a, dt, T, xi)
    su, _, _ = ref.lib_scales(a, dt, T, xi, ru, rv)
    found = None
    for k in range(kmin, 2 * kmin + 2):
        lo = np.asarray(sdof.pseudo_response_spectra(_refined(a, k, False), dt / k, T, xi)[0])
        hi = np.asarray(sdof.pseudo_response_spectra(_refined(a, k, True), dt / k, T, xi)[0])
        slack = 1e-9 * su
        if np.all(sd[inds] >= np.minimum(lo, hi) - slack) and np.all(sd[inds] <= np.maximum(lo, hi) + slack):
            found = k
            break
    ctx.check(found is not None, "AccSignal S_d at periods %r = %r is not the spectrum of the record integrated at any step dt/k, "
                                 "k in [%d, %d] (h*=%.4g, dt=%.4g, min_dt_ratio=%d, %d samples, %d periods)" % (
                                     T.tolist(), sd[inds].tolist(), kmin, 2 * kmin + 1, hstar, dt, ratio, n, len(P)))
    w = 2 * np.pi / P
    ctx.close(sv, w * sd, 1e-12 * w * sd, "object S_v vs w*S_d")


# ---------------------------------------------------------------------------

@st.composite
def _energy_cases(draw):
    c = draw(_cases(max_n=min(MAX_N, 800), max_p=5))
    c["periods_arg"] = draw(st.sampled_from(["explicit", "attribute"]))
    return c


@clause(CLAUSES, "energy", _energy_cases(), quick=700, thorough=1400,
        rule="same record/period generator (no leading 0: energy of a zero-period oscillator is undefined); periods passed explicitly "
             "or via the signal's response_times; non-trivial = non-zero record",
        oracle="reference model: input energy == sum a_i v_i dt (and its running sum) over the library's own velocity series (1e-12 of "
               "sum|terms|) and over the exact velocity (C01 bound); kinetic-energy spectrum == sum |delta(v^2/2)|; input energy at the end >= 0")
def energy(case, ctx):
    a = gen.build(case["rec"])
    dt, xi = case["dt"], case["xi"]
    T = _T(case)
    n = len(a)
    r = np.array(case["ratios"], dtype=float)
    ctx.cls(gen.size_class(n), "periods=" + case["periods_arg"], "xi=0" if xi == 0 else None)
    ctx.nt(bool(np.any(a)))
    if case["periods_arg"] == "explicit":
        asig = eqsig.AccSignal(a, dt)
        kw = {"periods": T}
    else:
        asig = eqsig.AccSignal(a, dt, response_times=T)
        kw = {}
    e_end = np.asarray(ctx.lib(sdof.calc_input_energy_spectrum, asig, xi=xi, **kw))
    e_ser = np.asarray(ctx.lib(sdof.calc_input_energy_spectrum, asig, xi=xi, series=True, **kw))
    uke = np.asarray(ctx.lib(sdof.calc_resp_uke_spectrum, asig, xi=xi, **kw))
    ctx.shape(e_end, (len(T),), "input energy spectrum")
    ctx.shape(e_ser, (len(T), n), "input energy series")
    ctx.shape(uke, (len(T),), "kinetic energy spectrum")
    _, rv, _ = sdof.response_series(a, dt, T, xi)
    rv = np.asarray(rv)
    terms = a.astype(LD)[None, :] * rv.astype(LD) * LD(dt)
    sabs = np.sum(np.abs(terms), axis=1).astype(float)
    run = np.cumsum(terms, axis=1)
    ctx.close(e_end, run[:, -1], EPS * (n + 8) * sabs, "input energy vs sum a_i v_i dt")
    ctx.close(e_ser, run, (EPS * (n + 8) * sabs)[:, None] + 0 * e_ser, "input energy series vs running sum a_i v_i dt")
    ke = rv.astype(LD) ** 2 / 2
    uref = np.sum(np.abs(np.diff(ke, axis=1)), axis=1)
    ctx.close(uke, uref, EPS * (n + 8) * np.sum(np.abs(ke), axis=1).astype(float) * 4, "kinetic energy spectrum vs sum |delta(v^2/2)|")
    ctx.check(bool(np.all(uke >= 0)), "kinetic energy spectrum negative")
    # against the exact velocity (for the angular frequency the library uses, see ASSUMPTIONS)
    u, v = ref.response(a, dt, ref.library_periods(T), xi)
    su, sv, _, _ = ref.robust_scales(a, dt, T, u, v)
    dur = (n - 1) * dt
    tol = np.where(r >= 1000, ref.tol_c01(dur, T, dt, relaxed=True), ref.tol_c01(dur, T, dt))
    eref = np.sum(a.astype(LD)[None, :] * v * LD(dt), axis=1)
    ctx.close(e_end, eref, tol * sv * float(np.sum(np.abs(a))) * dt + EPS * (n + 8) * sabs, "input energy vs sum over the exact velocity series")
    # sign
    neg = e_end < -(EPS * (n + 8) * sabs) - core.TINY
    if np.any(neg):
        j = int(np.argmax(neg))
        if ctx.kf("C03-KF1"):
            ctx.check(bool(np.all(e_end >= -sabs * (1 + 1e-12))), "input energy below -sum|a_i v_i|dt")
        else:
            ctx.fail("input energy at the end of the record is negative: E=%r for T/dt=%r, xi=%r (sum|a_i v_i|dt=%r)" % (
                float(e_end[j]), float(r[j]), xi, float(sabs[j])))


@st.composite
def _si_cases(draw):
    return {"rec": draw(gen.record_specs(min_n=2, max_n=300)), "dt": draw(gen.dts(1e-3, 0.1)),
            "xi": draw(st.sampled_from([0.05, 0.0, 0.2])), "default_periods": draw(st.booleans()),
            "p0": draw(st.floats(0.05, 0.5, allow_nan=False)), "np": draw(st.integers(2, 30))}


@clause(CLAUSES, "intensities", _si_cases(), quick=60, thorough=200,
        rule="acceleration / velocity spectrum intensity with default and custom period grids (step 0.01 s); non-trivial = non-zero record",
        oracle="differential: calc_asi/calc_vsi == max(0.01*cumulative trapezoid(pseudo spectrum)) (/9.81) of pseudo_response_spectra (1e-12 rel)")
def intensities(case, ctx):
    a = gen.build(case["rec"])
    dt, xi = case["dt"], case["xi"]
    ctx.cls(gen.size_class(len(a)), "default-periods" if case["default_periods"] else "custom-periods")
    ctx.nt(bool(np.any(a)))
    asig = eqsig.AccSignal(a, dt)
    if case["default_periods"]:
        pa, pv, kw = np.arange(0.1, 1.51, 0.01), np.arange(0.1, 2.51, 0.01), {}
    else:
        pa = pv = case["p0"] + 0.01 * np.arange(case["np"])
        kw = {"periods": pa}
    asi = ctx.lib(im.calc_asi, asig, xi=xi, **kw)
    vsi = ctx.lib(im.calc_vsi, asig, xi=xi, **kw)
    _, _, psa = sdof.pseudo_response_spectra(a, dt, pa, xi)
    _, psv, _ = sdof.pseudo_response_spectra(a, dt, pv, xi)
    want_a = float(np.max(0.01 * cumulative_trapezoid(np.abs(psa)))) / 9.81
    want_v = float(np.max(0.01 * cumulative_trapezoid(np.abs(psv))))
    ctx.check(abs(asi - want_a) <= 1e-12 * want_a + core.TINY, "calc_asi %r != %r" % (asi, want_a))
    ctx.check(abs(vsi - want_v) <= 1e-12 * want_v + core.TINY, "calc_vsi %r != %r" % (vsi, want_v))
