"""C04 - derived quantities of a signal object never go stale (differential against a fresh object)."""
import copy
import itertools

import numpy as np
from hypothesis import strategies as st
from hypothesis.stateful import rule, initialize, precondition

import eqsig

from pbt import core, gen
from pbt.core import enum_clause, machine_clause, history_machine_base, Violation

PROPERTY = "C04"
CLAUSES = []
ASSUMPTIONS = [
    "oracle = a freshly constructed object of the same class with np.array(obj.values), obj.dt, obj.smooth_fa_freqs and "
    "(AccSignal) obj.response_times; agreement to 1e-10 of the observable's magnitude (same code on the same data; only the "
    "evaluation order of caches can differ)",
    "mutators are called with valid arguments only (C17 covers their semantics): float records of >= 64 samples, Butterworth "
    "cut-offs in [0.02, 0.8] of Nyquist with band ratio >= 1.5 given as tuples, polynomial degree 0..4, widths 1..25, "
    "ascending response periods with 2 <= T/dt <= 300 (optional leading 0), ascending positive smoothing frequencies as ndarray/list",
    "explicit gen_*/generate_* calls are made with default xi, min_dt_ratio, band, p2_plus only: non-default arguments are "
    "one-off computations, not settings",
    "exhaustive part: the observational cache state is the subset of {fa, smooth_fa, velocity/displacement, pga, pgv, pgd, response "
    "spectra} read since the last change; every state x every mutator/settings change x every observable, on fixed records",
]

ACC_OBS = ["npts", "time", "fa_spectrum", "fa_freqs", "smooth_fa_spectrum", "smooth_fa_freqs", "velocity", "displacement",
           "pga", "pgv", "pgd", "s_a", "s_v", "s_d", "response_times"]
SIG_OBS = ["npts", "time", "fa_spectrum", "fa_freqs", "smooth_fa_spectrum", "smooth_fa_freqs"]
ACC_STATE = ["fa_spectrum", "smooth_fa_spectrum", "velocity", "pga", "pgv", "pgd", "s_a"]
SIG_STATE = ["fa_spectrum", "smooth_fa_spectrum"]


def read(obj, name):
    return getattr(obj, name)


def fresh_of(obj):
    if isinstance(obj, eqsig.AccSignal):
        return eqsig.AccSignal(np.array(obj.values), obj.dt, smooth_fa_freqs=np.array(obj.smooth_fa_freqs),
                               response_times=np.array(obj.response_times))
    return eqsig.Signal(np.array(obj.values), obj.dt, smooth_fa_freqs=np.array(obj.smooth_fa_freqs))


def compare(ctx, name, got, want, what):
    g = np.asarray(got)
    w = np.asarray(want)
    if g.shape != w.shape:
        ctx.fail("%s: %s has shape %s, a fresh object reports %s" % (what, name, g.shape, w.shape))
    if g.size == 0:
        return
    if not np.all(np.isfinite(w)):
        # same non-finite pattern required
        if not np.array_equal(np.isfinite(g), np.isfinite(w)):
            ctx.fail("%s: %s finite-pattern differs from a fresh object" % (what, name))
        m = np.isfinite(w)
        g, w = g[m], w[m]
        if g.size == 0:
            return
    scale = float(np.max(np.abs(w)))
    d = np.abs(g - w)
    if not np.all(d <= 1e-10 * scale + core.TINY):
        i = int(np.argmax(d))
        ctx.fail("%s: %s is stale/inconsistent: object reports %r at [%d], a fresh object with the same values and settings reports %r "
                 "(max |diff| %.3g, scale %.3g)" % (what, name, g.ravel()[i], i, w.ravel()[i], float(np.max(d)), scale))


# ---------------------------------------------------------------------------
# mutators / settings changes; every function takes (obj, args) with JSON args


def _series(obj, args):
    return np.random.RandomState(args["seed"]).standard_normal(obj.npts) * args.get("amp", 1.0)


def _cut(obj, args):
    nyq = 0.5 / obj.dt
    lo = None if args.get("lo") is None else args["lo"] * nyq
    hi = None if args.get("hi") is None else args["hi"] * nyq
    return (lo, hi)


def _periods(obj, args):
    T = [r * obj.dt for r in args["ratios"]]
    if args.get("lead0"):
        T = [0.0] + T
    return np.array(T) if args.get("as", "ndarray") == "ndarray" else list(T)


def _freqs(args):
    if "logspace" in args:
        lo, hi, n = args["logspace"]
        f = np.logspace(np.log10(lo), np.log10(hi), int(n))
    else:
        f = np.array(args["freqs"], dtype=float)
    return f if args.get("as", "ndarray") == "ndarray" else [float(x) for x in f]


def _roll_fw(obj, args):
    return 1.0 / (args["width"] * obj.dt) * (1 - 1e-9)


MUTATORS = {
    "reset_values": lambda o, a: o.reset_values(np.array(gen.build(a["rec"]))),
    "add_constant": lambda o, a: o.add_constant(a["c"]),
    "add_series": lambda o, a: o.add_series(_series(o, a)),
    "add_signal": lambda o, a: o.add_signal(eqsig.Signal(_series(o, a), o.dt)),
    "butter_pass": lambda o, a: o.butter_pass(_cut(o, a), filter_order=a.get("order", 4), remove_gibbs=a.get("gibbs")),
    "remove_average": lambda o, a: o.remove_average(section=a.get("section", -1)),
    "remove_poly": lambda o, a: o.remove_poly(poly_fit=a.get("k", 1)),
    "running_average": lambda o, a: o.running_average(width=a.get("w", 3)),
    "set_freqs": lambda o, a: setattr(o, "smooth_fa_freqs", _freqs(a)),
    "set_frequencies": lambda o, a: setattr(o, "smooth_fa_frequencies", _freqs(a)),
    "set_freq_range": lambda o, a: setattr(o, "smooth_freq_range", (a["lo"], a["hi"])),
    "set_freq_points": lambda o, a: setattr(o, "smooth_freq_points", a["n"]),
    "set_by_range": lambda o, a: o.set_smooth_fa_frequecies_by_range((a["lo"], a["hi"]), a["n"]),
    "gen_smooth_w_freqs": lambda o, a: o.gen_smooth_fa_spectrum(smooth_fa_freqs=np.array(_freqs(a), dtype=float)),
}
ACC_ONLY = {
    "rra_velocity": lambda o, a: o.remove_rolling_average(mtype="velocity", freq_window=_roll_fw(o, a)),
    "rra_acc": lambda o, a: o.remove_rolling_average(mtype="acc", freq_window=_roll_fw(o, a)),
    "rebase_displacement": lambda o, a: o.rebase_displacement(),
    "zero_res_velocity": lambda o, a: o.set_zero_residual_velocity(timezone=_tz(o, a)),
    "zero_res_displacement": lambda o, a: o.set_zero_residual_displacement(),
    "zero_res_disp_and_velocity": lambda o, a: o.set_zero_residual_displacement_and_velocity(timezone=_tz(o, a)),
    "correct_me": lambda o, a: o.correct_me(),
    "set_response_times": lambda o, a: setattr(o, "response_times", _periods(o, a)),
    "gen_rs_w_times": lambda o, a: o.gen_response_spectrum(response_times=_periods(o, a)),
    "response_series_w_times": lambda o, a: o.response_series(response_times=_periods(o, a)),
}
def _scale_periods_inplace(o, a):
    """`asig.response_times *= c`: Python reads the property, scales the stored array in place and assigns the SAME object back."""
    if not (isinstance(o.response_times, np.ndarray) and o.response_times.dtype.kind == "f"):
        o.response_times = np.array(o.response_times, dtype=float)
    o.response_times *= a.get("c", 1.5)


def _scale_freqs_inplace(o, a):
    o.smooth_fa_freqs *= a.get("c", 1.25)


MUTATORS["scale_freqs_inplace"] = _scale_freqs_inplace
ACC_ONLY["scale_periods_inplace"] = _scale_periods_inplace
MUTATORS.update(ACC_ONLY)
# explicit regeneration calls with default arguments (must behave like reads)
REGEN = {
    "gen_fa_spectrum": lambda o: o.gen_fa_spectrum(),
    "generate_fa_spectrum": lambda o: o.generate_fa_spectrum(),
    "generate_smooth_fa_spectrum": lambda o: o.generate_smooth_fa_spectrum(),
    "gen_smooth_fa_spectrum": lambda o: o.gen_smooth_fa_spectrum(),
}
REGEN_ACC = {
    "generate_response_spectrum": lambda o: o.generate_response_spectrum(),
    "gen_response_spectrum": lambda o: o.gen_response_spectrum(),
    "generate_displacement_and_velocity_series": lambda o: o.generate_displacement_and_velocity_series(),
    "response_series": lambda o: o.response_series(),
}


def _tz(obj, args):
    tz = args.get("tz")
    if tz is None:
        return None
    dur = (obj.npts - 1) * obj.dt
    t0 = tz[0] * dur
    t1 = None if tz[1] is None else max(t0 + 2 * obj.dt, tz[1] * dur)
    return (t0, t1)


FIXED_ARGS = {
    "reset_values": {"rec": {"k": "noise", "n": 80, "seed": 7, "amp": 0}},
    "add_constant": {"c": 0.37},
    "add_series": {"seed": 3},
    "add_signal": {"seed": 4},
    "butter_pass": {"lo": 0.05, "hi": 0.5, "order": 2, "gibbs": None},
    "remove_average": {},
    "remove_poly": {"k": 2},
    "running_average": {"w": 5},
    "set_freqs": {"freqs": [0.5, 1.0, 2.0, 4.0, 8.0], "as": "list"},
    "set_frequencies": {"logspace": [0.3, 20.0, 50]},  # same length as the default grid: staleness shows in values only
    "set_freq_range": {"lo": 0.3, "hi": 12.0},
    "set_freq_points": {"n": 17},
    "set_by_range": {"lo": 0.4, "hi": 9.0, "n": 23},
    "gen_smooth_w_freqs": {"logspace": [0.2, 25.0, 50]},  # same length as the default grid
    "rra_velocity": {"width": 7},
    "rra_acc": {"width": 5},
    "rebase_displacement": {},
    "zero_res_velocity": {},
    "zero_res_displacement": {},
    "zero_res_disp_and_velocity": {},
    "correct_me": {},
    # shortest periods 8, 12 and 6 time steps: each needs a different interpolation factor (3, 2, 4) than the constructor's list
    "set_response_times": {"ratios": [8.0, 40.0, 90.0], "as": "list"},
    "gen_rs_w_times": {"ratios": [12.0, 55.0], "lead0": True},
    "response_series_w_times": {"ratios": [6.5, 70.0, 150.0, 200.0]},
    "scale_periods_inplace": {"c": 1.5},
    "scale_freqs_inplace": {"c": 1.25},
}
assert set(FIXED_ARGS) == set(MUTATORS)


def _make(cls_name, n, seed=11, dt=0.01):
    a = np.random.RandomState(seed).standard_normal(n) * np.hanning(n) + 0.05
    if cls_name == "acc":
        # shortest period 3*dt: the object has to interpolate the record (factor 4) for its response spectra, so a cached
        # integration grid from an earlier period list would show after the periods are changed
        return eqsig.AccSignal(a, dt, response_times=np.array([0.03, 0.08, 0.5, 2.0]))
    return eqsig.Signal(a, dt)


def _apply(ctx, obj, mut, args, fixed=False):
    """Apply a mutator.  C04 is about cache coherence, not about which arguments a mutator accepts (C17): a mutator that
    raises (e.g. a baseline correction on a record a history has driven to all zeros) is recorded as 'rejected' and the
    object must still be coherent afterwards.  With the fixed, known-valid arguments of the exhaustive clauses a raise
    means the harness no longer matches the library: inconclusive (exit 2), never a violation."""
    try:
        MUTATORS[mut](obj, args)
        return True
    except Violation:
        raise
    except Exception as e:  # noqa
        if fixed:
            raise core.HarnessError("%s(%r) raised %s: %s on the fixed record" % (mut, args, type(e).__name__, str(e)[:160]))
        ctx.cls("rejected=" + mut)
        return False


def _enum_cases(cls_name):
    state = ACC_STATE if cls_name == "acc" else SIG_STATE
    muts = [m for m in FIXED_ARGS if cls_name == "acc" or m not in ACC_ONLY]

    def enum(tier, shard, nshards):
        lengths = [96] if tier == "quick" else [65, 95, 96, 128, 130]
        i = 0
        for n in lengths:
            for mask in range(2 ** len(state)):
                for mut in muts:
                    if i % nshards == shard:
                        yield {"cls": cls_name, "n": n, "state": mask, "mut": mut}
                    i += 1
    return enum


def _exhaustive(case, ctx):
    cls_name = case["cls"]
    state = ACC_STATE if cls_name == "acc" else SIG_STATE
    obs = ACC_OBS if cls_name == "acc" else SIG_OBS
    obj = _make(cls_name, case["n"])
    reads = [nm for b, nm in enumerate(state) if case["state"] >> b & 1]
    for nm in reads:
        read(obj, nm)
    _apply(ctx, obj, case["mut"], FIXED_ARGS[case["mut"]], fixed=True)
    fresh = fresh_of(obj)
    want = {nm: copy.deepcopy(read(fresh, nm)) for nm in obs}
    ctx.cls("mut=" + case["mut"], "reads=%d" % len(reads))
    ctx.nt(len(reads) > 0)
    what = "after reads %s then %s" % (reads, case["mut"])
    for nm in obs:
        c = copy.deepcopy(obj)
        got = read(c, nm)
        compare(ctx, nm, got, want[nm], what)
        again = read(c, nm)
        if not np.array_equal(np.asarray(got), np.asarray(again), equal_nan=True):
            ctx.fail("%s: second read of %s differs from the first" % (what, nm))
    # all observables in sequence on the object itself (reads must not disturb one another)
    for nm in obs:
        compare(ctx, nm, read(obj, nm), want[nm], what + " (sequential reads)")


enum_clause(CLAUSES, "exhaustive-acc", _enum_cases("acc"),
            rule="AccSignal: every subset of {fa, smooth_fa, velocity/displacement, pga, pgv, pgd, response spectra} read (2^7) x every "
                 "mutator / settings change (24) on a fixed record (quick n=96; thorough n in {65,95,96,128,130}); each case then compares all 15 "
                 "observables, each on its own deep copy and once more sequentially; non-trivial = at least one quantity was read before the change",
            oracle="differential against a fresh object (1e-10 of magnitude); second read identical",
            exhaustive_note="complete over cache state x mutator x observable for the listed records",
            quick_shards=8)(_exhaustive)
enum_clause(CLAUSES, "exhaustive-sig", _enum_cases("sig"),
            rule="Signal: 2^2 cache states x 14 mutators x 6 observables, same scheme",
            oracle="differential against a fresh object (1e-10 of magnitude); second read identical",
            exhaustive_note="complete over cache state x mutator x observable for the listed records",
            quick_shards=1)(_exhaustive)


SETTINGS = ["set_freqs", "set_frequencies", "set_freq_range", "set_freq_points", "set_by_range", "gen_smooth_w_freqs",
            "scale_freqs_inplace", "set_response_times", "gen_rs_w_times", "response_series_w_times", "scale_periods_inplace"]
# a second value for every setting (same shape as FIXED_ARGS where that matters: same number of frequencies / periods)
ALT_ARGS = {
    "set_freqs": {"freqs": [0.6, 1.1, 2.3, 4.4, 7.7], "as": "ndarray"},
    "set_frequencies": {"logspace": [0.2, 15.0, 50]},
    "set_freq_range": {"lo": 0.1, "hi": 30.0},            # the constructor's default range
    "set_freq_points": {"n": 50},                           # the constructor's default count
    "set_by_range": {"lo": 0.1, "hi": 30.0, "n": 50},       # exactly the constructor's default
    "gen_smooth_w_freqs": {"logspace": [0.15, 22.0, 50]},
    "scale_freqs_inplace": {"c": 0.8},
    "set_response_times": {"ratios": [3.0, 8.0, 50.0, 200.0], "as": "ndarray"},   # the constructor's periods
    "gen_rs_w_times": {"ratios": [9.0, 55.0], "lead0": True},
    "response_series_w_times": {"ratios": [4.0, 70.0, 150.0, 200.0]},
    "scale_periods_inplace": {"c": 2.0 / 3.0},
}


def _reapply_enum(tier, shard, nshards):
    i = 0
    for cls_name in ("acc", "sig"):
        names = [m for m in SETTINGS if cls_name == "acc" or m not in ACC_ONLY]
        for s1 in names:
            for v1 in ("fixed", "alt"):
                for s2 in names:
                    for v2 in ("fixed", "alt"):
                        if i % nshards == shard:
                            yield {"cls": cls_name, "s1": s1, "v1": v1, "s2": s2, "v2": v2}
                        i += 1


@enum_clause(CLAUSES, "reapply-settings", _reapply_enum,
             rule="every ordered pair of settings changes (11 for AccSignal, 7 for Signal; two argument sets each, one of them "
                  "re-stating the constructor's defaults): apply S1, read everything, apply S2, read everything, apply S1 again with "
                  "the same arguments, read everything; non-trivial = S1 != S2",
             oracle="differential against a fresh object after each of the three steps (1e-10 of magnitude)",
             exhaustive_note="complete over ordered pairs of settings changes x two argument sets each, on a fixed record", quick_shards=4)
def reapply_settings(case, ctx):
    cls_name = case["cls"]
    obs = ACC_OBS if cls_name == "acc" else SIG_OBS
    obj = _make(cls_name, 96)
    ctx.nt(case["s1"] != case["s2"])
    ctx.cls("s1=" + case["s1"])

    def args(name, which):
        return FIXED_ARGS[name] if which == "fixed" else ALT_ARGS[name]

    def check(what):
        fresh = fresh_of(obj)
        for nm in obs:
            compare(ctx, nm, read(obj, nm), read(fresh, nm), what)
    for nm in obs:
        read(obj, nm)
    for step, (name, which) in enumerate(((case["s1"], case["v1"]), (case["s2"], case["v2"]), (case["s1"], case["v1"]))):
        _apply(ctx, obj, name, args(name, which), fixed=True)
        check("after %s" % " -> ".join(["%s(%s)" % (case["s1"], case["v1"]), "%s(%s)" % (case["s2"], case["v2"]),
                                         "%s(%s) again" % (case["s1"], case["v1"])][:step + 1]))


def _iso_enum(tier, shard, nshards):
    i = 0
    for cls_name, state, obs in (("acc", ACC_STATE, ACC_OBS), ("sig", SIG_STATE, SIG_OBS)):
        for mask in range(2 ** len(state)):
            for x in obs + sorted(REGEN) + (sorted(REGEN_ACC) if cls_name == "acc" else []):
                if i % nshards == shard:
                    yield {"cls": cls_name, "state": mask, "x": x}
                i += 1


@enum_clause(CLAUSES, "read-isolation", _iso_enum,
             rule="every cache state x every read X (15 observables + 8 explicit default regeneration calls): X read twice, then every "
                  "other observable Y compared with Y on a deep copy taken before X was read; non-trivial = state has >= 1 cached quantity",
             oracle="differential: deep copy before vs after a read (exact, NaN-aware); reads idempotent",
             exhaustive_note="complete over cache state x read x other observable on a fixed record", quick_shards=2)
def read_isolation(case, ctx):
    cls_name = case["cls"]
    state = ACC_STATE if cls_name == "acc" else SIG_STATE
    obs = ACC_OBS if cls_name == "acc" else SIG_OBS
    obj = _make(cls_name, 96)
    for b, nm in enumerate(state):
        if case["state"] >> b & 1:
            read(obj, nm)
    ctx.nt(case["state"] != 0)
    ctx.cls("x=" + case["x"])
    before = copy.deepcopy(obj)
    x = case["x"]
    if x in obs:
        v1 = copy.deepcopy(read(obj, x))
        v2 = read(obj, x)
        if not np.array_equal(np.asarray(v1), np.asarray(v2), equal_nan=True):
            ctx.fail("read of %s is not idempotent" % x)
    else:
        fn = REGEN.get(x) or REGEN_ACC[x]
        try:
            fn(obj)
        except Exception as e:  # noqa
            ctx.fail("%s() raised %s: %s" % (x, type(e).__name__, e))
    for y in obs:
        if y == x:
            continue
        got = read(obj, y)
        want = read(copy.deepcopy(before), y)
        if not np.array_equal(np.asarray(got), np.asarray(want), equal_nan=True):
            ctx.fail("reading %s changed %s (state %s)" % (x, y, [nm for b, nm in enumerate(state) if case["state"] >> b & 1]))


# ---------------------------------------------------------------------------
# random histories (Hypothesis state machine)


class Hist(object):
    def __init__(self, init, ctx):
        self.ctx = ctx
        a = gen.build(init["rec"])
        self.acc = bool(init["acc"])
        if self.acc:
            kw = {}
            if init.get("ratios"):
                kw["response_times"] = np.array([r * init["dt"] for r in init["ratios"]])
            self.obj = eqsig.AccSignal(a, init["dt"], **kw)
        else:
            self.obj = eqsig.Signal(a, init["dt"])
        self.obs = ACC_OBS if self.acc else SIG_OBS
        self.read_before = set()
        self.pending = set()
        self.nmut = 0
        self.nstep = 0
        ctx.cls("acc" if self.acc else "sig")

    def step(self, op, args):
        ctx = self.ctx
        if op == "read":
            fresh = fresh_of(self.obj)
            for nm in args["names"]:
                if nm not in self.obs:
                    continue
                got = read(self.obj, nm)
                compare(ctx, nm, got, read(fresh, nm), "history step %d (read)" % self.nstep)
                if nm in self.pending:
                    ctx.nt(True)
                self.read_before.add(nm)
            self.nstep += 1
        elif op == "regen":
            fn = REGEN.get(args["name"]) or (REGEN_ACC.get(args["name"]) if self.acc else None)
            if fn is None:
                return
            try:
                fn(self.obj)
            except Exception as e:  # noqa
                ctx.fail("%s() raised %s: %s" % (args["name"], type(e).__name__, e))
        else:
            if op in ACC_ONLY and not self.acc:
                return
            if op == "butter_pass" and self.obj.npts <= 3 * (2 * args.get("order", 4) + 1) + 2:
                return
            _apply(ctx, self.obj, op, args)
            ctx.cls("mut=" + op)
            self.nmut += 1
            self.nstep += 1
            self.pending |= self.read_before
            self.read_before = set()
            # the object must stay structurally sound after every change
            if not np.all(np.isfinite(np.asarray(self.obj.values, dtype=float))):
                # the history left the domain of finite records (e.g. repeated corrections overflowed); stop comparing
                self.obs = ["npts", "time"]

    def finish(self):
        fresh = fresh_of(self.obj)
        for nm in self.obs:
            compare(self.ctx, nm, read(self.obj, nm), read(fresh, nm), "end of history")
        self.ctx.cls("muts>=3" if self.nmut >= 3 else None)


_freq_lists = st.lists(gen.log_uniform(0.05, 40.0), min_size=2, max_size=12, unique=True).map(sorted)
_ratio_lists = st.lists(gen.log_uniform(2.0, 300.0), min_size=1, max_size=4, unique=True).map(sorted)
_long_specs = gen.record_specs(min_n=64, max_n=300, kinds=["noise", "sines", "quake", "walk", "pulse"], amp_lo=-3, amp_hi=3,
                               allow_zero_runs=False)

HM = history_machine_base()


class C04Machine(HM):
    @initialize(rec=_long_specs, dt=st.sampled_from([0.005, 0.01, 0.02, 0.05]), acc=st.integers(0, 4).map(lambda k: k > 0),
                ratios=st.one_of(st.none(), _ratio_lists))
    def init(self, rec, dt, acc, ratios):
        self.start({"rec": rec, "dt": dt, "acc": acc, "ratios": ratios})

    @rule(names=st.lists(st.sampled_from(ACC_OBS), min_size=1, max_size=6, unique=True))
    def read(self, names):
        self.do("read", {"names": names})

    @rule(names=st.just(list(ACC_OBS)))
    def read_all(self, names):
        self.do("read", {"names": names})

    @rule(name=st.sampled_from(sorted(REGEN) + sorted(REGEN_ACC)))
    def regen(self, name):
        self.do("regen", {"name": name})

    @rule(rec=_long_specs)
    def reset_values(self, rec):
        self.do("reset_values", {"rec": rec})

    @rule(c=st.floats(-10, 10, allow_nan=False))
    def add_constant(self, c):
        self.do("add_constant", {"c": c})

    @rule(seed=st.integers(0, 10 ** 6), which=st.sampled_from(["add_series", "add_signal"]))
    def add(self, seed, which):
        self.do(which, {"seed": seed})

    @rule(kind=st.sampled_from(["band", "low", "high"]), lo=gen.log_uniform(0.02, 0.5), ratio=gen.log_uniform(1.5, 10.0),
          order=st.integers(1, 4), gibbs=st.sampled_from([None, "start", "end", "mid"]))
    def butter(self, kind, lo, ratio, order, gibbs):
        hi = min(0.8, lo * ratio)
        args = {"order": order, "gibbs": gibbs, "lo": lo if kind in ("band", "high") else None,
                "hi": hi if kind in ("band", "low") else None}
        if kind == "band" and hi < lo * 1.5:
            return
        self.do("butter_pass", args)

    @rule(k=st.integers(0, 4))
    def remove_poly(self, k):
        self.do("remove_poly", {"k": k})

    @rule(section=st.one_of(st.just(-1), st.integers(2, 60)))
    def remove_average(self, section):
        self.do("remove_average", {"section": section})

    @rule(w=st.integers(1, 25))
    def running_average(self, w):
        self.do("running_average", {"w": w})

    @rule(width=st.integers(1, 30), mtype=st.sampled_from(["rra_velocity", "rra_acc"]))
    def rolling(self, width, mtype):
        self.do(mtype, {"width": width})

    @rule(which=st.sampled_from(["rebase_displacement", "zero_res_displacement", "correct_me"]))
    def baseline(self, which):
        self.do(which, {})

    @rule(which=st.sampled_from(["zero_res_velocity", "zero_res_disp_and_velocity"]),
          tz=st.one_of(st.none(), st.tuples(st.floats(0.0, 0.6), st.one_of(st.none(), st.floats(0.7, 1.0)))))
    def residual(self, which, tz):
        self.do(which, {"tz": None if tz is None else list(tz)})

    @rule(freqs=_freq_lists, which=st.sampled_from(["set_freqs", "set_frequencies", "gen_smooth_w_freqs"]),
          as_=st.sampled_from(["ndarray", "list"]))
    def smooth_freqs(self, freqs, which, as_):
        self.do(which, {"freqs": freqs, "as": as_})

    @rule(lo=gen.log_uniform(0.05, 2.0), span=gen.log_uniform(2.0, 100.0),
          which=st.sampled_from(["set_freqs", "set_frequencies", "gen_smooth_w_freqs"]))
    def smooth_freqs_same_length(self, lo, span, which):
        n = len(self.h.obj.smooth_fa_freqs) if self.h is not None else 50
        self.do(which, {"logspace": [lo, lo * span, n]})

    @rule(lo=gen.log_uniform(0.05, 2.0), span=gen.log_uniform(2.0, 100.0), n=st.integers(2, 40),
          which=st.sampled_from(["set_freq_range", "set_by_range", "set_freq_points"]))
    def smooth_range(self, lo, span, n, which):
        self.do(which, {"lo": lo, "hi": lo * span, "n": n})

    @rule(ratios=_ratio_lists, lead0=st.booleans(), as_=st.sampled_from(["ndarray", "list"]),
          which=st.sampled_from(["set_response_times", "gen_rs_w_times", "response_series_w_times"]))
    def periods(self, ratios, lead0, as_, which):
        self.do(which, {"ratios": ratios, "lead0": lead0, "as": as_})

    @rule(c=st.sampled_from([0.5, 1.5, 2.0, 3.0]), which=st.sampled_from(["scale_periods_inplace", "scale_freqs_inplace"]))
    def scale_setting_inplace(self, c, which):
        self.do(which, {"c": c})

    @rule(pool=st.integers(0, 3), which=st.sampled_from(["set_by_range", "set_freq_range", "set_freqs", "set_frequencies", "gen_smooth_w_freqs"]))
    def smooth_settings_from_pool(self, pool, which):
        """a small pool of settings (incl. the constructor default), so that the SAME setting is re-applied after other changes"""
        lo, hi, n = [(0.1, 30.0, 50), (0.5, 20.0, 50), (0.1, 30.0, 30), (1.0, 10.0, 50)][pool]
        if which in ("set_by_range", "set_freq_range"):
            self.do(which, {"lo": lo, "hi": hi, "n": n})
        else:
            self.do(which, {"logspace": [lo * 1.1, hi * 0.9, n]})

    @rule(pool=st.integers(0, 2), which=st.sampled_from(["set_response_times", "gen_rs_w_times", "response_series_w_times"]))
    def periods_from_pool(self, pool, which):
        self.do(which, {"ratios": [[8.0, 40.0, 90.0], [12.0, 55.0], [25.0, 60.0, 200.0]][pool], "lead0": False, "as": "ndarray"})

    @rule(r1=gen.log_uniform(2.0, 19.0), r2=gen.log_uniform(2.0, 60.0),
          which=st.sampled_from(["set_response_times", "gen_rs_w_times", "response_series_w_times"]))
    def spectra_periods_spectra(self, r1, r2, which):
        """read spectra for one (short) minimum period, change the periods, read again: both below and above the
        20-steps-per-period threshold at which the object interpolates the record"""
        self.do("set_response_times", {"ratios": [r1, 4 * r1], "lead0": False, "as": "ndarray"})
        self.do("read", {"names": ["s_a", "s_d"]})
        self.do(which, {"ratios": [r2, 3 * r2], "lead0": False, "as": "ndarray"})
        self.do("read", {"names": ["s_a", "s_v", "s_d"]})


machine_clause(CLAUSES, "histories", C04Machine, Hist, quick=120, thorough=350, quick_steps=30, thorough_steps=60,
               rule="Hypothesis rule-based state machine: random interleavings of 24 mutators / settings changes (generated arguments), "
                    "15 reads and 8 explicit default regeneration calls on Signal / AccSignal objects built from generated records "
                    "(n 64..300, repo sampling rates); every read is compared with a fresh object, all observables at the end; "
                    "non-trivial = some observable was read, then a change was made, then the same observable was read again",
               oracle="differential against a freshly constructed object (1e-10 of magnitude)",
               min_nontrivial=0.3)
