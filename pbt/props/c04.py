"""C04 - derived quantities of a signal object never go stale (differential against a fresh object)."""
import copy
import hashlib
import itertools
import math

import numpy as np
from hypothesis import strategies as st
from hypothesis.stateful import rule, initialize, precondition

import eqsig

from pbt import core, gen
from pbt.core import enum_clause, machine_clause, history_machine_base, Violation
from pbt.ref import ko as _ko

PROPERTY = "C04"
CLAUSES = []
ASSUMPTIONS = [
    "oracle = a freshly constructed object of the same class with np.array(obj.values), obj.dt, obj.smooth_fa_freqs and "
    "(AccSignal) obj.response_times; agreement to 1e-10 of the observable's magnitude (same code on the same data; only the "
    "evaluation order of caches can differ)",
    "mutators are called with valid arguments only (C17 covers their semantics): float records of >= 64 samples, Butterworth "
    "cut-offs in [0.02, 0.8] of Nyquist with band ratio >= 1.5 given as tuples, polynomial degree 0..4, widths 1..25, "
    "ascending response periods with 2 <= T/dt <= 300 (optional leading 0), ascending positive smoothing frequencies as ndarray/list",
    "explicit gen_*/generate_* calls with non-default xi, min_dt_ratio, band, p2_plus / n, trap are one-off computations, not settings: "
    "what such a call regenerates is compared with a fresh object on which the SAME call is made (mid-range-options, mid-range-smooth; "
    "for gen_fa_spectrum(n= / p2_plus=) also read-isolation and histories) or not compared until the values change again (band, xi, "
    "min_dt_ratio, trap in read-isolation and histories); the record itself and every other observable must be untouched by the call. "
    "After gen_fa_spectrum(n= / p2_plus=) the smoothed spectrum is NOT excluded: whatever was cached before, it must be the smoothing of "
    "the CURRENT Fourier spectrum (fresh object given the same call + Konno-Ohmachi reference; /repo fix da9cde1)",
    "`values` is an observable of its own: after reads, explicit generation calls and settings changes the record must equal, bit for bit, "
    "its state after the last change of the values (the fresh object of the other comparisons is built from the CURRENT values and cannot "
    "see a read that rewrites the record)",
    "mid-range clauses: scripted records (noise x envelope on a slow sine, non-zero mean) of 2 000..300 000 samples (thorough 2 000 000), "
    "dt in {0.005, 0.01, 0.02}, smoothing targets log-spaced inside [max(0.1 Hz, 4 df), 0.6 Nyquist], periods geometric with 24 <= T/dt <= 280 "
    "(no interpolation) or from 6.8 / 8 / 12 steps (interpolation 4 / 3 / 2 times; records <= 10 000 samples, thorough 40 000); response "
    "spectra are read only for records <= 24 000 samples (thorough 120 000) because the library iterates over the samples in Python "
    "(~11 us each); running_average / remove_rolling_average are applied to records <= 20 000 samples (80 000), correct_me to <= 100 000 "
    "(400 000) for the same reason; Fourier frequencies x targets <= 3e7 (4e7), periods x samples <= 1e7 (2e7): memory",
    "mid-range clauses: a scripted mutator that raises on its known-valid arguments is a harness error (exit 2) like in the exhaustive "
    "clauses; a call that must deliver an observable (reads, gen_*/generate_* calls, response_series) raising is a violation; MemoryError "
    "anywhere is inconclusive",
    "the fresh object lives in the same process as the object under test: state kept by the library at module / class level would be "
    "shared by both and is invisible to the differential oracle; only the smoothed spectrum is additionally anchored (two targets per "
    "case) to the independent Konno-Ohmachi reference of C07",
    "exhaustive part: the observational cache state is the subset of {fa, smooth_fa, velocity/displacement, pga, pgv, pgd, response "
    "spectra} read since the last change; every state x every mutator/settings change x every observable, on fixed records",
]

ACC_OBS = ["npts", "time", "fa_spectrum", "fa_freqs", "smooth_fa_spectrum", "smooth_fa_freqs", "velocity", "displacement",
           "pga", "pgv", "pgd", "s_a", "s_v", "s_d", "response_times"]
SIG_OBS = ["npts", "time", "fa_spectrum", "fa_freqs", "smooth_fa_spectrum", "smooth_fa_freqs"]
ACC_STATE = ["fa_spectrum", "smooth_fa_spectrum", "velocity", "pga", "pgv", "pgd", "s_a"]
SIG_STATE = ["fa_spectrum", "smooth_fa_spectrum"]
RS_OBS = ("s_a", "s_v", "s_d")


def read(obj, name):
    return getattr(obj, name)


def fresh_of(obj):
    if isinstance(obj, eqsig.AccSignal):
        return eqsig.AccSignal(np.array(obj.values), obj.dt, smooth_fa_freqs=np.array(obj.smooth_fa_freqs),
                               response_times=np.array(obj.response_times))
    return eqsig.Signal(np.array(obj.values), obj.dt, smooth_fa_freqs=np.array(obj.smooth_fa_freqs))


def compare(ctx, name, got, want, what):
    g = np.asarray(got)
    w = np.asarray(want)
    if g.shape != w.shape:
        ctx.fail("%s: %s has shape %s, a fresh object reports %s" % (what, name, g.shape, w.shape))
    if g.size == 0:
        return
    if not np.all(np.isfinite(w)):
        # same non-finite pattern required
        if not np.array_equal(np.isfinite(g), np.isfinite(w)):
            ctx.fail("%s: %s finite-pattern differs from a fresh object" % (what, name))
        m = np.isfinite(w)
        g, w = g[m], w[m]
        if g.size == 0:
            return
    scale = float(np.max(np.abs(w)))
    d = np.abs(g - w)
    if not np.all(d <= 1e-10 * scale + core.TINY):
        i = int(np.argmax(d))
        ctx.fail("%s: %s is stale/inconsistent: object reports %r at [%d], a fresh object with the same values and settings reports %r "
                 "(max |diff| %.3g, scale %.3g)" % (what, name, g.ravel()[i], i, w.ravel()[i], float(np.max(d)), scale))


def pure(ctx, obj, snap, what):
    """A read (or a settings change) must not change the record: `values` bit for bit equal to the snapshot taken after the
    last change of the values; npts consistent.  The fresh object of the other comparisons is built from the object's CURRENT
    values, so a read that rewrites the record (e.g. scales it in place) is invisible to them: this check is what sees it."""
    v = np.asarray(obj.values)
    if v.shape != snap.shape:
        ctx.fail("%s: the values of the object now have shape %s, they had %s" % (what, v.shape, snap.shape))
    if not np.array_equal(v, snap, equal_nan=True):
        bad = ~((v == snap) | ((v != v) & (snap != snap)))
        i = int(np.argmax(bad))
        ctx.fail("%s: the values of the object changed although nothing but reads / settings changes happened: values[%d] was %r, is %r "
                 "(%d of %d samples differ)" % (what, i, snap.ravel()[i], v.ravel()[i], int(np.sum(bad)), v.size))
    if obj.npts != len(snap):
        ctx.fail("%s: npts is %r, the record has %d samples" % (what, obj.npts, len(snap)))


# small record lengths: an exact power of two (no zero padding before the Fourier transform), its neighbours, and a length that is
# neither; the quick enumerations rotate through them with the index of the case and VERIF_SEED, thorough ones take all
SMALL_LENGTHS = [96, 128, 127, 129]


def _small_n(i):
    return SMALL_LENGTHS[(int(i) + gen.run_seed()) % len(SMALL_LENGTHS)]


# ---------------------------------------------------------------------------
# mutators / settings changes; every function takes (obj, args) with JSON args


def _series(obj, args):
    return np.random.RandomState(args["seed"]).standard_normal(obj.npts) * args.get("amp", 1.0)


def _cut(obj, args):
    nyq = 0.5 / obj.dt
    lo = None if args.get("lo") is None else args["lo"] * nyq
    hi = None if args.get("hi") is None else args["hi"] * nyq
    return (lo, hi)


def _build_rec(spec):
    """Record spec -> float64 array: gen.build plus the 'mid' family of the mid-range clauses (noise x envelope on a slow
    sine with a non-zero mean: every stretch of the record is distinct, nothing cancels, no quiet tail)."""
    if spec.get("k") == "mid":
        n = int(spec["n"])
        t = np.arange(n) / float(n)
        a = np.random.RandomState(int(spec["seed"])).standard_normal(n) * (0.25 + np.sin(np.pi * t) ** 2)
        return a + 0.05 + 0.3 * np.sin(2 * np.pi * (3.3 * t + 0.1))
    return gen.build(spec)


def _periods(obj, args):
    if "rlog" in args:  # [lowest T/dt, highest T/dt, count]: geometric spacing (long period lists of the mid-range clauses)
        lo, hi, n = args["rlog"]
        T = [float(x) for x in obj.dt * np.geomspace(lo, hi, int(n))]
        return np.array(T) if args.get("as", "ndarray") == "ndarray" else T
    T = [r * obj.dt for r in args["ratios"]]
    if args.get("lead0"):
        T = [0.0] + T
    return np.array(T) if args.get("as", "ndarray") == "ndarray" else list(T)


def _freqs(args):
    if "logspace" in args:
        lo, hi, n = args["logspace"]
        f = np.logspace(np.log10(lo), np.log10(hi), int(n))
    else:
        f = np.array(args["freqs"], dtype=float)
    return f if args.get("as", "ndarray") == "ndarray" else [float(x) for x in f]


def _roll_fw(obj, args):
    return 1.0 / (args["width"] * obj.dt) * (1 - 1e-9)


MUTATORS = {
    "reset_values": lambda o, a: o.reset_values(np.array(_build_rec(a["rec"]))),
    "add_constant": lambda o, a: o.add_constant(a["c"]),
    "add_series": lambda o, a: o.add_series(_series(o, a)),
    "add_signal": lambda o, a: o.add_signal(eqsig.Signal(_series(o, a), o.dt)),
    "butter_pass": lambda o, a: o.butter_pass(_cut(o, a), filter_order=a.get("order", 4), remove_gibbs=a.get("gibbs"),
                                              **{k: a[k] for k in ("gibbs_extra", "gibbs_range") if k in a}),
    "remove_average": lambda o, a: o.remove_average(section=a.get("section", -1)),
    "remove_poly": lambda o, a: o.remove_poly(poly_fit=a.get("k", 1)),
    "running_average": lambda o, a: o.running_average(width=a.get("w", 3)),
    "set_freqs": lambda o, a: setattr(o, "smooth_fa_freqs", _freqs(a)),
    "set_frequencies": lambda o, a: setattr(o, "smooth_fa_frequencies", _freqs(a)),
    "set_freq_range": lambda o, a: setattr(o, "smooth_freq_range", (a["lo"], a["hi"])),
    "set_freq_points": lambda o, a: setattr(o, "smooth_freq_points", a["n"]),
    "set_by_range": lambda o, a: o.set_smooth_fa_frequecies_by_range((a["lo"], a["hi"]), a["n"]),
    "gen_smooth_w_freqs": lambda o, a: o.gen_smooth_fa_spectrum(smooth_fa_freqs=np.array(_freqs(a), dtype=float)),
}
ACC_ONLY = {
    "rra_velocity": lambda o, a: o.remove_rolling_average(mtype="velocity", freq_window=_roll_fw(o, a)),
    "rra_acc": lambda o, a: o.remove_rolling_average(mtype="acc", freq_window=_roll_fw(o, a)),
    "rebase_displacement": lambda o, a: o.rebase_displacement(),
    "zero_res_velocity": lambda o, a: o.set_zero_residual_velocity(timezone=_tz(o, a)),
    "zero_res_displacement": lambda o, a: o.set_zero_residual_displacement(),
    "zero_res_disp_and_velocity": lambda o, a: o.set_zero_residual_displacement_and_velocity(timezone=_tz(o, a)),
    "correct_me": lambda o, a: o.correct_me(),
    "set_response_times": lambda o, a: setattr(o, "response_times", _periods(o, a)),
    "gen_rs_w_times": lambda o, a: o.gen_response_spectrum(response_times=_periods(o, a)),
    "response_series_w_times": lambda o, a: o.response_series(response_times=_periods(o, a)),
}
def _scale_periods_inplace(o, a):
    """`asig.response_times *= c`: Python reads the property, scales the stored array in place and assigns the SAME object back."""
    if not (isinstance(o.response_times, np.ndarray) and o.response_times.dtype.kind == "f"):
        o.response_times = np.array(o.response_times, dtype=float)
    o.response_times *= a.get("c", 1.5)


def _scale_freqs_inplace(o, a):
    o.smooth_fa_freqs *= a.get("c", 1.25)


MUTATORS["scale_freqs_inplace"] = _scale_freqs_inplace
ACC_ONLY["scale_periods_inplace"] = _scale_periods_inplace
MUTATORS.update(ACC_ONLY)
# explicit regeneration calls with default arguments (must behave like reads)
REGEN = {
    "gen_fa_spectrum": lambda o: o.gen_fa_spectrum(),
    "generate_fa_spectrum": lambda o: o.generate_fa_spectrum(),
    "generate_smooth_fa_spectrum": lambda o: o.generate_smooth_fa_spectrum(),
    "gen_smooth_fa_spectrum": lambda o: o.gen_smooth_fa_spectrum(),
}
REGEN_ACC = {
    "generate_response_spectrum": lambda o: o.generate_response_spectrum(),
    "gen_response_spectrum": lambda o: o.gen_response_spectrum(),
    "generate_displacement_and_velocity_series": lambda o: o.generate_displacement_and_velocity_series(),
    "response_series": lambda o: o.response_series(),
}


def _tz(obj, args):
    tz = args.get("tz")
    if tz is None:
        return None
    dur = (obj.npts - 1) * obj.dt
    t0 = tz[0] * dur
    t1 = None if tz[1] is None else max(t0 + 2 * obj.dt, tz[1] * dur)
    return (t0, t1)


FIXED_ARGS = {
    "reset_values": {"rec": {"k": "noise", "n": 80, "seed": 7, "amp": 0}},
    "add_constant": {"c": 0.37},
    "add_series": {"seed": 3},
    "add_signal": {"seed": 4},
    "butter_pass": {"lo": 0.05, "hi": 0.5, "order": 2, "gibbs": None},
    "remove_average": {},
    "remove_poly": {"k": 2},
    "running_average": {"w": 5},
    "set_freqs": {"freqs": [0.5, 1.0, 2.0, 4.0, 8.0], "as": "list"},
    "set_frequencies": {"logspace": [0.3, 20.0, 50]},  # same length as the default grid: staleness shows in values only
    "set_freq_range": {"lo": 0.3, "hi": 12.0},
    "set_freq_points": {"n": 17},
    "set_by_range": {"lo": 0.4, "hi": 9.0, "n": 23},
    "gen_smooth_w_freqs": {"logspace": [0.2, 25.0, 50]},  # same length as the default grid
    "rra_velocity": {"width": 7},
    "rra_acc": {"width": 5},
    "rebase_displacement": {},
    "zero_res_velocity": {},
    "zero_res_displacement": {},
    "zero_res_disp_and_velocity": {},
    "correct_me": {},
    # shortest periods 8, 12 and 6 time steps: each needs a different interpolation factor (3, 2, 4) than the constructor's list
    "set_response_times": {"ratios": [8.0, 40.0, 90.0], "as": "list"},
    "gen_rs_w_times": {"ratios": [12.0, 55.0], "lead0": True},
    "response_series_w_times": {"ratios": [6.5, 70.0, 150.0, 200.0]},
    "scale_periods_inplace": {"c": 1.5},
    "scale_freqs_inplace": {"c": 1.25},
}
assert set(FIXED_ARGS) == set(MUTATORS)


def _make(cls_name, n, seed=11, dt=0.01):
    a = np.random.RandomState(seed).standard_normal(n) * np.hanning(n) + 0.05
    if cls_name == "acc":
        # shortest period 3*dt: the object has to interpolate the record (factor 4) for its response spectra, so a cached
        # integration grid from an earlier period list would show after the periods are changed
        return eqsig.AccSignal(a, dt, response_times=np.array([0.03, 0.08, 0.5, 2.0]))
    return eqsig.Signal(a, dt)


def _apply(ctx, obj, mut, args, fixed=False):
    """Apply a mutator.  C04 is about cache coherence, not about which arguments a mutator accepts (C17): a mutator that
    raises (e.g. a baseline correction on a record a history has driven to all zeros) is recorded as 'rejected' and the
    object must still be coherent afterwards.  With the fixed, known-valid arguments of the exhaustive clauses a raise
    means the harness no longer matches the library: inconclusive (exit 2), never a violation."""
    try:
        MUTATORS[mut](obj, args)
        return True
    except Violation:
        raise
    except Exception as e:  # noqa
        if fixed:
            raise core.HarnessError("%s(%r) raised %s: %s on the fixed record" % (mut, args, type(e).__name__, str(e)[:160]))
        ctx.cls("rejected=" + mut)
        return False


def _enum_cases(cls_name):
    state = ACC_STATE if cls_name == "acc" else SIG_STATE
    muts = [m for m in FIXED_ARGS if cls_name == "acc" or m not in ACC_ONLY]

    def enum(tier, shard, nshards):
        lengths = [None] if tier == "quick" else [64, 65, 96, 127, 128, 129]
        i = 0
        for n in lengths:
            for mask in range(2 ** len(state)):
                for k, mut in enumerate(muts):
                    if i % nshards == shard:
                        # quick: one of SMALL_LENGTHS per (state, change), rotating (every length meets every change and every state
                        # in which a given quantity is cached)
                        yield {"cls": cls_name, "n": _small_n(mask + k + bin(mask).count("1")) if n is None else n, "state": mask, "mut": mut}
                    i += 1
    return enum


def _exhaustive(case, ctx):
    cls_name = case["cls"]
    state = ACC_STATE if cls_name == "acc" else SIG_STATE
    obs = ACC_OBS if cls_name == "acc" else SIG_OBS
    obj = _make(cls_name, case["n"])
    v0 = np.array(obj.values)
    reads = [nm for b, nm in enumerate(state) if case["state"] >> b & 1]
    for nm in reads:
        read(obj, nm)
    pure(ctx, obj, v0, "n=%d, reads %s" % (case["n"], reads))
    _apply(ctx, obj, case["mut"], FIXED_ARGS[case["mut"]], fixed=True)
    vsnap = np.array(obj.values)  # the record as the change left it: no read may alter it
    fresh = fresh_of(obj)
    want = {nm: copy.deepcopy(read(fresh, nm)) for nm in obs}
    ctx.cls("mut=" + case["mut"], "reads=%d" % len(reads), "n=%d" % case["n"])
    ctx.nt(len(reads) > 0)
    what = "n=%d, after reads %s then %s" % (case["n"], reads, case["mut"])
    pure(ctx, fresh, vsnap, what + ", reading all observables of the fresh object")
    for nm in obs:
        c = copy.deepcopy(obj)
        got = read(c, nm)
        compare(ctx, nm, got, want[nm], what)
        again = read(c, nm)
        if not np.array_equal(np.asarray(got), np.asarray(again), equal_nan=True):
            ctx.fail("%s: second read of %s differs from the first" % (what, nm))
        pure(ctx, c, vsnap, "%s, reading %s" % (what, nm))
    # all observables in sequence on the object itself (reads must not disturb one another)
    for nm in obs:
        compare(ctx, nm, read(obj, nm), want[nm], what + " (sequential reads)")
    pure(ctx, obj, vsnap, what + ", reading all observables in sequence")


enum_clause(CLAUSES, "exhaustive-acc", _enum_cases("acc"),
            rule="AccSignal: every subset of {fa, smooth_fa, velocity/displacement, pga, pgv, pgd, response spectra} read (2^7) x every "
                 "mutator / settings change (26) on a fixed record (quick: n rotating through {96, 128, 127, 129} with the case; thorough: n in "
                 "{64,65,96,127,128,129}); each case then compares all 15 observables, each on its own deep copy and once more sequentially; "
                 "non-trivial = at least one quantity was read before the change",
            oracle="differential against a fresh object (1e-10 of magnitude); second read identical; the "
                   "values of the record bit for bit unchanged by the reads before and after the change",
            exhaustive_note="complete over cache state x mutator x observable for the listed records",
            quick_shards=8)(_exhaustive)
enum_clause(CLAUSES, "exhaustive-sig", _enum_cases("sig"),
            rule="Signal: 2^2 cache states x 15 mutators x 6 observables, same scheme",
            oracle="differential against a fresh object (1e-10 of magnitude); second read identical; values unchanged by reads",
            exhaustive_note="complete over cache state x mutator x observable for the listed records",
            quick_shards=1)(_exhaustive)


SETTINGS = ["set_freqs", "set_frequencies", "set_freq_range", "set_freq_points", "set_by_range", "gen_smooth_w_freqs",
            "scale_freqs_inplace", "set_response_times", "gen_rs_w_times", "response_series_w_times", "scale_periods_inplace"]
# a second value for every setting (same shape as FIXED_ARGS where that matters: same number of frequencies / periods)
ALT_ARGS = {
    "set_freqs": {"freqs": [0.6, 1.1, 2.3, 4.4, 7.7], "as": "ndarray"},
    "set_frequencies": {"logspace": [0.2, 15.0, 50]},
    "set_freq_range": {"lo": 0.1, "hi": 30.0},            # the constructor's default range
    "set_freq_points": {"n": 50},                           # the constructor's default count
    "set_by_range": {"lo": 0.1, "hi": 30.0, "n": 50},       # exactly the constructor's default
    "gen_smooth_w_freqs": {"logspace": [0.15, 22.0, 50]},
    "scale_freqs_inplace": {"c": 0.8},
    "set_response_times": {"ratios": [3.0, 8.0, 50.0, 200.0], "as": "ndarray"},   # the constructor's periods
    "gen_rs_w_times": {"ratios": [9.0, 55.0], "lead0": True},
    "response_series_w_times": {"ratios": [4.0, 70.0, 150.0, 200.0]},
    "scale_periods_inplace": {"c": 2.0 / 3.0},
}


def _reapply_enum(tier, shard, nshards):
    i = 0
    for cls_name in ("acc", "sig"):
        names = [m for m in SETTINGS if cls_name == "acc" or m not in ACC_ONLY]
        for s1 in names:
            for v1 in ("fixed", "alt"):
                for s2 in names:
                    for v2 in ("fixed", "alt"):
                        if i % nshards == shard:
                            yield {"cls": cls_name, "s1": s1, "v1": v1, "s2": s2, "v2": v2, "n": _small_n(i // 2)}
                        i += 1


@enum_clause(CLAUSES, "reapply-settings", _reapply_enum,
             rule="every ordered pair of settings changes (11 for AccSignal, 7 for Signal; two argument sets each, one of them "
                  "re-stating the constructor's defaults): apply S1, read everything, apply S2, read everything, apply S1 again with "
                  "the same arguments, read everything; record length rotating through {96, 128, 127, 129}; non-trivial = S1 != S2",
             oracle="differential against a fresh object after each of the three steps (1e-10 of magnitude); the values of the record bit for "
                    "bit unchanged throughout (settings changes and reads only)",
             exhaustive_note="complete over ordered pairs of settings changes x two argument sets each, on a fixed record", quick_shards=4)
def reapply_settings(case, ctx):
    cls_name = case["cls"]
    obs = ACC_OBS if cls_name == "acc" else SIG_OBS
    obj = _make(cls_name, case.get("n", 96))
    v0 = np.array(obj.values)
    ctx.nt(case["s1"] != case["s2"])
    ctx.cls("s1=" + case["s1"], "n=%d" % case.get("n", 96))

    def args(name, which):
        return FIXED_ARGS[name] if which == "fixed" else ALT_ARGS[name]

    def check(what):
        pure(ctx, obj, v0, what)
        fresh = fresh_of(obj)
        for nm in obs:
            compare(ctx, nm, read(obj, nm), read(fresh, nm), what)
        pure(ctx, obj, v0, what + ", all observables read")
    for nm in obs:
        read(obj, nm)
    pure(ctx, obj, v0, "n=%d, all observables read" % len(v0))
    for step, (name, which) in enumerate(((case["s1"], case["v1"]), (case["s2"], case["v2"]), (case["s1"], case["v1"]))):
        _apply(ctx, obj, name, args(name, which), fixed=True)
        check("after %s" % " -> ".join(["%s(%s)" % (case["s1"], case["v1"]), "%s(%s)" % (case["s2"], case["v2"]),
                                         "%s(%s) again" % (case["s1"], case["v1"])][:step + 1]))


# read-type calls with one-off (non-default) arguments: name -> (call, observables the call legitimately leaves different from
# those of an undisturbed object).  Everything else - the record itself first of all - must be untouched.
_FA_DOWN = ("fa_spectrum", "fa_freqs", "smooth_fa_spectrum")
ONEOFF_READS = {
    "gen_fa_spectrum(n=npts)": (lambda o: o.gen_fa_spectrum(n=o.npts), _FA_DOWN),
    "gen_fa_spectrum(n=npts+7)": (lambda o: o.gen_fa_spectrum(n=o.npts + 7), _FA_DOWN),
    "gen_fa_spectrum(n=2npts)": (lambda o: o.gen_fa_spectrum(n=2 * o.npts), _FA_DOWN),
    "gen_fa_spectrum(n=npts-9)": (lambda o: o.gen_fa_spectrum(n=o.npts - 9), _FA_DOWN),
    "gen_fa_spectrum(p2_plus=1)": (lambda o: o.gen_fa_spectrum(p2_plus=1), _FA_DOWN),
    "gen_fa_spectrum(p2_plus=2)": (lambda o: o.gen_fa_spectrum(p2_plus=2), _FA_DOWN),
    "generate_smooth_fa_spectrum(band=20)": (lambda o: o.generate_smooth_fa_spectrum(band=20), ("smooth_fa_spectrum",)),
    "gen_smooth_fa_spectrum(band=80)": (lambda o: o.gen_smooth_fa_spectrum(band=80), ("smooth_fa_spectrum",)),
}
ONEOFF_READS_ACC = {
    "gen_response_spectrum(xi=0.2)": (lambda o: o.gen_response_spectrum(xi=0.2), RS_OBS),
    "generate_response_spectrum(min_dt_ratio=1)": (lambda o: o.generate_response_spectrum(min_dt_ratio=1), RS_OBS),
    "response_series(xi=0.1)": (lambda o: o.response_series(xi=0.1), ()),
    "generate_displacement_and_velocity_series(trap=False)": (lambda o: o.generate_displacement_and_velocity_series(trap=False),
                                                              ("velocity", "displacement", "pgv", "pgd")),
}


def _iso_enum(tier, shard, nshards):
    i = 0
    for cls_name, state, obs in (("acc", ACC_STATE, ACC_OBS), ("sig", SIG_STATE, SIG_OBS)):
        for mask in range(2 ** len(state)):
            xs = obs + sorted(REGEN) + (sorted(REGEN_ACC) if cls_name == "acc" else [])
            if bin(mask).count("1") in (0, 1, len(state)):  # one-off calls: nothing / one quantity / everything cached beforehand
                xs = xs + sorted(ONEOFF_READS) + (sorted(ONEOFF_READS_ACC) if cls_name == "acc" else [])
            for k, x in enumerate(xs):
                for n in ([_small_n(mask + k + bin(mask).count("1"))] if tier == "quick" else SMALL_LENGTHS):
                    if i % nshards == shard:
                        yield {"cls": cls_name, "state": mask, "x": x, "n": n}
                    i += 1


@enum_clause(CLAUSES, "read-isolation", _iso_enum,
             rule="every cache state x every read X (15 observables + 8 explicit default regeneration calls + 12 generation calls with one-off "
                  "arguments: gen_fa_spectrum(n = npts | npts+7 | 2 npts | npts-9), (p2_plus = 1 | 2), smoothing with another band, spectra with "
                  "another damping / min_dt_ratio, response_series, rectangle-rule integration; these in the states with nothing, one quantity or everything cached): X read twice, then the record itself and every "
                  "other observable Y (for a one-off call: every Y the call does not legitimately regenerate) compared with a deep copy taken "
                  "before X was read; after a gen_fa_spectrum(n= / p2_plus=) call the Fourier spectrum, its frequencies and the smoothed "
                  "spectrum are compared with a fresh object given the same call, the smoothed one also with the Konno-Ohmachi reference; record length rotating through {96, 128, 127, 129} (thorough: all four); non-trivial = state has >= 1 "
                  "cached quantity",
             oracle="differential: deep copy before vs after a read (exact, NaN-aware), values of the record bit for bit; reads idempotent",
             exhaustive_note="complete over cache state x read x other observable on a fixed record", quick_shards=2)
def read_isolation(case, ctx):
    cls_name = case["cls"]
    state = ACC_STATE if cls_name == "acc" else SIG_STATE
    obs = ACC_OBS if cls_name == "acc" else SIG_OBS
    n = case.get("n", 96)
    obj = _make(cls_name, n)
    v0 = np.array(obj.values)
    for b, nm in enumerate(state):
        if case["state"] >> b & 1:
            read(obj, nm)
    ctx.nt(case["state"] != 0)
    ctx.cls("x=" + case["x"], "n=%d" % n)
    before = copy.deepcopy(obj)
    x = case["x"]
    skip = ()
    if x in obs:
        v1 = copy.deepcopy(read(obj, x))
        v2 = read(obj, x)
        if not np.array_equal(np.asarray(v1), np.asarray(v2), equal_nan=True):
            ctx.fail("read of %s is not idempotent" % x)
    else:
        fn = REGEN.get(x) or REGEN_ACC.get(x)
        if fn is None:
            fn, skip = ONEOFF_READS.get(x) or ONEOFF_READS_ACC[x]
        try:
            fn(obj)
        except Exception as e:  # noqa
            ctx.fail("%s raised %s: %s" % (x, type(e).__name__, e))
    pure(ctx, obj, v0, "n=%d, state %s, %s" % (n, [nm for b, nm in enumerate(state) if case["state"] >> b & 1], x))
    for y in obs:
        if y == x or y in skip:
            continue
        got = read(obj, y)
        pure(ctx, obj, v0, "n=%d, %s and then %s read" % (n, x, y))
        want = read(copy.deepcopy(before), y)
        if not np.array_equal(np.asarray(got), np.asarray(want), equal_nan=True):
            ctx.fail("n=%d: reading %s changed %s (state %s)" % (n, x, y, [nm for b, nm in enumerate(state) if case["state"] >> b & 1]))
    if skip == _FA_DOWN:
        # the Fourier spectrum was replaced: it, its frequencies and the smoothed spectrum (which must now be the smoothing of the
        # CURRENT Fourier spectrum, whatever was cached before) are those of a fresh object given the same call
        ref = fresh_of(before)
        fn(ref)
        what = "n=%d, state %s, %s" % (n, [nm for b, nm in enumerate(state) if case["state"] >> b & 1], x)
        for y in _FA_DOWN:
            compare(ctx, y, read(obj, y), read(ref, y), what)
        _anchor_smooth(ctx, obj, 40, what, "%d:%s" % (n, x))
    pure(ctx, obj, v0, "n=%d, %s and then all other observables read" % (n, x))


# ---------------------------------------------------------------------------
# random histories (Hypothesis state machine)


_DEAD_OBS = ["npts", "time"]  # what is still compared once a history has left the domain of finite records


class Hist(object):
    def __init__(self, init, ctx):
        self.ctx = ctx
        a = gen.build(init["rec"])
        self.acc = bool(init["acc"])
        if self.acc:
            kw = {}
            if init.get("ratios"):
                kw["response_times"] = np.array([r * init["dt"] for r in init["ratios"]])
            self.obj = eqsig.AccSignal(a, init["dt"], **kw)
        else:
            self.obj = eqsig.Signal(a, init["dt"])
        self.obs = ACC_OBS if self.acc else SIG_OBS
        self.vsnap = np.array(self.obj.values)  # the record as the last change of the values left it
        self.taint = set()                      # observables regenerated with one-off arguments since then (not comparable)
        self.fa_call = None                     # the last gen_fa_spectrum(n= / p2_plus=) call since then: the fresh object gets it too
        self.read_before = set()
        self.pending = set()
        self.nmut = 0
        self.nstep = 0
        ctx.cls("acc" if self.acc else "sig")

    def fresh(self):
        """The reference object: same values and settings; after an explicit gen_fa_spectrum(n= / p2_plus=) it is given the same
        call (its Fourier spectrum, frequencies and - lazily - smoothed spectrum are then those of that transform)."""
        f = fresh_of(self.obj)
        if self.fa_call is not None:
            self.fa_call(f)
        return f

    def step(self, op, args):
        ctx = self.ctx
        if op == "read":
            fresh = self.fresh()
            for nm in args["names"]:
                if nm not in self.obs:
                    continue
                got = read(self.obj, nm)
                if nm not in self.taint:
                    compare(ctx, nm, got, read(fresh, nm), "history step %d (read)" % self.nstep)
                if nm in self.pending:
                    ctx.nt(True)
                self.read_before.add(nm)
            if self.obs is not _DEAD_OBS:
                pure(ctx, self.obj, self.vsnap, "history step %d (read %s)" % (self.nstep, args["names"]))
            self.nstep += 1
        elif op == "regen":
            fn = REGEN.get(args["name"]) or (REGEN_ACC.get(args["name"]) if self.acc else None)
            if fn is None:
                return
            try:
                fn(self.obj)
            except Exception as e:  # noqa
                ctx.fail("%s() raised %s: %s" % (args["name"], type(e).__name__, e))
            if args["name"] in ("gen_fa_spectrum", "generate_fa_spectrum"):
                self.fa_call = None  # the default transform again
            if self.obs is not _DEAD_OBS:
                pure(ctx, self.obj, self.vsnap, "history step %d (%s())" % (self.nstep, args["name"]))
        elif op == "oneoff":
            # a generation call with one-off arguments: what it regenerates is not comparable with a plain fresh object until the
            # values change (which clears every cache); the record and everything else must be untouched
            ent = ONEOFF_READS.get(args["name"]) or (ONEOFF_READS_ACC.get(args["name"]) if self.acc else None)
            if ent is None or self.obs is _DEAD_OBS:
                return
            try:
                ent[0](self.obj)
            except Exception as e:  # noqa
                ctx.fail("%s raised %s: %s" % (args["name"], type(e).__name__, e))
            if ent[1] == _FA_DOWN:
                self.fa_call = ent[0]
            else:
                self.taint |= set(ent[1])
            ctx.cls("oneoff")
            pure(ctx, self.obj, self.vsnap, "history step %d (%s)" % (self.nstep, args["name"]))
        else:
            if op in ACC_ONLY and not self.acc:
                return
            if op == "butter_pass" and self.obj.npts <= 3 * (2 * args.get("order", 4) + 1) + 2:
                return
            ok = _apply(ctx, self.obj, op, args)
            if op in SETTINGS and ok and self.obs is not _DEAD_OBS:
                pure(ctx, self.obj, self.vsnap, "history step %d (%s)" % (self.nstep, op))
            else:
                self.vsnap = np.array(self.obj.values)
                if ok:
                    self.taint = set()
                    self.fa_call = None
            ctx.cls("mut=" + op)
            self.nmut += 1
            self.nstep += 1
            self.pending |= self.read_before
            self.read_before = set()
            # the object must stay structurally sound after every change
            if not np.all(np.isfinite(np.asarray(self.obj.values, dtype=float))):
                # the history left the domain of finite records (e.g. repeated corrections overflowed); stop comparing
                self.obs = _DEAD_OBS

    def finish(self):
        fresh = self.fresh()
        for nm in self.obs:
            got = read(self.obj, nm)
            if nm not in self.taint:
                compare(self.ctx, nm, got, read(fresh, nm), "end of history")
        if self.obs is not _DEAD_OBS:
            pure(self.ctx, self.obj, self.vsnap, "end of history (all observables read)")
        self.ctx.cls("muts>=3" if self.nmut >= 3 else None)


_freq_lists = st.lists(gen.log_uniform(0.05, 40.0), min_size=2, max_size=12, unique=True).map(sorted)
_ratio_lists = st.lists(gen.log_uniform(2.0, 300.0), min_size=1, max_size=4, unique=True).map(sorted)
_long_specs = gen.record_specs(min_n=64, max_n=300, kinds=["noise", "sines", "quake", "walk", "pulse"], amp_lo=-3, amp_hi=3,
                               allow_zero_runs=False)



def _with_length(t):
    spec, n = t
    if "n" not in spec:
        return spec
    spec = dict(spec, n=n)
    if "at" in spec:
        spec["at"] = spec["at"] % n
        spec["w"] = min(spec["w"], max(1, n // 4))
    return spec


# the same records at an exact power of two (the Fourier transform then needs no zero padding) and next to one
_pow2_specs = st.tuples(_long_specs, st.sampled_from([64, 128, 256, 127, 129, 65, 255, 257])).map(_with_length)
_init_specs = st.one_of(_long_specs, _pow2_specs)

HM = history_machine_base()


class C04Machine(HM):
    @initialize(rec=_init_specs, dt=st.sampled_from([0.005, 0.01, 0.02, 0.05]), acc=st.integers(0, 4).map(lambda k: k > 0),
                ratios=st.one_of(st.none(), _ratio_lists))
    def init(self, rec, dt, acc, ratios):
        self.start({"rec": rec, "dt": dt, "acc": acc, "ratios": ratios})

    @rule(names=st.lists(st.sampled_from(ACC_OBS), min_size=1, max_size=6, unique=True))
    def read(self, names):
        self.do("read", {"names": names})

    @rule(names=st.just(list(ACC_OBS)))
    def read_all(self, names):
        self.do("read", {"names": names})

    @rule(name=st.sampled_from(sorted(REGEN) + sorted(REGEN_ACC)))
    def regen(self, name):
        self.do("regen", {"name": name})

    @rule(name=st.sampled_from(sorted(ONEOFF_READS) + sorted(ONEOFF_READS_ACC)))
    def oneoff(self, name):
        self.do("oneoff", {"name": name})

    @rule(rec=_init_specs)
    def reset_values(self, rec):
        self.do("reset_values", {"rec": rec})

    @rule(c=st.floats(-10, 10, allow_nan=False))
    def add_constant(self, c):
        self.do("add_constant", {"c": c})

    @rule(seed=st.integers(0, 10 ** 6), which=st.sampled_from(["add_series", "add_signal"]))
    def add(self, seed, which):
        self.do(which, {"seed": seed})

    @rule(kind=st.sampled_from(["band", "low", "high"]), lo=gen.log_uniform(0.02, 0.5), ratio=gen.log_uniform(1.5, 10.0),
          order=st.integers(1, 4), gibbs=st.sampled_from([None, "start", "end", "mid"]))
    def butter(self, kind, lo, ratio, order, gibbs):
        hi = min(0.8, lo * ratio)
        args = {"order": order, "gibbs": gibbs, "lo": lo if kind in ("band", "high") else None,
                "hi": hi if kind in ("band", "low") else None}
        if kind == "band" and hi < lo * 1.5:
            return
        self.do("butter_pass", args)

    @rule(k=st.integers(0, 4))
    def remove_poly(self, k):
        self.do("remove_poly", {"k": k})

    @rule(section=st.one_of(st.just(-1), st.integers(2, 60)))
    def remove_average(self, section):
        self.do("remove_average", {"section": section})

    @rule(w=st.integers(1, 25))
    def running_average(self, w):
        self.do("running_average", {"w": w})

    @rule(width=st.integers(1, 30), mtype=st.sampled_from(["rra_velocity", "rra_acc"]))
    def rolling(self, width, mtype):
        self.do(mtype, {"width": width})

    @rule(which=st.sampled_from(["rebase_displacement", "zero_res_displacement", "correct_me"]))
    def baseline(self, which):
        self.do(which, {})

    @rule(which=st.sampled_from(["zero_res_velocity", "zero_res_disp_and_velocity"]),
          tz=st.one_of(st.none(), st.tuples(st.floats(0.0, 0.6), st.one_of(st.none(), st.floats(0.7, 1.0)))))
    def residual(self, which, tz):
        self.do(which, {"tz": None if tz is None else list(tz)})

    @rule(freqs=_freq_lists, which=st.sampled_from(["set_freqs", "set_frequencies", "gen_smooth_w_freqs"]),
          as_=st.sampled_from(["ndarray", "list"]))
    def smooth_freqs(self, freqs, which, as_):
        self.do(which, {"freqs": freqs, "as": as_})

    @rule(lo=gen.log_uniform(0.05, 2.0), span=gen.log_uniform(2.0, 100.0),
          which=st.sampled_from(["set_freqs", "set_frequencies", "gen_smooth_w_freqs"]))
    def smooth_freqs_same_length(self, lo, span, which):
        n = len(self.h.obj.smooth_fa_freqs) if self.h is not None else 50
        self.do(which, {"logspace": [lo, lo * span, n]})

    @rule(lo=gen.log_uniform(0.05, 2.0), span=gen.log_uniform(2.0, 100.0), n=st.integers(2, 40),
          which=st.sampled_from(["set_freq_range", "set_by_range", "set_freq_points"]))
    def smooth_range(self, lo, span, n, which):
        self.do(which, {"lo": lo, "hi": lo * span, "n": n})

    @rule(ratios=_ratio_lists, lead0=st.booleans(), as_=st.sampled_from(["ndarray", "list"]),
          which=st.sampled_from(["set_response_times", "gen_rs_w_times", "response_series_w_times"]))
    def periods(self, ratios, lead0, as_, which):
        self.do(which, {"ratios": ratios, "lead0": lead0, "as": as_})

    @rule(c=st.sampled_from([0.5, 1.5, 2.0, 3.0]), which=st.sampled_from(["scale_periods_inplace", "scale_freqs_inplace"]))
    def scale_setting_inplace(self, c, which):
        self.do(which, {"c": c})

    @rule(pool=st.integers(0, 3), which=st.sampled_from(["set_by_range", "set_freq_range", "set_freqs", "set_frequencies", "gen_smooth_w_freqs"]))
    def smooth_settings_from_pool(self, pool, which):
        """a small pool of settings (incl. the constructor default), so that the SAME setting is re-applied after other changes"""
        lo, hi, n = [(0.1, 30.0, 50), (0.5, 20.0, 50), (0.1, 30.0, 30), (1.0, 10.0, 50)][pool]
        if which in ("set_by_range", "set_freq_range"):
            self.do(which, {"lo": lo, "hi": hi, "n": n})
        else:
            self.do(which, {"logspace": [lo * 1.1, hi * 0.9, n]})

    @rule(pool=st.integers(0, 2), which=st.sampled_from(["set_response_times", "gen_rs_w_times", "response_series_w_times"]))
    def periods_from_pool(self, pool, which):
        self.do(which, {"ratios": [[8.0, 40.0, 90.0], [12.0, 55.0], [25.0, 60.0, 200.0]][pool], "lead0": False, "as": "ndarray"})

    @rule(r1=gen.log_uniform(2.0, 19.0), r2=gen.log_uniform(2.0, 60.0),
          which=st.sampled_from(["set_response_times", "gen_rs_w_times", "response_series_w_times"]))
    def spectra_periods_spectra(self, r1, r2, which):
        """read spectra for one (short) minimum period, change the periods, read again: both below and above the
        20-steps-per-period threshold at which the object interpolates the record"""
        self.do("set_response_times", {"ratios": [r1, 4 * r1], "lead0": False, "as": "ndarray"})
        self.do("read", {"names": ["s_a", "s_d"]})
        self.do(which, {"ratios": [r2, 3 * r2], "lead0": False, "as": "ndarray"})
        self.do("read", {"names": ["s_a", "s_v", "s_d"]})


machine_clause(CLAUSES, "histories", C04Machine, Hist, quick=120, thorough=350, quick_steps=30, thorough_steps=60,
               rule="Hypothesis rule-based state machine: random interleavings of 24 mutators / settings changes (generated arguments), "
                    "15 reads, 8 explicit default regeneration calls and 12 generation calls with one-off arguments (after "
                    "gen_fa_spectrum(n= / p2_plus=) the fresh object is given the same call; what the others regenerate is not compared "
                    "until the values change) on Signal / AccSignal objects built from generated records (n 64..300, half of "
                    "them at 64 / 128 / 256 or next to one; repo sampling rates); every read is compared with a fresh object, all observables "
                    "at the end; after every read, regeneration and settings change the record itself is compared bit for bit with its state "
                    "after the last change of the values; "
                    "non-trivial = some observable was read, then a change was made, then the same observable was read again",
               oracle="differential against a freshly constructed object (1e-10 of magnitude)",
               min_nontrivial=0.3)


# ---------------------------------------------------------------------------
# mid-range histories (added after round 5 of the seeding, DESIGN 8.5): records of 2e3..3e5 samples, 10..5000 smoothing
# targets, 10..1000 response periods, and products of two dimensions - sizes at which a cache "kept only for mid-size
# inputs", a blocked or a streamed variant would live.  Every case is a short scripted history: warm every observable,
# apply a change, read EVERY observable again and compare with a fresh object, apply the next change ...

def _hh(*parts):
    return int(hashlib.blake2b(":".join(str(p) for p in parts).encode(), digest_size=8).hexdigest(), 16)


def _pick(seq, *parts):
    return seq[_hh(*parts) % len(seq)]


def _shuffled(seq, *parts):
    return sorted(seq, key=lambda x: _hh(x, *parts))


def _as(arr, a):
    return np.array(arr, dtype=float) if a.get("as", "ndarray") == "ndarray" else [float(x) for x in arr]


def _logf_n(o, a, n=None):
    """`n` (default: as many as the object has now) log-spaced smoothing frequencies on [lo, hi]"""
    return np.logspace(np.log10(a["lo"]), np.log10(a["hi"]), int(n if n is not None else len(o.smooth_fa_freqs)))


def _same_ends(cur, p):
    """A grid with the same first value, last value and length as `cur` but other interior points (ascending)."""
    cur = np.asarray(cur, dtype=float)
    u = np.linspace(0.0, 1.0, len(cur))
    new = cur
    for q in (p, p + 0.5):
        new = cur[0] + (cur[-1] - cur[0]) * u ** q
        new[0], new[-1] = cur[0], cur[-1]
        if not np.array_equal(new, cur):
            break
    return new


def _inner(cur, which="hi"):
    """Same length, same first and last value: ONE inner entry moves - the second ('lo') or the second-to-last ('hi') - to the
    geometric mean with its outer neighbour, so the grid stays ascending.  A cache keyed by the length, the end points, the identity,
    or a leading ('hi') / trailing ('lo') stretch of the settings array is stale after this change."""
    new = np.array(cur, dtype=float)
    if len(new) >= 3:
        if which == "lo":
            new[1] = math.sqrt(new[0] * new[1])
        else:
            new[-2] = math.sqrt(new[-2] * new[-1])
    return new


def _set_freqs(o, f, route):
    if route == "freqs":
        o.smooth_fa_freqs = f
    elif route == "frequencies":
        o.smooth_fa_frequencies = f
    else:
        o.gen_smooth_fa_spectrum(smooth_fa_freqs=f)


def _set_periods(o, T, via):
    if via == "attr":
        o.response_times = T
    elif via == "gen":
        o.gen_response_spectrum(response_times=T)
    elif via == "generate":
        o.generate_response_spectrum(response_times=T)
    else:
        o.response_series(response_times=T)


def _periods_edge(o, a):
    T = np.array(o.response_times, dtype=float)
    T[a["i"]] *= a["c"]
    _set_periods(o, T, a.get("via", "attr"))


# mutators of the mid-range clauses whose arguments follow the object's CURRENT sizes (same number of targets / periods /
# samples as the object has at that point of the history: a cache keyed by a shape is then stale, not rebuilt)
MID_MUTATORS = {
    "reset_same_len": lambda o, a: o.reset_values(_build_rec({"k": "mid", "n": o.npts, "seed": a["seed"]})),
    "reset_new_len": lambda o, a: o.reset_values(_build_rec({"k": "mid", "n": a["n"], "seed": a["seed"]})),
    "set_freqs_n": lambda o, a: setattr(o, "smooth_fa_freqs", _as(_logf_n(o, a), a)),
    "set_frequencies_n": lambda o, a: setattr(o, "smooth_fa_frequencies", _as(_logf_n(o, a), a)),
    "gen_smooth_w_freqs_n": lambda o, a: o.gen_smooth_fa_spectrum(smooth_fa_freqs=_logf_n(o, a)),
    "set_by_range_n": lambda o, a: o.set_smooth_fa_frequecies_by_range((a["lo"], a["hi"]), len(o.smooth_fa_freqs)),
    "set_freqs_same_ends": lambda o, a: setattr(o, "smooth_fa_freqs", _same_ends(o.smooth_fa_freqs, a["p"])),
    "set_freqs_inner": lambda o, a: _set_freqs(o, _inner(o.smooth_fa_freqs, a.get("which", "hi")), a.get("route", "freqs")),
    "set_periods_inner": lambda o, a: _set_periods(o, _inner(o.response_times, a.get("which", "hi")), a.get("via", "attr")),
    "set_periods_n": lambda o, a: _set_periods(o, _as(o.dt * np.geomspace(a["rlo"], a["rhi"], len(o.response_times)), a),
                                               a.get("via", "attr")),
    "set_periods_same_ends": lambda o, a: _set_periods(o, _same_ends(o.response_times, a["p"]), a.get("via", "attr")),
    "set_periods_edge": _periods_edge,
}


def _kw(a, names):
    return {k: a[k] for k in names if k in a}


def _oneoff_smooth(o, a):
    kw = _kw(a, ("band",))
    if "lo" in a:
        kw["smooth_fa_freqs"] = _logf_n(o, a, a.get("n"))
    if a.get("via") == "generate":  # generate_smooth_fa_spectrum takes the band only
        o.generate_smooth_fa_spectrum(**_kw(a, ("band",)))
    else:
        o.gen_smooth_fa_spectrum(**kw)


def _oneoff_fa(o, a):
    # no explicit smoothing afterwards: the call itself must invalidate the smoothed spectrum, which is then read lazily and must
    # be the smoothing of THIS Fourier spectrum (fresh object given the same call + Konno-Ohmachi anchor)
    o.gen_fa_spectrum(**_kw(a, ("p2_plus", "n")))


def _oneoff_rs(o, a):
    kw = {}
    if "rlo" in a:
        kw["response_times"] = o.dt * np.geomspace(a["rlo"], a["rhi"], int(a.get("n") or len(o.response_times)))
    if "xi" in a:
        kw["xi"] = a["xi"]
    if "mdr" in a:
        kw["min_dt_ratio"] = a["mdr"]
    (o.generate_response_spectrum if a.get("via") == "generate" else o.gen_response_spectrum)(**kw)


# explicit (re)generation calls with NON-default one-off arguments (band, p2_plus / n, xi, min_dt_ratio, trap): not settings,
# so the reference is a fresh object on which the same call is made; the next step of the script is always a change of the
# values, after which the plain fresh object is the reference again
ONEOFF = {
    "oneoff_smooth": _oneoff_smooth,
    "oneoff_fa": _oneoff_fa,
    "oneoff_rs": _oneoff_rs,
    "oneoff_dv": lambda o, a: o.generate_displacement_and_velocity_series(**_kw(a, ("trap",))),
}
# steps that compute an observable at once: an exception there is the library failing to produce a value (a violation)
COMPUTING = {"gen_smooth_w_freqs_n", "gen_smooth_w_freqs", "gen_rs_w_times", "response_series_w_times"}


# the steps that change the record; after every other step (settings, explicit generation calls) and after every round of
# reads the record must be bit for bit what the last of these left
VALUE_MUTS = {"reset_same_len", "reset_new_len", "reset_values", "add_constant", "add_series", "add_signal", "butter_pass", "remove_average",
              "remove_poly", "running_average", "rra_velocity", "rra_acc", "rebase_displacement", "zero_res_velocity", "zero_res_displacement",
              "zero_res_disp_and_velocity", "correct_me"}


def _mid_apply(ctx, obj, mut, args, what):
    fn = ONEOFF.get(mut) or MID_MUTATORS.get(mut) or MUTATORS[mut]
    try:
        fn(obj, args)
    except Violation:
        raise
    except MemoryError as e:
        raise core.Inconclusive("out of memory in %s: %s" % (mut, str(e)[:120]))
    except Exception as e:  # noqa
        if mut in ONEOFF or mut in COMPUTING or args.get("via", "attr") != "attr" or args.get("route") == "gen":
            ctx.fail("%s: %s(%r) raised %s: %s" % (what, mut, args, type(e).__name__, str(e)[:200]))
        raise core.HarnessError("%s(%r) raised %s: %s on a scripted mid-range record" % (mut, args, type(e).__name__, str(e)[:160]))


def _rd(ctx, obj, nm, what):
    try:
        return getattr(obj, nm)
    except MemoryError as e:
        raise core.Inconclusive("out of memory reading %s: %s" % (nm, str(e)[:120]))
    except Exception as e:  # noqa
        ctx.fail("%s: reading %s raised %s: %s" % (what, nm, type(e).__name__, str(e)[:200]))


def _same(a, b):
    return np.array_equal(np.asarray(a), np.asarray(b), equal_nan=True)


def _mid_compare_all(ctx, obj, fresh, obs, what, key):
    """Every observable of `obs`: the object's value against the fresh object's (1e-10 of magnitude, like the other clauses),
    an immediate second read bit for bit, and - after all the others have been read - a third read bit for bit (reading one
    observable must not change another).  The object is read in a hash-chosen order, the fresh object in the listed order."""
    want = {}
    for nm in obs:
        want[nm] = np.array(_rd(ctx, fresh, nm, what + " (fresh object)"))
    order = _shuffled(list(obs), key)
    first = {}
    for nm in order:
        got = _rd(ctx, obj, nm, what)
        compare(ctx, nm, got, want[nm], what)
        first[nm] = np.array(got)
        if not _same(_rd(ctx, obj, nm, what), first[nm]):
            ctx.fail("%s: second read of %s differs from the first" % (what, nm))
    for nm in reversed(order):
        if not _same(_rd(ctx, obj, nm, what), first[nm]):
            ctx.fail("%s: %s changed while the other observables were read (order %s)" % (what, nm, order))


def _anchor_smooth(ctx, obj, band, what, key):
    """Independent spot check of the smoothed spectrum (two targets: a hash-chosen one and the last) against the Konno-Ohmachi
    reference of C07 evaluated on the object's own Fourier spectrum.  The fresh object shares the process - and therefore any
    process-wide state of the library - with the object under test; this anchor does not."""
    f = np.asarray(obj.fa_freqs, dtype=float)
    amp = np.asarray(obj.fa_spectrum)
    targ = np.asarray(obj.smooth_fa_freqs, dtype=float)
    got = np.asarray(obj.smooth_fa_spectrum)
    if got.shape != targ.shape or len(targ) == 0 or not np.all(np.isfinite(amp)) or not _ko.longdouble_ok():
        return
    idx = sorted({_hh(key, "anchor") % len(targ), len(targ) - 1})
    s_ref, cond = _ko.smooth(f, amp, targ[idx], band)
    s_ref = np.asarray(s_ref, dtype=float)
    for j, i in enumerate(idx):
        if not np.isfinite(cond[j]) or not np.isfinite(s_ref[j]):
            continue
        tol = 1e-10 * abs(s_ref[j]) + cond[j] + core.TINY
        if not abs(float(got[i]) - s_ref[j]) <= tol:
            ctx.fail("%s: smooth_fa_spectrum[%d] (target %.6g Hz, band %r) = %r, the Konno-Ohmachi weighted mean of the object's own "
                     "Fourier spectrum is %r (tol %.3g)" % (what, i, targ[i], band, got[i], s_ref[j], tol))


def _mid_obj(case):
    vals = _build_rec({"k": "mid", "n": case["n"], "seed": case["seed"]})
    dt = case["dt"]
    kw = {}
    ctor = case.get("ctor", "freqs")
    freqs = np.logspace(np.log10(case["flo"]), np.log10(case["fhi"]), int(case["nt"]))
    if ctor in ("freqs", "both"):
        kw["smooth_fa_freqs"] = freqs
    if ctor in ("range", "both"):
        kw["smooth_freq_range"] = (case["flo"] * 1.5, case["fhi"] * 0.5) if ctor == "both" else (case["flo"], case["fhi"])
    if case["cls"] != "acc":
        return eqsig.Signal(vals, dt, **kw)
    rctor = case.get("rctor", "times")
    if rctor in ("times", "both"):
        kw["response_times"] = dt * np.geomspace(case["rlo"], case["rhi"], int(case["P"]))
    if rctor in ("range", "both"):
        kw["response_period_range"] = (case["rlo"] * dt, case["rhi"] * dt)
    return eqsig.AccSignal(vals, dt, **kw)


def _mid_run(case, ctx):
    acc = case["cls"] == "acc"
    try:
        obj = _mid_obj(case)
    except MemoryError as e:
        raise core.Inconclusive("out of memory building the object: %s" % str(e)[:120])
    obs = [nm for nm in (ACC_OBS if acc else SIG_OBS) if case.get("rs", True) or nm not in RS_OBS]
    ctx.cls("cls=" + case["cls"], "fam=" + case["fam"], "n~2^%d" % int(round(math.log2(case["n"]))),
            "rs-read" if acc and case.get("rs", True) else None)
    ctx.nt(len(case["steps"]) > 0)
    key = "%s:%s" % (case["seed"], case["n"])
    vsnap = np.array(obj.values)
    if case.get("check_ctor"):
        _mid_compare_all(ctx, obj, fresh_of(obj), obs, "freshly constructed (%s/%s)" % (case.get("ctor"), case.get("rctor")), key)
    else:
        for nm in _shuffled(list(obs), key, "warm"):
            _rd(ctx, obj, nm, "warm-up")
    pure(ctx, obj, vsnap, "n=%d: all observables read once (%s)" % (case["n"], _shuffled(list(obs), key, "warm")))
    hist = []
    anchored = False
    for i, (mut, args) in enumerate(case["steps"]):
        hist.append(mut)
        what = "n=%d, %d targets%s: warm all -> %s" % (case["n"], case["nt"], ", %d periods" % case["P"] if acc else "", " -> ".join(hist))
        ctx.cls("mut=" + mut)
        _mid_apply(ctx, obj, mut, args, what)
        if mut in VALUE_MUTS:
            vsnap = np.array(obj.values)
        else:
            pure(ctx, obj, vsnap, what)
        try:
            fresh = fresh_of(obj)
        except MemoryError as e:
            raise core.Inconclusive("out of memory building the fresh object: %s" % str(e)[:120])
        band = 40
        if mut in ONEOFF:
            _mid_apply(ctx, fresh, mut, args, what + " (same call on the fresh object)")
            band = args.get("band", 40) if mut == "oneoff_smooth" else 40
        _mid_compare_all(ctx, obj, fresh, obs, what, "%s:%d" % (key, i))
        pure(ctx, obj, vsnap, what + ", all observables read")
        pure(ctx, fresh, vsnap, what + ", all observables of the fresh object read")
        last = i == len(case["steps"]) - 1
        smooth_step = mut.startswith(("set_f", "gen_smooth", "scale_freqs", "set_by", "oneoff_smooth", "oneoff_fa"))
        if "smooth_fa_spectrum" in obs and (last or (smooth_step and not anchored)):
            _anchor_smooth(ctx, obj, band, what, key)
            anchored = anchored or smooth_step


# -- scripts -----------------------------------------------------------------

VAL_SIG = ["reset_same_len", "reset_shorter", "reset_half", "add_constant", "add_series", "add_signal", "butter_band",
           "butter_low_gibbs", "butter_high", "remove_average", "remove_average_section", "remove_poly"]
VAL_ACC = VAL_SIG + ["rebase_displacement", "zero_res_velocity", "zero_res_velocity_tz", "zero_res_displacement",
                     "zero_res_disp_and_velocity", "zero_res_disp_and_velocity_tz"]
LOOP_SIG = ["running_average"]                      # one Python-level iteration per sample: affordable for shorter records only
LOOP_ACC = ["running_average", "rra_velocity", "rra_acc", "correct_me"]
SMOOTH_SAME = ["set_freqs", "set_frequencies", "gen_smooth_w_freqs", "set_freq_range", "set_by_range_n", "scale_freqs_inplace",
               "set_freqs_same_ends", "set_freqs_inner"]   # same number of targets, other values
SMOOTH_LEN = ["set_freq_points", "set_freqs_new_len"]
PER_ATTR = ["set_periods", "scale_periods_inplace", "set_periods_same_ends", "set_periods_tail", "set_periods_head", "set_periods_inner"]
PER_COMP = ["gen_rs_w_times", "generate_rs_w_times", "response_series_w_times"]
PER_LEN = ["set_periods_new_len"]


def _step(kind, st, key):
    """Scripted step `kind` -> [mutator, JSON args]; `st` tracks the sizes of the object along the script."""
    s = _hh(key, kind) % (2 ** 31 - 1)
    u = (s % 1000) / 1000.0
    n = st["n"]
    flo, fhi = st["flo"] * (1.1 + 0.5 * u), st["fhi"] * (0.65 + 0.25 * u)
    how = ("ndarray", "list")[s % 2]
    if kind == "reset_same_len":
        return ["reset_same_len", {"seed": s}]
    if kind == "reset_shorter":   # a few samples fewer: almost always the same padded transform length
        st["n"] = n - 1 - s % 7
        return ["reset_new_len", {"n": st["n"], "seed": s}]
    if kind == "reset_half":      # another octave: other transform length
        st["n"] = n // 2 + 3 + s % 5
        return ["reset_new_len", {"n": st["n"], "seed": s}]
    if kind == "add_constant":
        return ["add_constant", {"c": round(0.1 + u, 3)}]
    if kind in ("add_series", "add_signal"):
        return [kind, {"seed": s}]
    if kind == "butter_band":
        return ["butter_pass", {"lo": 0.04, "hi": 0.5, "order": 2, "gibbs": None}]
    if kind == "butter_low_gibbs":
        return ["butter_pass", {"lo": None, "hi": 0.3, "order": 4, "gibbs": ("start", "end", "mid")[s % 3]}]
    if kind == "butter_high":
        return ["butter_pass", {"lo": 0.05, "hi": None, "order": 3, "gibbs": None}]
    if kind == "remove_average":
        return ["remove_average", {}]
    if kind == "remove_average_section":
        return ["remove_average", {"section": 2 + s % max(1, n // 2)}]
    if kind == "remove_poly":
        return ["remove_poly", {"k": 1 + s % 3}]
    if kind == "running_average":
        return ["running_average", {"w": 3 + s % 9}]
    if kind in ("rra_velocity", "rra_acc"):
        return [kind, {"width": 5 + s % 9}]
    if kind in ("rebase_displacement", "zero_res_velocity", "zero_res_displacement", "zero_res_disp_and_velocity", "correct_me"):
        return [kind, {}]
    if kind == "zero_res_velocity_tz":
        return ["zero_res_velocity", {"tz": [0.2, 0.9]}]
    if kind == "zero_res_disp_and_velocity_tz":
        return ["zero_res_disp_and_velocity", {"tz": [0.1, None] if s % 2 else [0.15, 0.85]}]
    if kind == "set_freqs":
        return ["set_freqs_n", {"lo": flo, "hi": fhi, "as": how}]
    if kind == "set_frequencies":
        return ["set_frequencies_n", {"lo": flo, "hi": fhi, "as": how}]
    if kind == "gen_smooth_w_freqs":
        return ["gen_smooth_w_freqs_n", {"lo": flo, "hi": fhi}]
    if kind == "set_freq_range":
        return ["set_freq_range", {"lo": flo, "hi": fhi}]
    if kind == "set_by_range_n":
        return ["set_by_range_n", {"lo": flo, "hi": fhi}]
    if kind == "scale_freqs_inplace":
        return ["scale_freqs_inplace", {"c": (1.25, 0.8)[s % 2]}]
    if kind == "set_freqs_same_ends":
        return ["set_freqs_same_ends", {"p": (1.0, 1.7)[s % 2]}]
    if kind == "set_freqs_inner":
        return ["set_freqs_inner", {"route": ("freqs", "frequencies", "gen")[s % 3], "which": ("lo", "hi")[(s // 3) % 2]}]
    if kind == "set_freq_points":
        st["nt"] = max(3, st["nt"] // 2 + s % 3) if s % 2 else st["nt"] + 1 + s % 3
        return ["set_freq_points", {"n": st["nt"]}]
    if kind == "set_freqs_new_len":
        st["nt"] = max(3, st["nt"] // 2 + s % 3) if s % 2 else st["nt"] + 1 + s % 3
        return ["set_freqs", {"logspace": [flo, fhi, st["nt"]], "as": how}]
    rlo, rhi = st["rlo"] * (1.0 + 0.25 * u), st["rhi"] * (0.7 + 0.2 * u)
    if kind in ("set_periods", "gen_rs_w_times", "generate_rs_w_times", "response_series_w_times"):
        via = {"set_periods": "attr", "gen_rs_w_times": "gen", "generate_rs_w_times": "generate", "response_series_w_times": "series"}[kind]
        return ["set_periods_n", {"rlo": rlo, "rhi": rhi, "via": via, "as": how}]
    if kind == "scale_periods_inplace":
        return ["scale_periods_inplace", {"c": (1.1, 1.0 / 1.1)[s % 2]}]
    if kind == "set_periods_same_ends":
        return ["set_periods_same_ends", {"p": (1.0, 1.7)[s % 2], "via": ("attr", "gen")[(s // 2) % 2] if st.get("rs") else "attr"}]
    if kind == "set_periods_tail":   # only the last period differs
        return ["set_periods_edge", {"i": -1, "c": 1.07, "via": ("attr", "gen")[s % 2] if st.get("rs") else "attr"}]
    if kind == "set_periods_head":   # only the first (shortest) period differs
        return ["set_periods_edge", {"i": 0, "c": 0.93, "via": ("attr", "gen")[s % 2] if st.get("rs") else "attr"}]
    if kind == "set_periods_inner":
        return ["set_periods_inner", {"via": ("attr", "gen", "generate", "series")[s % 4] if st.get("rs") else "attr",
                                      "which": ("lo", "hi")[(s // 4) % 2]}]
    if kind == "set_periods_new_len":
        st["P"] = max(3, st["P"] // 2 + s % 3) if s % 2 else st["P"] + 1 + s % 3
        return ["set_response_times", {"rlog": [rlo, rhi, st["P"]], "as": how}]
    raise KeyError(kind)


def _oneoff_step(kind, st, key):
    s = _hh(key, kind) % (2 ** 31 - 1)
    u = (s % 1000) / 1000.0
    if kind == "band":
        return ["oneoff_smooth", {"band": (20, 57.5, 80)[s % 3], "via": ("gen", "generate")[(s // 3) % 2]}]
    if kind == "freqs_band":
        return ["oneoff_smooth", {"band": (20, 57.5, 80)[s % 3], "lo": st["flo"] * (1.1 + 0.5 * u), "hi": st["fhi"] * (0.65 + 0.25 * u)}]
    raise KeyError(kind)


LOOP_COST = {"running_average": 5e-6, "rra_velocity": 5e-6, "rra_acc": 5e-6, "correct_me": 1e-6}


def _base(cls, n, idx, tag, nt=None, P=None, rlo=24.0, rhi=280.0, rs=None):
    """Case skeleton: sizes, sampling step, RNG seed (from VERIF_SEED and the index), frequency / period ranges."""
    seed = _hh(gen.run_seed(), tag, idx) % (2 ** 31 - 1)
    dt = (0.005, 0.01, 0.02)[seed % 3]
    npad = 2 ** int(math.ceil(math.log2(n)))
    df = 1.0 / (npad * dt)
    if nt is None:   # few targets: the product with the number of Fourier frequencies stays below about 1e6 (the products have their own clause)
        nt = int(max(5, min(30, (3e5 * (1 + 2 * (seed % 1000) / 1000.0)) // (npad // 2))))
    if P is None:
        P = 3 + seed % 6
    if rs is None:
        rs = n <= 3500
    return {"cls": cls, "fam": tag.split(":")[1], "n": int(n), "dt": dt, "seed": int(seed), "nt": int(nt),
            "flo": round(max(0.1, 4 * df), 5), "fhi": round(0.6 * 0.5 / dt, 4), "P": int(P), "rlo": float(rlo), "rhi": float(rhi),
            "rs": bool(rs and cls == "acc"), "steps": []}


def _script(case, kinds, oneoff=()):
    st = {k: case[k] for k in ("n", "nt", "P", "flo", "fhi", "rlo", "rhi", "rs")}
    steps = []
    for j, k in enumerate(kinds):
        key = "%s:%d" % (case["seed"], j)
        steps.append(_oneoff_step(k, st, key) if k in oneoff else _step(k, st, key))
    case["steps"] = steps
    case["kinds"] = list(kinds)
    return case


def _est(case):
    """Rough CPU seconds of a case (measured constants): used only to spread the cases evenly over the shards."""
    n, acc = case["n"], case["cls"] == "acc"
    npad = 2 ** int(math.ceil(math.log2(n)))
    per = 1.0e-7 * npad + 1.1e-7 * (npad // 2) * case["nt"] + (5e-7 * n if acc else 0.0) + 2e-7 * n
    if acc and case.get("rs", True):
        fac = min(max(4, case.get("mdr", 4)), max(1, math.ceil(20.0 / case["rlo"])))
        per += n * fac * (1.1e-5 + 3.5e-8 * case["P"])
    t = per * (1 + 2 * len(case["steps"]) + (1 if case.get("check_ctor") else 0)) + 0.01
    for k in case.get("kinds", []):
        t += LOOP_COST.get(k, 0.0) * n
        if k == "response_series_w_times":
            t += n * (1.1e-5 + 3.5e-8 * case["P"])
    return t + 8e-7 * (npad // 2)


def _deal(cases, shard, nshards):
    """Deterministic partition of the cases over the shards (longest first onto the least loaded shard)."""
    load = [0.0] * nshards
    mine = []
    for i in sorted(range(len(cases)), key=lambda i: (-_est(cases[i]), i)):
        k = min(range(nshards), key=lambda j: (load[j], j))
        load[k] += _est(cases[i])
        if k == shard:
            mine.append(i)
    for i in sorted(mine):
        c = dict(cases[i])
        c.pop("kinds", None)
        yield c


def _pow2_sizes(klo, khi, tag, exact=2, near=2):
    """Record lengths that are an exact power of two (`exact` of them, spread over the exponents klo..khi) or next to one
    (`near`: 2^k - 1, 2^k + 1 alternating): at 2^k the Fourier transform needs no zero padding, one sample more doubles it."""
    ks = list(range(klo, khi + 1))
    out = set()
    for j in range(exact):
        part = ks[j * len(ks) // exact:(j + 1) * len(ks) // exact] or ks
        out.add(2 ** _pick(part, gen.run_seed(), tag, "exact", j))
    for j in range(near):
        out.add(2 ** _pick(ks, gen.run_seed(), tag, "near", j) + (-1, 1)[j % 2])
    return sorted(out)


def _chunks(seq, k):
    return [seq[i:i + k] for i in range(0, len(seq), k)]


# -- 1. record length ---------------------------------------------------------

def _len_cases(tier):
    quick = tier == "quick"
    hi = 300000 if quick else 2000000
    # the ladder covers [2000, 0.62 hi]; the upper end itself is always a size (a window that opens above ~0.6 hi is met there)
    sizes = set(gen.size_ladder(2000, int(0.62 * hi), 9 if quick else 24, "c04:len:" + tier, mined_limit=4 if quick else 12)) | {2000, hi}
    sizes = sorted(sizes | set(_pow2_sizes(11, 18, "c04:len", 2, 2) if quick else _pow2_sizes(11, 20, "c04:len", 10, 6)))
    loop_max = 20000 if quick else 80000
    cases = []
    for i, n in enumerate(sizes):
        for cls in ("acc", "sig"):
            acc = cls == "acc"
            pool = (VAL_ACC + LOOP_ACC + SMOOTH_SAME + SMOOTH_LEN + PER_ATTR + PER_LEN) if acc else (VAL_SIG + LOOP_SIG + SMOOTH_SAME + SMOOTH_LEN)
            every = (3 if n <= 120000 else 5) if quick else 1
            kinds = [k for j, k in enumerate(pool) if (i + j) % every == 0]
            kinds = [k for k in kinds if k not in LOOP_COST or n <= (5 * loop_max if k == "correct_me" else loop_max)]
            kinds = _shuffled(kinds, gen.run_seed(), n, cls)
            for f, chunk in enumerate(_chunks(kinds, 5)):
                c = _base(cls, n, "%d:%s:%d" % (i, cls, f), "c04:length:" + tier)
                cases.append(_script(c, chunk))
    return cases


def _len_enum(tier, shard, nshards):
    return _deal(_len_cases(tier), shard, nshards)


enum_clause(CLAUSES, "mid-range", _len_enum,
            rule="record length laddered from 2 000 to 300 000 samples (quick: 9 log-bins to 186 000 + both ends + sizes aimed at integer literals of "
                 "the source + two exact powers of two and two lengths next to one; thorough: 24 bins to 2 000 000), AccSignal and Signal; per length every third (above 120 000 samples every fifth; thorough: every) one of 39 / 23 "
                 "scripted changes (each in-place mutator incl. three Butterworth forms, same-length / shorter / half-length reset_values, "
                 "time-zone variants; every smoothing-frequency setter with the SAME number of targets, same end points, another count; "
                 "one inner target moved; period setters incl. one inner period changed) in histories of <= 5 steps: warm every observable, change, re-read EVERY observable, change ...; "
                 "response spectra are read for records <= 3 500 samples (longer ones: mid-range-spectra), per-sample Python-loop mutators applied to <= 20 000 (thorough 80 000)",
            oracle="differential against a fresh object after every step (1e-10 of magnitude), second and third read bit for bit; "
                   "smoothed spectrum additionally anchored on two targets to the Konno-Ohmachi reference of C07 (1e-10 + conditioning bound)",
            exhaustive_note="one history family per ladder size; not exhaustive over sizes", quick_shards=4)(_mid_run)


# -- 2. response spectra: record length, number of periods, periods x samples ---------------------------------

PER_SAME = ["set_periods", "gen_rs_w_times", "generate_rs_w_times", "response_series_w_times", "scale_periods_inplace",
            "set_periods_same_ends", "set_periods_tail", "set_periods_head"]


def _rs_script(c, idx, loop_ok, extra=0, same_len=False):
    """[two inner periods changed (count and end points kept; route rotating), values changed, periods changed again (another way /
    another count) or a smoothing setting]: the kinds of the 2nd and 3rd step rotate with the index of the case and with VERIF_SEED,
    so that all of them meet all size classes."""
    r = idx + gen.run_seed()
    vals = [k for k in VAL_ACC + (LOOP_ACC if loop_ok else []) if not (same_len and k in ("reset_shorter", "reset_half"))]
    third = PER_LEN + ["set_freqs", "set_freq_points"] + PER_SAME
    kinds = ["set_periods_inner", vals[(5 * r + 1) % len(vals)], third[(3 * r + 2) % len(third)]]
    for e in range(extra):
        kinds += [vals[(5 * r + 7 + 3 * e) % len(vals)], PER_SAME[(r + 3 + e) % len(PER_SAME)]]
    return _script(c, kinds)


def _rs_cases(tier):
    quick = tier == "quick"
    nmax = 24000 if quick else 120000
    pmax = 1000 if quick else 3000
    tag = "c04:spectra:" + tier
    extra = 0 if quick else 1
    cases = []
    idx = 0
    # (a) record length, a handful of periods, no interpolation (shortest period >= 20 steps)
    for n in sorted(set(gen.size_ladder(2000, nmax, 5 if quick else 14, tag + ":n", mined_limit=3 if quick else 8))
                    | set(_pow2_sizes(11, 14 if quick else 16, tag, 1 if quick else 4, 1 if quick else 3))):
        c = _base("acc", n, "a%d" % idx, tag, nt=8, rs=True)
        cases.append(_rs_script(c, idx, n <= 20000, extra))
        idx += 1
    # (b) the object interpolates the record 2, 3 or 4 times finer (shortest period 12, 8, 6.8 steps)
    for n in gen.ladder(2000, 10000 if quick else 40000, 4 if quick else 9, tag + ":i"):
        c = _base("acc", n, "b%d" % idx, tag, nt=8, rs=True, rlo=(12.0, 8.0, 6.8)[(idx + gen.run_seed()) % 3], rhi=200.0)
        cases.append(_rs_script(c, idx, True, extra, same_len=True))
        idx += 1
    # (c) number of periods
    for P in sorted(set(gen.size_ladder(10, pmax, 7 if quick else 14, tag + ":p", mined_limit=3 if quick else 6)) | {10, pmax}):
        n = 2000 + _hh(gen.run_seed(), tag, "pn", P) % 1500
        c = _base("acc", n, "c%d" % idx, tag, nt=8, P=P, rs=True)
        cases.append(_rs_script(c, idx, True, extra))
        idx += 1
    # (d) periods x samples
    for P, n in gen.product_pairs(1e5, 1e7 if quick else 2e7, 6 if quick else 14, (10, pmax), (2000, nmax), tag + ":x"):
        c = _base("acc", n, "d%d" % idx, tag, nt=8, P=P, rs=True)
        c["fam"] = "spectra-product"
        cases.append(_rs_script(c, idx, n <= 20000, extra))
        idx += 1
    return cases


enum_clause(CLAUSES, "mid-range-spectra", lambda tier, shard, nshards: _deal(_rs_cases(tier), shard, nshards),
            rule="AccSignal with all 15 observables read (response spectra included) after every step: (a) record length laddered 2 000..24 000 "
                 "plus an exact power of two and a length next to one (thorough 120 000; one Python iteration per sample makes longer records unaffordable), (b) records of 2 000..10 000 (40 000) "
                 "samples whose shortest period makes the object interpolate 2, 3 or 4 times finer, (c) 10..1000 (3000) periods, (d) periods x "
                 "samples from 1e5 to 1e7 (2e7); history = the second or the second-to-last period (hash-chosen) changed, everything else (count, end points) kept - through "
                 "assignment, gen_/generate_response_spectrum or response_series in rotation -, an in-place mutator of the values (same length in "
                 "(b)), periods changed again (all new, in-place scaling, same end points, only the last / only the first period, other count; "
                 "other route) or a smoothing setting; the kinds of steps 2 and 3 rotate with the index and the seed",
            oracle="differential against a fresh object after every step (1e-10 of magnitude), second and third read bit for bit",
            exhaustive_note="one history per ladder size; not exhaustive over sizes", quick_shards=4)(_mid_run)


# -- 3. smoothed spectrum: number of targets, Fourier frequencies x targets -----------------------------------

def _split_product(total, key, n_lo, n_hi, nt_lo=10, nt_hi=5000):
    """(record length, number of targets) whose padded one-sided spectrum (2^e points, n in (2^e, 2^(e+1)]) times the number
    of targets is about `total`; e hash-chosen among the admissible exponents."""
    es = [e for e in range(9, 24) if 2 ** e < n_hi and 2 ** (e + 1) >= n_lo and nt_lo <= -(-total // 2 ** e) <= nt_hi]
    if not es:
        return None
    e = _pick(es, key, "e")
    lo, hi = max(n_lo, 2 ** e + 1), min(n_hi, 2 ** (e + 1))
    n = lo + _hh(key, "n") % (hi - lo + 1)
    if _hh(key, "pow2") % 3 == 0 and hi == 2 ** (e + 1):
        n = hi  # exactly the transform length: no zero padding
    return n, int(-(-total // 2 ** e))


def _smooth_script(c, idx, product):
    r = idx + gen.run_seed()
    acc = c["cls"] == "acc"
    vals = (VAL_ACC if acc else VAL_SIG) + (["running_average"] if c["n"] <= 20000 else [])
    vals = [k for k in vals if k != "reset_half"]
    kinds = ["set_freqs_inner", vals[(5 * r + 1) % len(vals)]]
    oneoff = ()
    if product <= 4.0e6:
        kinds.append(SMOOTH_SAME[r % (len(SMOOTH_SAME) - 1)])
    if product <= 1.2e6:
        oneoff = ("band", "freqs_band")
        kinds += [oneoff[r % 2], vals[(5 * r + 4) % len(vals)], SMOOTH_LEN[r % 2]]
    return _script(c, kinds, oneoff)


def _smooth_cases(tier):
    quick = tier == "quick"
    tag = "c04:smooth:" + tier
    n_hi = 300000 if quick else 1000000
    cases = []
    idx = 0
    # (a) number of targets (records of about 1 100..2 000 samples: 1024 Fourier frequencies)
    for nt in sorted(set(gen.size_ladder(10, 5000, 8 if quick else 18, tag + ":t", mined_limit=3 if quick else 6)) | {10, 5000}):
        n = 2048 if _hh(gen.run_seed(), tag, "t2", nt) % 4 == 0 else 1100 + _hh(gen.run_seed(), tag, "tn", nt) % 900
        c = _base(("acc", "sig")[idx % 2], n, "a%d" % idx, tag, nt=nt, rs=True)
        c["fam"] = "smooth-targets"
        cases.append(_smooth_script(c, idx, 1024 * nt))
        idx += 1
    # (b) Fourier frequencies x targets
    totals = list(gen.ladder(1e5, 3e7 if quick else 4e7, 8 if quick else 20, tag + ":x"))
    totals += [int(m * 1.07) + 3 for m in gen.mined_ints(1e5, 3e7)][:4 if quick else 8]
    for total in sorted(set(totals)):
        sp = _split_product(total, "%s:%d:%d" % (tag, gen.run_seed(), total), 2000, n_hi)
        if sp is None:
            continue
        n, nt = sp
        c = _base(("sig", "acc")[idx % 2] if total <= 1.0e7 else "sig", n, "b%d" % idx, tag, nt=nt, rs=n <= 4000)
        c["fam"] = "smooth-product"
        cases.append(_smooth_script(c, idx, total))
        idx += 1
    return cases


enum_clause(CLAUSES, "mid-range-smooth", lambda tier, shard, nshards: _deal(_smooth_cases(tier), shard, nshards),
            rule="(a) 10..5000 smoothing targets (8 log-bins, thorough 18, + ends + source literals) on records with 1024 Fourier frequencies; "
                 "(b) Fourier frequencies x targets laddered from 1e5 to 3e7 (8 log-bins, thorough 20 to 4e7, + products just above source "
                 "literals), record 2 000..300 000 samples (thorough 1 000 000) and 10..5000 targets by a hash-chosen split; history = the "
                 "second or the second-to-last target (hash-chosen) moved, everything else (count, end points) kept - through the setter, the deprecated "
                 "setter or gen_smooth_fa_spectrum(freqs) in rotation -, an in-place mutator of the values, [<= 4e6: another same-count change "
                 "(all new through one of the three routes, range, by-range, in-place scaling, same end points)], [<= 1.2e6: a one-off gen_/generate_smooth_fa_spectrum(band=20|57.5|80 [, freqs]), a mutator, another number of targets]; "
                 "AccSignal / Signal alternate (Signal above 1e7); all observables re-read after every step",
            oracle="differential against a fresh object after every step (after a one-off band: a fresh object given the same call), 1e-10 of "
                   "magnitude, second and third read bit for bit; two targets anchored to the Konno-Ohmachi reference of C07",
            exhaustive_note="one history per ladder size; not exhaustive over sizes", quick_shards=4)(_mid_run)


# -- 4. option crosses of the explicit generation calls, of butter_pass and of the constructors ----------------

def _opt_cases(tier):
    quick = tier == "quick"
    tag = "c04:options:" + tier
    sizes = gen.ladder(2500, 30000 if quick else 120000, 2 if quick else 5, tag + ":n")
    if quick:  # one ladder length and one exact power of two
        sizes = [_pick(sizes, gen.run_seed(), tag, "n"), 2 ** _pick([12, 13], gen.run_seed(), tag, "k")]
    else:
        sizes = sorted(set(sizes) | set(_pow2_sizes(12, 16, tag, 2, 1)))
    cases = []
    idx = [0]

    def add(cls, n, kinds_after, first, fam, **over):
        c = _base(cls, n, "o%d" % idx[0], tag, **{k: over.pop(k) for k in list(over) if k in ("nt", "P", "rlo", "rhi", "rs")})
        c["fam"] = fam
        c.update(over)
        _script(c, kinds_after)
        c["steps"] = ([first] if first else []) + c["steps"]
        c["kinds"] = (["-"] if first else []) + c["kinds"]
        cases.append(c)
        idx[0] += 1
        return c

    def val(cls, n):
        pool = [k for k in (VAL_ACC if cls == "acc" else VAL_SIG) if k != "reset_half"]
        return pool[(7 * idx[0] + gen.run_seed()) % len(pool)]

    for isz, n in enumerate(sizes):
        npad = 2 ** int(math.ceil(math.log2(n)))
        # gen_fa_spectrum(p2_plus x n): n = None, an odd length above the record's, an even length below it
        for p2 in (None, 0, 1, 2):
            for nn in (None, n, npad + 1 + 2 * (n % 50), 2 * (n // 3)):
                if p2 is None and nn is None:
                    continue
                a = {}
                if p2 is not None:
                    a["p2_plus"] = p2
                if nn is not None:
                    a["n"] = int(nn)
                cls = ("acc", "sig")[idx[0] % 2]
                add(cls, n, [val(cls, n)], ["oneoff_fa", a], "opt-fa", rs=False)
        # gen_smooth_fa_spectrum(smooth_fa_freqs x band) and generate_smooth_fa_spectrum(band)
        for fr in ("none", "same", "other"):
            for band in (None, 20, 57.5):
                for via in (("gen", "generate") if fr == "none" else ("gen",)):
                    a = {"via": via}
                    if band is not None:
                        a["band"] = band
                    if fr != "none":
                        a.update({"lo": 0.3, "hi": 0.45 * 0.5 / 0.005})
                    cls = ("sig", "acc")[idx[0] % 2]
                    c = add(cls, n, [val(cls, n)], None, "opt-smooth", rs=False)
                    if fr == "other":
                        a["n"] = c["nt"] + 3
                    c["steps"].insert(0, ["oneoff_smooth", a])
        # generate_displacement_and_velocity_series(trap)
        for trap in (None, True, False):
            add("acc", n, [val("acc", n)], ["oneoff_dv", {} if trap is None else {"trap": trap}], "opt-dv", rs=False)
        # butter_pass(cut-off form x filter_order x remove_gibbs x gibbs_extra x gibbs_range)
        k = 0
        for order in (2, 4) if (isz == 0 or not quick) else ():
            for gibbs in (None, "start", "end", "mid"):
                for extra in (None, 2):
                    for rng in (None, 20):
                        form = ("band", "low", "high")[(k + gen.run_seed()) % 3]
                        k += 1
                        a = {"lo": 0.05 if form != "low" else None, "hi": 0.45 if form != "high" else None,
                             "order": 2 if form == "band" else order, "gibbs": gibbs}
                        if extra is not None:
                            a["gibbs_extra"] = extra
                        if rng is not None:
                            a["gibbs_range"] = rng
                        cls = ("acc", "sig")[k % 2]
                        add(cls, n, [], ["butter_pass", a], "opt-butter", rs=False)
    # gen_response_spectrum / generate_response_spectrum (response_times x xi x min_dt_ratio): shortest period 3 steps, so that
    # min_dt_ratio = 1 / 4 / 9 makes the object integrate on the record's grid / 4 times / 7 times finer
    for n in gen.ladder(1200, 1800 if quick else 12000, 1 if quick else 3, tag + ":r"):
        for tm in ("none", "same", "other"):
            for xi in (None, 0.02, 0.3):
                for mdr in (None, 1, 9):
                    a = {"via": ("gen", "generate")[idx[0] % 2]}
                    if xi is not None:
                        a["xi"] = xi
                    if mdr is not None:
                        a["mdr"] = mdr
                    if tm != "none":
                        a.update({"rlo": 3.3, "rhi": 150.0})
                    c = add("acc", n, [val("acc", n)], None, "opt-rs", rs=True, rlo=3.0, rhi=200.0, P=4, nt=8, mdr=mdr or 4)
                    if tm == "other":
                        a["n"] = c["P"] + 2
                    c["steps"].insert(0, ["oneoff_rs", a])
    # constructors: smoothing grid given as frequencies / range / both / neither x periods given as times / range / both / neither
    # (the default period range is 0.1..5 s, 100 periods: with the 0.01 s step fixed here the object interpolates twice finer)
    n = 2000 + _hh(gen.run_seed(), tag, "ctor") % 1000
    for ctor in ("freqs", "range", "both", "default"):
        for rctor in ("times", "range", "both", "default"):
            c = add("acc", n, [val("acc", n), (SMOOTH_SAME + PER_SAME)[(idx[0] + gen.run_seed()) % len(SMOOTH_SAME + PER_SAME)]], None, "opt-ctor",
                    rs=True, rlo=10.0 if rctor == "default" else 24.0, rhi=250.0, P=100 if rctor in ("range", "default") else 5,
                    nt=50 if ctor in ("range", "default") else 12, ctor=ctor, rctor=rctor, check_ctor=True)
            c.update({"dt": 0.01, "flo": 0.2, "fhi": 30.0})
        c = add("sig", n, [val("sig", n), SMOOTH_SAME[idx[0] % len(SMOOTH_SAME)]], None, "opt-ctor", nt=50 if ctor in ("range", "default") else 12,
                ctor=ctor, check_ctor=True)
    return cases


enum_clause(CLAUSES, "mid-range-options", lambda tier, shard, nshards: _deal(_opt_cases(tier), shard, nshards),
            rule="option crosses at 2 record lengths (one from a ladder over 2 500..30 000, one exact power of two 4096 / 8192; thorough: 5 + 3 to 120 000): gen_fa_spectrum(p2_plus in {-,0,1,2} x n in "
                 "{-, npts, odd > npts, even < npts}), gen_smooth_fa_spectrum(smooth_fa_freqs in {-, same count, other count} x band in {-,20,57.5}) and "
                 "generate_smooth_fa_spectrum(band), generate_displacement_and_velocity_series(trap), gen_/generate_response_spectrum(response_times "
                 "in {-, same count, other count} x xi in {-,0.02,0.3} x min_dt_ratio in {-,1,9}) with a shortest period of 3 steps (records of "
                 "1 200..1 800 samples, thorough to 12 000, integrated on a grid up to 7 times finer), each followed by an in-place mutator of the values; butter_pass(form x filter_order x remove_gibbs x "
                 "gibbs_extra x gibbs_range) (quick: at the first length); constructors (smooth_fa_freqs / smooth_freq_range / both / neither x response_times / "
                 "response_period_range / both / neither) followed by a mutator and a settings change; all observables read after every step",
            oracle="differential: after a generation call with one-off arguments a fresh object given the same call, otherwise the plain fresh object "
                   "(1e-10 of magnitude); second and third read bit for bit",
            exhaustive_note="complete over the listed option values at the chosen lengths", quick_shards=4)(_mid_run)
