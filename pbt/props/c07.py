"""C07 - Konno-Ohmachi smoothing is a normalised non-negative log-frequency window; bandwidth limits bracket the peak."""
import math

import numpy as np
from hypothesis import strategies as st

import eqsig
from eqsig import im
from eqsig.fns import frequency as fq

from pbt import gen
from pbt.core import clause, HarnessError
from pbt.core import case_hash as core_case_hash
from pbt.ref import ko as ref

PROPERTY = "C07"
CLAUSES = []
ASSUMPTIONS = [
    "numpy.longdouble has a 64-bit mantissa (checked at import; otherwise exit 2); the long-double reference is validated at "
    "import against a scalar double loop written directly from the statement",
    "spectra: either the library's own FAS of a record (n 3..1024 plus optional zero runs, all record kinds, dt in [1e-4, 1], "
    "frequencies k/(N dt), up to 1023 non-zero bins; its correctness is C06, it is taken as given) or raw arrays on linear / "
    "geometric / irregular ascending grids of 1..300 positive frequencies in [1e-9, ~1e5] Hz, with or without a leading bin at "
    "exactly 0 Hz; at least one non-zero frequency (a record of 2 samples has none: the mean of an empty set is undefined); "
    "DESIGN planned n >= 8, n 3..7 (one or three non-zero bins) is inside the quantifier and kept as an edge class",
    "amplitudes: complex, real non-negative, or real with signs (amplitude = |A|); raw magnitudes are c*shape with c = 10^-6..10^6, "
    "values below 1e-12*c are flushed to exactly 0 (isolated spikes on a zero floor are a class of their own)",
    "target frequencies are positive and finite: exactly on the grid, 1-3 ulp / 1000 eps next to a grid frequency, inside the grid, "
    "and up to a factor ~1000 below the lowest / above the highest non-zero Fourier frequency; 1..60 targets (1..6 drawn one by one, "
    "7..60 expanded from a drawn seed), any order, repeats allowed",
    "frequencies, amplitudes and targets are handed to the array-level functions as ndarrays (every caller in the repo does; the "
    "functions index with [:, newaxis]); lists / tuples are used only where the object's setters coerce them",
    "tolerance on a smoothed amplitude S: 1e-12*S (covers summation of <= 1023 non-negative terms, (nf+64)*eps <= 2.5e-13) plus the "
    "conditioning bound of pbt/ref/ko.py (the window argument b*log10(f/fc) carries a rounding error of a few eps*(b+|x|); next to a "
    "zero of sin this is an unbounded *relative* error of a weight that is tiny in absolute terms)",
    "bandwidth clause: the spectrum is an AccSignal's smoothed spectrum (taken as given; clause `definition` checks it), smoothing "
    "frequencies in any order (ascending 3 of 5, descending, shuffled); smoothed peak > 0 (an identically zero spectrum has no "
    "bandwidth); threshold comparisons use the 1e-9 margin filter (DESIGN 2.4)",
    "bandwidth limits: asserted = the statement (f_min <= f_max, a smoothing frequency whose amplitude is within 1e-9 of the maximum "
    "lies in [f_min, f_max]) + the docstrings' 'ratio of maximum value where bandwidth should be computed' read locally (a limit that "
    "is a smoothing frequency has amplitude > ratio*max; the next smoothing frequency beyond it has not) + 'lower / upper frequency "
    "of the bandwidth' (f_min / f_max = the halves of calc_bandwidth_freqs) + the signature defaults (ratio 0.707 / 15, band 40). "
    "NOT asserted since the audit: limits are members of smooth_fa_freqs, limits are the first / last crossing of the whole grid, "
    "get_sig_array_indexes_range indexes get_sig_freq_range, the default smoothing grid is 50 points on [0.1, 30], real dtype of the "
    "result (a zero imaginary part is accepted), the number of Fourier bins (C06), purity of the arguments (C05)",
    "repaired defects (known_findings.json, status fixed: the assertions are strict; the ids are kept for routing should an entry be "
    "reopened): C07-KF1 non-ascending smoothing frequencies -> limits were returned in array order, f_min > f_max (repaired in /repo "
    "512613e: smallest / largest smoothing frequency above the threshold); C07-KF2 gen_smooth_fa_spectrum(smooth_fa_freqs=<list / "
    "tuple>) raised TypeError although the setters and the constructor coerce lists (repaired in /repo e2823b0)",
    "cold caches: in a hash-chosen half of the bandwidth / record-length cases a bandwidth function (hash-chosen among the four) is the "
    "first access to the smoothed spectrum of a fresh object / after a setter (band 40 then); the custom-matrix form runs on an object "
    "whose Fourier spectrum was never read in half of the `weights` and record-length cases",
]
EPS = float(np.finfo(float).eps)
LD = np.longdouble
MARGIN = 1e-9
REL = 1e-12

if not ref.longdouble_ok():
    raise HarnessError("numpy.longdouble is not extended precision on this platform: C07 reference unavailable")


def _validate_reference():
    """Oracle guard: vectorised long-double reference == scalar double loop from the statement, on fixed inputs."""
    freqs = [0.0, 0.5, 1.0, 1.5, 2.0, 2.5, 3.0, 7.0]
    amps = [9.0, 1.0, 4.0, 0.0, 2.5, 1.0, 0.125, 3.0]
    targets = [0.01, 0.5, 0.9, 1.0, 2.0000000000000004, 3.0, 6.0, 1000.0]
    for b in (5, 40.0, 100):
        s, cond = ref.smooth(np.array(freqs), np.array(amps), targets, b)
        loop = ref.smooth_scalar_loop(freqs, amps, targets, b)
        for j in range(len(targets)):
            if not abs(float(s[j]) - loop[j]) <= 1e-12 * loop[j] + cond[j]:
                raise HarnessError("KO reference disagrees with the scalar loop: b=%r fc=%r %r vs %r" % (b, targets[j], float(s[j]), loop[j]))
        w, tolw, cs = ref.matrix(np.array(freqs), targets, b)
        if not (np.all(w >= 0) and np.max(np.abs(np.sum(w, axis=0) - 1)) < 1e-15 and abs(float(w[1, 3] * cs[3]) - 1) < 1e-15):
            raise HarnessError("KO reference matrix is not a normalised non-negative window")
    # hand value: two frequencies one decade apart, target on the lower one, b = 5: weights 1 and (sin 5 / 5)^4
    w2 = (math.sin(5.0) / 5.0) ** 4
    s, _ = ref.smooth(np.array([1.0, 10.0]), np.array([2.0, 6.0]), [1.0], 5)
    if not abs(float(s[0]) - (2.0 + 6.0 * w2) / (1.0 + w2)) < 1e-14:
        raise HarnessError("KO reference fails its hand-computed value")


_validate_reference()


# ---------------------------------------------------------------------------
# generators (plain JSON cases)

_unit = st.floats(0.0, 1.0, allow_nan=False)
_TARGET_KINDS = ["grid", "grid", "grid", "near", "in", "in", "below", "above"]
_NEAR = [-3, -2, -1, 1, 2, 3, -1000, 1000]


_target = st.tuples(st.sampled_from(_TARGET_KINDS), st.integers(0, 2000), _unit).map(list)
_MODES = ["mixed", "mixed", "mixed", "grid-only", "free-only"]


@st.composite
def _targets(draw, max_size=60):
    """[mode, items]: a case-level mode (all targets on the grid / none on purpose / mixed) and target recipes [kind, i, u]
    (see _resolve); up to 6 recipes are drawn one by one (shrinkable), longer sets are {"n", "seed"} expanded by _expand."""
    mode = draw(st.sampled_from(_MODES))
    if draw(st.booleans()):
        n = draw(st.integers(1, 6))
        return [mode, draw(st.lists(_target, min_size=n, max_size=n))]
    return [mode, {"n": draw(st.integers(7, max_size)), "seed": draw(st.integers(0, 2 ** 31 - 1))}]


def _expand(items):
    if not isinstance(items, dict):
        return items
    rs = np.random.RandomState(items["seed"])
    n = int(items["n"])
    kinds = rs.randint(0, len(_TARGET_KINDS), n)
    idx = rs.randint(0, 2001, n)
    u = rs.uniform(size=n)
    return [[_TARGET_KINDS[int(kinds[j])], int(idx[j]), float(u[j])] for j in range(n)]


def _bands():
    return st.one_of(st.sampled_from([5, 40, 100, 5.0, 40.0, 100.0]), st.integers(5, 100), st.floats(5.0, 100.0, allow_nan=False))


@st.composite
def _raw_source(draw, max_nf=300):
    gk = draw(st.sampled_from(["lin", "lin", "log", "log", "irr"]))
    nf = draw(st.one_of(st.integers(1, 8), st.integers(1, 64), st.integers(1, max_nf)))
    grid = {"k": gk, "nf": nf}
    if gk == "lin":
        grid["df"] = draw(st.one_of(gen.log_uniform(1e-3, 10.0), gen.log_uniform(1e-9, 1e-3)))
    elif gk == "log":
        grid["f0"] = draw(st.one_of(gen.log_uniform(1e-3, 1.0), gen.log_uniform(1e-9, 1e-3)))
        grid["r"] = 1.0 + draw(gen.log_uniform(1e-3, 1.0))
        # keep the top of the grid below ~1e5 Hz
        grid["nf"] = nf = max(1, min(nf, int(math.log(1e5 / grid["f0"]) / math.log(grid["r"]))))
    else:
        grid["f0"] = draw(st.one_of(gen.log_uniform(1e-3, 1.0), gen.log_uniform(1e-9, 1e-3)))
        grid["span"] = draw(st.floats(0.5, 5.0, allow_nan=False))  # decades
        grid["seed"] = draw(st.integers(0, 2 ** 31 - 1))
    ak = draw(st.sampled_from(["sparse", "sparse", "sparse", "const", "power", "noise", "bump", "vals"]))
    amp = {"k": ak, "e": draw(st.integers(-6, 6))}
    if ak == "power":
        amp["p"] = draw(st.floats(-1.5, 2.0, allow_nan=False))
    elif ak == "noise":
        amp["sigma"] = draw(st.floats(0.1, 3.0, allow_nan=False))
        amp["seed"] = draw(st.integers(0, 2 ** 31 - 1))
    elif ak == "bump":
        amp["at"] = draw(_unit)
        amp["w"] = draw(st.floats(0.02, 1.0, allow_nan=False))
        amp["floor"] = draw(st.sampled_from([0.0, 1e-3, 0.1]))
    elif ak == "sparse":
        amp["spikes"] = draw(st.lists(st.tuples(st.integers(0, 2000), st.floats(0.01, 1.0, allow_nan=False)).map(list),
                                      min_size=1, max_size=3))
    elif ak == "vals":
        amp["v"] = draw(st.lists(st.floats(0.0, 1e3, allow_nan=False, allow_subnormal=False).map(
            lambda x: 0.0 if x < 1e-6 else x), min_size=1, max_size=24))
    return {"t": "raw", "grid": grid, "zero": draw(st.booleans()), "amp": amp,
            "phase": draw(st.sampled_from(["complex", "complex", "real", "signed"])),
            "pseed": draw(st.integers(0, 2 ** 31 - 1)), "dc": draw(st.sampled_from([0.0, 1.0, 1e6]))}


@st.composite
def _rec_source(draw, max_n=1024, nonzero=False):
    kinds = ["vals", "dyadic", "noise", "sines", "pulse", "step", "walk", "quake", "levels"] + ([] if nonzero else ["const"])
    spec = draw(gen.record_specs(min_n=3, max_n=max_n, kinds=kinds))
    return {"t": "rec", "rec": spec, "dt": draw(gen.dts(1e-4, 1.0)), "acc": draw(st.booleans())}


@st.composite
def _sources(draw, rec_of_4=2):
    """rec_of_4 of four spectra are the library's FAS of a record, the others raw arrays."""
    if draw(st.integers(0, 3)) < rec_of_4:
        return draw(_rec_source())
    return draw(_raw_source())


def _grid(g):
    nf = int(g["nf"])
    if g["k"] == "lin":
        return np.arange(1, nf + 1, dtype=float) * g["df"]
    if g["k"] == "log":
        return g["f0"] * g["r"] ** np.arange(nf, dtype=float)
    rs = np.random.RandomState(g["seed"])
    f = g["f0"] * 10.0 ** np.sort(rs.uniform(0.0, g["span"], nf))
    f = np.unique(f)
    return f


def _amplitudes(amp, f):
    nf = len(f)
    k = amp["k"]
    c = 10.0 ** amp.get("e", 0)
    if k == "const":
        a = np.ones(nf)
    elif k == "power":
        a = (f / f[0]) ** (-amp["p"])
    elif k == "noise":
        a = np.exp(amp["sigma"] * np.random.RandomState(amp["seed"]).standard_normal(nf))
    elif k == "bump":
        lf = np.log10(f)
        mid = lf[0] + amp["at"] * (lf[-1] - lf[0])
        a = amp["floor"] + np.exp(-((lf - mid) / amp["w"]) ** 2)
    elif k == "sparse":
        a = np.zeros(nf)
        for i, h in amp["spikes"]:
            a[int(i) % nf] = h
    elif k == "vals":
        v = np.array(amp["v"], dtype=float)
        a = np.resize(v, nf)
    else:
        raise ValueError(k)
    a = a * c
    return np.where(a < 1e-12 * c, 0.0, a)  # flush: magnitudes stay in the normal range when multiplied by tiny weights


class _Src(object):
    """A built spectrum: freqs (with the zero bin if present), spec (complex or real), fpos/apos without it."""


def _build(src, ctx=None):
    s = _Src()
    s.asig = None
    if src["t"] == "rec":
        a = gen.build(src["rec"])
        s.values = a
        s.dt = src["dt"]
        cls = eqsig.AccSignal if src.get("acc", True) else eqsig.Signal
        s.make = lambda **kw: cls(a, src["dt"], **kw)
        s.asig = s.make() if ctx is None else ctx.lib(s.make)
        s.freqs = np.array(s.asig.fa_frequencies, dtype=float)
        s.spec = np.array(s.asig.fa_spectrum)
        s.label = "src=record"
    else:
        f = _grid(src["grid"])
        amp = _amplitudes(src["amp"], f)
        dc = src["dc"] * (np.max(amp) if np.max(amp) > 0 else 1.0)
        if src["zero"]:
            f = np.concatenate([[0.0], f])
            amp = np.concatenate([[dc], amp])
        rs = np.random.RandomState(src["pseed"])
        if src["phase"] == "complex":
            spec = amp * np.exp(1j * rs.uniform(0, 2 * math.pi, len(amp)))
        elif src["phase"] == "signed":
            spec = amp * rs.choice([-1.0, 1.0], len(amp))
        else:
            spec = amp
        s.freqs = f
        s.spec = spec
        s.label = "src=raw-" + src["grid"]["k"]
    s.fpos, s.apos = ref.drop_zero_bin(s.freqs, np.abs(s.spec))
    s.has_zero = bool(len(s.freqs) and s.freqs[0] == 0)
    return s


def _resolve(tspec, fpos):
    """[mode, [[kind, i, u], ...]] -> target frequencies relative to the positive Fourier frequencies `fpos`:
    grid: fpos[i % nf]; near: 1-3 ulp or 1000 eps beside it; in: log-interpolated at u between the ends;
    below / above: a factor 1.0001 * 1000^u beyond the lowest / highest frequency."""
    mode, items = tspec
    items = _expand(items)
    nf = len(fpos)
    lo, hi = float(fpos[0]), float(fpos[-1])
    out = []
    for k, i, u in items:
        if mode == "grid-only":
            k = "grid"
        elif mode == "free-only" and k == "grid":
            k = "in"
        if k == "grid":
            v = float(fpos[int(i) % nf])
        elif k == "near":
            v = float(fpos[int(i) % nf])
            step = _NEAR[int(u * 7.999)]
            if abs(step) <= 3:
                for _ in range(abs(step)):
                    v = float(np.nextafter(v, math.inf if step > 0 else 0.0))
            else:
                v = v * (1.0 + step * EPS)
        elif k == "in":
            v = lo * (hi / lo) ** float(u) if hi > lo else lo
        elif k == "below":
            v = lo / (1.0001 * 1000.0 ** float(u))
        elif k == "above":
            v = hi * (1.0001 * 1000.0 ** float(u))
        else:
            raise ValueError(k)
        out.append(v)
    return np.array(out, dtype=float)


def _classify(ctx, case, s, targets, b=None):
    nf = len(s.fpos)
    if s.fpos[0] < 1e-6:
        ctx.cls("first-frequency<1e-6")
    ctx.cls(s.label, "zero-bin" if s.has_zero else "no-zero-bin",
            "nf=1" if nf == 1 else ("nf<=8" if nf <= 8 else ("nf<=64" if nf <= 64 else "nf>64")))
    ctx.cls("complex" if np.iscomplexobj(s.spec) else ("real-signed" if np.any(np.asarray(s.spec) < 0) else "real"))
    if case["src"]["t"] == "raw":
        ctx.cls("amp=" + case["src"]["amp"]["k"])
    else:
        ctx.cls("kind=" + case["src"]["rec"]["k"])
    if b is not None:
        ctx.cls("b-int" if isinstance(b, int) else "b-float")
        if b == 5 or b == 100:
            ctx.cls("b-end")
        if b == 40:
            ctx.cls("b=40")
    on = np.isin(targets, s.fpos)
    below = targets < s.fpos[0]
    above = targets > s.fpos[-1]
    if np.any(on):
        ctx.cls("on-grid")
    if np.any(below):
        ctx.cls("below-grid")
    if np.any(above):
        ctx.cls("above-grid")
    if np.any(~on & ~below & ~above):
        ctx.cls("between-grid")
    near = np.array([bool(np.any((t != s.fpos) & (np.abs(t - s.fpos) <= 2000 * EPS * t))) for t in targets])
    if np.any(near):
        ctx.cls("near-grid")
    if len(targets) == 1:
        ctx.cls("m=1")
    return bool(np.any(on)), bool(np.any(below | above))


def _tol(s_ref, cond):
    return REL * np.asarray(s_ref, dtype=float) + cond


def _check_smooth(ctx, got, s_ref, cond, what):
    got = np.asarray(got)
    if np.iscomplexobj(got):  # the storage dtype is not the statement's business; a non-zero imaginary part is
        ctx.check(bool(np.all(got.imag == 0)), "%s: non-zero imaginary part" % what)
        got = got.real
    ctx.shape(got, (len(s_ref),), what)
    ctx.finite(got, what)
    ctx.close(got, s_ref, _tol(s_ref, cond), what + " vs reference weighted mean")


# ---------------------------------------------------------------------------
# clause 1: definition


@st.composite
def _def_cases(draw):
    case = {"src": draw(_sources()), "targets": draw(_targets()), "b": draw(_bands()),
            "setter": draw(st.sampled_from(["freqs", "frequencies", "ctor", "gen"])),
            "container": draw(st.sampled_from(["ndarray", "list", "tuple"])),
            "default_targets": draw(st.integers(0, 3)) == 0}
    return case


@clause(CLAUSES, "definition", _def_cases(), quick=500, thorough=3000,
        rule="spectrum = library FAS of a record (n 3..1024, all kinds) or raw complex / real / signed amplitudes (const, power law, "
             "log-normal noise, bump, 1-3 isolated spikes, drawn values) on a linear / geometric / irregular grid of 1..300 frequencies, "
             "with or without a 0 Hz bin; b in {5,40,100} or U[5,100], int or float; 1..60 targets: grid frequencies, 1-3 ulp / 1000 eps "
             "beside one, log-interpolated inside, up to 1000x below / above the grid; non-trivial = >= 1 target exactly on the grid "
             "and >= 1 outside it",
        oracle="reference model: per-target long-double evaluation of the statement's window (validated against a scalar double loop), "
               "tolerance 1e-12*S + conditioning bound; same reference for calc_smooth_fa_spectrum (with / without the 0 Hz bin, "
               "default targets, default band), the deprecated alias, Signal.smooth_fa_spectrum after each setter, "
               "gen_/generate_smooth_fa_spectrum(band=)",
        require={"on-grid": 0.4, "below-grid": 0.2, "above-grid": 0.2, "no-zero-bin": 0.15, "zero-bin": 0.4, "complex": 0.4,
                 "src=record": 0.25, "amp=sparse": 0.05, "near-grid": 0.15, "b-end": 0.1},
        min_nontrivial=0.2)
def definition(case, ctx):
    s = _build(case["src"], ctx)
    b = case["b"]
    targets = _resolve(case["targets"], s.fpos)
    on, out = _classify(ctx, case, s, targets, b)
    ctx.nt(on and out)
    s_ref, cond = ref.smooth(s.freqs, s.spec, targets, b)
    spec_before = np.array(s.spec)
    freqs_before = np.array(s.freqs)
    got = ctx.lib(fq.calc_smooth_fa_spectrum, s.freqs, s.spec, targets, band=b)
    _check_smooth(ctx, got, s_ref, cond, "calc_smooth_fa_spectrum")
    ctx.equal(s.spec, spec_before, "amplitude input mutated")
    ctx.equal(s.freqs, freqs_before, "frequency input mutated")
    # positional band, deprecated alias (different argument order)
    got = ctx.lib(fq.calc_smooth_fa_spectrum, s.freqs, s.spec, targets, b)
    _check_smooth(ctx, got, s_ref, cond, "calc_smooth_fa_spectrum (positional band)")
    got = ctx.lib(fq.generate_smooth_fa_spectrum, targets, s.freqs, s.spec, band=b)
    _check_smooth(ctx, got, s_ref, cond, "generate_smooth_fa_spectrum (deprecated alias)")
    if b == 40:
        got = ctx.lib(fq.calc_smooth_fa_spectrum, s.freqs, s.spec, targets)
        _check_smooth(ctx, got, s_ref, cond, "calc_smooth_fa_spectrum (default band)")
        got = ctx.lib(fq.generate_smooth_fa_spectrum, targets, s.freqs, s.spec)
        _check_smooth(ctx, got, s_ref, cond, "generate_smooth_fa_spectrum (default band)")
    # the zero-frequency bin takes no part: drop it / add one with a large amplitude
    if s.has_zero:
        got = ctx.lib(fq.calc_smooth_fa_spectrum, s.freqs[1:], s.spec[1:], targets, band=b)
        _check_smooth(ctx, got, s_ref, cond, "calc_smooth_fa_spectrum without the 0 Hz bin")
    else:
        f0 = np.concatenate([[0.0], s.freqs])
        a0 = np.concatenate([[1e3 * (np.max(s.apos) + 1.0)], s.spec])
        got = ctx.lib(fq.calc_smooth_fa_spectrum, f0, a0, targets, band=b)
        _check_smooth(ctx, got, s_ref, cond, "calc_smooth_fa_spectrum with a 0 Hz bin prepended")
    # amplitude = |A|: the magnitudes alone give the same answer
    if np.iscomplexobj(s.spec) or np.any(np.asarray(s.spec) < 0):
        got = ctx.lib(fq.calc_smooth_fa_spectrum, s.freqs, np.abs(s.spec), targets, band=b)
        _check_smooth(ctx, got, s_ref, cond, "calc_smooth_fa_spectrum on |A|")
    # default targets = the non-zero Fourier frequencies themselves
    if case.get("default_targets") and len(s.fpos) <= 160:
        ctx.cls("default-targets")
        d_ref, d_cond = ref.smooth(s.freqs, s.spec, s.fpos, b)
        got = ctx.lib(fq.calc_smooth_fa_spectrum, s.freqs, s.spec, band=b)
        _check_smooth(ctx, got, d_ref, d_cond, "calc_smooth_fa_spectrum (default targets)")
    if s.asig is None:
        return
    # object level
    asig = s.asig
    # other signals are alive in the same process: a companion with the same record length and time step but different
    # smoothing frequencies (as many as the default grid, resp. as many as the drawn targets) is smoothed first
    for nf, lo, hi in ((50, 0.37, 11.0), (len(targets), 0.21, 17.0)):
        comp = s.make(smooth_fa_freqs=np.logspace(np.log10(lo), np.log10(hi), max(1, nf)))
        try:
            _ = comp.smooth_fa_spectrum
            comp.gen_smooth_fa_spectrum(band=b)
        except Exception:  # noqa  (the companion only provides process state; its own results are not asserted here)
            pass
    how = case.get("container", "ndarray")
    arg = targets if how == "ndarray" else (list(map(float, targets)) if how == "list" else tuple(map(float, targets)))
    # the default smoothing grid is not part of the statement: whatever positive frequencies the object reports
    f_def = np.array(ctx.lib(lambda: asig.smooth_fa_freqs), dtype=float)
    ctx.check(f_def.ndim == 1 and len(f_def) >= 1 and bool(np.all(np.isfinite(f_def))) and bool(np.all(f_def > 0)),
              "default smoothing frequencies are not positive finite numbers")
    d_ref, d_cond = ref.smooth(s.freqs, s.spec, f_def, 40)
    got = ctx.lib(lambda: asig.smooth_fa_spectrum)
    _check_smooth(ctx, got, d_ref, d_cond, "Signal.smooth_fa_spectrum (default frequencies)")
    setter = case.get("setter", "freqs")
    ctx.cls("setter=" + setter)
    band_now = 40
    if setter == "freqs":
        ctx.lib(setattr, asig, "smooth_fa_freqs", arg)
    elif setter == "frequencies":
        ctx.lib(setattr, asig, "smooth_fa_frequencies", arg)
    elif setter == "ctor":
        asig = ctx.lib(s.make, smooth_fa_freqs=arg)
    else:
        # the setters and the constructor accept lists / tuples; gen_smooth_fa_spectrum used to store its argument as it is and then
        # raised TypeError for a list (C07-KF2, repaired in /repo e2823b0)
        t_arg = targets if (how == "ndarray" or _relaxed(ctx, "C07-KF2")) else arg
        ctx.lib(asig.gen_smooth_fa_spectrum, smooth_fa_freqs=t_arg, band=b)
        band_now = b
    ctx.equal(np.asarray(asig.smooth_fa_freqs), targets, "smooth_fa_freqs after setter %r" % setter)
    ctx.equal(np.asarray(asig.smooth_fa_frequencies), targets, "smooth_fa_frequencies after setter %r" % setter)
    r_ref, r_cond = (s_ref, cond) if band_now == b else ref.smooth(s.freqs, s.spec, targets, band_now)
    got = ctx.lib(lambda: asig.smooth_fa_spectrum)
    _check_smooth(ctx, got, r_ref, r_cond, "Signal.smooth_fa_spectrum after setter %r" % setter)
    ctx.lib(asig.gen_smooth_fa_spectrum, band=b)
    got = ctx.lib(lambda: asig.smooth_fa_spectrum)
    _check_smooth(ctx, got, s_ref, cond, "Signal.smooth_fa_spectrum after gen_smooth_fa_spectrum(band=%r)" % b)
    ctx.lib(asig.generate_smooth_fa_spectrum, band=40)
    ctx.lib(asig.generate_smooth_fa_spectrum, band=b)
    got = ctx.lib(lambda: asig.smooth_fa_spectrum)
    _check_smooth(ctx, got, s_ref, cond, "Signal.smooth_fa_spectrum after generate_smooth_fa_spectrum(band=%r)" % b)
    ctx.equal(np.asarray(asig.fa_spectrum), spec_before, "fa_spectrum changed by smoothing")
    ctx.equal(np.asarray(asig.values), s.values, "record changed by smoothing")
    # same object, same sizes, same band: other targets of the same length, then other values of the same length
    t2 = targets * 1.0625
    ctx.lib(asig.gen_smooth_fa_spectrum, smooth_fa_freqs=np.array(t2), band=b)
    r2, c2 = ref.smooth(s.freqs, s.spec, t2, b)
    _check_smooth(ctx, ctx.lib(lambda: asig.smooth_fa_spectrum), r2, c2, "Signal.smooth_fa_spectrum after other targets of the same length (same band)")
    ctx.lib(setattr, asig, "smooth_fa_freqs", np.array(targets))
    d40 = (s_ref, cond) if b == 40 else ref.smooth(s.freqs, s.spec, targets, 40)
    _check_smooth(ctx, ctx.lib(lambda: asig.smooth_fa_spectrum), d40[0], d40[1], "Signal.smooth_fa_spectrum after the setter (band 40)")
    ctx.lib(setattr, asig, "smooth_fa_frequencies", np.array(t2))
    r3, c3 = (r2, c2) if b == 40 else ref.smooth(s.freqs, s.spec, t2, 40)
    _check_smooth(ctx, ctx.lib(lambda: asig.smooth_fa_spectrum), r3, c3, "Signal.smooth_fa_spectrum after other targets of the same length through the setter")
    v2 = np.array(s.values) * np.linspace(0.5, 1.5, len(s.values)) + 0.125 * (1.0 + float(np.max(np.abs(s.values))))
    ctx.lib(asig.reset_values, v2)
    fresh = ctx.lib(type(asig), v2, s.dt)
    r4, c4 = ref.smooth(np.asarray(fresh.fa_frequencies), np.asarray(fresh.fa_spectrum), t2, 40)
    _check_smooth(ctx, ctx.lib(lambda: asig.smooth_fa_spectrum), r4, c4, "Signal.smooth_fa_spectrum after reset_values (same length, same targets, same band)")


# ---------------------------------------------------------------------------
# clause 2: weights / matrix form


@st.composite
def _w_cases(draw):
    return {"src": draw(_sources(rec_of_4=3)), "targets": draw(_targets(max_size=40)), "b": draw(_bands()),
            "default_targets": draw(st.integers(0, 4)) == 0}


@clause(CLAUSES, "weights", _w_cases(), quick=500, thorough=3000,
        rule="same spectra, targets (1..40) and b as `definition`, three of four spectra from records; non-trivial = >= 1 target exactly "
             "on the grid and >= 1 outside it",
        oracle="reference model for calc_smoothing_matrix_konno_1998: shape, entries >= 0, columns sum to 1 (1e-12), every entry = "
               "w_ij/sum_i w_ij (1e-12 relative + conditioning bound), entry where f == fc = 1/(column sum of raw weights) and is the "
               "column maximum; with / without the 0 Hz bin and default targets; differential: "
               "calc_smooth_fa_spectrum_w_custom_matrix == calc_smooth_fa_spectrum (1e-12 relative) and == reference",
        require={"on-grid": 0.4, "below-grid": 0.2, "above-grid": 0.2, "src=record": 0.4, "matrix-vs-direct": 0.4, "no-zero-bin": 0.05},
        min_nontrivial=0.2)
def weights(case, ctx):
    s = _build(case["src"], ctx)
    b = case["b"]
    targets = _resolve(case["targets"], s.fpos)
    on, out = _classify(ctx, case, s, targets, b)
    ctx.nt(on and out)
    nf, m = len(s.fpos), len(targets)
    w_ref, w_tol, colsum = ref.matrix(s.freqs, targets, b)
    w_f = np.asarray(w_ref, dtype=float)

    def check_matrix(mat, what, wr=w_ref, wt=w_tol, shape=(nf, m)):
        mat = np.asarray(mat)
        ctx.shape(mat, shape, what)
        ctx.finite(mat, what)
        ctx.check(bool(np.all(mat >= 0)), "%s: negative weight %r" % (what, float(np.min(mat))))
        ctx.close(np.sum(mat.astype(LD), axis=0), np.ones(shape[1], dtype=LD), REL, "%s: column sums" % what)
        ctx.close(mat, wr, REL * np.asarray(wr, dtype=float) + wt, "%s: entries vs w_ij / sum_i w_ij" % what)

    mat = ctx.lib(fq.calc_smoothing_matrix_konno_1998, s.freqs, targets, band=b)
    check_matrix(mat, "smoothing matrix")
    mat = np.asarray(mat)
    # weight 1 where f == fc: the normalised entry is 1/(raw column sum) and no entry of the column exceeds it
    for j in range(m):
        hit = np.flatnonzero(s.fpos == targets[j])
        if len(hit):
            i = int(hit[0])
            expect = LD(1) / colsum[j]
            ctx.close(mat[i, j], expect, REL * float(expect) + w_tol[i, j], "entry at f == fc (column %d)" % j)
            ctx.check(bool(np.all(mat[:, j] <= mat[i, j] * (1 + 16 * EPS))), "column %d: an entry exceeds the weight at f == fc" % j)
    # positional / default band
    mat2 = ctx.lib(fq.calc_smoothing_matrix_konno_1998, s.freqs, targets, b)
    check_matrix(mat2, "smoothing matrix (positional band)")
    if b == 40:
        mat2 = ctx.lib(fq.calc_smoothing_matrix_konno_1998, s.freqs, targets)
        check_matrix(mat2, "smoothing matrix (default band)")
    # zero-frequency bin: dropped, takes no part
    other = s.freqs[1:] if s.has_zero else np.concatenate([[0.0], s.freqs])
    mat2 = ctx.lib(fq.calc_smoothing_matrix_konno_1998, other, targets, band=b)
    check_matrix(mat2, "smoothing matrix %s the 0 Hz bin" % ("without" if s.has_zero else "with"))
    if case.get("default_targets") and nf <= 120:
        ctx.cls("default-targets")
        d_ref, d_tol, _ = ref.matrix(s.freqs, s.fpos, b)
        mat2 = ctx.lib(fq.calc_smoothing_matrix_konno_1998, s.freqs, band=b)
        check_matrix(mat2, "smoothing matrix (default targets)", d_ref, d_tol, (nf, nf))
    # matrix form == direct form
    if s.asig is not None:
        ctx.cls("matrix-vs-direct")
        s_ref, cond = ref.smooth(s.freqs, s.spec, targets, b)
        via = ctx.lib(fq.calc_smooth_fa_spectrum_w_custom_matrix, s.asig, mat)
        direct = ctx.lib(fq.calc_smooth_fa_spectrum, s.asig.fa_frequencies, s.asig.fa_spectrum, targets, band=b)
        _check_smooth(ctx, via, s_ref, cond, "matrix form")
        ctx.close(via, direct, REL * np.asarray(s_ref, dtype=float), "matrix form vs direct form")
        # a matrix is a matrix: the reference weights through the same entry point
        via2 = ctx.lib(fq.calc_smooth_fa_spectrum_w_custom_matrix, s.asig, w_f)
        _check_smooth(ctx, via2, s_ref, cond, "matrix form with reference weights")
        if int(core_case_hash(case)[:4], 16) % 2:
            ctx.cls("custom-matrix-on-fresh-object")
            via3 = ctx.lib(fq.calc_smooth_fa_spectrum_w_custom_matrix, ctx.lib(s.make), mat)
            _check_smooth(ctx, via3, s_ref, cond, "matrix form on an object whose Fourier spectrum has not been read")


# ---------------------------------------------------------------------------
# clause 3: consequences


@st.composite
def _c_cases(draw):
    return {"src": draw(_sources()), "targets": draw(_targets()), "b": draw(_bands()),
            "k2": draw(st.integers(-20, 20)), "alpha": draw(gen.scalars(1e-3, 1e3)),
            "c": draw(gen.log_uniform(1e-6, 1e6)), "seed": draw(st.integers(0, 2 ** 31 - 1)),
            "rot": draw(st.floats(0.0, 6.25, allow_nan=False))}


@clause(CLAUSES, "consequences", _c_cases(), quick=500, thorough=3000,
        rule="same spectra, targets and b as `definition` plus a power-of-two factor 2^k (|k| <= 20), a general factor alpha, a constant "
             "level c, a second non-negative spectrum (seeded) and a phase rotation; non-trivial = >= 1 target exactly on the grid, "
             ">= 1 outside it and the non-zero-frequency amplitudes are not all equal",
        oracle="metamorphic / reference: min|A| <= S <= max|A| over the non-zero-frequency bins (1e-12 relative slack; the 0 Hz amplitude "
               "lies outside that range), constant spectrum -> c (1e-12), 2^k scaling exact (==), alpha scaling and phase rotation 1e-12 "
               "relative, additivity and monotonicity in |A| (1e-12), finite for every target",
        require={"on-grid": 0.4, "below-grid": 0.2, "above-grid": 0.2, "zero-bin": 0.4},
        min_nontrivial=0.15)
def consequences(case, ctx):
    s = _build(case["src"], ctx)
    b = case["b"]
    targets = _resolve(case["targets"], s.fpos)
    on, out = _classify(ctx, case, s, targets, b)
    lo, hi = float(np.min(s.apos)), float(np.max(s.apos))
    ctx.nt(on and out and hi > lo)
    if hi == lo:
        ctx.cls("flat")
    m = len(targets)
    f = fq.calc_smooth_fa_spectrum
    # (1) between the extreme amplitudes; a 0 Hz amplitude outside the range must not pull the mean
    freqs, spec = s.freqs, np.array(s.spec)
    if s.has_zero:
        spec[0] = (hi + 1.0) * 1e3 if case["seed"] % 2 else 0.0
    base = np.asarray(ctx.lib(f, freqs, spec, targets, band=b))
    ctx.shape(base, (m,), "smoothed spectrum")
    ctx.finite(base, "smoothed spectrum")
    ctx.check(bool(np.all(base >= lo * (1 - REL)) and np.all(base <= hi * (1 + REL))),
              "smoothed amplitude outside [min|A|, max|A|] = [%r, %r]: min %r max %r" % (lo, hi, float(np.min(base)), float(np.max(base))))
    # (2) constant spectrum reproduced (any phases)
    c = case["c"]
    rs = np.random.RandomState(case["seed"])
    ph = np.exp(1j * rs.uniform(0, 2 * math.pi, len(freqs)))
    const = c * ph if np.iscomplexobj(s.spec) else c * np.ones(len(freqs))
    if s.has_zero:
        const[0] = 0.0
    got = np.asarray(ctx.lib(f, freqs, const, targets, band=b))
    ctx.close(got, np.full(m, c), 2 * REL * c, "constant spectrum not reproduced")
    # (3) homogeneity
    k = case["k2"]
    a1 = np.abs(spec)
    s1 = np.asarray(ctx.lib(f, freqs, a1, targets, band=b))
    got = np.asarray(ctx.lib(f, freqs, a1 * 2.0 ** k, targets, band=b))
    ctx.equal(got, s1 * 2.0 ** k, "scaling the (real, non-negative) spectrum by 2^%d" % k)  # products and sums scale exactly
    got = np.asarray(ctx.lib(f, freqs, spec * 2.0 ** k, targets, band=b))
    ctx.close(got, base * 2.0 ** k, 4 * REL * base * 2.0 ** k, "scaling the spectrum by 2^%d" % k)
    al = case["alpha"]
    got = np.asarray(ctx.lib(f, freqs, spec * al, targets, band=b))
    ctx.close(got, abs(al) * base, 4 * REL * abs(al) * base, "scaling the spectrum by %r" % al)
    rot = complex(math.cos(case["rot"]), math.sin(case["rot"]))
    got = np.asarray(ctx.lib(f, freqs, spec * rot, targets, band=b))
    ctx.close(got, base, 4 * REL * base, "rotating the phase of the spectrum")
    # (4) linear in |A|: additivity and monotonicity for non-negative spectra
    a2 = np.abs(rs.standard_normal(len(freqs))) * (hi if hi > 0 else 1.0) * 10.0 ** rs.randint(-2, 3)
    if case["seed"] % 3 == 0:
        a2 = np.where(rs.uniform(size=len(freqs)) < 0.7, 0.0, a2)
    s2 = np.asarray(ctx.lib(f, freqs, a2, targets, band=b))
    s12 = np.asarray(ctx.lib(f, freqs, a1 + a2, targets, band=b))
    ctx.close(s12, s1 + s2, 4 * REL * (s1 + s2), "additivity in |A|")
    ctx.check(bool(np.all(s12 >= s1 * (1 - 4 * REL))), "monotonicity: adding a non-negative spectrum lowered a smoothed amplitude")
    ctx.close(s1, base, 4 * REL * base, "|A| as input vs A as input")


# ---------------------------------------------------------------------------
# clause 4: bandwidth limits

_RATIOS = [0.707, 0.707, 0.5, 0.25, 0.125, 0.9, 0.999999, 0.01]
_BIG = [15, 15, 15.0, 2, 4.0, 1.000001, 100, 1000.0]


@st.composite
def _bw_cases(draw):
    mode = draw(st.sampled_from(["default", "default", "targets", "targets", "range"]))
    case = {"src": draw(_rec_source(nonzero=True)), "mode": mode,
            "ratio": draw(st.one_of(st.sampled_from(_RATIOS), st.floats(0.001, 0.999, allow_nan=False))),
            "big": draw(st.one_of(st.sampled_from(_BIG), gen.log_uniform(1.001, 1e3))),
            "b": draw(st.sampled_from([40, 40, 5, 100, 17.5]))}
    if mode == "targets":
        case["targets"] = draw(_targets())
        case["order"] = draw(st.sampled_from(["asc", "asc", "asc", "desc", "shuffled"]))
    elif mode == "range":
        case["lo"] = draw(gen.log_uniform(1e-3, 10.0))
        case["hi"] = case["lo"] * draw(gen.log_uniform(1.5, 1e4))
        case["npts"] = draw(st.integers(2, 80))
        case["how"] = draw(st.sampled_from(["by_range", "by_range", "deprecated"]))
    return case


def _limits(sm, freqs, lim):
    """First / last frequency whose smoothed amplitude is strictly above lim, with the margin filter.
    returns (ambiguous, (imin_lo, imin_hi), (imax_lo, imax_hi)): index brackets of the lower and the upper limit."""
    strict = np.flatnonzero(sm > lim * (1 + MARGIN))
    loose = np.flatnonzero(sm > lim * (1 - MARGIN))
    if len(loose) == 0:
        return None
    amb = len(strict) != len(loose)
    if len(strict) == 0:
        return True, (int(loose[0]), int(loose[-1])), (int(loose[0]), int(loose[-1]))
    return amb, (int(loose[0]), int(strict[0])), (int(strict[-1]), int(loose[-1]))


def _kf_states():
    import json
    import os
    path = os.path.join(os.path.dirname(os.path.dirname(os.path.dirname(os.path.abspath(__file__)))), "known_findings.json")
    try:
        with open(path) as fh:
            k = json.load(fh)
        ents = k.get("findings", []) if isinstance(k, dict) else k
        return {e.get("id"): e.get("status") for e in ents if isinstance(e, dict)}
    except Exception:  # noqa
        return {}


_KF_STATE = _kf_states()


def _relaxed(ctx, kid):
    """Routing of C07-KF1 / C07-KF2 (both repaired in /repo, status fixed in known_findings.json: the assertions are strict).
    With an open entry it would be the usual known-finding routing (ctx.kf); only if the entry were missing altogether is the
    assertion skipped and the case labelled '<kid>:pending'."""
    if _KF_STATE.get(kid) is None:
        ctx.cls(kid + ":pending")
        return True
    return ctx.kf(kid)


def _bw_check(ctx, freqs, sm, fmin, fmax, lim, what):
    """What the statement says about a pair of bandwidth limits - ordered, bracketing the smoothed peak - plus the one fact the
    functions' docstrings document ('ratio of maximum value where bandwidth should be computed'): a limit that is a smoothing
    frequency has an amplitude above ratio*max, and the next smoothing frequency beyond it (below f_min / above f_max, in order
    of frequency) has not.  NOT demanded (audit C07, section 4): that the limits are members of smooth_fa_freqs (an interpolated
    crossing is as good), that they are the first / last crossing of the whole grid (the contiguous band round the peak is as
    good).  1e-9 margin filter on every threshold comparison.
    Smoothing frequencies in any order (quantifier: all target-frequency sets); on a non-ascending set the library used to
    return the limits in array order (C07-KF1, repaired in /repo 512613e)."""
    fmin, fmax = float(fmin), float(fmax)
    ascending = bool(np.all(np.diff(freqs) >= 0))
    if not ascending:
        ctx.cls("unordered-smoothing-frequencies")
        if _relaxed(ctx, "C07-KF1"):
            # what still holds: both values are smoothing frequencies whose amplitude exceeds the threshold
            for name, fv in (("f_min", fmin), ("f_max", fmax)):
                hit = freqs == fv
                ctx.check(bool(np.any(hit)) and float(np.max(sm[hit])) > lim * (1 - MARGIN),
                          "%s: %s=%r is not a smoothing frequency with amplitude above the threshold %r" % (what, name, fv, lim))
            return
    order = np.argsort(freqs, kind="stable")
    fs, ss = freqs[order], sm[order]
    mx = float(np.max(ss))
    ctx.check(fmin <= fmax, "%s: limits not ordered: f_min=%r > f_max=%r" % (what, fmin, fmax))
    near_peak = fs[ss >= mx * (1 - MARGIN)]
    ctx.check(bool(np.any((near_peak >= fmin) & (near_peak <= fmax))),
              "%s: limits (%r, %r) do not bracket the smoothed peak at %r Hz" % (what, fmin, fmax, float(fs[int(np.argmax(ss))])))
    for name, fv, side in (("f_min", fmin, -1), ("f_max", fmax, 1)):
        hit = fs == fv
        if np.any(hit):
            ctx.cls("limit-on-grid")
            at = float(np.max(ss[hit]))
            ctx.check(at > lim * (1 - MARGIN), "%s: amplitude %r at %s=%r does not exceed the threshold %r" % (what, at, name, fv, lim))
        beyond = fs < fv if side < 0 else fs > fv
        if np.any(beyond):
            fnext = float(np.max(fs[beyond])) if side < 0 else float(np.min(fs[beyond]))
            nb = float(np.min(ss[fs == fnext]))
            if nb > lim * (1 + MARGIN):
                ctx.fail("%s: the smoothing frequency %r next to %s=%r on the outside has amplitude %r > threshold %r" % (what, fnext, name, fv, nb, lim))
            if nb > lim * (1 - MARGIN):
                ctx.amb()



@clause(CLAUSES, "bandwidth", _bw_cases(), quick=500, thorough=3000,
        rule="AccSignal / Signal of a non-constant record (n 3..1024), smoothing frequencies = default, a drawn target set (on / beside / "
             "inside / outside the Fourier grid; ascending, descending or shuffled) or set_smooth_fa_frequecies_by_range / the deprecated "
             "smooth_freq_points + smooth_freq_range setters; in a hash-chosen half of the cases one of the four bandwidth functions is the "
             "first access to the smoothed spectrum of a fresh object / after the setter (band 40), otherwise band via "
             "gen_smooth_fa_spectrum; ratio in {0.707 (default), 2^-k, 0.9, 0.999999, 0.01, U(0.001,0.999)}; get_sig_freq_range ratio in "
             "{15 (default), 2, 4, 1.000001, 100, 1000, logU(1.001,1000)}; non-trivial = >= 3 smoothing frequencies, unambiguous and "
             "the limits are not simply the two ends of the grid",
        oracle="the object's smoothed spectrum vs the reference weighted mean; limits: f_min <= f_max and a smoothing frequency with "
               "(1e-9) maximal amplitude lies inside (statement); a limit that is a smoothing frequency has amplitude > ratio*max and "
               "the next smoothing frequency beyond it has not (docstring, 1e-9 margin filter); calc_bandwidth_freqs == "
               "(calc_bandwidth_f_min, calc_bandwidth_f_max); value of a first-access call == value afterwards; "
               "get_sig_freq_range(1/ratio) identical for ratio = 2^-k; get_sig_array_indexes_range ordered and bracketing the peak; a "
               "lower threshold never narrows the band; non-ascending sets included (C07-KF1, repaired)",
        require={"mode=default": 0.1, "mode=targets": 0.2, "mode=range": 0.05, "interior-limit": 0.2, "cold-cache": 0.3},
        min_nontrivial=0.2)
def bandwidth(case, ctx):
    s = _build(case["src"], ctx)
    mode = case["mode"]
    ctx.cls("mode=" + mode, "kind=" + case["src"]["rec"]["k"])
    hb = int(core_case_hash(case)[:8], 16)
    # a bandwidth function is the FIRST thing to touch the object's smoothed spectrum (not for an identically zero spectrum: no bandwidth)
    cold = hb % 2 == 0 and float(np.max(s.apos)) > 0
    # cold cases start from an object whose Fourier / smoothed spectra have never been read (s.asig has been read by _build)
    asig = ctx.lib(s.make) if cold else s.asig
    order = case.get("order", "asc")
    if mode == "targets":
        targets = np.sort(_resolve(case["targets"], s.fpos))
        if order == "desc":
            targets = targets[::-1].copy()
        elif order == "shuffled":
            np.random.RandomState(hb % (2 ** 31 - 1)).shuffle(targets)
        ctx.lib(setattr, asig, "smooth_fa_freqs", targets)
    elif mode == "range":
        if case.get("how", "by_range") == "deprecated":
            ctx.cls("range-deprecated-setters")
            if not cold:
                ctx.lib(lambda: asig.smooth_fa_spectrum)  # cached at the default frequencies first: the setters must invalidate it
            ctx.lib(setattr, asig, "smooth_freq_points", case["npts"])
            ctx.lib(setattr, asig, "smooth_freq_range", (case["lo"], case["hi"]))
        else:
            ctx.lib(asig.set_smooth_fa_frequecies_by_range, (case["lo"], case["hi"]), case["npts"])
        fr = np.asarray(asig.smooth_fa_freqs, dtype=float)
        ctx.shape(fr, (case["npts"],), "smoothing frequencies set by range")
        ctx.check(abs(fr[0] - case["lo"]) <= 1e-11 * case["lo"] and abs(fr[-1] - case["hi"]) <= 1e-11 * case["hi"]
                  and bool(np.all(np.diff(fr) > 0)), "smoothing frequencies set by range: not an ascending grid on [%r, %r]" % (case["lo"], case["hi"]))
    ratio = case["ratio"]
    big = case["big"]
    b = 40 if cold else case["b"]   # a cold read smooths with the default band
    pre = None
    if cold:
        ctx.cls("cold-cache")
        which = (hb >> 1) % 4
        if which == 0:
            pre = ("calc_bandwidth_freqs", ctx.lib(im.calc_bandwidth_freqs, asig, ratio=ratio))
        elif which == 1:
            pre = ("calc_bandwidth_f_min", ctx.lib(im.calc_bandwidth_f_min, asig, ratio=ratio))
        elif which == 2:
            pre = ("calc_bandwidth_f_max", ctx.lib(im.calc_bandwidth_f_max, asig, ratio=ratio))
        else:
            pre = ("get_sig_freq_range", ctx.lib(fq.get_sig_freq_range, asig, ratio=big))
    elif b != 40:
        ctx.lib(asig.gen_smooth_fa_spectrum, band=b)
    freqs = np.array(ctx.lib(lambda: asig.smooth_fa_frequencies), dtype=float)
    sm = np.array(ctx.lib(lambda: asig.smooth_fa_spectrum), dtype=float)
    m = len(freqs)
    ctx.shape(sm, (m,), "smoothed spectrum")
    ctx.finite(sm, "smoothed spectrum")
    # the smoothed spectrum the limits are derived from is the statement's weighted mean (cheap re-check, ties this clause to clause 1)
    s_ref, cond = ref.smooth(s.freqs, s.spec, freqs, b)
    ctx.close(sm, s_ref, _tol(s_ref, cond), "smoothed spectrum vs reference weighted mean")
    mx = float(np.max(sm))
    if not mx > 0:
        ctx.cls("zero-spectrum")
        return
    ascending = bool(np.all(np.diff(freqs) >= 0))
    if pre is not None:
        name, val = pre
        if name == "calc_bandwidth_freqs":
            _bw_check(ctx, freqs, sm, val[0], val[1], ratio * mx, "calc_bandwidth_freqs(ratio=%r) as the first access to the smoothed spectrum" % ratio)
        elif name == "get_sig_freq_range":
            _bw_check(ctx, freqs, sm, val[0], val[1], mx / big, "get_sig_freq_range(ratio=%r) as the first access to the smoothed spectrum" % big)
    both = ctx.lib(im.calc_bandwidth_freqs, asig, ratio=ratio)
    ctx.check(isinstance(both, (tuple, list, np.ndarray)) and len(both) == 2, "calc_bandwidth_freqs returned %r" % (both,))
    _bw_check(ctx, freqs, sm, both[0], both[1], ratio * mx, "calc_bandwidth_freqs(ratio=%r)" % ratio)
    fmin = ctx.lib(im.calc_bandwidth_f_min, asig, ratio)
    fmax = ctx.lib(im.calc_bandwidth_f_max, asig, ratio=ratio)
    ctx.check(np.ndim(fmin) == 0 and np.ndim(fmax) == 0, "calc_bandwidth_f_min / f_max are not scalars")
    # 'Lower / Upper frequency of smooth Fourier spectrum bandwidth' (docstrings): the two halves of calc_bandwidth_freqs
    ctx.check(float(fmin) == float(both[0]) and float(fmax) == float(both[1]),
              "calc_bandwidth_f_min / f_max (%r, %r) != calc_bandwidth_freqs %r" % (fmin, fmax, both))
    if pre is not None and pre[0] in ("calc_bandwidth_f_min", "calc_bandwidth_f_max"):
        ctx.check(float(pre[1]) == float(fmin if pre[0].endswith("min") else fmax),
                  "%s(ratio=%r) as the first access to the smoothed spectrum gave %r, afterwards %r" % (pre[0], ratio, pre[1], fmin if pre[0].endswith("min") else fmax))
    if pre is not None and pre[0] == "calc_bandwidth_freqs":
        ctx.check(float(pre[1][0]) == float(both[0]) and float(pre[1][1]) == float(both[1]),
                  "calc_bandwidth_freqs as the first access to the smoothed spectrum gave %r, afterwards %r" % (pre[1], both))
    if ratio == 0.707:
        # the default ratio is part of the documented signature (ratio=0.707)
        ctx.cls("default-ratio")
        d = ctx.lib(im.calc_bandwidth_freqs, asig)
        ctx.check(float(d[0]) == float(both[0]) and float(d[1]) == float(both[1]), "default ratio is not 0.707")
        ctx.check(float(ctx.lib(im.calc_bandwidth_f_min, asig)) == float(both[0]) and
                  float(ctx.lib(im.calc_bandwidth_f_max, asig)) == float(both[1]), "default ratio of f_min / f_max is not 0.707")
    interior = ascending and (float(both[0]) > freqs[0] or float(both[1]) < freqs[-1])
    if interior:
        ctx.cls("interior-limit")
    if not ctx.ambiguous and m >= 3 and interior:
        ctx.nt()
    # ratio > 1 form
    rng = ctx.lib(fq.get_sig_freq_range, asig, ratio=big)
    ctx.check(np.shape(rng) == (2,), "get_sig_freq_range returned %r" % (rng,))
    _bw_check(ctx, freqs, sm, rng[0], rng[1], mx / big, "get_sig_freq_range(ratio=%r)" % big)
    if pre is not None and pre[0] == "get_sig_freq_range":
        ctx.check(float(pre[1][0]) == float(rng[0]) and float(pre[1][1]) == float(rng[1]),
                  "get_sig_freq_range as the first access to the smoothed spectrum gave %r, afterwards %r" % (pre[1], rng))
    # index form: the statement at index level (ordered, bracketing the peak) - ascending sets only
    idx = ctx.lib(fq.get_sig_array_indexes_range, sm, ratio=big)
    ctx.check(len(idx) == 2 and 0 <= int(idx[0]) <= int(idx[1]) < m, "get_sig_array_indexes_range returned %r for %d amplitudes" % (idx, m))
    ctx.check(bool(np.any(sm[int(idx[0]):int(idx[1]) + 1] >= mx * (1 - MARGIN))), "get_sig_array_indexes_range %r does not bracket the peak" % (idx,))
    if big == 15:
        d = ctx.lib(fq.get_sig_freq_range, asig)   # documented signature default ratio=15
        ctx.check(float(d[0]) == float(rng[0]) and float(d[1]) == float(rng[1]), "default ratio of get_sig_freq_range is not 15")
    # the two forms agree exactly when 1/ratio is a power of two (the same threshold, the same spectrum)
    if ratio in (0.5, 0.25, 0.125):
        ctx.cls("pow2-ratio")
        r2 = ctx.lib(fq.get_sig_freq_range, asig, ratio=1.0 / ratio)
        ctx.check(float(r2[0]) == float(both[0]) and float(r2[1]) == float(both[1]),
                  "get_sig_freq_range(ratio=%r) %r != calc_bandwidth_freqs(ratio=%r) %r" % (1.0 / ratio, r2, ratio, both))
    # a lower threshold never narrows the band
    lo_lim, hi_lim = sorted([(ratio * mx, both), (mx / big, rng)], key=lambda t: t[0])
    if ascending and not ctx.ambiguous and abs(lo_lim[0] - hi_lim[0]) > 2 * MARGIN * hi_lim[0]:
        ctx.check(float(lo_lim[1][0]) <= float(hi_lim[1][0]) and float(lo_lim[1][1]) >= float(hi_lim[1][1]),
                  "band at the lower threshold %r is not a superset of the band at %r" % (lo_lim, hi_lim))


# ---------------------------------------------------------------------------
# mid-range sizes (notes/brief_midrange.md): record lengths 2e3..3e5, 1..5000 smoothing targets, products n_f x m of
# 1e5..3e7, the square default-target matrix up to n_f ~ 4000; option crosses; histories at mid-range size.
#
# Every case is a record (seeded noise x envelope + sine + offset; no zero stretch) whose library FAS is the spectrum
# (taken as given: C06), on the default power-of-two padding or on an explicit transform length N (gen_fa_spectrum(n=N),
# so n_f = N/2 - 1 is arbitrary).  Oracle in two layers (pbt/ref/ko_mid.py): a float64 per-target evaluation of the
# statement for ALL targets (and all matrix entries), and the long-double reference of pbt/ref/ko.py on a hash-chosen
# sample of targets, which also guards the float64 layer.

import hashlib  # noqa: E402

from pbt.core import enum_clause, Inconclusive  # noqa: E402
from pbt.ref import ko_mid as refm  # noqa: E402

ASSUMPTIONS += [
    "mid-range clauses: the spectrum is the library's FAS (complex, with its 0 Hz bin; correctness is C06) of a seeded record "
    "(standard normal noise x a nowhere-zero envelope + a sine + a non-zero offset, scaled by 10^-2..10^2), time step from "
    "{0.0025, 0.004, 0.005, 0.01, 0.02}; the transform length is the default power-of-two padding or an explicit even N >= npts "
    "set with gen_fa_spectrum(n=N) BEFORE the first smoothing read (the smoothed-spectrum cache is not tied to the Fourier "
    "cache by an explicit gen_fa_spectrum: not part of this statement, not asserted)",
    "mid-range targets: ascending (or a permutation of an ascending set), log- or linearly spaced from up to 0.3 decades inside to "
    "0.5 decades outside either end of the non-zero Fourier grid, every fourth one moved exactly onto a grid frequency and every "
    "sixteenth one 1 ulp above one; a random multiset of grid frequencies; the default (None = the Fourier frequencies); the "
    "object's default 50 points on [0.1, 30] Hz",
    "mid-range tolerance: rel(n_f) = 1e-12 + 2 (n_f + 64) eps relative (any-order summation of n_f non-negative terms: see "
    "pbt/ref/ko_mid.py) plus the conditioning bound; library vs the float64 all-target evaluation: twice that (both are double "
    "evaluations); the float64 layer itself must agree with the long-double sample to 1e-12 relative + conditioning bound, "
    "otherwise exit 2",
    "mid-range spectra that are not a noise FAS: records of two impulses (every odd bin exactly 0), one impulse (flat), a sine (one "
    "line) in the record-length ladder; raw amplitude arrays (3 lines on exact zeros, runs of zeros, flat, lines on a 1e-6 floor; "
    "complex / signed / non-negative) on the record's frequency grid scaled by 1, 1e-3 or 1e-5 (first positive frequency down to ~1e-9 "
    "Hz) for the array-level entry points in a third of the n_f / target / product cases",
]

_MID_DTS = [0.0025, 0.004, 0.005, 0.01, 0.02]
_MID_BANDS = [40, 40, 20, 67.5, 5, 100, 31, 12.25]
_LD_BUDGET = 1.2e6   # long-double pair evaluations per reference call (~0.3 s)


def _hh(*parts):
    return int(hashlib.blake2b(":".join(str(p) for p in parts).encode(), digest_size=8).hexdigest(), 16)


def _hu(*parts):
    return (_hh(*parts) % 10 ** 6) / 1e6


def _hint(lo, hi, *parts):
    """log-uniform integer in [lo, hi] by hash."""
    lo, hi = int(lo), int(hi)
    if hi <= lo:
        return lo
    return min(hi, max(lo, int(math.exp(math.log(lo) + (math.log(hi + 1) - math.log(lo)) * _hu(*parts)))))


def _mid_seed(tag, i):
    return _hh(gen.run_seed(), tag, i) % (2 ** 31 - 1)


def _mid_record(npts, seed, kind="noise"):
    """noise: dense noise-like FAS; two-impulse (samples 0 and N/2 of the default power-of-two length N): FAS exactly 0 in every
    odd bin; impulse: flat FAS; sine: one spectral line on a floor ~1e-13 below it."""
    amp = 10.0 ** (seed % 5 - 2)
    if kind == "two-impulse":
        x = np.zeros(npts)
        n2 = 1
        while n2 < npts:
            n2 *= 2
        x[0] = x[n2 // 2] = 1.25 * amp
        return x
    if kind == "impulse":
        x = np.zeros(npts)
        x[seed % npts] = -2.5 * amp
        return x
    if kind == "sine":
        return amp * np.sin(2 * math.pi * (7 + seed % 131) * np.arange(npts) / float(npts))
    rs = np.random.RandomState(seed)
    t = (np.arange(npts) + 1.0) / npts
    env = 0.15 + 1.8 * (4 * t) ** 2 * np.exp(-4 * t)
    x = rs.standard_normal(npts) * env + 0.3 * np.sin(2 * math.pi * (5 + seed % 23) * t + 0.7) + 0.05
    return x * 10.0 ** (seed % 5 - 2)


def _mid_targets(fpos, m, seed, style):
    rs = np.random.RandomState((seed ^ 0x5BD1E995) % (2 ** 31 - 1))
    nf = len(fpos)
    if style == "grid":
        return np.array(fpos[np.sort(rs.randint(0, nf, m))], dtype=float)
    u1, u2 = rs.uniform(-0.3, 0.5, 2)
    a = math.log10(fpos[0]) - u1
    b = max(a + 0.05, math.log10(fpos[-1]) + u2)
    if m == 1:
        t = np.array([10.0 ** (a + rs.uniform() * (b - a))])
    elif style == "lin":
        t = np.linspace(10.0 ** a, 10.0 ** b, m)
    else:
        t = np.logspace(a, b, m)
    k = int(rs.randint(0, 4))
    sel = np.arange(k, m, 4)
    t[sel] = fpos[np.clip(np.searchsorted(fpos, t[sel]), 0, nf - 1)]
    sel = np.arange((k + 2) % 4, m, 16)
    t[sel] = np.nextafter(fpos[np.clip(np.searchsorted(fpos, t[sel]), 0, nf - 1)], np.inf)
    t = np.sort(t)
    if style == "shuffled":
        rs.shuffle(t)
    return np.array(t, dtype=float)


def _mid_amps(kind, nf, seed):
    """Raw amplitude families on nf non-zero frequencies (mid-range spectra that are not a noise FAS): exact zeros, runs of
    zeros, a flat spectrum, isolated lines on a low floor."""
    rs = np.random.RandomState((seed * 31 + 7) % (2 ** 31 - 1))
    c = 10.0 ** (seed % 7 - 3)
    if kind == "sparse":
        a = np.zeros(nf)
        a[rs.randint(0, nf, 3)] = rs.uniform(0.1, 1.0, 3)
    elif kind == "zero-runs":
        a = np.abs(rs.standard_normal(nf)) + 0.01
        for _ in range(6):
            i0 = int(rs.randint(0, nf))
            a[i0:i0 + max(1, nf // 9)] = 0.0
    elif kind == "flat":
        a = np.ones(nf)
    elif kind == "spiky":
        a = np.full(nf, 1e-3) * (1 + 0.5 * rs.uniform(size=nf))
        a[rs.randint(0, nf, 5)] = 1e3 * rs.uniform(0.2, 1.0, 5)
    else:
        raise ValueError(kind)
    a = a * c
    spec = np.concatenate([[1e4 * c], a])   # the 0 Hz amplitude (an outlier: it takes no part)
    mode = seed % 3
    if mode == 0:
        return spec * np.exp(1j * rs.uniform(0, 2 * math.pi, nf + 1))
    if mode == 1:
        return spec * rs.choice([-1.0, 1.0], nf + 1)
    return spec


_RAW_AMPS = ["sparse", "zero-runs", "flat", "spiky"]
_ARRAY_FORMS = ("M", "D", "Dpos", "alias")


def _mid_signal(ctx, case, x=None, **kw):
    x = _mid_record(case["npts"], case["seed"], case.get("rec", "noise")) if x is None else x
    cls = eqsig.AccSignal if case.get("acc") else eqsig.Signal
    sig = ctx.lib(cls, x, case["dt"], **kw)
    if case.get("nfft"):
        ctx.lib(sig.gen_fa_spectrum, n=case["nfft"])
    return x, sig


def _mid_fas(ctx, sig, case):
    freqs = np.array(ctx.lib(lambda: sig.fa_freqs), dtype=float)
    spec = np.array(ctx.lib(lambda: sig.fa_spectrum))
    ctx.check(freqs.ndim == 1 and spec.shape == freqs.shape and len(freqs) >= 2 and freqs[0] == 0 and bool(np.all(np.diff(freqs) > 0)), "Fourier spectrum of the record is not a one-sided spectrum on an ascending grid from 0 Hz "
              "(%d bins)" % len(freqs))
    return freqs, spec


class _Ref(object):
    pass


def _mid_reference(freqs, spec, targets, b, key, mat_t=None, ld_count=None):
    """Float64 evaluation for all targets + long-double sample; the former is guarded by the latter (HarnessError)."""
    r = _Ref()
    nf = len(freqs) - (1 if freqs[0] == 0 else 0)
    m = len(targets)
    r.nf, r.m = nf, m
    r.sc = refm.scan(freqs, spec, targets, b, mat_t=mat_t)
    r.rel = r.sc.rel
    if ld_count is None:
        ld_count = int(min(40, max(6, _LD_BUDGET // nf)))
    r.idx = np.array(refm.sample_indices(m, ld_count, key), dtype=int)
    s_ld, cond = ref.smooth(freqs, spec, targets[r.idx], b)
    r.s_ld, r.cond_ld = s_ld, cond
    s_f = np.asarray(s_ld, dtype=float)
    off = np.abs(r.sc.S[r.idx].astype(LD) - s_ld)
    if not bool(np.all(off <= REL * s_f + cond + 1e-290)):
        j = int(np.argmax(off - (REL * s_f + cond)))
        raise HarnessError("float64 all-target evaluation disagrees with the long-double reference: target %d (%r Hz), %r vs %r" % (
            int(r.idx[j]), float(targets[r.idx[j]]), float(r.sc.S[r.idx[j]]), float(s_ld[j])))
    apos = np.abs(np.asarray(spec))[1:] if freqs[0] == 0 else np.abs(np.asarray(spec))
    r.lo, r.hi = float(np.min(apos)), float(np.max(apos))
    return r


def _mid_check_smooth(ctx, got, r, what):
    got = np.asarray(got)
    if np.iscomplexobj(got):  # a weighted mean of magnitudes is a real number; the dtype it is stored in is not the statement's business
        ctx.check(bool(np.all(got.imag == 0)), "%s: non-zero imaginary part" % what)
        got = got.real
    ctx.shape(got, (r.m,), what)
    ctx.finite(got, what)
    s_f = np.asarray(r.s_ld, dtype=float)
    ctx.close(got[r.idx], r.s_ld, r.rel * s_f + r.cond_ld, what + " vs long-double weighted mean (sampled targets %s...)" % r.idx[:6].tolist())
    ctx.close(got, r.sc.S, 2.0 * (r.rel * r.sc.S + r.sc.cond), what + " vs per-target evaluation of the weighted mean (all %d targets)" % r.m)
    ctx.check(bool(np.all(got >= r.lo * (1 - r.rel)) and np.all(got <= r.hi * (1 + r.rel))),
              "%s: smoothed amplitude outside [min|A|, max|A|] = [%r, %r]: min %r max %r" % (what, r.lo, r.hi, float(np.min(got)), float(np.max(got))))


def _mid_check_matrix(ctx, mat, freqs, spec, targets, b, key, what):
    """All entries of the library matrix against the per-target evaluation, a sample of columns against long double.
    returns the reference pack (with the smoothed spectrum for the same targets)."""
    nf = len(freqs) - (1 if freqs[0] == 0 else 0)
    m = len(targets)
    mat = np.asarray(mat)
    ctx.shape(mat, (nf, m), what)
    ctx.check(mat.dtype.kind == "f", "%s: dtype %s" % (what, mat.dtype))
    try:
        mat_t = np.ascontiguousarray(mat.T, dtype=float)
    except MemoryError:
        raise Inconclusive("out of memory transposing the smoothing matrix")
    ctx.check(bool(np.isfinite(np.sum(mat_t))), "%s: non-finite entries" % what)
    r = _mid_reference(freqs, spec, targets, b, key, mat_t=mat_t)
    sc = r.sc
    ctx.check(float(np.min(sc.colmin)) >= 0, "%s: negative weight %r (column %d)" % (what, float(np.min(sc.colmin)), int(np.argmin(sc.colmin))))
    ctx.close(sc.colsum, np.ones(m), r.rel, "%s: column sums" % what)
    if sc.bad is not None:
        i, j, g, e, tl, cnt = sc.bad
        ctx.fail("%s: entry [%d, %d] (f=%r, fc=%r) = %r, w/sum w = %r (tol %.3g; %d entries of that column out)" % (
            what, i, j, float(freqs[-nf:][i]), float(targets[j]), g, e, tl, cnt))
    kcols = int(min(len(r.idx), max(2, 4e5 // nf)))
    cols = r.idx[np.unique(np.linspace(0, len(r.idx) - 1, kcols).astype(int))]
    w_ref, w_tol, colsum = ref.matrix(freqs, targets[cols], b)
    sub = mat[:, cols]
    ctx.close(sub, w_ref, r.rel * np.asarray(w_ref, dtype=float) + w_tol, "%s: entries vs long-double w_ij / sum_i w_ij (columns %s)" % (what, cols[:6].tolist()))
    fpos = freqs[-nf:]
    for q, j in enumerate(cols):
        hit = np.flatnonzero(fpos == targets[j])
        if len(hit):
            i = int(hit[0])
            ctx.check(bool(np.all(sub[:, q] <= sub[i, q] * (1 + 16 * EPS))), "%s: column %d: an entry exceeds the weight at f == fc" % (what, int(j)))
    del mat_t
    return r


_BW_COLD = ["calc_bandwidth_freqs", "calc_bandwidth_f_min", "calc_bandwidth_f_max", "get_sig_freq_range"]


def _mid_bandwidth_cold(ctx, asig, key):
    """One bandwidth function (hash-chosen) called on an object whose smoothed spectrum has not been read since it was built /
    since its last setter; the value is checked afterwards by _mid_bandwidth(pre=...)."""
    name = _BW_COLD[_hh(key, "cold-fn") % 4]
    ctx.cls("cold-cache")
    if name == "get_sig_freq_range":
        return name, ctx.lib(fq.get_sig_freq_range, asig)
    return name, ctx.lib(getattr(im, name), asig)


def _mid_bandwidth(ctx, asig, key, pre=None):
    """Bandwidth limits of the object's smoothed spectrum at three ratios < 1 and two > 1 (statement: ordered, bracket the
    peak; docstrings: threshold semantics at the limits - see _bw_check)."""
    freqs = np.array(ctx.lib(lambda: asig.smooth_fa_frequencies), dtype=float)
    sm = np.array(ctx.lib(lambda: asig.smooth_fa_spectrum), dtype=float)
    if len(freqs) < 1 or not float(np.max(sm)) > 0:
        return
    ctx.cls("bandwidth-checked")
    mx = float(np.max(sm))
    for ratio in (0.707, 0.5, round(0.05 + 0.93 * _hu(key, "ratio"), 6)):
        both = ctx.lib(im.calc_bandwidth_freqs, asig, ratio=ratio)
        ctx.check(isinstance(both, (tuple, list, np.ndarray)) and len(both) == 2, "calc_bandwidth_freqs returned %r" % (both,))
        _bw_check(ctx, freqs, sm, both[0], both[1], ratio * mx, "calc_bandwidth_freqs(ratio=%r), %d smoothing frequencies" % (ratio, len(freqs)))
        fmin = ctx.lib(im.calc_bandwidth_f_min, asig, ratio=ratio)
        fmax = ctx.lib(im.calc_bandwidth_f_max, asig, ratio=ratio)
        ctx.check(float(fmin) == float(both[0]) and float(fmax) == float(both[1]),
                  "calc_bandwidth_f_min / f_max (%r, %r) != calc_bandwidth_freqs %r (ratio=%r, %d smoothing frequencies)" % (fmin, fmax, both, ratio, len(freqs)))
        if ratio == 0.707:
            d = ctx.lib(im.calc_bandwidth_freqs, asig)   # documented signature default
            ctx.check(float(d[0]) == float(both[0]) and float(d[1]) == float(both[1]), "default ratio of calc_bandwidth_freqs is not 0.707")
            if pre is not None and pre[0].startswith("calc_bandwidth"):
                want = both if pre[0] == "calc_bandwidth_freqs" else (both[0] if pre[0].endswith("min") else both[1])
                ctx.check(np.array_equal(np.asarray(pre[1], dtype=float), np.asarray(want, dtype=float)),
                          "%s as the first access to the smoothed spectrum gave %r, afterwards %r" % (pre[0], pre[1], want))
        if ratio == 0.5:
            r2 = ctx.lib(fq.get_sig_freq_range, asig, ratio=2.0)
            ctx.check(float(r2[0]) == float(both[0]) and float(r2[1]) == float(both[1]),
                      "get_sig_freq_range(ratio=2) %r != calc_bandwidth_freqs(ratio=0.5) %r" % (r2, both))
    for big in (15, round(1.05 * 50.0 ** _hu(key, "big"), 6)):
        rng = ctx.lib(fq.get_sig_freq_range, asig, ratio=big)
        ctx.check(np.shape(rng) == (2,), "get_sig_freq_range returned %r" % (rng,))
        _bw_check(ctx, freqs, sm, rng[0], rng[1], mx / big, "get_sig_freq_range(ratio=%r), %d smoothing frequencies" % (big, len(freqs)))
        if big == 15:
            d = ctx.lib(fq.get_sig_freq_range, asig)   # documented signature default
            ctx.check(float(d[0]) == float(rng[0]) and float(d[1]) == float(rng[1]), "default ratio of get_sig_freq_range is not 15")
            if pre is not None and pre[0] == "get_sig_freq_range":
                ctx.check(np.array_equal(np.asarray(pre[1], dtype=float), np.asarray(rng, dtype=float)),
                          "get_sig_freq_range as the first access to the smoothed spectrum gave %r, afterwards %r" % (pre[1], rng))


_DIRECT_FORMS = ["D", "O-set", "Dpos", "O-ctor", "alias", "O-gen"]


def _mid_direct(ctx, form, case, x, sig, freqs, spec, targets, b, zero, default_targets=False):
    """One 'direct-form' entry point -> (smoothed spectrum, object or None).  targets: ndarray (never None); with
    default_targets the array-level functions get None / nothing and the object gets the Fourier frequencies."""
    f_in, s_in = (freqs, spec) if zero else (freqs[1:], spec[1:])
    t_in = None if default_targets else np.array(targets)
    ctx.cls("form=" + form)
    if form == "D":
        if default_targets and b == 40 and case.get("omit_band"):
            return ctx.lib(fq.calc_smooth_fa_spectrum, f_in, s_in), None, None
        if default_targets:
            return ctx.lib(fq.calc_smooth_fa_spectrum, f_in, s_in, band=b), None, None
        if b == 40 and case.get("omit_band"):
            return ctx.lib(fq.calc_smooth_fa_spectrum, f_in, s_in, t_in), None, None
        return ctx.lib(fq.calc_smooth_fa_spectrum, f_in, s_in, t_in, band=b), None, None
    if form == "Dpos":
        return ctx.lib(fq.calc_smooth_fa_spectrum, f_in, s_in, t_in, b), None, None
    if form == "alias":
        if b == 40 and case.get("omit_band"):
            return ctx.lib(fq.generate_smooth_fa_spectrum, t_in, f_in, s_in), None, None
        return ctx.lib(fq.generate_smooth_fa_spectrum, t_in, f_in, s_in, band=b), None, None
    t_obj = np.array(targets)
    if form == "O-ctor":
        _, o = _mid_signal(ctx, case, x, smooth_fa_freqs=t_obj)
        if not (b == 40 and case.get("omit_band")):
            ctx.lib(o.gen_smooth_fa_spectrum, band=b)
    elif form == "O-set":
        _, o = _mid_signal(ctx, case, x)
        if case["seed"] % 2:
            ctx.lib(setattr, o, "smooth_fa_freqs", t_obj)
        else:
            ctx.lib(setattr, o, "smooth_fa_frequencies", t_obj)
        if not (b == 40 and case.get("omit_band")):
            ctx.lib(o.generate_smooth_fa_spectrum, band=b)
    elif form == "O-gen":
        _, o = _mid_signal(ctx, case, x)
        if case["seed"] % 2:
            ctx.lib(o.gen_smooth_fa_spectrum, t_obj, b)
        else:
            ctx.lib(o.gen_smooth_fa_spectrum, smooth_fa_freqs=t_obj, band=b)
    else:
        raise ValueError(form)
    pre = None
    if form in ("O-ctor", "O-set") and b == 40 and case.get("omit_band") and case.get("bw") and float(np.max(np.abs(spec[1:]))) > 0:
        # nothing has read the smoothed spectrum since the constructor / the setter: a bandwidth function does it first
        pre = _mid_bandwidth_cold(ctx, o, "%s:%s" % (case["seed"], form))
    got = ctx.lib(lambda: o.smooth_fa_spectrum)
    ctx.equal(np.asarray(ctx.lib(lambda: o.smooth_fa_freqs)), targets, "smooth_fa_freqs of the object (%s)" % form)
    return got, o, pre


def _mid_classes(ctx, case, nf, m):
    p = nf * m
    ctx.nt(True)
    ctx.cls("kind=" + case["kind"], "P<1e6" if p < 1e6 else ("P<5e6" if p < 5e6 else ("P<1.5e7" if p < 1.5e7 else "P>=1.5e7")),
            "nf<4096" if nf < 4096 else ("nf<32768" if nf < 32768 else "nf>=32768"),
            "m<64" if m < 64 else ("m<1000" if m < 1000 else "m>=1000"))


def _mid_eval(case, ctx):
    """Generic mid-range case: record -> FAS -> targets -> every requested entry point against the two-layer reference."""
    x, sig = _mid_signal(ctx, case)
    freqs, spec = _mid_fas(ctx, sig, case)
    forms = case["forms"]
    if case.get("amp"):
        # a raw spectrum (not the FAS of a record) on a raw frequency axis: the record's grid scaled by 10^-k, so that the first
        # positive frequency goes down to ~1e-9 Hz (such a bin is NOT the 0 Hz bin); array-level entry points only
        ctx.cls("amp=" + case["amp"], "fscale=%g" % case.get("fscale", 1.0))
        freqs = freqs * float(case.get("fscale", 1.0))
        spec = _mid_amps(case["amp"], len(freqs) - 1, case["seed"])
        forms = [f for f in forms if f in _ARRAY_FORMS]
    else:
        ctx.cls("amp=fas")
    fpos = freqs[1:]
    nf = len(fpos)
    default_targets = case.get("m") is None
    targets = np.array(fpos) if default_targets else _mid_targets(fpos, case["m"], case["seed"], case.get("tstyle", "log"))
    m = len(targets)
    b = case["b"]
    zero = bool(case.get("zero", True))
    key = "%s:%s" % (gen.run_seed(), case["seed"])
    _mid_classes(ctx, case, nf, m)
    ctx.cls("targets=" + ("default" if default_targets else case.get("tstyle", "log")), "zero-bin" if zero else "no-zero-bin")
    if np.any(np.isin(targets, fpos)):
        ctx.cls("on-grid")
    if not zero and fpos[0] < 1e-6:
        ctx.cls("first-frequency<1e-6")
    r = None
    f_in = freqs if zero else fpos
    if "M" in forms:
        ctx.cls("form=M")
        t_in = None if default_targets else targets
        if default_targets and b == 40 and case.get("omit_band"):
            mat = ctx.lib(fq.calc_smoothing_matrix_konno_1998, f_in)
        elif case["seed"] % 3 == 0:
            mat = ctx.lib(fq.calc_smoothing_matrix_konno_1998, f_in, t_in, b)
        elif default_targets:
            mat = ctx.lib(fq.calc_smoothing_matrix_konno_1998, f_in, band=b)
        else:
            mat = ctx.lib(fq.calc_smoothing_matrix_konno_1998, f_in, t_in, band=b)
        r = _mid_check_matrix(ctx, mat, freqs, spec, targets, b, key, "smoothing matrix (%d x %d)" % (nf, m))
        if "C" in forms:
            ctx.cls("form=C")
            via = ctx.lib(fq.calc_smooth_fa_spectrum_w_custom_matrix, sig, mat)
            _mid_check_smooth(ctx, via, r, "matrix form (%d x %d)" % (nf, m))
        del mat
    if r is None:
        r = _mid_reference(freqs, spec, targets, b, key)
    obj = pre = None
    for form in forms:
        if form in ("M", "C"):
            continue
        got, o, p_ = _mid_direct(ctx, form, case, x, sig, freqs, spec, targets, b, zero, default_targets)
        _mid_check_smooth(ctx, got, r, "%s (%d Fourier frequencies x %d targets, band=%r)" % (
            {"D": "calc_smooth_fa_spectrum", "Dpos": "calc_smooth_fa_spectrum", "alias": "generate_smooth_fa_spectrum"}.get(form, "Signal.smooth_fa_spectrum [%s]" % form), nf, m, b))
        if o is not None:
            obj, pre = o, p_
    if case.get("const") and not default_targets:
        c = 10.0 ** (case["seed"] % 7 - 3) * 1.7
        ph = np.exp(1j * np.random.RandomState(case["seed"]).uniform(0, 2 * math.pi, len(f_in)))
        got = np.asarray(ctx.lib(fq.calc_smooth_fa_spectrum, f_in, c * ph, targets, band=b))
        ctx.close(got, np.full(m, c), 2 * r.rel * c, "constant spectrum not reproduced (%d x %d)" % (nf, m))
    # (purity of the arguments is C05's claim, not C07's: no mutation checks here)
    if obj is not None and case.get("bw"):
        _mid_bandwidth(ctx, obj, key, pre)
    return r


def _mid_reclen(case, ctx):
    """Record-length ladder: the object with every smoothing setting at its default, its bandwidth limits (in a hash-chosen half
    of the cases a bandwidth function is the first thing that touches the object), then matrix / direct form on a sub-set of
    those targets (custom-matrix form: in the other half on an object whose Fourier spectrum has never been read)."""
    x, sig = _mid_signal(ctx, case)
    key = "%s:%s" % (gen.run_seed(), case["seed"])
    ctx.cls("rec=" + case.get("rec", "noise"))
    cold = _hh(key, "cold") % 2 == 0
    pre = _mid_bandwidth_cold(ctx, sig, key) if cold else None
    sm = np.array(ctx.lib(lambda: sig.smooth_fa_spectrum))
    freqs, spec = _mid_fas(ctx, sig, case)
    nf = len(freqs) - 1
    # whatever the default smoothing frequencies are (the statement does not say): the spectrum is the weighted mean at the
    # frequencies the object reports
    targets = np.array(ctx.lib(lambda: sig.smooth_fa_freqs), dtype=float)
    ctx.check(targets.ndim == 1 and len(targets) >= 1 and bool(np.all(np.isfinite(targets))) and bool(np.all(targets > 0)),
              "default smoothing frequencies are not positive finite numbers: %r" % (targets[:4],))
    nt = len(targets)
    _mid_classes(ctx, case, nf, nt)
    ctx.cls("form=O-default")
    r = _mid_reference(freqs, spec, targets, 40, key)   # band=40: the documented signature default of gen_smooth_fa_spectrum
    _mid_check_smooth(ctx, sm, r, "Signal.smooth_fa_spectrum (record of %d samples, %d Fourier frequencies, default settings)" % (case["npts"], nf))
    _mid_bandwidth(ctx, sig, key, pre)
    k = int(min(12, nt, max(3, 6e5 // nf)))
    sub = np.array(refm.sample_indices(nt, k, key + ":sub"), dtype=int)
    t_sub = targets[sub]
    b = case["b"]
    mat = ctx.lib(fq.calc_smoothing_matrix_konno_1998, freqs, t_sub, band=b)
    r2 = _mid_check_matrix(ctx, mat, freqs, spec, t_sub, b, key, "smoothing matrix (%d x %d)" % (nf, len(sub)))
    who = sig
    if not cold:
        ctx.cls("custom-matrix-on-fresh-object")
        _, who = _mid_signal(ctx, case, x)
    via = ctx.lib(fq.calc_smooth_fa_spectrum_w_custom_matrix, who, mat)
    _mid_check_smooth(ctx, via, r2, "matrix form (%d x %d)%s" % (nf, len(sub), "" if cold else " on an object whose Fourier spectrum has not been read"))
    got = ctx.lib(fq.calc_smooth_fa_spectrum, freqs, spec, t_sub, band=b)
    _mid_check_smooth(ctx, got, r2, "calc_smooth_fa_spectrum (%d Fourier frequencies x %d targets, band=%r)" % (nf, len(sub), b))
    if b == 40:
        ctx.close(np.asarray(got), sm[sub], 2 * r.rel * np.abs(sm[sub]) + 2 * r.sc.cond[sub], "array level vs object level at the same targets")


def _mid_enum(tier, shard, nshards):
    th = tier == "thorough"
    tg = "c07-T" if th else "c07-q"
    cases = []
    rot = _hh(gen.run_seed(), tg, "rot") % 6

    def add(kind, **kw):
        i = len(cases)
        seed = _mid_seed(tg + ":" + kind, i)
        c = {"kind": kind, "seed": seed, "dt": _MID_DTS[seed % len(_MID_DTS)], "acc": bool((seed >> 3) % 2),
             "b": _MID_BANDS[(seed >> 5) % len(_MID_BANDS)], "omit_band": bool((seed >> 9) % 2)}
        c.update(kw)
        cases.append(c)

    # (a) record length, default padding, default smoothing settings
    top = 2000000 if th else 300000
    for n in sorted(set(gen.size_ladder(2000, top, 24 if th else 8, tg + ":reclen", mined_limit=8 if th else 3)) | {top}):
        add("reclen", npts=int(n), nfft=None, rec=["noise", "two-impulse", "noise", "impulse", "noise", "sine"][(len(cases) + rot) % 6])
    # (b) number of Fourier frequencies (explicit transform length), few targets
    top = 600000 if th else 150000
    for nf in sorted(set(gen.size_ladder(1000, top, 24 if th else 10, tg + ":nfreq", mined_limit=8 if th else 4)) | {top}):
        i = len(cases)
        nfft = 2 * (int(nf) + 1)
        m = _hint(3, max(3, min(24, int(1.0e6 // nf))), tg, "m", i)
        d = (i + rot) % 3
        add("nfreq", npts=_hint(nfft // 2 + 1, nfft, tg, "npts", i), nfft=nfft, m=m, tstyle=["log", "lin", "log", "grid"][i % 4],
            zero=bool(i % 2), forms=["M", "C", ["D", "Dpos"][i % 2], "alias", ["O-set", "O-ctor", "O-gen"][d]], const=True, bw=True,
            amp=_RAW_AMPS[(i + rot) % 4] if (i + rot) % 3 == 1 else None, fscale=[1.0, 1e-3, 1e-5][(i + rot) % 3])
    # (c) number of smoothing targets
    ms = sorted(set(gen.ladder(1, 20000 if th else 5000, 30 if th else 14, tg + ":ntarget")) | {20000 if th else 5000})
    for m in ms:
        i = len(cases)
        nf = _hint(120, 900, tg, "nf", i)
        nfft = 2 * (nf + 1)
        d = (i + rot) % 3
        # the two largest target sets stay ascending (the bandwidth limits are checked on ascending sets only)
        style = ["log", "lin"][i % 2] if m >= ms[-2] else ["log", "lin", "log", "grid", "shuffled"][i % 5]
        add("ntarget", npts=_hint(nfft // 2 + 1, nfft, tg, "npts", i), nfft=nfft, m=int(m), tstyle=style,
            zero=bool(i % 2), forms=["M", "C", ["D", "Dpos"][i % 2], "alias", ["O-set", "O-ctor", "O-gen"][d]], const=True, bw=True,
            amp=_RAW_AMPS[(i + rot) % 4] if (i + rot) % 4 == 2 and m < ms[-2] else None, fscale=[1e-5, 1.0, 1e-3][(i + rot) % 3])
    # (d) default targets = the Fourier frequencies themselves (square matrix)
    top = 7000 if th else 4000
    for nf in sorted(set(gen.ladder(300, top, 12 if th else 4, tg + ":square")) | {top}):
        i = len(cases)
        nfft = 2 * (int(nf) + 1)
        forms = ["M", "C", "D"] + (["O-set"] if nf <= 1500 else [])
        if nf == top and not th:  # 1.6e7 pairs: one of the two forms, by seed
            forms = ["M", "C"] if rot % 2 else ["D"]
        add("square", npts=_hint(nfft // 2 + 1, nfft, tg, "npts", i), nfft=nfft, m=None, zero=bool(i % 2), forms=forms)
    for i, c in enumerate(cases):
        if i % nshards == shard:
            yield c


@enum_clause(CLAUSES, "mid-range", _mid_enum,
             rule="one size dimension at a time, one size per logarithmic bin placed by a hash of (VERIF_SEED, tag) plus sizes aimed at the "
                  "integer literals of the source under test: (a) record length 2 000..300 000 (thorough 2e6) with default padding and "
                  "default smoothing settings; (b) number of Fourier frequencies 1 000..150 000 (thorough 6e5; explicit transform length, "
                  "3..24 targets); (c) number of targets 1..5 000 (thorough 20 000; 120..900 Fourier frequencies); (d) default targets = "
                  "the Fourier frequencies, n_f 300..4 000 (thorough 7 000). Seeded record, band from {40, 20, 67.5, 5, 100, 31, 12.25}, "
                  "log / linear / on-grid / shuffled targets, with / without the 0 Hz bin",
             oracle="reference model in two layers: float64 per-target evaluation of the statement for ALL targets and ALL matrix entries "
                    "(tolerance 2 x (rel(n_f) + conditioning bound)), long-double reference on a hash-chosen sample of targets (first, last, "
                    "next to multiples of 2^k, arbitrary; tolerance rel(n_f) + conditioning bound) which also guards the float64 layer; "
                    "matrix: shape, finite, >= 0, column sums 1; matrix form, direct form (keyword / positional / deprecated alias) and "
                    "object form (constructor / setters / gen_smooth_fa_spectrum) against the same reference; result within [min|A|, "
                    "max|A|]; constant spectrum reproduced; inputs not mutated; bandwidth limits of the object's spectrum by front / back "
                    "scan (1e-9 margin filter)",
             exhaustive_note="all listed sizes", quick_shards=4)
def mid_range(case, ctx):
    if case["kind"] == "reclen":
        _mid_reclen(case, ctx)
    else:
        _mid_eval(case, ctx)


# ---------------------------------------------------------------------------
# products n_f x m


def _mid_products_enum(tier, shard, nshards):
    th = tier == "thorough"
    tg = "c07-T" if th else "c07-q"
    hi = 6e7 if th else 3e7
    cnt = 20 if th else 10
    splits = [("many-freqs", (20000, 500000 if th else 150000), (1, 3000)),
              ("many-targets", (20, 12000), (500, 20000 if th else 5000))]
    off = _hh(gen.run_seed(), tg, "rot") % 6
    cases = []
    for si, (name, ar, br) in enumerate(splits):
        pairs = sorted(gen.product_pairs(1e5, hi, cnt, ar, br, tg + ":prod:" + name), key=lambda p: -p[0] * p[1])
        for rank, (nf, m) in enumerate(pairs):
            p = nf * m
            d = _DIRECT_FORMS[(rank + si + off) % 6]
            if th or p <= 4e6:
                forms = ["M", "C", d, _DIRECT_FORMS[(rank + si + off + 3) % 6]] if p <= 1e6 else ["M", "C", d]
            elif (rank + si + off) % 2 == 1:
                forms = [d]
            else:
                forms = ["M", "C"]
            seed = _mid_seed(tg + ":prod:" + name, rank)
            nfft = 2 * (int(nf) + 1)
            cases.append({"kind": "prod-" + name, "seed": seed, "dt": _MID_DTS[seed % len(_MID_DTS)], "acc": bool((seed >> 3) % 2),
                          "b": _MID_BANDS[(seed >> 5) % len(_MID_BANDS)], "omit_band": bool((seed >> 9) % 2),
                          "npts": _hint(nfft // 2 + 1, nfft, tg, "npts", name, rank), "nfft": nfft, "m": int(m),
                          "tstyle": ["log", "lin", "log", "grid", "shuffled"][(rank + si) % 5], "zero": bool((rank + si) % 2),
                          "forms": forms, "const": p <= 1e6, "bw": p <= 4e6,
                          "amp": _RAW_AMPS[(rank + off) % 4] if d in _ARRAY_FORMS and (rank + si + off) % 4 < 2 else None,
                          "fscale": [1.0, 1e-3, 1e-5][(rank + off) % 3]})
    cases.sort(key=lambda c: -(c["nfft"] // 2 - 1) * c["m"])
    for i, c in enumerate(cases):
        if i % nshards == shard:
            yield c


@enum_clause(CLAUSES, "mid-range-products", _mid_products_enum,
             rule="products n_f x m of 1e5..3e7 (thorough 6e7), one per logarithmic bin (hash-placed) plus products just above the integer "
                  "literals of the source under test, in two splits: many Fourier frequencies (20 000..150 000; thorough 500 000) x few "
                  "targets (1..3 000) and few frequencies (20..12 000) x many targets (500..5 000; thorough 20 000); same records, bands "
                  "and target styles as `mid-range`. Quick tier: products <= 4e6 run the matrix form, the custom-matrix form and one "
                  "direct / object entry point (rotating over six spellings); products above 4e6 alternate down the ladder between "
                  "(matrix + custom-matrix) and (one direct / object entry point), opposite phase in the two splits (so every bin has "
                  "both, in different splits); thorough: everything everywhere",
             oracle="as `mid-range`: all targets and all matrix entries against the float64 per-target evaluation, a hash-chosen sample "
                    "against long double",
             exhaustive_note="all listed products", quick_shards=4)
def mid_range_products(case, ctx):
    _mid_eval(case, ctx)


# ---------------------------------------------------------------------------
# option crosses (moderate size)

_OPT_BANDS = ["omit", 40, 17, 62.5]


def _mid_options_enum(tier, shard, nshards):
    th = tier == "thorough"
    tg = "c07-T" if th else "c07-q"
    i = 0
    reps = 3 if th else 1
    for rep in range(reps):
        for acc in (False, True):
            for zero in (True, False):
                for deft in (False, True):
                    for band in _OPT_BANDS:
                        for sk in ("complex", "abs", "signed"):
                            if i % nshards == shard:
                                seed = _mid_seed(tg + ":opt", i)
                                nf = _hint(80, 500 if th else 200, tg, "opt-nf", i)
                                nfft = 2 * (nf + 1)
                                yield {"kind": "options", "seed": seed, "dt": _MID_DTS[seed % len(_MID_DTS)], "acc": acc, "zero": zero,
                                       "b": 40 if band == "omit" else band, "omit_band": band == "omit", "speckind": sk,
                                       "npts": _hint(nfft // 2 + 1, nfft, tg, "opt-npts", i), "nfft": nfft,
                                       "m": None if deft else _hint(20, 300 if th else 120, tg, "opt-m", i),
                                       "tstyle": ["log", "lin", "grid", "shuffled"][i % 4]}
                            i += 1


@enum_clause(CLAUSES, "mid-range-options", _mid_options_enum,
             rule="full cross of Signal / AccSignal x with / without the 0 Hz bin x explicit / default (None) targets x band {omitted, 40, "
                  "17, 62.5} x spectrum handed over as complex / magnitudes / magnitudes with random signs (96 cases; thorough three "
                  "repetitions with other sizes up to 500 x 300), 80..200 Fourier frequencies x 20..120 targets; in every case ALL entry points: "
                  "calc_smooth_fa_spectrum (keyword, positional), the deprecated alias, the matrix (keyword / positional) and the "
                  "custom-matrix form, the object through its constructor (smooth_fa_freqs=, smooth_freq_range=, both), both setters, "
                  "set_smooth_fa_frequecies_by_range, gen_smooth_fa_spectrum (positional / keyword, with / without frequencies) and "
                  "generate_smooth_fa_spectrum",
             oracle="as `mid-range` (float64 evaluation of all targets + long-double sample); the object's spectrum must be the weighted "
                    "mean at the frequencies the object reports",
             exhaustive_note="the full cross of the listed option values", quick_shards=4)
def mid_range_options(case, ctx):
    x, sig = _mid_signal(ctx, case)
    freqs, spec = _mid_fas(ctx, sig, case)
    fpos = freqs[1:]
    nf = len(fpos)
    deft = case["m"] is None
    targets = np.array(fpos) if deft else _mid_targets(fpos, case["m"], case["seed"], case["tstyle"])
    m = len(targets)
    b, omit, zero = case["b"], case["omit_band"], case["zero"]
    key = "%s:%s" % (gen.run_seed(), case["seed"])
    _mid_classes(ctx, case, nf, m)
    ctx.cls("band=omitted" if omit else "band=%r" % b, "targets=default" if deft else "targets=explicit", "spec=" + case["speckind"],
            "zero-bin" if zero else "no-zero-bin", "AccSignal" if case["acc"] else "Signal")
    rs = np.random.RandomState(case["seed"])
    if case["speckind"] == "complex":
        sv = spec
    elif case["speckind"] == "abs":
        sv = np.abs(spec)
    else:
        sv = np.abs(spec) * rs.choice([-1.0, 1.0], len(spec))
    f_in = freqs if zero else fpos
    s_in = sv if zero else sv[1:]
    t_in = None if deft else targets
    # matrix: keyword, positional, (omitted band)
    if omit:
        mat = ctx.lib(fq.calc_smoothing_matrix_konno_1998, f_in) if deft else ctx.lib(fq.calc_smoothing_matrix_konno_1998, f_in, t_in)
    else:
        mat = ctx.lib(fq.calc_smoothing_matrix_konno_1998, f_in, t_in, band=b)
    r = _mid_check_matrix(ctx, mat, freqs, spec, targets, b, key, "smoothing matrix")
    mat2 = ctx.lib(fq.calc_smoothing_matrix_konno_1998, f_in, t_in, b)
    ctx.close(np.asarray(mat2), np.asarray(mat), 4 * EPS * np.asarray(mat), "smoothing matrix: positional vs keyword arguments")
    via = ctx.lib(fq.calc_smooth_fa_spectrum_w_custom_matrix, sig, mat)
    _mid_check_smooth(ctx, via, r, "matrix form")
    # array level
    D = fq.calc_smooth_fa_spectrum
    A = fq.generate_smooth_fa_spectrum
    calls = [("calc_smooth_fa_spectrum(f, A, T, b)", lambda: D(f_in, s_in, t_in, b)),
             ("calc_smooth_fa_spectrum(f, A, smooth_fa_frequencies=T, band=b)", lambda: D(f_in, s_in, smooth_fa_frequencies=t_in, band=b)),
             ("calc_smooth_fa_spectrum(fa_frequencies=, fa_spectrum=, band=, smooth_fa_frequencies=)",
              lambda: D(band=b, smooth_fa_frequencies=t_in, fa_spectrum=s_in, fa_frequencies=f_in)),
             ("generate_smooth_fa_spectrum(T, f, A, band=b)", lambda: A(t_in, f_in, s_in, band=b)),
             ("generate_smooth_fa_spectrum(T, f, A, b)", lambda: A(t_in, f_in, s_in, b))]
    if deft:
        calls.append(("calc_smooth_fa_spectrum(f, A, band=b)", lambda: D(f_in, s_in, band=b)))
    if omit:
        calls.append(("calc_smooth_fa_spectrum(f, A, T)", lambda: D(f_in, s_in, t_in)))
        calls.append(("generate_smooth_fa_spectrum(T, f, A)", lambda: A(t_in, f_in, s_in)))
        if deft:
            calls.append(("calc_smooth_fa_spectrum(f, A)", lambda: D(f_in, s_in)))
    for what, fn in calls:
        _mid_check_smooth(ctx, ctx.lib(fn), r, what)
    # object level
    for form in ("O-ctor", "O-set", "O-gen"):
        got, o, pre = _mid_direct(ctx, form, dict(case, bw=True), x, sig, freqs, spec, targets, b, zero, deft)
        _mid_check_smooth(ctx, got, r, "Signal.smooth_fa_spectrum [%s, band %s]" % (form, "omitted" if omit else repr(b)))
        if pre is not None:
            _mid_bandwidth(ctx, o, key, pre)
    # gen_smooth_fa_spectrum(smooth_fa_freqs=T) with the band left at its default
    _, o = _mid_signal(ctx, case, x)
    ctx.lib(o.gen_smooth_fa_spectrum, smooth_fa_freqs=np.array(targets))
    r40 = r if b == 40 else _mid_reference(freqs, spec, targets, 40, key, ld_count=6)
    _mid_check_smooth(ctx, ctx.lib(lambda: o.smooth_fa_spectrum), r40, "Signal.smooth_fa_spectrum after gen_smooth_fa_spectrum(smooth_fa_freqs=T)")
    # constructor with a non-default range / with both / set_smooth_fa_frequecies_by_range
    lo = float(fpos[0] * 10.0 ** rs.uniform(-0.3, 1.0))
    hi_ = float(lo * 10.0 ** rs.uniform(0.3, 2.0))
    npts_r = int(rs.randint(2, 120))
    for how in ("range", "both", "by_range"):
        if how == "range":
            _, o = _mid_signal(ctx, case, x, smooth_freq_range=(lo, hi_))
            want_n = 50
        elif how == "both":
            _, o = _mid_signal(ctx, case, x, smooth_freq_range=(lo, hi_), smooth_fa_freqs=np.array(targets))
            want_n = None
        else:
            _, o = _mid_signal(ctx, case, x)
            ctx.lib(lambda: o.smooth_fa_spectrum)  # something cached at the default frequencies first
            ctx.lib(o.set_smooth_fa_frequecies_by_range, (lo, hi_), npts_r)
            want_n = npts_r
        band_now = 40
        if not omit:
            ctx.lib(o.gen_smooth_fa_spectrum, band=b)
            band_now = b
        fr = np.array(ctx.lib(lambda: o.smooth_fa_freqs), dtype=float)
        if want_n is not None:
            ctx.shape(fr, (want_n,), "smoothing frequencies set by range (%s)" % how)
            ctx.check(abs(fr[0] - lo) <= 1e-11 * lo and abs(fr[-1] - hi_) <= 1e-11 * hi_ and bool(np.all(np.diff(fr) > 0)),
                      "smoothing frequencies set by range (%s): not an ascending grid on [%r, %r]" % (how, lo, hi_))
        got = ctx.lib(lambda: o.smooth_fa_spectrum)
        if fr.shape == targets.shape and np.array_equal(fr, targets):
            rr = r if band_now == b else r40
        else:
            ctx.check(fr.ndim == 1 and len(fr) >= 1 and bool(np.all(fr > 0)) and bool(np.all(np.isfinite(fr))), "smooth_fa_freqs of the object (%s): %r" % (how, fr[:4]))
            rr = _mid_reference(freqs, spec, fr, band_now, key, ld_count=6)
        _mid_check_smooth(ctx, got, rr, "Signal.smooth_fa_spectrum [constructor / range: %s, band %s]" % (how, "omitted" if omit else repr(b)))


# ---------------------------------------------------------------------------
# histories at mid-range size


def _mid_history_enum(tier, shard, nshards):
    th = tier == "thorough"
    tg = "c07-T" if th else "c07-q"
    pairs = gen.product_pairs(1.5e5, 1.2e7 if th else 3e6, 12 if th else 5, (300, 60000), (8, 2500), tg + ":hist")
    for i, (nf, m) in enumerate(sorted(pairs, key=lambda p: -p[0] * p[1])):
        if i % nshards != shard:
            continue
        seed = _mid_seed(tg + ":hist", i)
        nfft = 2 * (int(nf) + 1)
        yield {"kind": "history", "seed": seed, "dt": _MID_DTS[seed % len(_MID_DTS)], "acc": bool((seed >> 3) % 2),
               "b": [20, 67.5, 5, 100, 31, 12.25][(seed >> 5) % 6], "npts": _hint(nfft // 2 + 1, nfft, tg, "hist-npts", i), "nfft": nfft,
               "m": int(m), "tstyle": ["log", "lin", "grid"][i % 3]}


@enum_clause(CLAUSES, "mid-range-history", _mid_history_enum,
             rule="one object at products n_f x m of 1.5e5..3e6 (thorough 1.2e7; n_f 300..60 000, m 8..2 500): read at targets T1 (band 40) "
                  "-> other targets of the same length -> read (same band) -> gen_smooth_fa_spectrum(band=b) -> read -> "
                  "gen_smooth_fa_spectrum(other targets of the same length, band=b) -> read -> generate_smooth_fa_spectrum(band=b) again "
                  "-> read -> targets of another length -> read (band back to 40) -> reset_values (another record of the same length; "
                  "the spectrum falls back to the default padding) -> read (same targets, same band) -> fresh object -> "
                  "set_smooth_fa_frequecies_by_range -> read -> smooth_freq_points = 3m/4 (deprecated setter) -> read -> bandwidth limits",
             oracle="every read against the float64 evaluation of all targets + a long-double sample, for the spectrum, targets and band "
                    "in force at that moment; history object vs fresh object",
             exhaustive_note="all listed products", quick_shards=4)
def mid_range_history(case, ctx):
    x, sig = _mid_signal(ctx, case)
    freqs, spec = _mid_fas(ctx, sig, case)
    fpos = freqs[1:]
    nf, m, b = len(fpos), case["m"], case["b"]
    key = "%s:%s" % (gen.run_seed(), case["seed"])
    _mid_classes(ctx, case, nf, m)
    step = [0]

    def read(o, fr, sp, tg, band, what):
        step[0] += 1
        got = ctx.lib(lambda: o.smooth_fa_spectrum)
        ctx.equal(np.asarray(ctx.lib(lambda: o.smooth_fa_freqs)), tg, "smooth_fa_freqs at step %d (%s)" % (step[0], what))
        r = _mid_reference(fr, sp, tg, band, key, ld_count=6)
        _mid_check_smooth(ctx, got, r, "Signal.smooth_fa_spectrum, step %d: %s (%d x %d)" % (step[0], what, len(fr) - 1, len(tg)))
        return np.array(got)

    t1 = _mid_targets(fpos, m, case["seed"], case["tstyle"])
    ctx.lib(setattr, sig, "smooth_fa_freqs", np.array(t1))
    read(sig, freqs, spec, t1, 40, "first read")
    t2 = _mid_targets(fpos, m, case["seed"] + 1, case["tstyle"])
    ctx.lib(setattr, sig, "smooth_fa_frequencies", np.array(t2))
    read(sig, freqs, spec, t2, 40, "after new targets of the same length (same band)")
    ctx.lib(sig.gen_smooth_fa_spectrum, band=b)
    read(sig, freqs, spec, t2, b, "after gen_smooth_fa_spectrum(band=%r)" % b)
    t3 = _mid_targets(fpos, m, case["seed"] + 2, case["tstyle"])
    ctx.lib(sig.gen_smooth_fa_spectrum, smooth_fa_freqs=np.array(t3), band=b)
    read(sig, freqs, spec, t3, b, "after gen_smooth_fa_spectrum(smooth_fa_freqs=<new targets of the same length>, band=%r)" % b)
    ctx.lib(sig.generate_smooth_fa_spectrum, band=b)
    read(sig, freqs, spec, t3, b, "after generate_smooth_fa_spectrum(band=%r) (repeated)" % b)
    t4 = _mid_targets(fpos, max(1, (2 * m) // 3), case["seed"] + 3, "log")
    ctx.lib(setattr, sig, "smooth_fa_freqs", np.array(t4))
    pre = _mid_bandwidth_cold(ctx, sig, key + ":t4")   # first access after the setter
    read(sig, freqs, spec, t4, 40, "after %d new targets" % len(t4))
    _mid_bandwidth(ctx, sig, key + ":t4", pre)
    x2 = _mid_record(case["npts"], case["seed"] + 7)
    ctx.lib(sig.reset_values, np.array(x2))
    f2 = np.array(ctx.lib(lambda: sig.fa_freqs), dtype=float)
    s2 = np.array(ctx.lib(lambda: sig.fa_spectrum))
    fresh = ctx.lib(type(sig), x2, case["dt"])
    ctx.equal(f2, np.asarray(fresh.fa_freqs), "Fourier frequencies after reset_values vs fresh object")
    ctx.equal(s2, np.asarray(fresh.fa_spectrum), "Fourier spectrum after reset_values vs fresh object")
    got_h = read(sig, f2, s2, t4, 40, "after reset_values (same targets, same band)")
    ctx.lib(setattr, fresh, "smooth_fa_freqs", np.array(t4))
    got_f = np.array(ctx.lib(lambda: fresh.smooth_fa_spectrum))
    ctx.close(got_h, got_f, 4 * refm.rel_for(len(f2)) * np.abs(got_f), "history object vs fresh object")
    lo, hi_ = float(f2[1] * 3.0), float(f2[-1] * 0.8)
    ctx.lib(sig.set_smooth_fa_frequecies_by_range, (lo, hi_), m)
    pre = _mid_bandwidth_cold(ctx, sig, key + ":t5")   # first access after set_smooth_fa_frequecies_by_range
    t5 = np.array(ctx.lib(lambda: sig.smooth_fa_freqs), dtype=float)
    ctx.check(t5.shape == (m,) and abs(t5[0] - lo) <= 1e-11 * lo and abs(t5[-1] - hi_) <= 1e-11 * hi_ and (m == 1 or bool(np.all(np.diff(t5) > 0))),
              "set_smooth_fa_frequecies_by_range: not %d ascending points on [%r, %r]" % (m, lo, hi_))
    read(sig, f2, s2, t5, 40, "after set_smooth_fa_frequecies_by_range")
    _mid_bandwidth(ctx, sig, key + ":t5", pre)
    m6 = max(2, (3 * m) // 4)
    ctx.lib(setattr, sig, "smooth_freq_points", m6)  # deprecated setter: m6 points on the range in force
    t6 = np.array(ctx.lib(lambda: sig.smooth_fa_freqs), dtype=float)
    ctx.check(t6.shape == (m6,) and abs(t6[0] - lo) <= 1e-11 * lo and abs(t6[-1] - hi_) <= 1e-11 * hi_ and bool(np.all(np.diff(t6) > 0)),
              "smooth_freq_points = %d: not %d ascending points on [%r, %r]" % (m6, m6, lo, hi_))
    read(sig, f2, s2, t6, 40, "after smooth_freq_points = %d" % m6)
    _mid_bandwidth(ctx, sig, key)
