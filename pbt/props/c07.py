"""C07 - Konno-Ohmachi smoothing is a normalised non-negative log-frequency window; bandwidth limits bracket the peak."""
import math

import numpy as np
from hypothesis import strategies as st

import eqsig
from eqsig import im
from eqsig.fns import frequency as fq

from pbt import gen
from pbt.core import clause, HarnessError
from pbt.ref import ko as ref

PROPERTY = "C07"
CLAUSES = []
ASSUMPTIONS = [
    "numpy.longdouble has a 64-bit mantissa (checked at import; otherwise exit 2); the long-double reference is validated at "
    "import against a scalar double loop written directly from the statement",
    "spectra: either the library's own FAS of a record (n 3..1024 plus optional zero runs, all record kinds, dt in [1e-4, 1], "
    "frequencies k/(N dt), up to 1023 non-zero bins; its correctness is C06, it is taken as given) or raw arrays on linear / "
    "geometric / irregular ascending grids of 1..300 positive frequencies in [1e-3, ~1e5] Hz, with or without a leading bin at "
    "exactly 0 Hz; at least one non-zero frequency (a record of 2 samples has none: the mean of an empty set is undefined); "
    "DESIGN planned n >= 8, n 3..7 (one or three non-zero bins) is inside the quantifier and kept as an edge class",
    "amplitudes: complex, real non-negative, or real with signs (amplitude = |A|); raw magnitudes are c*shape with c = 10^-6..10^6, "
    "values below 1e-12*c are flushed to exactly 0 (isolated spikes on a zero floor are a class of their own)",
    "target frequencies are positive and finite: exactly on the grid, 1-3 ulp / 1000 eps next to a grid frequency, inside the grid, "
    "and up to a factor ~1000 below the lowest / above the highest non-zero Fourier frequency; 1..60 targets (1..6 drawn one by one, "
    "7..60 expanded from a drawn seed), any order, repeats allowed",
    "frequencies, amplitudes and targets are handed to the array-level functions as ndarrays (every caller in the repo does; the "
    "functions index with [:, newaxis]); lists / tuples are used only where the object's setters coerce them",
    "tolerance on a smoothed amplitude S: 1e-12*S (covers summation of <= 1023 non-negative terms, (nf+64)*eps <= 2.5e-13) plus the "
    "conditioning bound of pbt/ref/ko.py (the window argument b*log10(f/fc) carries a rounding error of a few eps*(b+|x|); next to a "
    "zero of sin this is an unbounded *relative* error of a weight that is tiny in absolute terms)",
    "bandwidth clause: the spectrum is an AccSignal's smoothed spectrum (taken as given; clause `definition` checks it), target "
    "frequencies ascending (what logspace / any plotted spectrum supplies; 'ordered' and 'bracket' are statements about an ascending "
    "grid), smoothed peak > 0 (an identically zero spectrum has no bandwidth); strict threshold comparisons use the 1e-9 margin "
    "filter (DESIGN 2.4): a smoothed amplitude within 1e-9 (relative) of ratio*max is ambiguous and only bracket-checked",
    "bandwidth clause additionally asserts tightness (the amplitude at both limits exceeds ratio*max, up to the margin): without it "
    "'every frequency outside has amplitude <= ratio*max' is satisfied by the whole grid",
]
EPS = float(np.finfo(float).eps)
LD = np.longdouble
MARGIN = 1e-9
REL = 1e-12

if not ref.longdouble_ok():
    raise HarnessError("numpy.longdouble is not extended precision on this platform: C07 reference unavailable")


def _validate_reference():
    """Oracle guard: vectorised long-double reference == scalar double loop from the statement, on fixed inputs."""
    freqs = [0.0, 0.5, 1.0, 1.5, 2.0, 2.5, 3.0, 7.0]
    amps = [9.0, 1.0, 4.0, 0.0, 2.5, 1.0, 0.125, 3.0]
    targets = [0.01, 0.5, 0.9, 1.0, 2.0000000000000004, 3.0, 6.0, 1000.0]
    for b in (5, 40.0, 100):
        s, cond = ref.smooth(np.array(freqs), np.array(amps), targets, b)
        loop = ref.smooth_scalar_loop(freqs, amps, targets, b)
        for j in range(len(targets)):
            if not abs(float(s[j]) - loop[j]) <= 1e-12 * loop[j] + cond[j]:
                raise HarnessError("KO reference disagrees with the scalar loop: b=%r fc=%r %r vs %r" % (b, targets[j], float(s[j]), loop[j]))
        w, tolw, cs = ref.matrix(np.array(freqs), targets, b)
        if not (np.all(w >= 0) and np.max(np.abs(np.sum(w, axis=0) - 1)) < 1e-15 and abs(float(w[1, 3] * cs[3]) - 1) < 1e-15):
            raise HarnessError("KO reference matrix is not a normalised non-negative window")
    # hand value: two frequencies one decade apart, target on the lower one, b = 5: weights 1 and (sin 5 / 5)^4
    w2 = (math.sin(5.0) / 5.0) ** 4
    s, _ = ref.smooth(np.array([1.0, 10.0]), np.array([2.0, 6.0]), [1.0], 5)
    if not abs(float(s[0]) - (2.0 + 6.0 * w2) / (1.0 + w2)) < 1e-14:
        raise HarnessError("KO reference fails its hand-computed value")


_validate_reference()


# ---------------------------------------------------------------------------
# generators (plain JSON cases)

_unit = st.floats(0.0, 1.0, allow_nan=False)
_TARGET_KINDS = ["grid", "grid", "grid", "near", "in", "in", "below", "above"]
_NEAR = [-3, -2, -1, 1, 2, 3, -1000, 1000]


_target = st.tuples(st.sampled_from(_TARGET_KINDS), st.integers(0, 2000), _unit).map(list)
_MODES = ["mixed", "mixed", "mixed", "grid-only", "free-only"]


@st.composite
def _targets(draw, max_size=60):
    """[mode, items]: a case-level mode (all targets on the grid / none on purpose / mixed) and target recipes [kind, i, u]
    (see _resolve); up to 6 recipes are drawn one by one (shrinkable), longer sets are {"n", "seed"} expanded by _expand."""
    mode = draw(st.sampled_from(_MODES))
    if draw(st.booleans()):
        n = draw(st.integers(1, 6))
        return [mode, draw(st.lists(_target, min_size=n, max_size=n))]
    return [mode, {"n": draw(st.integers(7, max_size)), "seed": draw(st.integers(0, 2 ** 31 - 1))}]


def _expand(items):
    if not isinstance(items, dict):
        return items
    rs = np.random.RandomState(items["seed"])
    n = int(items["n"])
    kinds = rs.randint(0, len(_TARGET_KINDS), n)
    idx = rs.randint(0, 2001, n)
    u = rs.uniform(size=n)
    return [[_TARGET_KINDS[int(kinds[j])], int(idx[j]), float(u[j])] for j in range(n)]


def _bands():
    return st.one_of(st.sampled_from([5, 40, 100, 5.0, 40.0, 100.0]), st.integers(5, 100), st.floats(5.0, 100.0, allow_nan=False))


@st.composite
def _raw_source(draw, max_nf=300):
    gk = draw(st.sampled_from(["lin", "lin", "log", "log", "irr"]))
    nf = draw(st.one_of(st.integers(1, 8), st.integers(1, 64), st.integers(1, max_nf)))
    grid = {"k": gk, "nf": nf}
    if gk == "lin":
        grid["df"] = draw(gen.log_uniform(1e-3, 10.0))
    elif gk == "log":
        grid["f0"] = draw(gen.log_uniform(1e-3, 1.0))
        grid["r"] = 1.0 + draw(gen.log_uniform(1e-3, 1.0))
        # keep the top of the grid below ~1e5 Hz
        grid["nf"] = nf = max(1, min(nf, int(math.log(1e5 / grid["f0"]) / math.log(grid["r"]))))
    else:
        grid["f0"] = draw(gen.log_uniform(1e-3, 1.0))
        grid["span"] = draw(st.floats(0.5, 5.0, allow_nan=False))  # decades
        grid["seed"] = draw(st.integers(0, 2 ** 31 - 1))
    ak = draw(st.sampled_from(["sparse", "sparse", "sparse", "const", "power", "noise", "bump", "vals"]))
    amp = {"k": ak, "e": draw(st.integers(-6, 6))}
    if ak == "power":
        amp["p"] = draw(st.floats(-1.5, 2.0, allow_nan=False))
    elif ak == "noise":
        amp["sigma"] = draw(st.floats(0.1, 3.0, allow_nan=False))
        amp["seed"] = draw(st.integers(0, 2 ** 31 - 1))
    elif ak == "bump":
        amp["at"] = draw(_unit)
        amp["w"] = draw(st.floats(0.02, 1.0, allow_nan=False))
        amp["floor"] = draw(st.sampled_from([0.0, 1e-3, 0.1]))
    elif ak == "sparse":
        amp["spikes"] = draw(st.lists(st.tuples(st.integers(0, 2000), st.floats(0.01, 1.0, allow_nan=False)).map(list),
                                      min_size=1, max_size=3))
    elif ak == "vals":
        amp["v"] = draw(st.lists(st.floats(0.0, 1e3, allow_nan=False, allow_subnormal=False).map(
            lambda x: 0.0 if x < 1e-6 else x), min_size=1, max_size=24))
    return {"t": "raw", "grid": grid, "zero": draw(st.booleans()), "amp": amp,
            "phase": draw(st.sampled_from(["complex", "complex", "real", "signed"])),
            "pseed": draw(st.integers(0, 2 ** 31 - 1)), "dc": draw(st.sampled_from([0.0, 1.0, 1e6]))}


@st.composite
def _rec_source(draw, max_n=1024, nonzero=False):
    kinds = ["vals", "dyadic", "noise", "sines", "pulse", "step", "walk", "quake", "levels"] + ([] if nonzero else ["const"])
    spec = draw(gen.record_specs(min_n=3, max_n=max_n, kinds=kinds))
    return {"t": "rec", "rec": spec, "dt": draw(gen.dts(1e-4, 1.0)), "acc": draw(st.booleans())}


@st.composite
def _sources(draw, rec_of_4=2):
    """rec_of_4 of four spectra are the library's FAS of a record, the others raw arrays."""
    if draw(st.integers(0, 3)) < rec_of_4:
        return draw(_rec_source())
    return draw(_raw_source())


def _grid(g):
    nf = int(g["nf"])
    if g["k"] == "lin":
        return np.arange(1, nf + 1, dtype=float) * g["df"]
    if g["k"] == "log":
        return g["f0"] * g["r"] ** np.arange(nf, dtype=float)
    rs = np.random.RandomState(g["seed"])
    f = g["f0"] * 10.0 ** np.sort(rs.uniform(0.0, g["span"], nf))
    f = np.unique(f)
    return f


def _amplitudes(amp, f):
    nf = len(f)
    k = amp["k"]
    c = 10.0 ** amp.get("e", 0)
    if k == "const":
        a = np.ones(nf)
    elif k == "power":
        a = (f / f[0]) ** (-amp["p"])
    elif k == "noise":
        a = np.exp(amp["sigma"] * np.random.RandomState(amp["seed"]).standard_normal(nf))
    elif k == "bump":
        lf = np.log10(f)
        mid = lf[0] + amp["at"] * (lf[-1] - lf[0])
        a = amp["floor"] + np.exp(-((lf - mid) / amp["w"]) ** 2)
    elif k == "sparse":
        a = np.zeros(nf)
        for i, h in amp["spikes"]:
            a[int(i) % nf] = h
    elif k == "vals":
        v = np.array(amp["v"], dtype=float)
        a = np.resize(v, nf)
    else:
        raise ValueError(k)
    a = a * c
    return np.where(a < 1e-12 * c, 0.0, a)  # flush: magnitudes stay in the normal range when multiplied by tiny weights


class _Src(object):
    """A built spectrum: freqs (with the zero bin if present), spec (complex or real), fpos/apos without it."""


def _build(src, ctx=None):
    s = _Src()
    s.asig = None
    if src["t"] == "rec":
        a = gen.build(src["rec"])
        s.values = a
        s.dt = src["dt"]
        cls = eqsig.AccSignal if src.get("acc", True) else eqsig.Signal
        s.make = lambda **kw: cls(a, src["dt"], **kw)
        s.asig = s.make() if ctx is None else ctx.lib(s.make)
        s.freqs = np.array(s.asig.fa_frequencies, dtype=float)
        s.spec = np.array(s.asig.fa_spectrum)
        s.label = "src=record"
    else:
        f = _grid(src["grid"])
        amp = _amplitudes(src["amp"], f)
        dc = src["dc"] * (np.max(amp) if np.max(amp) > 0 else 1.0)
        if src["zero"]:
            f = np.concatenate([[0.0], f])
            amp = np.concatenate([[dc], amp])
        rs = np.random.RandomState(src["pseed"])
        if src["phase"] == "complex":
            spec = amp * np.exp(1j * rs.uniform(0, 2 * math.pi, len(amp)))
        elif src["phase"] == "signed":
            spec = amp * rs.choice([-1.0, 1.0], len(amp))
        else:
            spec = amp
        s.freqs = f
        s.spec = spec
        s.label = "src=raw-" + src["grid"]["k"]
    s.fpos, s.apos = ref.drop_zero_bin(s.freqs, np.abs(s.spec))
    s.has_zero = bool(len(s.freqs) and s.freqs[0] == 0)
    return s


def _resolve(tspec, fpos):
    """[mode, [[kind, i, u], ...]] -> target frequencies relative to the positive Fourier frequencies `fpos`:
    grid: fpos[i % nf]; near: 1-3 ulp or 1000 eps beside it; in: log-interpolated at u between the ends;
    below / above: a factor 1.0001 * 1000^u beyond the lowest / highest frequency."""
    mode, items = tspec
    items = _expand(items)
    nf = len(fpos)
    lo, hi = float(fpos[0]), float(fpos[-1])
    out = []
    for k, i, u in items:
        if mode == "grid-only":
            k = "grid"
        elif mode == "free-only" and k == "grid":
            k = "in"
        if k == "grid":
            v = float(fpos[int(i) % nf])
        elif k == "near":
            v = float(fpos[int(i) % nf])
            step = _NEAR[int(u * 7.999)]
            if abs(step) <= 3:
                for _ in range(abs(step)):
                    v = float(np.nextafter(v, math.inf if step > 0 else 0.0))
            else:
                v = v * (1.0 + step * EPS)
        elif k == "in":
            v = lo * (hi / lo) ** float(u) if hi > lo else lo
        elif k == "below":
            v = lo / (1.0001 * 1000.0 ** float(u))
        elif k == "above":
            v = hi * (1.0001 * 1000.0 ** float(u))
        else:
            raise ValueError(k)
        out.append(v)
    return np.array(out, dtype=float)


def _classify(ctx, case, s, targets, b=None):
    nf = len(s.fpos)
    ctx.cls(s.label, "zero-bin" if s.has_zero else "no-zero-bin",
            "nf=1" if nf == 1 else ("nf<=8" if nf <= 8 else ("nf<=64" if nf <= 64 else "nf>64")))
    ctx.cls("complex" if np.iscomplexobj(s.spec) else ("real-signed" if np.any(np.asarray(s.spec) < 0) else "real"))
    if case["src"]["t"] == "raw":
        ctx.cls("amp=" + case["src"]["amp"]["k"])
    else:
        ctx.cls("kind=" + case["src"]["rec"]["k"])
    if b is not None:
        ctx.cls("b-int" if isinstance(b, int) else "b-float")
        if b == 5 or b == 100:
            ctx.cls("b-end")
        if b == 40:
            ctx.cls("b=40")
    on = np.isin(targets, s.fpos)
    below = targets < s.fpos[0]
    above = targets > s.fpos[-1]
    if np.any(on):
        ctx.cls("on-grid")
    if np.any(below):
        ctx.cls("below-grid")
    if np.any(above):
        ctx.cls("above-grid")
    if np.any(~on & ~below & ~above):
        ctx.cls("between-grid")
    near = np.array([bool(np.any((t != s.fpos) & (np.abs(t - s.fpos) <= 2000 * EPS * t))) for t in targets])
    if np.any(near):
        ctx.cls("near-grid")
    if len(targets) == 1:
        ctx.cls("m=1")
    return bool(np.any(on)), bool(np.any(below | above))


def _tol(s_ref, cond):
    return REL * np.asarray(s_ref, dtype=float) + cond


def _check_smooth(ctx, got, s_ref, cond, what):
    got = np.asarray(got)
    ctx.check(not np.iscomplexobj(got), "%s: complex result" % what)
    ctx.shape(got, (len(s_ref),), what)
    ctx.finite(got, what)
    ctx.close(got, s_ref, _tol(s_ref, cond), what + " vs reference weighted mean")


# ---------------------------------------------------------------------------
# clause 1: definition


@st.composite
def _def_cases(draw):
    case = {"src": draw(_sources()), "targets": draw(_targets()), "b": draw(_bands()),
            "setter": draw(st.sampled_from(["freqs", "frequencies", "ctor", "gen"])),
            "container": draw(st.sampled_from(["ndarray", "list", "tuple"])),
            "default_targets": draw(st.integers(0, 3)) == 0}
    return case


@clause(CLAUSES, "definition", _def_cases(), quick=500, thorough=3000,
        rule="spectrum = library FAS of a record (n 3..1024, all kinds) or raw complex / real / signed amplitudes (const, power law, "
             "log-normal noise, bump, 1-3 isolated spikes, drawn values) on a linear / geometric / irregular grid of 1..300 frequencies, "
             "with or without a 0 Hz bin; b in {5,40,100} or U[5,100], int or float; 1..60 targets: grid frequencies, 1-3 ulp / 1000 eps "
             "beside one, log-interpolated inside, up to 1000x below / above the grid; non-trivial = >= 1 target exactly on the grid "
             "and >= 1 outside it",
        oracle="reference model: per-target long-double evaluation of the statement's window (validated against a scalar double loop), "
               "tolerance 1e-12*S + conditioning bound; same reference for calc_smooth_fa_spectrum (with / without the 0 Hz bin, "
               "default targets, default band), the deprecated alias, Signal.smooth_fa_spectrum after each setter, "
               "gen_/generate_smooth_fa_spectrum(band=)",
        require={"on-grid": 0.4, "below-grid": 0.2, "above-grid": 0.2, "no-zero-bin": 0.15, "zero-bin": 0.4, "complex": 0.4,
                 "src=record": 0.25, "amp=sparse": 0.05, "near-grid": 0.15, "b-end": 0.1},
        min_nontrivial=0.2)
def definition(case, ctx):
    s = _build(case["src"], ctx)
    b = case["b"]
    targets = _resolve(case["targets"], s.fpos)
    on, out = _classify(ctx, case, s, targets, b)
    ctx.nt(on and out)
    s_ref, cond = ref.smooth(s.freqs, s.spec, targets, b)
    spec_before = np.array(s.spec)
    freqs_before = np.array(s.freqs)
    got = ctx.lib(fq.calc_smooth_fa_spectrum, s.freqs, s.spec, targets, band=b)
    _check_smooth(ctx, got, s_ref, cond, "calc_smooth_fa_spectrum")
    ctx.equal(s.spec, spec_before, "amplitude input mutated")
    ctx.equal(s.freqs, freqs_before, "frequency input mutated")
    # positional band, deprecated alias (different argument order)
    got = ctx.lib(fq.calc_smooth_fa_spectrum, s.freqs, s.spec, targets, b)
    _check_smooth(ctx, got, s_ref, cond, "calc_smooth_fa_spectrum (positional band)")
    got = ctx.lib(fq.generate_smooth_fa_spectrum, targets, s.freqs, s.spec, band=b)
    _check_smooth(ctx, got, s_ref, cond, "generate_smooth_fa_spectrum (deprecated alias)")
    if b == 40:
        got = ctx.lib(fq.calc_smooth_fa_spectrum, s.freqs, s.spec, targets)
        _check_smooth(ctx, got, s_ref, cond, "calc_smooth_fa_spectrum (default band)")
        got = ctx.lib(fq.generate_smooth_fa_spectrum, targets, s.freqs, s.spec)
        _check_smooth(ctx, got, s_ref, cond, "generate_smooth_fa_spectrum (default band)")
    # the zero-frequency bin takes no part: drop it / add one with a large amplitude
    if s.has_zero:
        got = ctx.lib(fq.calc_smooth_fa_spectrum, s.freqs[1:], s.spec[1:], targets, band=b)
        _check_smooth(ctx, got, s_ref, cond, "calc_smooth_fa_spectrum without the 0 Hz bin")
    else:
        f0 = np.concatenate([[0.0], s.freqs])
        a0 = np.concatenate([[1e3 * (np.max(s.apos) + 1.0)], s.spec])
        got = ctx.lib(fq.calc_smooth_fa_spectrum, f0, a0, targets, band=b)
        _check_smooth(ctx, got, s_ref, cond, "calc_smooth_fa_spectrum with a 0 Hz bin prepended")
    # amplitude = |A|: the magnitudes alone give the same answer
    if np.iscomplexobj(s.spec) or np.any(np.asarray(s.spec) < 0):
        got = ctx.lib(fq.calc_smooth_fa_spectrum, s.freqs, np.abs(s.spec), targets, band=b)
        _check_smooth(ctx, got, s_ref, cond, "calc_smooth_fa_spectrum on |A|")
    # default targets = the non-zero Fourier frequencies themselves
    if case.get("default_targets") and len(s.fpos) <= 160:
        ctx.cls("default-targets")
        d_ref, d_cond = ref.smooth(s.freqs, s.spec, s.fpos, b)
        got = ctx.lib(fq.calc_smooth_fa_spectrum, s.freqs, s.spec, band=b)
        _check_smooth(ctx, got, d_ref, d_cond, "calc_smooth_fa_spectrum (default targets)")
    if s.asig is None:
        return
    # object level
    asig = s.asig
    # other signals are alive in the same process: a companion with the same record length and time step but different
    # smoothing frequencies (as many as the default grid, resp. as many as the drawn targets) is smoothed first
    for nf, lo, hi in ((50, 0.37, 11.0), (len(targets), 0.21, 17.0)):
        comp = s.make(smooth_fa_freqs=np.logspace(np.log10(lo), np.log10(hi), max(1, nf)))
        try:
            _ = comp.smooth_fa_spectrum
            comp.gen_smooth_fa_spectrum(band=b)
        except Exception:  # noqa  (the companion only provides process state; its own results are not asserted here)
            pass
    how = case.get("container", "ndarray")
    arg = targets if how == "ndarray" else (list(map(float, targets)) if how == "list" else tuple(map(float, targets)))
    f_def = np.array(ctx.lib(lambda: asig.smooth_fa_freqs), dtype=float)
    ctx.check(f_def.shape == (50,) and abs(f_def[0] - 0.1) <= 1e-12 and abs(f_def[-1] - 30) <= 3e-11 and np.all(np.diff(f_def) > 0),
              "default smoothing frequencies are not 50 ascending points on [0.1, 30]")
    d_ref, d_cond = ref.smooth(s.freqs, s.spec, f_def, 40)
    got = ctx.lib(lambda: asig.smooth_fa_spectrum)
    _check_smooth(ctx, got, d_ref, d_cond, "Signal.smooth_fa_spectrum (default frequencies)")
    setter = case.get("setter", "freqs")
    ctx.cls("setter=" + setter)
    band_now = 40
    if setter == "freqs":
        ctx.lib(setattr, asig, "smooth_fa_freqs", arg)
    elif setter == "frequencies":
        ctx.lib(setattr, asig, "smooth_fa_frequencies", arg)
    elif setter == "ctor":
        asig = ctx.lib(s.make, smooth_fa_freqs=arg)
    else:
        ctx.lib(asig.gen_smooth_fa_spectrum, smooth_fa_freqs=targets, band=b)
        band_now = b
    ctx.equal(np.asarray(asig.smooth_fa_freqs), targets, "smooth_fa_freqs after setter %r" % setter)
    ctx.equal(np.asarray(asig.smooth_fa_frequencies), targets, "smooth_fa_frequencies after setter %r" % setter)
    r_ref, r_cond = (s_ref, cond) if band_now == b else ref.smooth(s.freqs, s.spec, targets, band_now)
    got = ctx.lib(lambda: asig.smooth_fa_spectrum)
    _check_smooth(ctx, got, r_ref, r_cond, "Signal.smooth_fa_spectrum after setter %r" % setter)
    ctx.lib(asig.gen_smooth_fa_spectrum, band=b)
    got = ctx.lib(lambda: asig.smooth_fa_spectrum)
    _check_smooth(ctx, got, s_ref, cond, "Signal.smooth_fa_spectrum after gen_smooth_fa_spectrum(band=%r)" % b)
    ctx.lib(asig.generate_smooth_fa_spectrum, band=40)
    ctx.lib(asig.generate_smooth_fa_spectrum, band=b)
    got = ctx.lib(lambda: asig.smooth_fa_spectrum)
    _check_smooth(ctx, got, s_ref, cond, "Signal.smooth_fa_spectrum after generate_smooth_fa_spectrum(band=%r)" % b)
    ctx.equal(np.asarray(asig.fa_spectrum), spec_before, "fa_spectrum changed by smoothing")
    ctx.equal(np.asarray(asig.values), s.values, "record changed by smoothing")


# ---------------------------------------------------------------------------
# clause 2: weights / matrix form


@st.composite
def _w_cases(draw):
    return {"src": draw(_sources(rec_of_4=3)), "targets": draw(_targets(max_size=40)), "b": draw(_bands()),
            "default_targets": draw(st.integers(0, 4)) == 0}


@clause(CLAUSES, "weights", _w_cases(), quick=500, thorough=3000,
        rule="same spectra, targets (1..40) and b as `definition`, three of four spectra from records; non-trivial = >= 1 target exactly "
             "on the grid and >= 1 outside it",
        oracle="reference model for calc_smoothing_matrix_konno_1998: shape, entries >= 0, columns sum to 1 (1e-12), every entry = "
               "w_ij/sum_i w_ij (1e-12 relative + conditioning bound), entry where f == fc = 1/(column sum of raw weights) and is the "
               "column maximum; with / without the 0 Hz bin and default targets; differential: "
               "calc_smooth_fa_spectrum_w_custom_matrix == calc_smooth_fa_spectrum (1e-12 relative) and == reference",
        require={"on-grid": 0.4, "below-grid": 0.2, "above-grid": 0.2, "src=record": 0.4, "matrix-vs-direct": 0.4, "no-zero-bin": 0.05},
        min_nontrivial=0.2)
def weights(case, ctx):
    s = _build(case["src"], ctx)
    b = case["b"]
    targets = _resolve(case["targets"], s.fpos)
    on, out = _classify(ctx, case, s, targets, b)
    ctx.nt(on and out)
    nf, m = len(s.fpos), len(targets)
    w_ref, w_tol, colsum = ref.matrix(s.freqs, targets, b)
    w_f = np.asarray(w_ref, dtype=float)

    def check_matrix(mat, what, wr=w_ref, wt=w_tol, shape=(nf, m)):
        mat = np.asarray(mat)
        ctx.shape(mat, shape, what)
        ctx.finite(mat, what)
        ctx.check(bool(np.all(mat >= 0)), "%s: negative weight %r" % (what, float(np.min(mat))))
        ctx.close(np.sum(mat.astype(LD), axis=0), np.ones(shape[1], dtype=LD), REL, "%s: column sums" % what)
        ctx.close(mat, wr, REL * np.asarray(wr, dtype=float) + wt, "%s: entries vs w_ij / sum_i w_ij" % what)

    mat = ctx.lib(fq.calc_smoothing_matrix_konno_1998, s.freqs, targets, band=b)
    check_matrix(mat, "smoothing matrix")
    mat = np.asarray(mat)
    # weight 1 where f == fc: the normalised entry is 1/(raw column sum) and no entry of the column exceeds it
    for j in range(m):
        hit = np.flatnonzero(s.fpos == targets[j])
        if len(hit):
            i = int(hit[0])
            expect = LD(1) / colsum[j]
            ctx.close(mat[i, j], expect, REL * float(expect) + w_tol[i, j], "entry at f == fc (column %d)" % j)
            ctx.check(bool(np.all(mat[:, j] <= mat[i, j] * (1 + 16 * EPS))), "column %d: an entry exceeds the weight at f == fc" % j)
    # positional / default band
    mat2 = ctx.lib(fq.calc_smoothing_matrix_konno_1998, s.freqs, targets, b)
    check_matrix(mat2, "smoothing matrix (positional band)")
    if b == 40:
        mat2 = ctx.lib(fq.calc_smoothing_matrix_konno_1998, s.freqs, targets)
        check_matrix(mat2, "smoothing matrix (default band)")
    # zero-frequency bin: dropped, takes no part
    other = s.freqs[1:] if s.has_zero else np.concatenate([[0.0], s.freqs])
    mat2 = ctx.lib(fq.calc_smoothing_matrix_konno_1998, other, targets, band=b)
    check_matrix(mat2, "smoothing matrix %s the 0 Hz bin" % ("without" if s.has_zero else "with"))
    if case.get("default_targets") and nf <= 120:
        ctx.cls("default-targets")
        d_ref, d_tol, _ = ref.matrix(s.freqs, s.fpos, b)
        mat2 = ctx.lib(fq.calc_smoothing_matrix_konno_1998, s.freqs, band=b)
        check_matrix(mat2, "smoothing matrix (default targets)", d_ref, d_tol, (nf, nf))
    # matrix form == direct form
    if s.asig is not None:
        ctx.cls("matrix-vs-direct")
        s_ref, cond = ref.smooth(s.freqs, s.spec, targets, b)
        via = ctx.lib(fq.calc_smooth_fa_spectrum_w_custom_matrix, s.asig, mat)
        direct = ctx.lib(fq.calc_smooth_fa_spectrum, s.asig.fa_frequencies, s.asig.fa_spectrum, targets, band=b)
        _check_smooth(ctx, via, s_ref, cond, "matrix form")
        ctx.close(via, direct, REL * np.asarray(s_ref, dtype=float), "matrix form vs direct form")
        # a matrix is a matrix: the reference weights through the same entry point
        via2 = ctx.lib(fq.calc_smooth_fa_spectrum_w_custom_matrix, s.asig, w_f)
        _check_smooth(ctx, via2, s_ref, cond, "matrix form with reference weights")


# ---------------------------------------------------------------------------
# clause 3: consequences


@st.composite
def _c_cases(draw):
    return {"src": draw(_sources()), "targets": draw(_targets()), "b": draw(_bands()),
            "k2": draw(st.integers(-20, 20)), "alpha": draw(gen.scalars(1e-3, 1e3)),
            "c": draw(gen.log_uniform(1e-6, 1e6)), "seed": draw(st.integers(0, 2 ** 31 - 1)),
            "rot": draw(st.floats(0.0, 6.25, allow_nan=False))}


@clause(CLAUSES, "consequences", _c_cases(), quick=500, thorough=3000,
        rule="same spectra, targets and b as `definition` plus a power-of-two factor 2^k (|k| <= 20), a general factor alpha, a constant "
             "level c, a second non-negative spectrum (seeded) and a phase rotation; non-trivial = >= 1 target exactly on the grid, "
             ">= 1 outside it and the non-zero-frequency amplitudes are not all equal",
        oracle="metamorphic / reference: min|A| <= S <= max|A| over the non-zero-frequency bins (1e-12 relative slack; the 0 Hz amplitude "
               "lies outside that range), constant spectrum -> c (1e-12), 2^k scaling exact (==), alpha scaling and phase rotation 1e-12 "
               "relative, additivity and monotonicity in |A| (1e-12), finite for every target",
        require={"on-grid": 0.4, "below-grid": 0.2, "above-grid": 0.2, "zero-bin": 0.4},
        min_nontrivial=0.15)
def consequences(case, ctx):
    s = _build(case["src"], ctx)
    b = case["b"]
    targets = _resolve(case["targets"], s.fpos)
    on, out = _classify(ctx, case, s, targets, b)
    lo, hi = float(np.min(s.apos)), float(np.max(s.apos))
    ctx.nt(on and out and hi > lo)
    if hi == lo:
        ctx.cls("flat")
    m = len(targets)
    f = fq.calc_smooth_fa_spectrum
    # (1) between the extreme amplitudes; a 0 Hz amplitude outside the range must not pull the mean
    freqs, spec = s.freqs, np.array(s.spec)
    if s.has_zero:
        spec[0] = (hi + 1.0) * 1e3 if case["seed"] % 2 else 0.0
    base = np.asarray(ctx.lib(f, freqs, spec, targets, band=b))
    ctx.shape(base, (m,), "smoothed spectrum")
    ctx.finite(base, "smoothed spectrum")
    ctx.check(bool(np.all(base >= lo * (1 - REL)) and np.all(base <= hi * (1 + REL))),
              "smoothed amplitude outside [min|A|, max|A|] = [%r, %r]: min %r max %r" % (lo, hi, float(np.min(base)), float(np.max(base))))
    # (2) constant spectrum reproduced (any phases)
    c = case["c"]
    rs = np.random.RandomState(case["seed"])
    ph = np.exp(1j * rs.uniform(0, 2 * math.pi, len(freqs)))
    const = c * ph if np.iscomplexobj(s.spec) else c * np.ones(len(freqs))
    if s.has_zero:
        const[0] = 0.0
    got = np.asarray(ctx.lib(f, freqs, const, targets, band=b))
    ctx.close(got, np.full(m, c), 2 * REL * c, "constant spectrum not reproduced")
    # (3) homogeneity
    k = case["k2"]
    a1 = np.abs(spec)
    s1 = np.asarray(ctx.lib(f, freqs, a1, targets, band=b))
    got = np.asarray(ctx.lib(f, freqs, a1 * 2.0 ** k, targets, band=b))
    ctx.equal(got, s1 * 2.0 ** k, "scaling the (real, non-negative) spectrum by 2^%d" % k)  # products and sums scale exactly
    got = np.asarray(ctx.lib(f, freqs, spec * 2.0 ** k, targets, band=b))
    ctx.close(got, base * 2.0 ** k, 4 * REL * base * 2.0 ** k, "scaling the spectrum by 2^%d" % k)
    al = case["alpha"]
    got = np.asarray(ctx.lib(f, freqs, spec * al, targets, band=b))
    ctx.close(got, abs(al) * base, 4 * REL * abs(al) * base, "scaling the spectrum by %r" % al)
    rot = complex(math.cos(case["rot"]), math.sin(case["rot"]))
    got = np.asarray(ctx.lib(f, freqs, spec * rot, targets, band=b))
    ctx.close(got, base, 4 * REL * base, "rotating the phase of the spectrum")
    # (4) linear in |A|: additivity and monotonicity for non-negative spectra
    a2 = np.abs(rs.standard_normal(len(freqs))) * (hi if hi > 0 else 1.0) * 10.0 ** rs.randint(-2, 3)
    if case["seed"] % 3 == 0:
        a2 = np.where(rs.uniform(size=len(freqs)) < 0.7, 0.0, a2)
    s2 = np.asarray(ctx.lib(f, freqs, a2, targets, band=b))
    s12 = np.asarray(ctx.lib(f, freqs, a1 + a2, targets, band=b))
    ctx.close(s12, s1 + s2, 4 * REL * (s1 + s2), "additivity in |A|")
    ctx.check(bool(np.all(s12 >= s1 * (1 - 4 * REL))), "monotonicity: adding a non-negative spectrum lowered a smoothed amplitude")
    ctx.close(s1, base, 4 * REL * base, "|A| as input vs A as input")


# ---------------------------------------------------------------------------
# clause 4: bandwidth limits

_RATIOS = [0.707, 0.707, 0.5, 0.25, 0.125, 0.9, 0.999999, 0.01]
_BIG = [15, 15, 15.0, 2, 4.0, 1.000001, 100, 1000.0]


@st.composite
def _bw_cases(draw):
    mode = draw(st.sampled_from(["default", "default", "targets", "targets", "range"]))
    case = {"src": draw(_rec_source(nonzero=True)), "mode": mode,
            "ratio": draw(st.one_of(st.sampled_from(_RATIOS), st.floats(0.001, 0.999, allow_nan=False))),
            "big": draw(st.one_of(st.sampled_from(_BIG), gen.log_uniform(1.001, 1e3))),
            "b": draw(st.sampled_from([40, 40, 5, 100, 17.5]))}
    if mode == "targets":
        case["targets"] = draw(_targets())
    elif mode == "range":
        case["lo"] = draw(gen.log_uniform(1e-3, 10.0))
        case["hi"] = case["lo"] * draw(gen.log_uniform(1.5, 1e4))
        case["npts"] = draw(st.integers(2, 80))
        case["how"] = draw(st.sampled_from(["by_range", "by_range", "deprecated"]))
    return case


def _limits(sm, freqs, lim):
    """First / last frequency whose smoothed amplitude is strictly above lim, with the margin filter.
    returns (ambiguous, (imin_lo, imin_hi), (imax_lo, imax_hi)): index brackets of the lower and the upper limit."""
    strict = np.flatnonzero(sm > lim * (1 + MARGIN))
    loose = np.flatnonzero(sm > lim * (1 - MARGIN))
    if len(loose) == 0:
        return None
    amb = len(strict) != len(loose)
    if len(strict) == 0:
        return True, (int(loose[0]), int(loose[-1])), (int(loose[0]), int(loose[-1]))
    return amb, (int(loose[0]), int(strict[0])), (int(strict[-1]), int(loose[-1]))


@clause(CLAUSES, "bandwidth", _bw_cases(), quick=500, thorough=3000,
        rule="AccSignal / Signal of a non-constant record (n 3..1024), smoothing frequencies = default 0.1-30 Hz, an ascending drawn "
             "target set (on / beside / inside / outside the Fourier grid) or set_smooth_fa_frequecies_by_range / the deprecated smooth_freq_points + smooth_freq_range setters; band via "
             "gen_smooth_fa_spectrum; ratio in {0.707 (default), 2^-k, 0.9, 0.999999, 0.01, U(0.001,0.999)}; get_sig_freq_range ratio in "
             "{15 (default), 2, 4, 1.000001, 100, 1000, logU(1.001,1000)}; non-trivial = >= 3 smoothing frequencies, unambiguous and "
             "the limits are not simply the two ends of the grid",
        oracle="reference model: front/back scan of the object's smoothed spectrum for amplitude > ratio*max (1e-9 margin filter: "
               "equality of the returned frequencies when unambiguous, bracket otherwise); f_min <= f_peak <= f_max with f_peak at "
               "argmax; limits are members of smooth_fa_freqs; every frequency outside has amplitude <= ratio*max, both limits exceed "
               "it; calc_bandwidth_freqs == (calc_bandwidth_f_min, calc_bandwidth_f_max); get_sig_freq_range(1/ratio) identical for "
               "ratio = 2^-k; get_sig_array_indexes_range gives the indices",
        require={"mode=default": 0.1, "mode=targets": 0.2, "mode=range": 0.05, "interior-limit": 0.2},
        min_nontrivial=0.2)
def bandwidth(case, ctx):
    s = _build(case["src"], ctx)
    asig = s.asig
    mode = case["mode"]
    ctx.cls("mode=" + mode, "kind=" + case["src"]["rec"]["k"])
    if mode == "targets":
        targets = np.sort(_resolve(case["targets"], s.fpos))
        ctx.lib(setattr, asig, "smooth_fa_freqs", targets)
    elif mode == "range":
        if case.get("how", "by_range") == "deprecated":
            ctx.cls("range-deprecated-setters")
            ctx.lib(lambda: asig.smooth_fa_spectrum)  # cached at the default frequencies first: the setters must invalidate it
            ctx.lib(setattr, asig, "smooth_freq_points", case["npts"])
            ctx.lib(setattr, asig, "smooth_freq_range", (case["lo"], case["hi"]))
        else:
            ctx.lib(asig.set_smooth_fa_frequecies_by_range, (case["lo"], case["hi"]), case["npts"])
        fr = np.asarray(asig.smooth_fa_freqs, dtype=float)
        ctx.shape(fr, (case["npts"],), "smoothing frequencies set by range")
        ctx.check(abs(fr[0] - case["lo"]) <= 1e-11 * case["lo"] and abs(fr[-1] - case["hi"]) <= 1e-11 * case["hi"]
                  and bool(np.all(np.diff(fr) > 0)), "smoothing frequencies set by range: not an ascending grid on [%r, %r]" % (case["lo"], case["hi"]))
    b = case["b"]
    if b != 40:
        ctx.lib(asig.gen_smooth_fa_spectrum, band=b)
    freqs = np.array(ctx.lib(lambda: asig.smooth_fa_frequencies), dtype=float)
    sm = np.array(ctx.lib(lambda: asig.smooth_fa_spectrum), dtype=float)
    m = len(freqs)
    ctx.shape(sm, (m,), "smoothed spectrum")
    ctx.finite(sm, "smoothed spectrum")
    # the smoothed spectrum the limits are derived from is the statement's weighted mean (cheap re-check, ties this clause to clause 1)
    s_ref, cond = ref.smooth(s.freqs, s.spec, freqs, b)
    ctx.close(sm, s_ref, _tol(s_ref, cond), "smoothed spectrum vs reference weighted mean")
    mx = float(np.max(sm))
    if not mx > 0:
        ctx.cls("zero-spectrum")
        return
    ipk = int(np.argmax(sm))
    f_peak = freqs[ipk]
    all_amb = False

    def check_limits(fmin, fmax, lim, what):
        got = _limits(sm, freqs, lim)
        ctx.check(got is not None, "%s: reference finds no amplitude above the threshold" % what)  # cannot happen for ratio < 1
        amb, (a0, a1), (b0, b1) = got
        fmin, fmax = float(fmin), float(fmax)
        ctx.check(fmin <= fmax, "%s: limits not ordered: f_min=%r > f_max=%r" % (what, fmin, fmax))
        ctx.check(fmin <= f_peak <= fmax, "%s: limits (%r, %r) do not bracket the smoothed peak at %r Hz" % (what, fmin, fmax, f_peak))
        ctx.check(bool(np.any(freqs == fmin)) and bool(np.any(freqs == fmax)),
                  "%s: limits (%r, %r) are not members of smooth_fa_freqs" % (what, fmin, fmax))
        outside = (freqs < fmin) | (freqs > fmax)
        if np.any(outside):
            worst = float(np.max(sm[outside]))
            ctx.check(worst <= lim * (1 + MARGIN), "%s: a frequency outside [%r, %r] has smoothed amplitude %r > threshold %r" % (
                what, fmin, fmax, worst, lim))
        for name, fv in (("f_min", fmin), ("f_max", fmax)):
            at = float(np.max(sm[freqs == fv]))
            ctx.check(at > lim * (1 - MARGIN), "%s: amplitude %r at %s=%r does not exceed the threshold %r" % (what, at, name, fv, lim))
        if amb:
            ctx.amb()
            ctx.check(freqs[a0] <= fmin <= freqs[a1], "%s: f_min=%r outside bracket [%r, %r]" % (what, fmin, freqs[a0], freqs[a1]))
            ctx.check(freqs[b0] <= fmax <= freqs[b1], "%s: f_max=%r outside bracket [%r, %r]" % (what, fmax, freqs[b0], freqs[b1]))
        else:
            ctx.check(fmin == freqs[a1], "%s: f_min=%r, first frequency above the threshold is %r (index %d)" % (what, fmin, freqs[a1], a1))
            ctx.check(fmax == freqs[b0], "%s: f_max=%r, last frequency above the threshold is %r (index %d)" % (what, fmax, freqs[b0], b0))
        return amb, a1, b0

    ratio = case["ratio"]
    both = ctx.lib(im.calc_bandwidth_freqs, asig, ratio=ratio)
    ctx.check(isinstance(both, (tuple, list, np.ndarray)) and len(both) == 2, "calc_bandwidth_freqs returned %r" % (both,))
    amb, i0, i1 = check_limits(both[0], both[1], ratio * mx, "calc_bandwidth_freqs(ratio=%r)" % ratio)
    all_amb = all_amb or amb
    fmin = ctx.lib(im.calc_bandwidth_f_min, asig, ratio)
    fmax = ctx.lib(im.calc_bandwidth_f_max, asig, ratio=ratio)
    ctx.check(np.ndim(fmin) == 0 and np.ndim(fmax) == 0, "calc_bandwidth_f_min / f_max are not scalars")
    ctx.check(float(fmin) == float(both[0]) and float(fmax) == float(both[1]),
              "calc_bandwidth_f_min / f_max (%r, %r) != calc_bandwidth_freqs %r" % (fmin, fmax, both))
    if ratio == 0.707:
        ctx.cls("default-ratio")
        d = ctx.lib(im.calc_bandwidth_freqs, asig)
        ctx.check(float(d[0]) == float(both[0]) and float(d[1]) == float(both[1]), "default ratio is not 0.707")
        ctx.check(float(ctx.lib(im.calc_bandwidth_f_min, asig)) == float(both[0]) and
                  float(ctx.lib(im.calc_bandwidth_f_max, asig)) == float(both[1]), "default ratio of f_min / f_max is not 0.707")
    if not amb and (i0 > 0 or i1 < m - 1):
        ctx.cls("interior-limit")
    if not amb and m >= 3 and (i0 > 0 or i1 < m - 1):
        ctx.nt()
    # ratio > 1 form
    big = case["big"]
    rng = ctx.lib(fq.get_sig_freq_range, asig, ratio=big)
    ctx.check(np.shape(rng) == (2,), "get_sig_freq_range returned %r" % (rng,))
    amb2, j0, j1 = check_limits(rng[0], rng[1], mx / big, "get_sig_freq_range(ratio=%r)" % big)
    idx = ctx.lib(fq.get_sig_array_indexes_range, sm, ratio=big)
    ctx.check(len(idx) == 2 and freqs[int(idx[0])] == float(rng[0]) and freqs[int(idx[1])] == float(rng[1]),
              "get_sig_array_indexes_range %r does not index get_sig_freq_range %r" % (idx, rng))
    if big == 15:
        d = ctx.lib(fq.get_sig_freq_range, asig)
        ctx.check(float(d[0]) == float(rng[0]) and float(d[1]) == float(rng[1]), "default ratio of get_sig_freq_range is not 15")
    # the two forms agree exactly when 1/ratio is a power of two
    if ratio in (0.5, 0.25, 0.125):
        ctx.cls("pow2-ratio")
        r2 = ctx.lib(fq.get_sig_freq_range, asig, ratio=1.0 / ratio)
        ctx.check(float(r2[0]) == float(both[0]) and float(r2[1]) == float(both[1]),
                  "get_sig_freq_range(ratio=%r) %r != calc_bandwidth_freqs(ratio=%r) %r" % (1.0 / ratio, r2, ratio, both))
    # a lower threshold never narrows the band
    lo_lim, hi_lim = sorted([(ratio * mx, both), (mx / big, rng)], key=lambda t: t[0])
    if not amb and not amb2:
        ctx.check(float(lo_lim[1][0]) <= float(hi_lim[1][0]) and float(lo_lim[1][1]) >= float(hi_lim[1][1]),
                  "band at the lower threshold %r is not a superset of the band at %r" % (lo_lim, hi_lim))
