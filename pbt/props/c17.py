"""C17 - Butterworth filtering is zero-phase with the analytic gain; detrending is exact; add_*; running average."""
import functools
import math

import numpy as np
from hypothesis import strategies as st
from scipy.signal import butter

import eqsig
from eqsig import exceptions as eq_exc
from eqsig.fns import generic as fns_generic

from pbt import gen
from pbt.core import clause, enum_clause, HarnessError, _short

PROPERTY = "C17"
CLAUSES = []
ASSUMPTIONS = [
    "Butterworth domain: cut-offs between 0.0006 and 0.95 of the Nyquist frequency (the statement names no range; below 0.0006 even "
    "order-4 low / high pass designs leave the double-precision range of the (b, a) form, above 0.95 the bilinear transform has no "
    "practical use), band ratio f_hi/f_lo >= 1.5, orders 1..4, dt in [1e-4, 1]; records longer than scipy's default filtfilt edge "
    "padding 3*max(len a, len b) (shorter ones are rejected by scipy itself); generated from that minimum (7..28 samples) upwards",
    "'away from the ends of a record much longer than the longest cut-off period': the sinusoid record holds 60..90 periods of "
    "the lowest cut-off (>= 150 samples, and >= 3 ln(1e-10)/ln(r_max) samples: near Nyquist the memory of the filter is not tied to "
    "the cut-off period) and the middle third is compared (the mid-range enumeration compares everything further than "
    "1.5 ln(1e-14)/ln(r_max) samples from both ends); tolerance, relative to the sinusoid amplitude: "
    "min(2e-3, 1e-8 + 40*(u*kappa + r_max^(n/3))) with kappa the conditioning of the (b, a) denominator (rounding of the coefficients, "
    "first-order bound) and r_max the largest pole radius of the design (what is left of the edge transients n/3 samples into the "
    "record); measured on the pinned tree over 8000 designs: error <= 4.04*(u*kappa + r_max^(n/3)) (6.5 over another 1150); 90 % of "
    "the designs are checked to better than 1e-6.  The bound is a first-order bound on ANY double-precision (b, a) implementation "
    "(zpk / second-order-section implementations are more accurate); the factor 40 is a safety factor, not a fit.  The tolerance is "
    "relative to the amplitude A, not to g*A: the rounding noise of a recursive filter is proportional to its input, not to its output",
    "sinusoid frequencies: 0 < f <= 0.998 of Nyquist, placed by inverting the analytic gain at a drawn target gain in the pass "
    "(g >= 0.9), transition or stop (g <= 0.01, target >= 1e-6) band; the class is decided from the gain at the frequency actually used",
    "conditioning guard (known finding C17-KF1): a design counts as well conditioned when (A) the roots (numpy.roots) of scipy's "
    "(b, a) denominator reproduce every designed pole p (butter(..., output='zpk')) to within 1e-3*(1-|p|) [DESIGN 3/C17] and "
    "(B) u*sum|a_k| / min_w |prod_k (e^{jw} - p_k)| <= 2.5e-4, u = 2^-53 [added: first-order bound on the relative gain error caused "
    "by rounding the denominator coefficients; (A) alone samples one realisation of the rounding noise and let through designs "
    "with a gain error of 6e-3]; designs failing the guard (band-pass of order 3 with f_lo/f_Nyq < 0.008 and ratio <= 5, of order 4 "
    "with f_lo/f_Nyq < 0.027 and ratio <= 30, of order 2 below 0.0008; never low / high pass inside the domain) are matched by C17-KF1. "
    "While it is open the matched designs fall in two zones: u*kappa <= 1/64 (first-order zone; 40 % of the matched designs): gain and "
    "linearity stay asserted with the uncapped bound 1e-8 + 16*(u*kappa + r_max^(n/3)) (measured: error / (u*kappa + r_max^lo) <= "
    "1.44 over 2300 order-3/4 band-pass designs up to u*kappa = 0.1); beyond (the (b, a) form has broken down: errors of 0.02..1e300, "
    "overflow, scipy's 'Filter not stable' ValueError): length, npts and dt only.  Strict mode asserts the full statement everywhere",
    "linearity tolerance 16*eps*(kappa+4)*scale with kappa = sum|a_k|/min_w|A(e^{jw})| of the design and scale = "
    "|alpha|*max|x| + |beta|*max|y|: rounding errors of relative size eps injected per sample are amplified by at most the "
    "peak gain of 1/A; measured worst case 2*eps*kappa*scale (DESIGN's flat 1e-9*scale is exceeded by rounding alone, up to "
    "2e-7*scale, for well-conditioned order-4 band-pass designs near the guard)",
    "linearity records: float64 / int64 / list / strided or read-only views, equal length min..3000, |alpha|, |beta| in [1e-3, 1e3] or "
    "powers of two; gibbs_extra omitted / 1 / 2; gibbs_range omitted / 1 / 7 / 50 / 200 / 1e5 (longer than the record: the mean of "
    "the whole record); records also come as int16 / int32 / int8 containers using the dtype's full range (gen.narrow_int; oracle at the "
    "exact integer values) in butter-linear, detrend, add (record, added series / signal, constants that overflow the dtype) and "
    "running-average; single-precision records are handled centrally, not here",
    "'cut-offs may be given as list, tuple or array' and 'what numpy prints is no input': the outputs of two spellings / two process "
    "states agree to 8*eps*(kappa+4)*A (an implementation may order the arithmetic differently for an array-valued cut-off)",
    "cut-offs 'as array' for low / high pass are object arrays [None, f] / [f, None] (the only way to spell a missing cut-off in an ndarray)",
    "detrending: n >= k+1 (below that the fit is not determined), k in 0..4, tolerance 1e-8 of max|record| (1e-8 of max(|record|, "
    "|added polynomial|) for the invariance law); 'polynomial' means polynomial in the sample index; best fit = least squares over "
    "all samples (orthonormal Legendre basis on the sample grid, QR)",
    "remove_average is not named by the statement; what the statement's degree-0 claim implies for it is asserted: exactly one "
    "constant is subtracted; that constant is the mean of the first `section` samples when the caller passes a positive count "
    "(1..n); for the default and for negative sections (a slicing convention of the present code: the default -1 leaves out the "
    "last sample) the mean of the whole record and the mean of values[:section] are both accepted",
    "add_*: element-wise sums are compared for equality with Python float/int additions (same IEEE operation); a time step is "
    "'mismatched' when it differs by a relative 1e-12 or more (generated: factors 0.5..10 and 1 +- 1e-12..1e-3; no claim about "
    "differences of a few ulps); 'rejects' = raises some exception (no class is named by the statement) and leaves the signal "
    "unchanged; non-Signal arguments (None, ndarray, list, float, dict, an object with .values and .dt that is not a Signal) are not "
    "covered by the statement: rejection is accepted, and so is the element-wise sum where the object carries a matching series; "
    "anything else (None / number / dict accepted, a wrong-length series added) fails",
    "running average: n >= 2, integer widths 1..25; float64, int64-array and list (of floats or Python ints) records - 'each sample "
    "is replaced by the mean' is a real number whatever the container held; 'within floor(w/2) positions' is clipped to the record; "
    "tolerance (w+8)*eps*max|x| + n*eps*max|prefix sum|/count: the first term bounds a direct mean, the second a prefix-sum "
    "implementation (one rounding per accumulated sample)",
    "mid-range enumerations: lengths from gen.size_ladder (2000..300000 quick, to 2e6 thorough; running average to 200000 / 600000: "
    "the pinned implementation is a Python loop) - one per octave placed by hash of VERIF_SEED plus the integer literals of the "
    "source under test; designs there are well conditioned by construction (hash-ordered candidates, first that passes the guard)",
]
EPS = np.finfo(float).eps
U = EPS / 2
LD = np.longdouble


def _hh(*parts):
    import hashlib
    return int(hashlib.blake2b(":".join(str(p) for p in parts).encode(), digest_size=8).hexdigest(), 16)


def _build(spec):
    """gen.build plus the 'mid' recipe of the mid-range enumerations: an ordinary record of n samples (noise x envelope on a
    floor, a few sines + noise, or a random walk + noise), non-zero mean, a slow drift, no all-zero stretch, distinct values in
    every stretch, amplitude of a few units x 10^amp."""
    if spec["k"] != "mid":
        return gen.build(spec)
    n = int(spec["n"])
    rs = np.random.RandomState(int(spec["seed"]) % (2 ** 31 - 1))
    t = np.arange(n, dtype=float)
    u = t / max(1, n - 1)
    fam = spec.get("fam", 0) % 3
    if fam == 0:
        xx = (t + 1.0) / n
        env = (xx ** 2) * np.exp(-6.0 * xx)
        a = 3.0 * rs.standard_normal(n) * (0.05 + env / env.max()) + 0.37 + 0.8 * u - 1.1 * u ** 3
    elif fam == 1:
        a = (2.0 * np.sin(2 * np.pi * 7.3 * u + 0.4) + 1.1 * np.sin(2 * np.pi * t / 41.7) + 0.6 * np.sin(2 * np.pi * t / 9.3 + 1.0)
             + 0.3 * rs.standard_normal(n) + 0.61 - 0.9 * u * u)
    else:
        w = np.cumsum(rs.standard_normal(n))
        a = 3.0 * w / max(1e-9, float(np.max(np.abs(w)))) + 0.4 * rs.standard_normal(n) + 0.25 + 0.5 * u
    return np.ascontiguousarray(a * 10.0 ** spec.get("amp", 0), dtype=float)


NARROW = tuple(gen.NARROW_DTYPES)  # int16 / int32 / int8 containers: raw digitiser counts using the dtype's full range
_ALLOW = ["int", "list", "int", "list", "view", "negstride", "readonly", "int16", "int32", "int8", "int16"]


def _container(spec, a):
    if spec.get("as") == "intlist":
        return [int(v) for v in np.round(a)]  # a list of Python integers, e.g. digitiser counts
    if spec.get("as") in NARROW:
        return gen.narrow_int(a, spec["as"])[0]  # scaled to the full range of the dtype, most negative sample = its minimum
    if str(spec.get("as", "")).endswith("-raw"):
        return np.array(np.round(a), dtype=spec["as"][:-4])  # hand-written cases: the values as they are, in the narrow dtype
    return gen.as_container(spec, a)


class _quiet(object):
    """Library calls made outside ctx.lib (where an exception is an allowed outcome): no warnings on stderr."""

    def __enter__(self):
        import warnings
        self._w = warnings.catch_warnings()
        self._w.__enter__()
        warnings.simplefilter("ignore")

    def __exit__(self, *a):
        self._w.__exit__(*a)

GAIN_TOL = 2e-3        # cap
GAIN_FLOOR = 1e-8
GAIN_FACTOR = 40.0     # observed max of error / (u*kappa + rmax^lo) over 8000 designs on the pinned tree: 4.04
GUARD_POLE = 1e-3      # DESIGN: |root - p| <= 1e-3 * (1 - |p|)
GUARD_KAPPA = 2.5e-4   # added: u * kappa
# second tier of the matcher of C17-KF1 (added by the audit: the matcher must be as narrow as the recorded defect).  A design
# that fails the guard but has u*kappa <= RELAX_KAPPA is still in the regime where the first-order perturbation analysis of
# the (b, a) form holds (measured on the pinned tree, 2300 order-3/4 band-pass designs: error / (u*kappa + r_max^lo) <= 1.44 for
# 2.5e-4 < u*kappa <= 0.1, blow-up / overflow / scipy's 'Filter not stable' only for u*kappa > 1): gain and linearity stay asserted
# there, with the same formula as for well-conditioned designs but WITHOUT the 2e-3 cap (factor RELAX_FACTOR = 16, i.e. a margin
# of 11 over the measurement; at RELAX_KAPPA the tolerance reaches a quarter of the amplitude, beyond that it says nothing).
# Only designs beyond RELAX_KAPPA are reduced to length / npts / dt.
RELAX_FACTOR = 16.0
RELAX_KAPPA = 0.25 / RELAX_FACTOR
# normalised cut-offs: the statement names no range ('orders 1-4, band, low or high pass'); the domain is where the analytic
# gain is a meaningful reference for a double-precision (b, a) OR second-order-section implementation: down to 0.0006 (a 0.1 Hz
# high-pass at 500 Hz sampling is 0.0004; at 200 Hz it is 0.001) and up to 0.95 of Nyquist
WN_LO, WN_HI, MIN_RATIO = 0.0006, 0.95, 1.5
F_MAX = 0.998          # of Nyquist
GIBBS = [None, "start", "end", "mid"]
# (Hypothesis favours the low end of a range: one bucket is drawn first; the lowest bucket means records of 1e5..3e5 samples
# and gets a smaller share through _BUCKET_PICK)
_WN_BUCKETS = [(0.0006, 0.002), (0.002, 0.006), (0.006, 0.02), (0.02, 0.07), (0.07, 0.25), (0.25, 0.8), (0.8, 0.95)]
_BUCKET_PICK = [0, 1, 1, 2, 2, 3, 3, 4, 4, 5, 5, 6, 6, None, None]
_WN_SPECIALS = [WN_LO, WN_HI, 0.001, 0.002, 0.8, 0.01, 0.1, 0.9]
# everyday designs (order, cut-offs [Hz], dt): what users of the library do with 100 / 200 / 250 Hz records
EVERYDAY = [(4, [0.1, None], 0.005), (2, [0.1, None], 0.005), (3, [0.05, None], 0.01), (4, [None, 45.0], 0.01),
            (4, [None, 90.0], 0.005), (2, [0.1, 25.0], 0.005), (4, [0.25, 25.0], 0.004), (1, [0.08, None], 0.004),
            (4, [0.1, 47.0], 0.01), (3, [0.2, 95.0], 0.005)]
CONTAINERS = ["list", "tuple", "ndarray"]
GRANGES = [None, None, 1, 7, 50, 200, 100000]  # gibbs_range: omitted (50) | non-default, also longer than any record
REC_AS = ["ndarray", "ndarray", "list", "readonly", "view", "negstride"]


# ---------------------------------------------------------------------------
# reference: analytic gain, conditioning of the (b, a) design


def _ftype(cut):
    if cut[0] is not None and cut[1] is not None:
        return "band"
    return "low" if cut[0] is None else "high"


def analytic_gain(order, cut, f, dt):
    """Squared magnitude |H(f)|^2 of the digital (bilinear transform, cut-offs pre-warped) Butterworth filter; this is the gain
    of the forward-backward (zero-phase) application."""
    t = math.tan(math.pi * f * dt)
    n2 = 2 * order
    kind = _ftype(cut)
    if kind == "low":
        return 1.0 / (1.0 + (t / math.tan(math.pi * cut[1] * dt)) ** n2)
    if kind == "high":
        return 1.0 / (1.0 + (math.tan(math.pi * cut[0] * dt) / t) ** n2)
    t1 = math.tan(math.pi * cut[0] * dt)
    t2 = math.tan(math.pi * cut[1] * dt)
    return 1.0 / (1.0 + ((t * t - t1 * t2) / (t * (t2 - t1))) ** n2)


def _freq_for_gain(order, cut, dt, g, upper):
    """Generator side: frequency (Hz) at which the analytic gain equals g (upper / lower side of a band)."""
    q = (1.0 / g - 1.0) ** (1.0 / (2 * order))
    kind = _ftype(cut)
    if kind == "low":
        t = math.tan(math.pi * cut[1] * dt) * q
    elif kind == "high":
        t = math.tan(math.pi * cut[0] * dt) / max(q, 1e-300)
    else:
        t1 = math.tan(math.pi * cut[0] * dt)
        t2 = math.tan(math.pi * cut[1] * dt)
        bw = t2 - t1
        s = q * bw
        root = math.sqrt(s * s + 4.0 * t1 * t2)
        t = 0.5 * (s + root) if upper else 2.0 * t1 * t2 / (s + root)  # the two positive solutions of t^2 -+ s t - t1 t2 = 0
    return math.atan(t) / (math.pi * dt)


def _wn(cut, dt):
    nyq = 0.5 / dt
    return tuple(None if c is None else float(c) / nyq for c in cut)


@functools.lru_cache(maxsize=4096)
def _conditioning_wn(order, wn):
    kind = _ftype(wn)
    w = wn[1] if kind == "low" else (wn[0] if kind == "high" else np.array(wn, dtype=float))
    _b, a = butter(order, w, btype=kind)
    _z, p, _k = butter(order, w, btype=kind, output="zpk")
    p = np.asarray(p, dtype=complex)
    margin = 1.0 - np.abs(p)
    # (A) DESIGN guard: roots of the denominator reproduce every designed pole
    roots = np.roots(a)
    if len(roots) != len(p) or not np.all(np.isfinite(roots)):
        pole_disp = float("inf")
    else:
        pole_disp = float(max(np.min(np.abs(roots - pk)) / mk for pk, mk in zip(p, margin)))
    # (B) first-order sensitivity of A(e^{jw}) = prod (e^{jw} - p_k) to coefficient rounding
    th = np.abs(np.angle(p))
    local = (th[:, None] + margin[:, None] * np.linspace(-4.0, 4.0, 33)[None, :]).ravel()
    om = np.concatenate([np.linspace(0.0, math.pi, 2049), np.clip(local, 0.0, math.pi)])
    ez = np.exp(1j * om)
    amag = np.ones(len(om))
    for pk in p:
        amag = amag * np.abs(ez - pk)
    kappa = float(np.sum(np.abs(a)) / np.min(amag))
    ok = bool(pole_disp <= GUARD_POLE and U * kappa <= GUARD_KAPPA)
    # zone 1: well conditioned (full statement); zone 2: matched by C17-KF1 but still first-order (relaxed, uncapped bound);
    # zone 3: matched by C17-KF1, the (b, a) form has broken down (length / npts / dt only)
    zone = 1 if ok else (2 if U * kappa <= RELAX_KAPPA else 3)
    return {"ok": ok, "zone": zone, "pole_disp": pole_disp, "kappa": kappa, "rmax": float(np.max(np.abs(p)))}


def conditioning(order, cut, dt):
    return _conditioning_wn(int(order), _wn(cut, dt))


def _validate_reference():
    """Oracle guard: the closed-form gain must agree with the designed zeros / poles evaluated on the unit circle."""
    dt = 0.01
    nyq = 0.5 / dt
    for order in (1, 2, 3, 4):
        for wn in ((None, 0.3), (0.05, None), (0.02, 0.4), (0.3, 0.8), (None, 0.002), (0.002, None), (None, WN_LO), (WN_LO, None),
                   (WN_HI, None), (None, WN_HI), (0.001, 0.5), (0.6, WN_HI)):
            kind = _ftype(wn)
            w = wn[1] if kind == "low" else (wn[0] if kind == "high" else np.array(wn))
            z, p, k = butter(order, w, btype=kind, output="zpk")
            cut = [None if c is None else c * nyq for c in wn]
            for fr in (0.0005, 0.001, 0.0021, 0.03, 0.2, 0.31, 0.5, 0.79, 0.95, 0.998):
                e = np.exp(1j * math.pi * fr)
                h2 = abs(k * np.prod(e - z) / np.prod(e - p)) ** 2
                g = analytic_gain(order, cut, fr * nyq, dt)
                if not abs(h2 - g) <= 1e-7 * max(g, 1e-12) + 1e-15:
                    raise HarnessError("analytic Butterworth gain fails its zpk validation: order=%d wn=%r f/fNyq=%r: %r vs %r" % (
                        order, wn, fr, g, h2))


_validate_reference()


def _cut_arg(cut, container):
    """The cut-off pair in the requested container."""
    if container == "list":
        return list(cut)
    if container == "tuple":
        return tuple(cut)
    if cut[0] is None or cut[1] is None:
        return np.array(list(cut), dtype=object)
    return np.array(cut, dtype=float)


def _butter_kwargs(order, gibbs, extra, call="kw", grange=None):
    """extra None = gibbs_extra left at its documented default (1); grange None = gibbs_range left at its default."""
    if call in ("defaults", "default-cut"):  # order 4, no Gibbs padding: the documented defaults
        return {}
    kw = {"filter_order": order}
    if gibbs is not None:
        kw["remove_gibbs"] = gibbs
        if extra is not None:
            kw["gibbs_extra"] = extra
        if grange is not None:
            kw["gibbs_range"] = grange
    elif call == "kw-none":
        kw["remove_gibbs"] = None
    return kw


def _rec_arg(x, how):
    """The record in the requested container / memory layout (all hold exactly the float64 values of x)."""
    if how in (None, "ndarray"):
        return x
    return gen.as_container({"as": how}, x)


def _min_len(order, cut):
    """Shortest record scipy's default filtfilt edge padding accepts: n > 3 * max(len(a), len(b))."""
    return 3 * ((2 * order + 1) if _ftype(cut) == "band" else (order + 1)) + 1


# ---------------------------------------------------------------------------
# designs


@st.composite
def _designs(draw, risky_share=12):
    """(order, cut [Hz], dt): normalised cut-offs log-uniform on [WN_LO, WN_HI] (bucketed) + special values; one in
    `risky_share` designs is an order-3/4 band-pass with a very low lower cut-off (the region of known finding C17-KF1); one in 16 is
    an everyday design (EVERYDAY)."""
    pick = draw(st.integers(0, 15))
    if pick == 11:
        order, cut, dt = draw(st.sampled_from(EVERYDAY))
        return order, list(cut), dt
    dt = draw(gen.dts(1e-4, 1.0))
    nyq = 0.5 / dt
    edge = st.sampled_from(_BUCKET_PICK).flatmap(
        lambda bk: st.sampled_from(_WN_SPECIALS) if bk is None else gen.log_uniform(*_WN_BUCKETS[bk]))
    if draw(st.integers(0, risky_share - 1)) == risky_share // 2:  # (Hypothesis over-samples the end points of an integer range)
        order = draw(st.sampled_from([3, 4]))
        w1 = draw(gen.log_uniform(0.002, 0.012))
        w2 = w1 * draw(gen.log_uniform(MIN_RATIO, 6.0))
        wn = [w1, w2]
    else:
        order = draw(st.integers(1, 4))
        kind = draw(st.sampled_from(["low", "high", "band"]))
        if kind == "low":
            wn = [None, draw(edge)]
        elif kind == "high":
            wn = [draw(edge), None]
        else:
            w1 = min(draw(edge), WN_HI / MIN_RATIO)
            w2 = min(WN_HI, w1 * draw(gen.log_uniform(MIN_RATIO, max(MIN_RATIO, WN_HI / w1))))
            wn = [w1, w2]
    cut = [None if w is None else w * nyq for w in wn]
    return order, cut, dt


def _design_in_domain(order, cut, dt):
    wn = [w for w in _wn(cut, dt) if w is not None]
    return bool(order in (1, 2, 3, 4) and len(cut) == 2 and 1 <= len(wn) <= 2
                and all(WN_LO * (1 - 1e-9) <= w <= WN_HI * (1 + 1e-9) for w in wn)
                and (len(wn) == 1 or wn[1] >= MIN_RATIO * wn[0] * (1 - 1e-9)))


def _design_classes(ctx, order, cut, dt):
    kind = _ftype(cut)
    ctx.cls("type=" + kind, "order=%d" % order)
    ws = [w for w in _wn(cut, dt) if w is not None]
    lo = min(ws)
    ctx.cls("wn_lo<0.002" if lo < 0.002 * (1 - 1e-9) else ("wn_lo<0.01" if lo < 0.01 else ("wn_lo<0.1" if lo < 0.1 else "wn_lo>=0.1")))
    if max(ws) > 0.8 * (1 + 1e-9):
        ctx.cls("wn_hi>0.8")


def _filtered(ctx, values, dt, cut_arg, kwargs, no_cut=False, relaxed=False, recv="Signal"):
    """Filter `values` through Signal.butter_pass (or AccSignal's inherited one); asserts length / npts / dt.  relaxed (zone 3 of
    known finding C17-KF1 only): scipy refusing the ill-conditioned (b, a) design ('Filter not stable due to sum(a) == 0') is part of
    the finding -> None."""
    n = len(values)
    s = ctx.lib(eqsig.AccSignal if recv == "AccSignal" else eqsig.Signal, values, dt)
    args = () if no_cut else (cut_arg,)
    if relaxed:
        try:
            s.butter_pass(*args, **kwargs)
        except ValueError:
            ctx.cls("guarded-raises")
            return None
        except Exception as e:  # noqa
            ctx.fail("butter_pass raised %s: %s" % (type(e).__name__, str(e)[:200]))
    else:
        ctx.lib(s.butter_pass, *args, **kwargs)
    out = np.asarray(s.values)
    ctx.shape(out, (n,), "filtered values")
    ctx.check(s.npts == n, "npts %r after filtering a record of %d samples" % (s.npts, n))
    ctx.check(s.dt == dt, "dt changed by filtering: %r -> %r" % (dt, s.dt))
    return out


def _zone(ctx, cond):
    """Which bound applies to this design: 1 = the full statement (also in strict mode, whatever the design); 2 = matched by
    C17-KF1, relaxed (uncapped first-order) bound; 3 = matched by C17-KF1, length / npts / dt only."""
    if cond["ok"]:
        return 1
    ctx.cls("guarded")
    if ctx.kf("C17-KF1"):
        ctx.cls("guarded-relaxed-bound" if cond["zone"] == 2 else "guarded-length-only")
        return cond["zone"]
    return 1


def _gain_tol(cond, dist, zone):
    """Tolerance (relative to the sinusoid amplitude) `dist` samples away from the nearer end of the record.

    u*kappa: first-order bound on the relative gain error caused by rounding the denominator coefficients to double precision
    (any (b, a) implementation has it; zpk / second-order-section implementations are more accurate and pass a fortiori);
    r_max^dist: what is left of the edge transients.  The factor 40 is ten times the largest ratio measured on the pinned tree over
    8000 designs (4.04; 6.5 over another 1150) - it is a safety factor on a derived bound, not a fitted model; the cap 2e-3 is DESIGN's flat
    tolerance."""
    base = U * cond["kappa"] + cond["rmax"] ** dist
    if zone == 2:
        return GAIN_FLOOR + RELAX_FACTOR * base
    return min(GAIN_TOL, GAIN_FLOOR + GAIN_FACTOR * base)


# ---------------------------------------------------------------------------
# clause 1: analytic gain, zero phase


@st.composite
def _gain_cases(draw):
    fam = draw(st.integers(0, 19))
    if fam in (7, 13):
        # the documented default call butter_pass() = band (0.1, 15) Hz, order 4
        dt = draw(st.sampled_from([0.01, 0.02, 0.025]))
        order, cut, call = 4, [0.1, 15], "default-cut"
    else:
        order, cut, dt = draw(_designs())
        call = "kw"
    gibbs = draw(st.sampled_from(GIBBS))
    if call == "default-cut":
        gibbs = None
    elif order == 4 and gibbs is None and draw(st.booleans()):
        call = "defaults"
    elif gibbs is None and draw(st.booleans()):
        call = "kw-none"
    nyq = 0.5 / dt
    fs = []
    for band in ("pass", "transition", "stop"):  # one sinusoid per band in every case
        if band == "pass":
            g = draw(st.one_of(st.floats(0.9, 0.999), st.sampled_from([0.999999, 0.99])))
        elif band == "transition":
            g = draw(st.one_of(st.floats(0.011, 0.899), st.just(0.5)))
        else:
            g = draw(gen.log_uniform(1e-6, 0.0099))
        f = _freq_for_gain(order, cut, dt, g, draw(st.booleans()))
        fs.append(float(min(f, F_MAX * nyq)))
    case = {"order": order, "cut": cut, "dt": dt, "fs": fs, "phase": draw(st.floats(0.0, 6.2831, allow_nan=False)),
            "amp": draw(st.sampled_from([0, 0, -3, 3])), "gibbs": gibbs, "extra": draw(st.sampled_from([1, 2, None])),
            "grange": draw(st.sampled_from(GRANGES)),
            "periods": draw(st.integers(60, 90)), "container": draw(st.sampled_from(CONTAINERS)), "call": call,
            "recv": draw(st.sampled_from(["Signal", "Signal", "AccSignal"])), "rec_as": draw(st.sampled_from(REC_AS))}
    if fam in (3, 9, 16, 18):
        # ambient process state + history: the call is made under a non-default numpy print state, after the same kind of
        # filter with slightly different cut-offs has been applied to another signal in the same process
        case["ambient"] = {"precision": draw(st.integers(1, 5)), "threshold": draw(st.sampled_from([1000, 5])),
                           "suppress": draw(st.booleans()),
                           "prime": [[draw(st.sampled_from(PRIME_FACTORS)), draw(st.sampled_from([1.0, 1.0, 1.0002, 0.98]))]
                                     for _ in range(draw(st.integers(1, 2)))]}
    return case


PRIME_FACTORS = [1.0 + 1e-9, 1.0003, 0.9996, 1.004, 1.03, 0.97, 1.12, 1.24]


def _prime(case, dt, kwargs):
    """Earlier calls in the same process: the same filter type / order with perturbed cut-offs on a throw-away signal (what
    these calls return, or whether scipy accepts them, is not asserted here)."""
    x = np.sin(0.3 * np.arange(240.0))
    for f_lo, f_hi in case["ambient"]["prime"]:
        lo, hi = case["cut"]
        cut2 = [None if lo is None else lo * f_lo, None if hi is None else min(hi * f_hi, 0.99 * 0.5 / dt)]
        try:
            eqsig.Signal(x, dt).butter_pass(cut2, **kwargs)
        except Exception:  # noqa
            pass


def _freqs(case):
    """Sinusoid frequencies of a case: 'fs' (generated cases: one per band) or a single 'f' (hand-written cases)."""
    return [float(f) for f in case["fs"]] if "fs" in case else [float(case["f"])]


def _sinusoid(case, f=None):
    cut, dt = case["cut"], case["dt"]
    f = _freqs(case)[0] if f is None else f
    if case.get("n"):
        n = int(case["n"])  # mid-range enumeration: the length is the laddered size
    else:
        f_lo = min(float(c) for c in cut if c is not None)
        n = max(150, int(math.ceil(case["periods"] / (f_lo * dt))))
        if case.get("order"):
            # 'away from the ends': the memory of the filter is set by its slowest pole, which for cut-offs near Nyquist is not
            # tied to the cut-off period (poles approach z = -1); the middle third starts >= ln(1e-10)/ln(r_max) samples in
            rmax = conditioning(case["order"], cut, dt)["rmax"]
            if 0.0 < rmax < 1.0:
                n = max(n, 3 * int(math.ceil(math.log(1e-10) / math.log(rmax))) + 3)
    i = np.arange(n, dtype=float)
    return (10.0 ** case.get("amp", 0)) * np.sin((2.0 * math.pi * f * dt) * i + case["phase"])


@clause(CLAUSES, "butter-gain", _gain_cases(), quick=260, thorough=1600, quick_shards=2,
        rule="x = A sin(2 pi f t + phi) over 60-90 periods of the lowest cut-off; low / high / band pass, orders 1-4, normalised "
             "cut-offs log-uniform on [0.0006, 0.95] in seven buckets (+ special values, + the documented default call, + everyday "
             "designs such as the 0.1 Hz high-pass at dt = 0.005, + 1 in 12 order-3/4 band-pass designs with a very low lower "
             "cut-off), remove_gibbs in {None,start,end,mid}, gibbs_extra in {omitted,1,2}, gibbs_range in {omitted,1,7,50,200,1e5}, "
             "receiver Signal / AccSignal, record given as ndarray / list / read-only / strided view, three "
             "sinusoids per case, f placed in the pass / transition / stop band by drawn target gains, cut-offs as list / tuple / "
             "ndarray; 1 case in 5 runs under a non-default numpy print state (precision 1-5, summarisation threshold 5, suppress) "
             "after 1-2 calls of the same filter with cut-offs perturbed by 1e-9..24% on another signal; "
             "non-trivial = the gain is asserted (design well conditioned, or in the first-order zone of C17-KF1)",
        oracle="reference model: middle third == g(f) * x with g the closed-form squared magnitude of the bilinear-transformed "
               "Butterworth filter in t = tan(pi f dt) (validated at import against scipy's zpk design), tolerance "
               "min(2e-3, 1e-8 + 40 (u kappa + r_max^(n/3))) * A (C17-KF1, first-order zone: 1e-8 + 16 (u kappa + r_max^(n/3)), uncapped); "
               "length, npts, dt preserved; list / tuple / ndarray cut-offs agree to 8 eps (kappa+4) A; differential: the call under "
               "the ambient print state / after similar calls == the same call under the default print state (8 eps (kappa+4) A)",
        require={"band=pass": 0.35, "band=transition": 0.35, "band=stop": 0.35, "gibbs=None": 0.08, "gibbs=start": 0.05,
                 "gibbs=end": 0.05, "gibbs=mid": 0.05, "type=low": 0.1, "type=high": 0.1, "type=band": 0.15, "guarded": 0.01,
                 "cut=ndarray": 0.08, "cut=list": 0.08, "cut=tuple": 0.08, "order=1": 0.05, "order=2": 0.05, "order=3": 0.05,
                 "order=4": 0.05, "call=default-cut": 0.01, "ambient-print-state": 0.08, "wn_lo<0.002": 0.02, "wn_hi>0.8": 0.04,
                 "recv=AccSignal": 0.1, "grange!=default": 0.1, "extra=default": 0.05},
        min_nontrivial=0.6)
def butter_gain(case, ctx):
    order, cut, dt = case["order"], case["cut"], case["dt"]
    freqs = _freqs(case)
    gibbs, extra, call = case.get("gibbs"), case.get("extra", 1), case.get("call", "kw")
    grange, recv, rec_as = case.get("grange"), case.get("recv", "Signal"), case.get("rec_as", "ndarray")
    nyq = 0.5 / dt
    if not (_design_in_domain(order, cut, dt) and all(0 < f <= F_MAX * nyq * (1 + 1e-9) for f in freqs)):
        raise ValueError("case outside the domain of clause butter-gain")
    amp = 10.0 ** case.get("amp", 0)
    _design_classes(ctx, order, cut, dt)
    ctx.cls("gibbs=%s" % gibbs, "cut=" + case["container"], "call=" + call, "recv=" + recv, "rec=" + rec_as)
    if gibbs is not None:
        ctx.cls("extra=%s" % ("default" if extra is None else extra), "grange!=default" if grange is not None else "grange=default")
    kwargs = _butter_kwargs(order, gibbs, extra, call, grange)
    no_cut = call == "default-cut"
    cut_arg = _cut_arg(cut, case["container"])
    cond = conditioning(order, cut, dt)
    ctx.notes["u*kappa"] = U * cond["kappa"]
    zone = _zone(ctx, cond)
    if zone == 3:
        # known finding: the (b, a) form has broken down for this design; only length / npts / dt (asserted inside _filtered)
        _filtered(ctx, _rec_arg(_sinusoid(case), rec_as), dt, cut_arg, kwargs, no_cut=no_cut, relaxed=True, recv=recv)
        return
    ctx.nt()
    amb = case.get("ambient")
    if amb:
        ctx.cls("ambient-print-state")
    # two spellings / two process states of the same request: 'identical output' is demanded to rounding only (an
    # implementation may evaluate an array-valued and a tuple-valued cut-off in a different but equivalent order); the bound is
    # the one of the linearity clause (rounding errors of relative size eps per sample amplified by the peak gain of 1/A)
    tol_same = 8 * EPS * (cond["kappa"] + 4) * amp
    for k, f in enumerate(freqs):
        x = _sinusoid(case, f)
        xa = _rec_arg(x, rec_as)
        n = len(x)
        g = analytic_gain(order, cut, f, dt)
        ctx.cls("band=pass" if g >= 0.9 else ("band=stop" if g <= 0.01 else "band=transition"))
        if amb:
            with np.printoptions(precision=amb["precision"], threshold=amb["threshold"], suppress=amb["suppress"]):
                if k == 0:
                    _prime(case, dt, _butter_kwargs(order, gibbs, extra, "kw", grange))
                y = _filtered(ctx, xa, dt, cut_arg, kwargs, no_cut=no_cut, recv=recv)
            # what numpy prints, and what was filtered before, is no input of the filter
            y_plain = _filtered(ctx, xa, dt, cut_arg, kwargs, no_cut=no_cut, recv=recv)
            ctx.close(y, y_plain, tol_same, "the same butter_pass call under numpy print options %r after %d similar call(s) vs under the "
                                            "default print state" % ({k_: amb[k_] for k_ in ("precision", "threshold", "suppress")}, len(amb["prime"])))
        else:
            y = _filtered(ctx, xa, dt, cut_arg, kwargs, no_cut=no_cut, recv=recv)
        lo, hi = n // 3, (2 * n) // 3
        ctx.finite(y[lo:hi], "filtered sinusoid (middle third)")
        # design-aware tolerance: rounding of the (b, a) coefficients (first-order bound u*kappa) + what is left of the edge
        # transients after lo = n/3 samples (slowest pole radius ^ lo); never looser than the flat 2e-3 for a well-conditioned design
        tol_gain = _gain_tol(cond, lo, zone)
        ctx.notes["tol_gain"] = tol_gain
        ctx.cls("tol<1e-6" if tol_gain < 1e-6 else ("tol<1e-4" if tol_gain < 1e-4 else "tol>=1e-4"))
        ctx.close(y[lo:hi], g * x[lo:hi], tol_gain * amp,
                  "middle third of the filtered sinusoid vs g(f)*x (g=%.6g, order %d, cut-offs %r Hz, f=%r Hz, dt=%r, remove_gibbs=%r)" % (
                      g, order, cut, f, dt, gibbs))
        if k > 0:
            continue
        # the same request spelled with the other containers
        for cont in CONTAINERS:
            if cont == case["container"] and not no_cut:
                continue
            y2 = _filtered(ctx, xa, dt, _cut_arg(cut, cont), _butter_kwargs(order, gibbs, extra, "kw", grange), recv=recv)
            ctx.close(y2, y, tol_same, "cut-offs given as %s vs %s" % (cont, "the default argument" if no_cut else case["container"]))


# ---------------------------------------------------------------------------
# clause 2: linearity

RECIPE_KINDS = ["noise", "sines", "pulse", "step", "walk", "const", "quake"]


@st.composite
def _linear_cases(draw):
    order, cut, dt = draw(_designs(risky_share=30))
    nmin = _min_len(order, cut)
    n = draw(st.one_of(st.integers(nmin, nmin + 12), st.integers(nmin, 64), st.integers(32, 400), st.integers(32, 3000)))
    kinds = None if n <= 64 else RECIPE_KINDS
    ra = draw(gen.record_specs(min_n=n, max_n=n, small_max=n, kinds=kinds, allow_zero_runs=False, allow_int=_ALLOW))
    rb = draw(gen.record_specs(min_n=n, max_n=n, small_max=n, kinds=kinds, allow_zero_runs=False, allow_int=_ALLOW))
    for sp in (ra, rb):
        if sp.get("as") == "int" and "amp" in sp and sp["amp"] < 1:
            sp["amp"] = min(6, 1 - sp["amp"])  # keep the rounded record non-zero
    return {"order": order, "cut": cut, "dt": dt, "ra": ra, "rb": rb, "alpha": draw(gen.scalars()), "beta": draw(gen.scalars()),
            "extra": draw(st.sampled_from([1, 2, None])), "grange": draw(st.sampled_from(GRANGES)),
            "container": draw(st.sampled_from(CONTAINERS)), "recv": draw(st.sampled_from(["Signal", "Signal", "AccSignal"]))}


@clause(CLAUSES, "butter-linear", _linear_cases(), quick=200, thorough=800,
        rule="pairs of records of all kinds (float64 / int64 / list / views) with equal length, from the shortest scipy's edge padding "
             "accepts (3*max(len a, len b)+1 = 7..28) to 3000, alpha / beta signed log-uniform on [1e-3,1e3] or powers of "
             "two, designs as in butter-gain, every case filtered with each of remove_gibbs in {None,start,end,mid}, gibbs_extra "
             "in {omitted,1,2}, gibbs_range in {omitted,1,7,50,200,1e5}, receiver Signal / AccSignal; non-trivial = both records "
             "non-zero and linearity is asserted (design well conditioned or in the first-order zone of C17-KF1)",
        oracle="metamorphic: filter(alpha x + beta y) == alpha filter(x) + beta filter(y) within 16 eps (kappa+4) (|alpha| max|x| + "
               "|beta| max|y|), kappa = conditioning of the (b, a) denominator; length / npts / dt preserved; inputs not modified",
        require={"extra=2": 0.1, "type=band": 0.1, "type=low": 0.1, "type=high": 0.1, "n<32": 0.08, "grange!=default": 0.2,
                 "recv=AccSignal": 0.1},
        min_nontrivial=0.5)
def butter_linear(case, ctx):
    order, cut, dt = case["order"], case["cut"], case["dt"]
    extra, grange, recv = case.get("extra", 1), case.get("grange"), case.get("recv", "Signal")
    ax = _container(case["ra"], _build(case["ra"]))
    ay = _container(case["rb"], _build(case["rb"]))
    x = np.array(ax, dtype=float)  # what the library sees (the integer variant rounds)
    y = np.array(ay, dtype=float)
    if len(x) != len(y) or len(x) < _min_len(order, cut) or not _design_in_domain(order, cut, dt):
        raise ValueError("case outside the domain of clause butter-linear")
    al, be = float(case["alpha"]), float(case["beta"])
    _design_classes(ctx, order, cut, dt)
    ctx.cls("extra=%s" % ("default" if extra is None else extra), "grange!=default" if grange is not None else "grange=default",
            gen.size_class(len(x)), "n<32" if len(x) < 32 else None, "kind=" + case["ra"]["k"],
            "cut=" + case.get("container", "tuple"), "recv=" + recv)
    for sp in (case["ra"], case["rb"]):
        if sp.get("as"):
            ctx.cls("as=" + sp["as"])
    cut_arg = _cut_arg(cut, case.get("container", "tuple"))
    ax0, ay0 = np.array(ax), np.array(ay)
    comb = al * x + be * y
    cond = conditioning(order, cut, dt)
    zone = _zone(ctx, cond)
    scale = abs(al) * float(np.max(np.abs(x))) + abs(be) * float(np.max(np.abs(y)))
    ctx.nt(bool(zone != 3 and np.any(x != 0) and np.any(y != 0)))
    for gibbs in case.get("modes", GIBBS):
        kwargs = _butter_kwargs(order, gibbs, extra, "kw", grange)
        if zone == 3:  # known finding: only length / npts / dt (asserted inside _filtered)
            for rec in (ax, ay, comb):
                _filtered(ctx, rec, dt, cut_arg, kwargs, relaxed=True, recv=recv)
            continue
        fx = _filtered(ctx, ax, dt, cut_arg, kwargs, recv=recv)
        fy = _filtered(ctx, ay, dt, cut_arg, kwargs, recv=recv)
        fc = _filtered(ctx, comb, dt, cut_arg, kwargs, recv=recv)
        ctx.finite(fc, "filtered combination")
        # rounding errors of relative size eps injected per sample are amplified by at most the peak gain of 1/A (= kappa up to
        # sum|a_k| <= 2^(2 order)); a bound on any direct-form implementation, 8 times the largest ratio measured
        ctx.close(fc, al * fx + be * fy, 16 * EPS * (cond["kappa"] + 4) * scale,
                  "filter(alpha x + beta y) vs alpha filter(x) + beta filter(y) (order %d, cut-offs %r Hz, dt=%r, remove_gibbs=%r, "
                  "gibbs_extra=%r, gibbs_range=%r, u*kappa=%.2e)" % (order, cut, dt, gibbs, extra, grange, U * cond["kappa"]))
    ctx.equal(np.array(ax), ax0, "record modified by Signal(...).butter_pass")
    ctx.equal(np.array(ay), ay0, "record modified by Signal(...).butter_pass")


# ---------------------------------------------------------------------------
# clause 3: polynomial detrending


def _poly_basis(n, k):
    """Orthonormal basis (columns) of the polynomials of degree <= k on n equally spaced samples."""
    t = np.linspace(-1.0, 1.0, n)
    q, _r = np.linalg.qr(np.polynomial.legendre.legvander(t, k))
    return q


def _project(q, v):
    return q @ (q.T @ v)


@st.composite
def _detrend_cases(draw):
    k = draw(st.integers(0, 4))
    fam = draw(st.integers(0, 24))
    if fam == 0:
        # very long records (several minutes at 100-500 Hz): sizes at which index**k leaves the 53 / 63-bit integer range
        k = draw(st.sampled_from([3, 4, 4, 4]))
        spec = draw(gen.record_specs(min_n=52000, max_n=130000, kinds=["noise", "sines", "walk", "quake"], allow_zero_runs=False))
    elif fam in (1, 2, 3):
        # the shortest records a degree-k fit is determined on: n = k+1 (the fit interpolates: nothing is left), k+2, k+3
        n = k + draw(st.integers(1, 3))
        spec = draw(gen.record_specs(min_n=n, max_n=n, small_max=n, kinds=["vals", "dyadic", "noise", "walk"], allow_zero_runs=False,
                                     allow_int=_ALLOW))
    else:
        spec = draw(gen.record_specs(min_n=k + 4, max_n=5000, allow_int=_ALLOW))
    n = len(gen.build(spec))
    sec_kind = draw(st.sampled_from(["default", "pos", "neg", "pos"])) if n >= 2 else "pos"
    if sec_kind == "pos":
        section = draw(st.one_of(st.integers(1, n), st.just(n)))
    elif sec_kind == "neg":
        section = -draw(st.integers(1, n - 1))
    else:
        section = None  # call without the argument (documented default -1)
    return {"rec": spec, "k": k, "dt": draw(gen.dts(1e-4, 1.0)),
            "coef": draw(st.lists(st.floats(-100, 100, allow_nan=False), min_size=k + 1, max_size=k + 1)),
            "form": draw(st.sampled_from(["kw", "pos"] + (["default", "default"] if k == 0 else []))), "section": section,
            "recv": draw(st.sampled_from(["Signal", "Signal", "AccSignal"]))}


@clause(CLAUSES, "detrend", _detrend_cases(), quick=400, thorough=1600,
        rule="records of all kinds (n k+1..5000, 1 in 25 with 52000..130000; float, integer-dtype and list containers, strided / "
             "read-only views), degree k in 0..4, a polynomial of degree <= k with coefficients U(-100,100)*max|record| in the "
             "Legendre-scaled index, keyword / positional call forms and (k = 0) the call without argument, receiver Signal / "
             "AccSignal; remove_average with the default / a positive / a negative section; "
             "non-trivial = the record is not itself a polynomial of degree <= k (residual > 1e-6 max|record|)",
        oracle="reference model (orthonormal polynomial basis on the sample grid, QR): removed part r = x - out has r - P_k r == 0 and "
               "a vanishing (k+1)-th finite difference; P_k out == 0; remove_poly(out) == out; remove_poly(x + p) == out; "
               "Signal.remove_poly == fns.remove_poly (all 1e-8 max|.|); remove_average subtracts ONE constant, the mean of the first "
               "`section` samples for a positive section ((n+8) eps max|x|), the mean of the record or of values[:section] otherwise",
        require={"k=0": 0.03, "k=1": 0.03, "k=2": 0.03, "k=3": 0.03, "k=4": 0.03, "n>512": 0.05, "n>50000": 0.01, "n<k+4": 0.04,
                 "recv=AccSignal": 0.1, "form=default": 0.01}, min_nontrivial=0.5)
def detrend(case, ctx):
    spec = case["rec"]
    k = int(case["k"])
    dt = case["dt"]
    arg = _container(spec, _build(spec))
    x = np.array(arg, dtype=float)  # what the library sees (the integer variant rounds)
    n = len(x)
    if not (0 <= k <= 4 and n >= k + 1):
        raise ValueError("case outside the domain of clause detrend")
    scale = float(np.max(np.abs(x)))
    tol = 1e-8 * scale
    recv = case.get("recv", "Signal")
    make = eqsig.AccSignal if recv == "AccSignal" else eqsig.Signal
    form = case.get("form", "kw")
    if form == "default" and k != 0:
        raise ValueError("case outside the domain of clause detrend (the default degree is 0)")
    ctx.cls("k=%d" % k, "kind=" + spec["k"], gen.size_class(n), "n>50000" if n > 50000 else None, "n<k+4" if n < k + 4 else None,
            "recv=" + recv, "form=" + form)
    if spec.get("as"):
        ctx.cls("as=" + spec["as"])
    q = _poly_basis(n, k)

    def obj_level(values):
        s = ctx.lib(make, values, dt)
        if form == "pos":
            ctx.lib(s.remove_poly, k)
        elif form == "default":
            ctx.lib(s.remove_poly)
        else:
            ctx.lib(s.remove_poly, poly_fit=k)
        out = np.asarray(s.values)
        ctx.shape(out, (n,), "Signal.remove_poly values")
        ctx.check(s.npts == n and s.dt == dt, "npts / dt changed by remove_poly: %r, %r" % (s.npts, s.dt))
        return out

    def arr_level(values):
        out = np.asarray(ctx.lib(fns_generic.remove_poly, values, k) if form == "pos"
                         else (ctx.lib(fns_generic.remove_poly, values) if form == "default"
                               else ctx.lib(fns_generic.remove_poly, values, poly_fit=k)))
        ctx.shape(out, (n,), "fns.remove_poly result")
        return out

    arg_copy = np.array(arg)
    out_o = obj_level(arg)
    out_a = arr_level(arg)
    ctx.equal(np.array(arg), arg_copy, "record modified by remove_poly")
    ctx.nt(bool(scale > 0 and np.max(np.abs(out_o)) > 1e-6 * scale))
    for name, out in (("Signal.remove_poly", out_o), ("fns.remove_poly", out_a)):
        ctx.finite(out, name)
        r = x - out
        ctx.close(r, _project(q, r), tol, "%s(k=%d): removed part vs its own best-fit polynomial of degree <= %d" % (name, k, k))
        if n > k + 1:
            ctx.close(np.diff(r, k + 1), np.zeros(n - k - 1), tol, "%s(k=%d): (k+1)-th finite difference of the removed part" % (name, k))
        ctx.close(_project(q, out), np.zeros(n), tol, "%s(k=%d): best-fit degree-%d polynomial of the result" % (name, k, k))
    ctx.close(out_o, out_a, tol, "Signal.remove_poly vs fns.remove_poly")
    # idempotent
    ctx.close(obj_level(out_o), out_o, tol, "Signal.remove_poly applied twice vs once")
    ctx.close(arr_level(out_a), out_a, tol, "fns.remove_poly applied twice vs once")
    # adding a polynomial of degree <= k beforehand
    t = np.linspace(-1.0, 1.0, n)
    p = np.polynomial.polynomial.polyval(t, np.array(case["coef"], dtype=float)) * (scale if scale > 0 else 1.0)
    tol_p = 1e-8 * max(scale, float(np.max(np.abs(p))))
    ctx.close(obj_level(x + p), out_o, tol_p, "Signal.remove_poly(k=%d) after adding a polynomial of degree <= %d" % (k, k))
    ctx.close(arr_level(x + p), out_a, tol_p, "fns.remove_poly(k=%d) after adding a polynomial of degree <= %d" % (k, k))
    # remove_average: the statement's degree-0 claim applied to it - exactly ONE constant is subtracted - and, where the caller
    # names a positive number of samples, that constant is their mean.  WHICH samples the default section / a negative section
    # means is a convention of the implementation (the present code drops the last sample by default): the mean of the whole
    # record and the mean of values[:section] are both accepted there.
    section = case.get("section")
    s = ctx.lib(make, arg, dt)
    if section is None:
        ctx.lib(s.remove_average)
        sl = slice(None, -1)
    else:
        ctx.lib(s.remove_average, section=section)
        sl = slice(None, section)
    out = np.asarray(s.values)
    ctx.shape(out, (n,), "remove_average values")
    ctx.check(s.npts == n and s.dt == dt, "npts / dt changed by remove_average: %r, %r" % (s.npts, s.dt))
    part = x[sl]
    if len(part) == 0:
        raise ValueError("case outside the domain of clause detrend (empty section)")
    what = "default section" if section is None else "section=%d" % section
    tol_a = (n + 8) * EPS * scale
    mean_sec = float(np.sum(part.astype(LD)) / len(part))
    if section is not None and section > 0:
        ctx.close(out, x - mean_sec, tol_a, "remove_average(%s) vs x - mean of the first %d samples" % (what, section))
    else:
        mean_all = float(np.sum(x.astype(LD)) / n)
        d_sec = float(np.max(np.abs((out - (x - mean_sec)).astype(LD))))
        d_all = float(np.max(np.abs((out - (x - mean_all)).astype(LD))))
        ctx.check(min(d_sec, d_all) <= tol_a,
                  "remove_average(%s): result is neither x - mean(x) (off by %.3g) nor x - mean(x[:section]) (off by %.3g), tol %.3g" % (
                      what, d_all, d_sec, tol_a))


# very long records (continuous monitoring, hours at 100-500 Hz): lengths around 2^21 and 2^22


def _giant_enum(tier, shard, nshards):
    items = [(2 ** 21 + 5, 4), (2 ** 21 + 2, 1)]
    if tier != "quick":
        items += [(2 ** 20 - 1, 4), (2 ** 21 + 5, 0), (2 ** 21 + 5, 2), (2 ** 22 + 1, 3), (3 * 2 ** 20 + 17, 4), (2 ** 22 + 1, 0)]
    for i, (n, k) in enumerate(items):
        if i % nshards == shard:
            yield {"n": n, "k": k, "dt": 0.005, "seed": 31 + i}


@enum_clause(CLAUSES, "giant-detrend", _giant_enum,
             rule="fixed very long records (1-4 million samples: windowed noise + offset + slow drift), degrees 0..4, object and array level",
             oracle="reference model (orthonormal polynomial basis on the sample grid, QR): best-fit polynomial of degree <= k of the "
                    "result == 0 and removed part == its own best-fit polynomial (1e-8 max|record|); Signal.remove_poly == fns.remove_poly",
             exhaustive_note="the listed (length, degree) pairs", quick_shards=2)
def giant_detrend(case, ctx):
    n, k, dt = case["n"], case["k"], case["dt"]
    t = np.linspace(-1.0, 1.0, n)
    x = np.random.RandomState(case["seed"]).standard_normal(n) * np.hanning(n) + 0.3 + 0.2 * t - 0.4 * t ** 3
    ctx.nt(True)
    ctx.cls("k=%d" % k)
    tol = 1e-8 * float(np.max(np.abs(x)))
    q = _poly_basis(n, k)
    s = ctx.lib(eqsig.Signal, x, dt)
    ctx.lib(s.remove_poly, poly_fit=k)
    out_o = np.asarray(s.values)
    out_a = np.asarray(ctx.lib(fns_generic.remove_poly, x, poly_fit=k))
    for name, out in (("Signal.remove_poly", out_o), ("fns.remove_poly", out_a)):
        ctx.shape(out, (n,), name)
        ctx.finite(out, name)
        r = x - out
        ctx.close(r, _project(q, r), tol, "%s(k=%d, n=%d): removed part vs its own best-fit polynomial" % (name, k, n))
        ctx.close(_project(q, out), np.zeros(n), tol, "%s(k=%d, n=%d): best-fit degree-%d polynomial of the result" % (name, k, n, k))
    ctx.close(out_o, out_a, tol, "Signal.remove_poly vs fns.remove_poly (n=%d)" % n)


# ---------------------------------------------------------------------------
# clause 4: add_constant / add_series / add_signal


class _Duck(object):
    """Looks like a signal, is not one."""

    def __init__(self, values, dt):
        self.values = values
        self.dt = dt
        self.npts = len(values)


_NON_SIGNALS = ["none", "ndarray", "list", "float", "dict", "duck"]


@st.composite
def _add_cases(draw):
    spec = draw(gen.record_specs(min_n=2, max_n=2000, allow_int=_ALLOW))
    n = len(gen.build(spec))
    op = draw(st.sampled_from(["signal", "series", "constant", "signal", "series", "signal"]))
    case = {"rec": spec, "dt": draw(gen.dts(1e-4, 1.0)), "op": op, "self": draw(st.sampled_from(["Signal", "AccSignal"]))}
    if op == "constant":
        if spec.get("as") in NARROW:
            # a constant that fits the record's dtype but whose sum with the record's peak does not (20000 + 20000 in int16)
            top = int(np.iinfo(spec["as"]).max)
            case["c"] = draw(st.sampled_from([top, top // 2 + 1, -top, -(top // 2) - 2, (top * 5) // 8, 0.5]))
        else:
            case["c"] = draw(st.one_of(st.floats(-1e6, 1e6, allow_nan=False), st.integers(-1000, 1000), st.just(0.0)))
        return case
    case["other"] = draw(gen.record_specs(min_n=2, max_n=2000, allow_int=False, allow_zero_runs=False))
    if draw(st.integers(0, 3)) == 0:
        case["other"]["as"] = draw(st.sampled_from(["int16", "int16", "int32", "int8"]))  # the added series / signal holds narrow integers
    wrong_len = draw(st.integers(0, 2)) == 0
    if wrong_len:
        case["dlen"] = draw(st.one_of(st.sampled_from([-1, 1, -n]), st.integers(-n, n))) or 1
    else:
        case["dlen"] = 0
    if op == "series":
        case["as"] = draw(st.sampled_from(["ndarray", "list", "tuple"]))
    else:
        case["cls"] = draw(st.sampled_from(["Signal", "AccSignal"]))
        how = draw(st.sampled_from(["ok", "dt", "non", "ok", "dt", "non"]))
        # mismatched time steps: grossly (x 0.5 .. 10) or nearly equal (relative difference 1e-12 .. 1e-3, either sign: two
        # records "both at 200 Hz" whose time steps were computed differently)
        near = st.tuples(st.sampled_from([-1.0, 1.0]), gen.log_uniform(1e-12, 1e-3)).map(lambda t: 1.0 + t[0] * t[1])
        case["dtf"] = draw(st.one_of(st.sampled_from([0.5, 2.0, 1.001, 0.999, 1.1, 10.0]), near, near)) if how == "dt" else 1.0
        case["non"] = draw(st.sampled_from(_NON_SIGNALS)) if how == "non" else None
    return case


@clause(CLAUSES, "add", _add_cases(), quick=400, thorough=1600,
        rule="records of all kinds (n 2..2000; float / integer-dtype / list) in a Signal or AccSignal; add_constant (float / int), "
             "add_series (ndarray / list / tuple; right length, or off by +-1, empty, any other length), add_signal (Signal / "
             "AccSignal with equal dt, with dt scaled by {.5,2,1.001,.999,1.1,10} or by 1 +- 1e-12..1e-3, wrong length, or a non-Signal: "
             "None, ndarray, list, float, dict, duck-typed object); non-trivial = the added values are not all zero or the call must be rejected",
        oracle="reference model: element-wise Python additions (==); mismatched length / time step: some exception is raised and the "
               "signal is left unchanged; a non-Signal argument is either rejected the same way or (an object / sequence that does "
               "carry matching values) added element-wise; npts and dt preserved, the added object not modified",
        require={"op=constant": 0.05, "op=series": 0.1, "op=signal": 0.2, "reject-length": 0.08, "reject-dt": 0.03,
                 "reject-dt-near": 0.01, "non-signal": 0.03, "accepted": 0.2, "narrow-int": 0.04, "other-narrow-int": 0.04},
        min_nontrivial=0.5)
def add(case, ctx):
    spec = case["rec"]
    dt = case["dt"]
    arg = _container(spec, _build(spec))
    x = np.array(arg)
    n = len(x)
    op = case["op"]
    ctx.cls("op=" + op, "self=" + case.get("self", "Signal"), "kind=" + spec["k"], gen.size_class(n))
    if spec.get("as"):
        ctx.cls("as=" + spec["as"], "narrow-int" if spec["as"] in NARROW else None)
    make = eqsig.AccSignal if case.get("self") == "AccSignal" else eqsig.Signal
    s = ctx.lib(make, arg, dt)
    before = np.array(s.values)
    ctx.equal(before, x, "values right after construction")
    xs = x.tolist()

    def unchanged(what):
        ctx.equal(s.values, before, "values after the rejected %s" % what)
        ctx.check(s.npts == n and s.dt == dt, "npts / dt changed by the rejected %s" % what)

    def added(expect, what):
        ctx.cls("accepted")
        out = np.asarray(s.values)
        ctx.shape(out, (n,), "values after %s" % what)
        ctx.equal(out, np.array(expect), "values after %s vs element-wise sum" % what)
        ctx.check(s.npts == n and s.dt == dt, "npts / dt changed by %s: %r, %r" % (what, s.npts, s.dt))

    def rejected(fn, arg_, what):
        # 'rejects': the statement names no exception class (the present code raises SignalProcessingError; numpy's own
        # ValueError for operands that cannot be added is a rejection just as well)
        try:
            fn(arg_)
        except Exception as e:  # noqa
            ctx.cls("raises=" + type(e).__name__)
            unchanged(what)
            return
        ctx.fail("%s was accepted (values now %s)" % (what, _short(s.values)))

    if op == "constant":
        c = case["c"]
        ctx.nt(c != 0)
        ctx.lib(s.add_constant, c)
        added([v + c for v in xs], "add_constant(%r)" % (c,))
        return
    dlen = int(case.get("dlen", 0))
    m = n + dlen
    if m < 0:
        raise ValueError("case outside the domain of clause add")
    o = np.resize(_build(case["other"]), m) if m > 0 else np.zeros(0)
    o_as = case["other"].get("as")
    if o_as in NARROW and m > 0:
        o_c, o = gen.narrow_int(o, o_as)  # container of the narrow dtype + its exact values
        os_ = [int(v) for v in o]
        ctx.cls("other-narrow-int")
    else:
        o_c = None
        os_ = o.tolist()
    if op == "series":
        how = case.get("as", "ndarray")
        ser = (o_c.copy() if o_c is not None else o.copy()) if how == "ndarray" else (list(os_) if how == "list" else tuple(os_))
        ctx.cls("series=" + how)
        if dlen != 0:
            ctx.cls("reject-length")
            ctx.nt()
            rejected(s.add_series, ser, "add_series (length %d vs %d)" % (m, n))
        else:
            ctx.nt(bool(np.any(o != 0)))
            ctx.lib(s.add_series, ser)
            added([a + b for a, b in zip(xs, os_)], "add_series")
        ctx.equal(np.array(ser), o, "series modified by add_series")
        return
    # add_signal
    non = case.get("non")
    dtf = float(case.get("dtf", 1.0))
    if non is not None:
        other = {"none": None, "ndarray": o.copy(), "list": list(os_), "float": 1.5, "dict": {"values": list(os_), "dt": dt},
                 "duck": _Duck(o.copy(), dt)}[non]
        ctx.cls("non-signal", "non=" + non)
        ctx.nt()
        # not a Signal: the statement promises nothing but the element-wise sum and the two rejections.  An implementation may
        # refuse the object (the present one does) or, if the object does carry a matching series (duck-typed object, bare
        # sequence of the right length), add it element-wise; anything else (a changed signal after None / a number / a dict, a
        # series of the wrong length added) breaks 'adds element-wise'.
        try:
            with _quiet():
                s.add_signal(other)
        except Exception as e:  # noqa
            ctx.cls("reject-type", "raises=" + type(e).__name__)
            unchanged("add_signal(%s)" % non)
            return
        if non in ("duck", "ndarray", "list") and dlen == 0:
            added([a + b for a, b in zip(xs, os_)], "add_signal(%s) [accepted]" % non)
            return
        ctx.fail("add_signal(%s%s) was accepted (values now %s)" % (non, "" if dlen == 0 else ", length %d vs %d" % (m, n), _short(s.values)))
    if m < 1:
        m, o, os_ = 1, np.zeros(1), [0.0]  # a Signal needs at least one sample
        dlen = m - n
    make_o = eqsig.AccSignal if case.get("cls") == "AccSignal" else eqsig.Signal
    dt2 = dt * dtf
    if dtf != 1.0 and dt2 == dt:
        raise ValueError("case outside the domain of clause add (the scaled time step rounds to the same number)")
    other = ctx.lib(make_o, o_c.copy() if (o_c is not None and len(o_c) == m) else o.copy(), dt2)
    ctx.cls("other=" + case.get("cls", "Signal"))
    if dtf != 1.0 or dlen != 0:
        ctx.cls("reject-dt" if dtf != 1.0 else None, "reject-length" if dlen != 0 else None,
                "reject-dt-near" if dtf != 1.0 and abs(dtf - 1.0) < 9e-4 else None)
        ctx.nt()
        rejected(s.add_signal, other, "add_signal (dt %r vs %r, length %d vs %d)" % (dt2, dt, m, n))
    else:
        ctx.nt(bool(np.any(o != 0)))
        ctx.lib(s.add_signal, other)
        added([a + b for a, b in zip(xs, os_)], "add_signal")
    ctx.equal(other.values, o, "added signal modified by add_signal")
    ctx.check(other.dt == dt2 and other.npts == m, "added signal's dt / npts modified by add_signal")


# ---------------------------------------------------------------------------
# clause 5: running average


def _avg_reference(x, h):
    """Mean of the ORIGINAL samples j with |j-i| <= h, 0 <= j < n, in long double (explicit loop for short records, long-double
    prefix sums otherwise: error <= n * 2^-64 * max|prefix sum|), and a per-sample tolerance that any reasonable double-precision
    implementation meets: a direct mean of <= 2h+1 terms errs by <= (2h+2) eps max|x|; a prefix-sum implementation (like
    fns.average.calc_roll_av_vals) adds one rounding of relative size eps/2 per accumulated sample to a running sum S, i.e.
    <= n eps max|S| on a difference of two prefix sums, divided by the number of samples in the window."""
    n = len(x)
    xl = x.astype(LD)
    csum = np.concatenate([[LD(0)], np.cumsum(xl)])
    i = np.arange(n)
    lo, hi = np.maximum(0, i - h), np.minimum(n - 1, i + h)
    cnt = (hi - lo + 1)
    if n <= 400:
        expect = np.empty(n, dtype=LD)
        for ii in range(n):
            tot = LD(0)
            for j in range(lo[ii], hi[ii] + 1):
                tot += xl[j]
            expect[ii] = tot / cnt[ii]
    else:
        expect = (csum[hi + 1] - csum[lo]) / cnt.astype(LD)
    smax = float(np.max(np.abs(csum)))
    xmax = float(np.max(np.abs(x)))
    tol = (2 * h + 8) * EPS * xmax + n * EPS * smax / cnt
    return expect, tol


_AVG_AS = ["int", "intlist", "int16", "intlist", "list", "view", "negstride", "readonly", "int16", "int32", "int8"]


@st.composite
def _avg_cases(draw):
    spec = draw(gen.record_specs(min_n=2, max_n=3000, small_max=60, allow_int=_AVG_AS))
    if spec.get("as") in ("int", "intlist") and "amp" in spec and spec["amp"] < 1:
        spec["amp"] = min(6, 1 - spec["amp"])  # keep the rounded record non-zero
    w = draw(st.one_of(st.integers(1, 25), st.integers(3, 25), st.sampled_from([1, 2, 3, 4, 5, 24, 25])))
    form = draw(st.sampled_from(["kw", "pos"] + (["default", "default"] if w == 1 else [])))
    return {"rec": spec, "dt": draw(gen.dts(1e-4, 1.0)), "w": w, "form": form,
            "self": draw(st.sampled_from(["Signal", "AccSignal"]))}


@clause(CLAUSES, "running-average", _avg_cases(), quick=400, thorough=1600,
        rule="records of all kinds (n 2..3000; float64, and one in four as int64 array, list of Python ints, list of floats, strided / "
             "read-only view), width 1..25 (odd and even, also wider than the record; width 1 also as the call without argument), "
             "Signal / AccSignal, keyword / positional call; non-trivial = floor(w/2) >= 1 and the record is not constant",
        oracle="reference model: loop over i, long-double mean of the ORIGINAL samples j with |j-i| <= floor(w/2), 0 <= j < n; "
               "tolerance (w+8) eps max|x| + n eps max|prefix sum| / window count (covers direct-mean and prefix-sum "
               "implementations); length, npts, dt preserved; the caller's record untouched",
        require={"w>=3": 0.4, "w=1": 0.02, "w=2": 0.02, "w>n": 0.01, "even-w": 0.1, "n>64": 0.15, "integer-record": 0.05, "narrow-int": 0.03},
        min_nontrivial=0.5)
def running_average(case, ctx):
    spec = case["rec"]
    arg = _container(spec, _build(spec))
    x = np.array(arg, dtype=float)  # the record as numbers (integer variants are rounded)
    n = len(x)
    w = int(case["w"])
    dt = case["dt"]
    form = case.get("form", "kw")
    if not (1 <= w <= 25 and n >= 2) or (form == "default" and w != 1):
        raise ValueError("case outside the domain of clause running-average")
    h = w // 2
    ctx.cls("w=1" if w == 1 else ("w=2" if w == 2 else "w>=3"), "even-w" if w % 2 == 0 else "odd-w", "kind=" + spec["k"],
            gen.size_class(n), "n>64" if n > 64 else None, "w>n" if w > n else None, "form=" + form)
    if spec.get("as"):
        ctx.cls("as=" + spec["as"], "integer-record" if spec["as"] in ("int", "intlist") + NARROW else None,
                "narrow-int" if spec["as"] in NARROW else None)
    ctx.nt(bool(h >= 1 and np.any(x != x[0])))
    make = eqsig.AccSignal if case.get("self") == "AccSignal" else eqsig.Signal
    arg0 = np.array(arg)
    s = ctx.lib(make, arg, dt)
    if form == "pos":
        ctx.lib(s.running_average, w)
    elif form == "default":
        ctx.lib(s.running_average)
    else:
        ctx.lib(s.running_average, width=w)
    out = np.asarray(s.values)
    ctx.shape(out, (n,), "values after running_average")
    ctx.check(s.npts == n and s.dt == dt, "npts / dt changed by running_average: %r, %r" % (s.npts, s.dt))
    ctx.equal(np.array(arg), arg0, "caller's record modified by running_average")
    expect, tol = _avg_reference(x, h)
    ctx.close(out, expect, tol,
              "running_average(width=%d) of a %s record: sample vs mean of the original samples within %d positions" % (
                  w, spec.get("as", "float64"), h))


# ---------------------------------------------------------------------------
# mid-range sizes and option crosses (DESIGN 8.5: a code path that only exists inside a window of record lengths - a blocked /
# streamed / cached / FFT-padded variant - is invisible to generators that stop at 3000 samples and to the fixed giant sizes)

_MID_DTS = (0.005, 0.01, 0.02, 0.004)


def _mid_sizes(tier, lo, hi_quick, hi_thorough, count, tag):
    """Ladder + mined sizes + one length in the top 5 % of the range (so that a window that opens anywhere below 0.95 hi is
    entered at every seed, not only when the hash places the last rung high)."""
    def top(hi):
        return int(0.95 * hi) + _hh(gen.run_seed(), "top", tag, hi) % (hi - int(0.95 * hi) + 1)
    if tier == "quick":
        return sorted(set(gen.size_ladder(lo, hi_quick, count, tag)) | {top(hi_quick)})
    return sorted(set(gen.size_ladder(lo, hi_thorough, 3 * count, tag + ":t", mined_limit=16)) | set(gen.ladder(lo, hi_quick, count, tag + ":t2"))
                  | {top(hi_quick), top(hi_thorough)})


def _mid_spec(n, tag, as_=None, amp=0):
    h = _hh(gen.run_seed(), "rec", tag, n)
    spec = {"k": "mid", "n": int(n), "seed": int(h % (2 ** 31 - 1)), "fam": int((h >> 8) % 3), "amp": amp}
    if as_:
        spec["as"] = as_
    return spec


def _mid_design(n, tag):
    """A well-conditioned design whose lowest cut-off period fits >= 65 times into n samples (deterministic in (seed, tag, n):
    candidates are tried in hash order until one passes the conditioning guard)."""
    wmin = max(WN_LO, 130.0 / n)
    for attempt in range(40):
        h = _hh(gen.run_seed(), "design", tag, n, attempt)
        order = 1 + h % 4
        kind = ("low", "high", "band", "band")[(h >> 3) % 4]
        u1 = ((h >> 8) % 10 ** 6) / 1e6
        u2 = ((h >> 30) % 10 ** 6) / 1e6
        w1 = wmin * (min(0.45, 25.0 * wmin) / wmin) ** u1
        dt = _MID_DTS[(h >> 5) % 4]
        nyq = 0.5 / dt
        if kind == "low":
            wn = (None, w1)
        elif kind == "high":
            wn = (w1, None)
        else:
            wn = (w1, min(WN_HI, w1 * MIN_RATIO * (40.0 / MIN_RATIO) ** u2))
            if wn[1] < MIN_RATIO * w1:
                continue
        cut = [None if w is None else w * nyq for w in wn]
        cond = conditioning(order, cut, dt)
        if cond["ok"] and cond["rmax"] < 1.0 and 3.0 * _settle(cond) + 8 < n:
            return order, cut, dt
    raise HarnessError("no well-conditioned design found for n=%d" % n)


def _settle(cond):
    """Samples after which an edge transient of the forward-backward filter has decayed to 1e-14 (slowest pole), times 1.5 for the
    polynomial prefactor of the repeated poles."""
    return int(math.ceil(1.5 * math.log(1e-14) / math.log(cond["rmax"])))


def _mid_butter_enum(tier, shard, nshards):
    sizes = _mid_sizes(tier, 2000, 300000, 2000000, 13, "c17-butter")
    i = 0
    for n in sizes:
        for rep in range(2 if tier == "quick" else 1):
            h = _hh(gen.run_seed(), "mb", n, rep)
            if i % nshards == shard:
                order, cut, dt = _mid_design(n, "mb%d" % rep)
                yield {"n": int(n), "order": order, "cut": cut, "dt": dt, "gibbs": GIBBS[(i + rep) % 4], "extra": [1, None, 2][h % 3],
                       "grange": GRANGES[(h >> 4) % len(GRANGES)], "recv": ["Signal", "AccSignal"][(h >> 8) % 2],
                       "container": CONTAINERS[(h >> 10) % 3], "phase": ((h >> 12) % 6283) / 1000.0,
                       "gains": [0.9 + 0.099 * ((h >> 20) % 1000) / 1000.0, 0.05 + 0.8 * ((h >> 30) % 1000) / 1000.0,
                                 10.0 ** (-6 + 4 * ((h >> 40) % 1000) / 1000.0)],
                       "upper": [bool((h >> 50) & 1), bool((h >> 51) & 1), bool((h >> 52) & 1)],
                       "rx": _mid_spec(n, "mbx%d" % rep), "ry": _mid_spec(n, "mby%d" % rep, as_=[None, "int", "list"][(h >> 54) % 3]),
                       "alpha": 1.0 + ((h >> 14) % 1000) / 250.0, "beta": -0.5 - ((h >> 24) % 1000) / 500.0}
            i += 1


@enum_clause(CLAUSES, "mid-range-butter", _mid_butter_enum,
             rule="record lengths on a logarithmic ladder 2000..300000 (thorough: ..2e6, three times as dense) + lengths aimed at the "
                  "integer literals of the source under test; per length two well-conditioned designs (order, type, cut-offs, dt by hash; "
                  "lowest cut-off period <= n/65), remove_gibbs rotating through {None,start,end,mid}, gibbs_extra in {omitted,1,2}, "
                  "gibbs_range in {omitted,1,7,50,200,1e5}, Signal / AccSignal, cut-offs as list / tuple / ndarray",
             oracle="reference model: three sinusoids (pass / transition / stop band) of exactly n samples: filtered == g(f) x on ALL samples "
                    "further than 1.5 ln(1e-14)/ln(r_max) from both ends (tolerance as butter-gain with the transient term 1e-14); "
                    "metamorphic on the WHOLE output: filter(alpha x + beta y) == alpha filter(x) + beta filter(y) for an ordinary record "
                    "x and a second one (float64 / int64 / list), 16 eps (kappa+4) scale; length, npts, dt preserved",
             exhaustive_note="the laddered lengths of this seed", quick_shards=4)
def mid_range_butter(case, ctx):
    n, order, cut, dt = case["n"], case["order"], case["cut"], case["dt"]
    gibbs, extra, grange, recv = case["gibbs"], case["extra"], case["grange"], case["recv"]
    if not _design_in_domain(order, cut, dt):
        raise ValueError("case outside the domain of clause mid-range-butter")
    cond = conditioning(order, cut, dt)
    if not cond["ok"]:
        raise ValueError("case outside the domain of clause mid-range-butter (design not well conditioned)")
    _design_classes(ctx, order, cut, dt)
    ctx.cls("gibbs=%s" % gibbs, "recv=" + recv, "n>=2^%d" % int(math.log2(n)))
    ctx.nt()
    kwargs = _butter_kwargs(order, gibbs, extra, "kw", grange)
    cut_arg = _cut_arg(cut, case["container"])
    nyq = 0.5 / dt
    m = min(n // 3, _settle(cond))
    tol_gain = min(GAIN_TOL, GAIN_FLOOR + GAIN_FACTOR * (U * cond["kappa"] + (1e-14 if m < n // 3 else cond["rmax"] ** m)))
    i = np.arange(n, dtype=float)
    for g_t, upper in zip(case["gains"], case["upper"]):
        f = float(min(_freq_for_gain(order, cut, dt, g_t, upper), F_MAX * nyq))
        g = analytic_gain(order, cut, f, dt)
        x = np.sin((2.0 * math.pi * f * dt) * i + case["phase"])
        y = _filtered(ctx, x, dt, cut_arg, kwargs, recv=recv)
        ctx.finite(y, "filtered sinusoid")
        ctx.close(y[m:n - m], g * x[m:n - m], tol_gain,
                  "filtered sinusoid vs g(f)*x on samples %d..%d of %d (g=%.6g, order %d, cut-offs %r Hz, f=%r Hz, dt=%r, remove_gibbs=%r, "
                  "gibbs_extra=%r, gibbs_range=%r)" % (m, n - m - 1, n, g, order, cut, f, dt, gibbs, extra, grange))
    ax = _container(case["rx"], _build(case["rx"]))
    ay = _container(case["ry"], _build(case["ry"]))
    x, y = np.array(ax, dtype=float), np.array(ay, dtype=float)
    al, be = case["alpha"], case["beta"]
    fx = _filtered(ctx, ax, dt, cut_arg, kwargs, recv=recv)
    fy = _filtered(ctx, ay, dt, cut_arg, kwargs, recv=recv)
    fc = _filtered(ctx, al * x + be * y, dt, cut_arg, kwargs, recv=recv)
    scale = abs(al) * float(np.max(np.abs(x))) + abs(be) * float(np.max(np.abs(y)))
    ctx.finite(fc, "filtered combination")
    ctx.close(fc, al * fx + be * fy, 16 * EPS * (cond["kappa"] + 4) * scale,
              "filter(alpha x + beta y) vs alpha filter(x) + beta filter(y) (n=%d, order %d, cut-offs %r Hz, dt=%r, remove_gibbs=%r)" % (
                  n, order, cut, dt, gibbs))


def _mid_options_enum(tier, shard, nshards):
    import itertools
    i = 0
    for order, kind, gibbs, extra, grange, cont, recv in itertools.product(
            (1, 2, 3, 4), ("low", "high", "band"), GIBBS, (None, 1, 2), (None, 7, 100000), CONTAINERS, ("Signal", "AccSignal")):
        if gibbs is None and (extra is not None or grange is not None):
            continue  # without padding the two padding options are not read
        h = _hh(gen.run_seed(), "opt", i)
        # quick tier: every other combination (which half alternates with the seed); thorough: all of them
        if i % nshards == shard and (tier != "quick" or (h >> 3) % 2 == gen.run_seed() % 2):
            u1, u2 = ((h >> 8) % 10 ** 6) / 1e6, ((h >> 30) % 10 ** 6) / 1e6
            w1 = 0.1 * (4.0 ** u1)
            wn = (None, w1) if kind == "low" else ((w1, None) if kind == "high" else (w1, min(WN_HI, w1 * 1.5 * 4.0 ** u2)))
            dt = _MID_DTS[h % 4]
            yield {"order": order, "cut": [None if w is None else w * 0.5 / dt for w in wn], "dt": dt, "gibbs": gibbs, "extra": extra,
                   "grange": grange, "container": cont, "recv": recv, "n": 1300 + (h >> 12) % 3000, "phase": ((h >> 24) % 6283) / 1000.0,
                   "g": 0.2 + 0.6 * ((h >> 40) % 1000) / 1000.0, "upper": bool((h >> 52) & 1), "seed": int(h % (2 ** 31 - 1))}
        i += 1


@enum_clause(CLAUSES, "mid-range-options", _mid_options_enum,
             rule="butter_pass over the FULL cross product of its options: order 1..4 x type {low, high, band} x remove_gibbs "
                  "{None,start,end,mid} x gibbs_extra {omitted,1,2} x gibbs_range {omitted,7,1e5} x cut-off container {list,tuple,ndarray} x "
                  "receiver {Signal, AccSignal}; cut-offs 0.1..0.4 of Nyquist by hash, records of 1300..4300 samples",
             oracle="reference model: a transition-band sinusoid: middle third == g(f) x (tolerance as butter-gain: a time shift or a wrong "
                    "order shows here); metamorphic on the whole output: linearity against a noise record; length, npts, dt preserved",
             exhaustive_note="every combination of the listed option values (quick tier: a hash-chosen half, the other half at the next seed)",
             quick_shards=4)
def mid_range_options(case, ctx):
    order, cut, dt, n = case["order"], case["cut"], case["dt"], case["n"]
    gibbs, extra, grange, recv = case["gibbs"], case["extra"], case["grange"], case["recv"]
    if not _design_in_domain(order, cut, dt):
        raise ValueError("case outside the domain of clause mid-range-options")
    cond = conditioning(order, cut, dt)
    if not cond["ok"]:
        raise ValueError("case outside the domain of clause mid-range-options (design not well conditioned)")
    ctx.cls("order=%d" % order, "type=" + _ftype(cut), "gibbs=%s" % gibbs, "extra=%s" % extra, "grange=%s" % grange, "recv=" + recv)
    ctx.nt()
    kwargs = _butter_kwargs(order, gibbs, extra, "kw", grange)
    cut_arg = _cut_arg(cut, case["container"])
    f = float(min(_freq_for_gain(order, cut, dt, case["g"], case["upper"]), F_MAX * 0.5 / dt))
    g = analytic_gain(order, cut, f, dt)
    x = np.sin((2.0 * math.pi * f * dt) * np.arange(n, dtype=float) + case["phase"])
    fx = _filtered(ctx, x, dt, cut_arg, kwargs, recv=recv)
    lo, hi = n // 3, (2 * n) // 3
    ctx.close(fx[lo:hi], g * x[lo:hi], _gain_tol(cond, lo, 1),
              "middle third of the filtered sinusoid vs g(f)*x (g=%.6g, order %d, cut-offs %r Hz, f=%r Hz, dt=%r, remove_gibbs=%r, "
              "gibbs_extra=%r, gibbs_range=%r, %s, cut-offs as %s)" % (g, order, cut, f, dt, gibbs, extra, grange, recv, case["container"]))
    y = np.random.RandomState(case["seed"]).standard_normal(n) + 0.3
    fy = _filtered(ctx, y, dt, cut_arg, kwargs, recv=recv)
    fc = _filtered(ctx, 0.75 * x - 1.5 * y, dt, cut_arg, kwargs, recv=recv)
    scale = 0.75 + 1.5 * float(np.max(np.abs(y)))
    ctx.close(fc, 0.75 * fx - 1.5 * fy, 16 * EPS * (cond["kappa"] + 4) * scale,
              "filter(0.75 x - 1.5 y) vs 0.75 filter(x) - 1.5 filter(y) (order %d, cut-offs %r Hz, remove_gibbs=%r, gibbs_extra=%r, "
              "gibbs_range=%r)" % (order, cut, gibbs, extra, grange))


def _mid_detrend_enum(tier, shard, nshards):
    sizes = _mid_sizes(tier, 2000, 300000, 1500000, 12, "c17-detrend")
    i = 0
    for j, n in enumerate(sizes):
        ks = sorted({(j + gen.run_seed()) % 5, (j + gen.run_seed() + 2) % 5}) if tier == "quick" else [0, 1, 2, 3, 4]
        for k in ks:
            h = _hh(gen.run_seed(), "md", n, k)
            if i % nshards == shard:
                as_ = [None, "int16", "int", "list", "view", None][(h >> 4) % 6] if n <= 400000 else None
                rs = np.random.RandomState(int(h % (2 ** 31 - 1)))
                sec = [None, int(1 + (h >> 20) % n), -int(1 + (h >> 20) % (n - 1)), int(n)][(h >> 12) % 4]
                yield {"rec": _mid_spec(n, "md%d" % k, as_=as_, amp=(2 if as_ == "int" else 0)), "k": k, "dt": _MID_DTS[h % 4],
                       "coef": [float(c) for c in rs.uniform(-100, 100, k + 1)],
                       "form": ["kw", "pos", "default" if k == 0 else "kw"][(h >> 8) % 3], "section": sec,
                       "recv": ["Signal", "AccSignal"][(h >> 16) % 2]}
            i += 1


@enum_clause(CLAUSES, "mid-range-detrend", _mid_detrend_enum,
             rule="record lengths on a logarithmic ladder 2000..300000 (thorough: ..1.5e6, denser) + lengths aimed at the integer literals "
                  "of the source; two degrees per length in the quick tier (rotating, all five over the ladder), all five in the thorough "
                  "tier; ordinary records (noise x envelope / sines / walk, with offset and drift) as float64 / int64 / list / strided view; "
                  "keyword / positional / default call, Signal / AccSignal; remove_average with default / positive / negative / full section",
             oracle="as clause detrend, on the whole output (orthonormal polynomial basis by QR on the n-point grid)",
             exhaustive_note="the laddered lengths of this seed", quick_shards=4)
def mid_range_detrend(case, ctx):
    detrend(case, ctx)


def _mid_add_enum(tier, shard, nshards):
    sizes = _mid_sizes(tier, 2000, 300000, 2000000, 10, "c17-add")
    i = 0
    for n in sizes:
        for op in ("constant", "series", "signal", "series-bad", "signal-bad"):
            h = _hh(gen.run_seed(), "ma", n, op)
            if i % nshards == shard:
                as_ = [None, "int16", "int", "list", "intlist", "int32"][(h >> 4) % 6] if n <= 400000 else None
                case = {"rec": _mid_spec(n, "ma" + op, as_=as_, amp=(2 if as_ in ("int", "intlist") else 0)), "dt": _MID_DTS[h % 4],
                        "op": op.split("-")[0], "self": ["Signal", "AccSignal"][(h >> 8) % 2]}
                if op == "constant":
                    case["c"] = [0.37, -1234.5, 7][(h >> 12) % 3] if as_ not in NARROW else int(np.iinfo(as_).max * 5 // 8)
                else:
                    case["other"] = _mid_spec(n, "mao" + op)
                    case["dlen"] = 0 if not op.endswith("bad") or (op == "signal-bad" and (h >> 20) % 2) else [-1, 1, -n // 2][(h >> 12) % 3]
                    if case["op"] == "series":
                        case["as"] = ["ndarray", "list", "tuple"][(h >> 16) % 3]
                    else:
                        case["cls"] = ["Signal", "AccSignal"][(h >> 16) % 2]
                        case["non"] = None
                        case["dtf"] = 1.0
                        if op == "signal-bad" and case["dlen"] == 0:
                            case["dtf"] = 1.0 + [1.0, -1.0][(h >> 24) % 2] * 10.0 ** (-12 + 9 * ((h >> 28) % 1000) / 1000.0)
                yield case
            i += 1


@enum_clause(CLAUSES, "mid-range-add", _mid_add_enum,
             rule="record lengths on a logarithmic ladder 2000..300000 (thorough: ..2e6, denser) + lengths aimed at the integer literals of "
                  "the source; per length add_constant, add_series, add_signal and one rejected add_series (length off by -1 / +1 / half) "
                  "and add_signal (wrong length or a time step off by 1e-12..1e-3); float64 / int64 / list records, Signal / AccSignal",
             oracle="as clause add: element-wise sums over the WHOLE record (==); rejections raise and leave the signal unchanged",
             exhaustive_note="the laddered lengths of this seed", quick_shards=4)
def mid_range_add(case, ctx):
    add(case, ctx)


def _mid_avg_enum(tier, shard, nshards):
    sizes = _mid_sizes(tier, 2000, 200000, 600000, 11, "c17-avg")
    i = 0
    for n in sizes:
        h = _hh(gen.run_seed(), "mv", n)
        if i % nshards == shard:
            w = 1 + (h >> 4) % 25
            if w == 1:
                w = 3
            as_ = [None, "int16", "int", "intlist", "view", "int32"][(h >> 12) % 6] if n <= 100000 else None
            yield {"rec": _mid_spec(n, "mv", as_=as_, amp=(2 if as_ in ("int", "intlist") else 0)), "dt": _MID_DTS[h % 4], "w": int(w),
                   "form": ["kw", "pos"][(h >> 20) % 2], "self": ["Signal", "AccSignal"][(h >> 24) % 2]}
        i += 1


@enum_clause(CLAUSES, "mid-range-average", _mid_avg_enum,
             rule="record lengths on a logarithmic ladder 2000..200000 (thorough: ..600000, denser) + lengths aimed at the integer literals "
                  "of the source; width 2..25 by hash; float64 / int64 / int-list / strided records, Signal / AccSignal",
             oracle="as clause running-average, every sample (long-double prefix sums)",
             exhaustive_note="the laddered lengths of this seed", quick_shards=4)
def mid_range_average(case, ctx):
    running_average(case, ctx)


def _mid_history_enum(tier, shard, nshards):
    sizes = gen.ladder(3000, 120000, 6, "c17-hist") if tier == "quick" else gen.size_ladder(3000, 400000, 14, "c17-hist:t")
    for i, n in enumerate(sizes):
        if i % nshards != shard:
            continue
        h = _hh(gen.run_seed(), "mh", n)
        o1, c1, d1 = _mid_design(n, "mh1")
        o2, c2, d2 = _mid_design(n, "mh2")
        ops = [["add_constant", 0.61], ["butter", o1, c1, GIBBS[(h >> 4) % 4]], ["add_series", 1], ["running_average", 2 + (h >> 8) % 24],
               ["remove_poly", (h >> 14) % 5], ["butter", o2, [c * d2 / d1 if c is not None else None for c in c2], GIBBS[(h >> 18) % 4]],
               ["add_signal", 2], ["remove_average"], ["butter", o1, c1, GIBBS[(h >> 4) % 4]], ["remove_poly", (h >> 22) % 5],
               ["running_average", 3 + (h >> 26) % 20]]
        # rotate the chain so that different lengths start with different operations
        r = (h >> 32) % len(ops)
        yield {"n": int(n), "dt": d1, "rec": _mid_spec(n, "mh"), "recv": ["Signal", "AccSignal"][(h >> 40) % 2], "ops": ops[r:] + ops[:r]}


@enum_clause(CLAUSES, "mid-range-history", _mid_history_enum,
             rule="ONE object (Signal / AccSignal) of 3000..120000 samples (thorough: ..400000) taken through a chain of eleven operations "
                  "(add_constant, butter_pass x3 with two designs and two Gibbs modes, add_series, running_average x2, remove_poly x2, "
                  "add_signal, remove_average), the chain rotated by hash",
             oracle="after every step the values are compared with that operation's reference applied to the values before it: element-wise "
                    "sum (==), long-double running mean, x - P_k x (orthonormal basis, 1e-8 max|x|), one constant removed, and for butter_pass "
                    "the same call on a FRESH object holding the same values (8 eps (kappa+4) max|x|: what an object did before is no input)",
             exhaustive_note="the laddered lengths of this seed", quick_shards=4)
def mid_range_history(case, ctx):
    n, dt = case["n"], case["dt"]
    recv = case.get("recv", "Signal")
    make = eqsig.AccSignal if recv == "AccSignal" else eqsig.Signal
    x0 = _build(case["rec"])
    s = ctx.lib(make, x0.copy(), dt)
    ctx.cls("recv=" + recv, "n>=2^%d" % int(math.log2(n)))
    ctx.nt()
    cur = np.array(s.values, dtype=float)
    for step, op in enumerate(case["ops"]):
        name = op[0]
        what = "step %d (%s) of the history on one %s of %d samples" % (step, name, recv, n)
        scale = float(np.max(np.abs(cur)))
        if name == "add_constant":
            ctx.lib(s.add_constant, op[1])
            expect, tol = cur + op[1], 0.0
        elif name in ("add_series", "add_signal"):
            o = _build(_mid_spec(n, "mh-o%d" % op[1]))
            if name == "add_series":
                ctx.lib(s.add_series, o.copy())
            else:
                ctx.lib(s.add_signal, make(o.copy(), dt))
            expect, tol = cur + o, 0.0
        elif name == "running_average":
            ctx.lib(s.running_average, width=op[1])
            expect, tol = _avg_reference(cur, op[1] // 2)
        elif name == "remove_poly":
            ctx.lib(s.remove_poly, poly_fit=op[1])
            expect, tol = cur - _project(_poly_basis(n, op[1]), cur), 1e-8 * scale
        elif name == "remove_average":
            ctx.lib(s.remove_average)
            out = np.asarray(s.values, dtype=float)
            d = (cur - out).astype(LD)
            ctx.close(d, np.full(n, d[0]), 4 * EPS * (np.abs(cur) + np.abs(out)), what + ": the removed part is not one constant")
            m_all, m_sec = float(np.mean(cur.astype(LD))), float(np.mean(cur[:-1].astype(LD)))
            ctx.check(min(abs(float(d[0]) - m_all), abs(float(d[0]) - m_sec)) <= (n + 8) * EPS * scale,
                      what + ": removed constant %r is neither the mean of the record %r nor of values[:-1] %r" % (float(d[0]), m_all, m_sec))
            cur = out
            continue
        else:
            order, cut, gibbs = op[1], op[2], op[3]
            cond = conditioning(order, cut, dt)
            ctx.lib(s.butter_pass, cut, filter_order=order, remove_gibbs=gibbs)
            fresh = ctx.lib(make, cur.copy(), dt)
            ctx.lib(fresh.butter_pass, cut, filter_order=order, remove_gibbs=gibbs)
            expect, tol = np.asarray(fresh.values, dtype=float), 8 * EPS * (cond["kappa"] + 4) * scale
        out = np.asarray(s.values)
        ctx.shape(out, (n,), what)
        ctx.check(s.npts == n and s.dt == dt, what + ": npts / dt changed: %r, %r" % (s.npts, s.dt))
        if np.ndim(tol) == 0 and tol == 0.0:
            ctx.equal(out, expect, what)
        else:
            ctx.close(out, expect, tol, what)
        cur = np.array(out, dtype=float)
