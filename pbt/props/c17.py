"""C17 - Butterworth filtering is zero-phase with the analytic gain; detrending is exact; add_*; running average."""
import functools
import math

import numpy as np
from hypothesis import strategies as st
from scipy.signal import butter

import eqsig
from eqsig import exceptions as eq_exc
from eqsig.fns import generic as fns_generic

from pbt import gen
from pbt.core import clause, enum_clause, HarnessError

PROPERTY = "C17"
CLAUSES = []
ASSUMPTIONS = [
    "Butterworth domain: cut-offs between 0.002 and 0.8 of the Nyquist frequency, band ratio f_hi/f_lo >= 1.5, orders 1..4, "
    "dt in [1e-4, 1]; records longer than scipy's default filtfilt edge padding 3*(2*order+1) (shorter ones are rejected by "
    "scipy itself)",
    "'away from the ends of a record much longer than the longest cut-off period': the sinusoid record holds 60..90 periods of "
    "the lowest cut-off (>= 150 samples) and the middle third is compared; tolerance, relative to the sinusoid amplitude: "
    "min(2e-3, 1e-8 + 40*(u*kappa + r_max^(n/3))) with kappa the conditioning of the (b, a) denominator (rounding of the coefficients, "
    "first-order bound) and r_max the largest pole radius of the design (what is left of the edge transients n/3 samples into the "
    "record); measured on the pinned tree over 8000 designs: error <= 4.04*(u*kappa + r_max^(n/3)); 90 % of the designs are checked "
    "to better than 1e-6 (the first version used the flat 2e-3 for every design and let a 2e-4 gain error through)",
    "sinusoid frequencies: 0 < f <= 0.99 of Nyquist, placed by inverting the analytic gain at a drawn target gain in the pass "
    "(g >= 0.9), transition or stop (g <= 0.01, target >= 1e-6) band; the class is decided from the gain at the frequency actually used",
    "conditioning guard (known finding C17-KF1): a design counts as well conditioned when (A) the roots (numpy.roots) of scipy's "
    "(b, a) denominator reproduce every designed pole p (butter(..., output='zpk')) to within 1e-3*(1-|p|) [DESIGN 3/C17] and "
    "(B) u*sum|a_k| / min_w |prod_k (e^{jw} - p_k)| <= 2.5e-4, u = 2^-53 [added: first-order bound on the relative gain error caused "
    "by rounding the denominator coefficients; (A) alone samples one realisation of the rounding noise and let through designs "
    "with a gain error of 6e-3]; designs failing the guard (band-pass only: order 3 with f_lo/f_Nyq < 0.008 and "
    "ratio <= 5, order 4 with f_lo/f_Nyq < 0.027 and ratio <= 30; never low / high pass or orders 1-2 inside the domain) are "
    "checked for length, npts and dt only while C17-KF1 is open (scipy's own 'Filter not stable' ValueError is tolerated there) "
    "and against the full statement in strict mode",
    "linearity tolerance 16*eps*(kappa+4)*scale with kappa = sum|a_k|/min_w|A(e^{jw})| of the design and scale = "
    "|alpha|*max|x| + |beta|*max|y|: rounding errors of relative size eps injected per sample are amplified by at most the "
    "peak gain of 1/A; measured worst case 2*eps*kappa*scale (DESIGN's flat 1e-9*scale is exceeded by rounding alone, up to "
    "2e-7*scale, for well-conditioned order-4 band-pass designs near the guard)",
    "linearity records: float64, equal length 32..3000, |alpha|, |beta| in [1e-3, 1e3] or powers of two; gibbs_range is left at "
    "its default 50",
    "cut-offs 'as array' for low / high pass are object arrays [None, f] / [f, None] (the only way to spell a missing cut-off in an ndarray)",
    "detrending: n >= k+4, k in 0..4, tolerance 1e-8 of max|record| (1e-8 of max(|record|, |added polynomial|) for the invariance "
    "law); 'polynomial' means polynomial in the sample index; best fit = least squares over all samples (orthonormal Legendre "
    "basis on the sample grid, QR); remove_average(section): section is the default -1, a positive count 1..n or a negative "
    "offset -(n-1)..-1 (values[:section] non-empty)",
    "add_*: element-wise sums are compared for equality with Python float/int additions (same IEEE operation); a time step is "
    "'mismatched' when it differs by a factor outside [0.999, 1.001] (no claim about differences of a few ulps); rejected calls "
    "must raise SignalProcessingError and leave the signal unchanged; non-Signal arguments: None, ndarray, list, float, dict, an "
    "object with .values and .dt that is not a Signal",
    "running average: float64 records (an integer-dtype record cannot hold the averages), n >= 2, integer widths 1..25; "
    "'within floor(w/2) positions' is clipped to the record; tolerance 1e-12*max|record| (mean of <= 26 terms: <= 26*eps*max|record|)",
]
EPS = np.finfo(float).eps
U = EPS / 2
LD = np.longdouble

GAIN_TOL = 2e-3        # cap
GAIN_FLOOR = 1e-8
GAIN_FACTOR = 40.0     # observed max of error / (u*kappa + rmax^lo) over 8000 designs on the pinned tree: 4.04
GUARD_POLE = 1e-3      # DESIGN: |root - p| <= 1e-3 * (1 - |p|)
GUARD_KAPPA = 2.5e-4   # added: u * kappa
WN_LO, WN_HI, MIN_RATIO = 0.002, 0.8, 1.5
F_MAX = 0.99           # of Nyquist
GIBBS = [None, "start", "end", "mid"]
_WN_BUCKETS = [(0.002, 0.006), (0.006, 0.02), (0.02, 0.07), (0.07, 0.25), (0.25, 0.8)]  # equal shares (Hypothesis favours the low end of a range)
CONTAINERS = ["list", "tuple", "ndarray"]


# ---------------------------------------------------------------------------
# reference: analytic gain, conditioning of the (b, a) design


def _ftype(cut):
    if cut[0] is not None and cut[1] is not None:
        return "band"
    return "low" if cut[0] is None else "high"


def analytic_gain(order, cut, f, dt):
    """Squared magnitude |H(f)|^2 of the digital (bilinear transform, cut-offs pre-warped) Butterworth filter; this is the gain
    of the forward-backward (zero-phase) application."""
    t = math.tan(math.pi * f * dt)
    n2 = 2 * order
    kind = _ftype(cut)
    if kind == "low":
        return 1.0 / (1.0 + (t / math.tan(math.pi * cut[1] * dt)) ** n2)
    if kind == "high":
        return 1.0 / (1.0 + (math.tan(math.pi * cut[0] * dt) / t) ** n2)
    t1 = math.tan(math.pi * cut[0] * dt)
    t2 = math.tan(math.pi * cut[1] * dt)
    return 1.0 / (1.0 + ((t * t - t1 * t2) / (t * (t2 - t1))) ** n2)


def _freq_for_gain(order, cut, dt, g, upper):
    """Generator side: frequency (Hz) at which the analytic gain equals g (upper / lower side of a band)."""
    q = (1.0 / g - 1.0) ** (1.0 / (2 * order))
    kind = _ftype(cut)
    if kind == "low":
        t = math.tan(math.pi * cut[1] * dt) * q
    elif kind == "high":
        t = math.tan(math.pi * cut[0] * dt) / max(q, 1e-300)
    else:
        t1 = math.tan(math.pi * cut[0] * dt)
        t2 = math.tan(math.pi * cut[1] * dt)
        bw = t2 - t1
        s = q * bw
        root = math.sqrt(s * s + 4.0 * t1 * t2)
        t = 0.5 * (s + root) if upper else 2.0 * t1 * t2 / (s + root)  # the two positive solutions of t^2 -+ s t - t1 t2 = 0
    return math.atan(t) / (math.pi * dt)


def _wn(cut, dt):
    nyq = 0.5 / dt
    return tuple(None if c is None else float(c) / nyq for c in cut)


@functools.lru_cache(maxsize=4096)
def _conditioning_wn(order, wn):
    kind = _ftype(wn)
    w = wn[1] if kind == "low" else (wn[0] if kind == "high" else np.array(wn, dtype=float))
    _b, a = butter(order, w, btype=kind)
    _z, p, _k = butter(order, w, btype=kind, output="zpk")
    p = np.asarray(p, dtype=complex)
    margin = 1.0 - np.abs(p)
    # (A) DESIGN guard: roots of the denominator reproduce every designed pole
    roots = np.roots(a)
    if len(roots) != len(p) or not np.all(np.isfinite(roots)):
        pole_disp = float("inf")
    else:
        pole_disp = float(max(np.min(np.abs(roots - pk)) / mk for pk, mk in zip(p, margin)))
    # (B) first-order sensitivity of A(e^{jw}) = prod (e^{jw} - p_k) to coefficient rounding
    th = np.abs(np.angle(p))
    local = (th[:, None] + margin[:, None] * np.linspace(-4.0, 4.0, 33)[None, :]).ravel()
    om = np.concatenate([np.linspace(0.0, math.pi, 2049), np.clip(local, 0.0, math.pi)])
    ez = np.exp(1j * om)
    amag = np.ones(len(om))
    for pk in p:
        amag = amag * np.abs(ez - pk)
    kappa = float(np.sum(np.abs(a)) / np.min(amag))
    ok = bool(pole_disp <= GUARD_POLE and U * kappa <= GUARD_KAPPA)
    return {"ok": ok, "pole_disp": pole_disp, "kappa": kappa, "rmax": float(np.max(np.abs(p)))}


def conditioning(order, cut, dt):
    return _conditioning_wn(int(order), _wn(cut, dt))


def _validate_reference():
    """Oracle guard: the closed-form gain must agree with the designed zeros / poles evaluated on the unit circle."""
    dt = 0.01
    nyq = 0.5 / dt
    for order in (1, 2, 3, 4):
        for wn in ((None, 0.3), (0.05, None), (0.02, 0.4), (0.3, 0.8), (None, 0.002), (0.002, None)):
            kind = _ftype(wn)
            w = wn[1] if kind == "low" else (wn[0] if kind == "high" else np.array(wn))
            z, p, k = butter(order, w, btype=kind, output="zpk")
            cut = [None if c is None else c * nyq for c in wn]
            for fr in (0.001, 0.0021, 0.03, 0.2, 0.31, 0.5, 0.79, 0.95):
                e = np.exp(1j * math.pi * fr)
                h2 = abs(k * np.prod(e - z) / np.prod(e - p)) ** 2
                g = analytic_gain(order, cut, fr * nyq, dt)
                if not abs(h2 - g) <= 1e-7 * max(g, 1e-12) + 1e-15:
                    raise HarnessError("analytic Butterworth gain fails its zpk validation: order=%d wn=%r f/fNyq=%r: %r vs %r" % (
                        order, wn, fr, g, h2))


_validate_reference()


def _cut_arg(cut, container):
    """The cut-off pair in the requested container."""
    if container == "list":
        return list(cut)
    if container == "tuple":
        return tuple(cut)
    if cut[0] is None or cut[1] is None:
        return np.array(list(cut), dtype=object)
    return np.array(cut, dtype=float)


def _butter_kwargs(order, gibbs, extra, call="kw"):
    if call in ("defaults", "default-cut"):  # order 4, no Gibbs padding: the documented defaults
        return {}
    kw = {"filter_order": order}
    if gibbs is not None:
        kw["remove_gibbs"] = gibbs
        kw["gibbs_extra"] = extra
    elif call == "kw-none":
        kw["remove_gibbs"] = None
    return kw


# ---------------------------------------------------------------------------
# designs


@st.composite
def _designs(draw, risky_share=12):
    """(order, cut [Hz], dt): normalised cut-offs log-uniform on [0.002, 0.8] + the end points; one in `risky_share` designs is
    an order-3/4 band-pass with a very low lower cut-off (the region of known finding C17-KF1)."""
    dt = draw(gen.dts(1e-4, 1.0))
    nyq = 0.5 / dt
    edge = st.sampled_from(_WN_BUCKETS + [None]).flatmap(
        lambda bk: st.sampled_from([WN_LO, WN_HI, 0.01, 0.1]) if bk is None else gen.log_uniform(bk[0], bk[1]))
    if draw(st.integers(0, risky_share - 1)) == risky_share // 2:  # (Hypothesis over-samples the end points of an integer range)
        order = draw(st.sampled_from([3, 4]))
        w1 = draw(gen.log_uniform(WN_LO, 0.012))
        w2 = w1 * draw(gen.log_uniform(MIN_RATIO, 6.0))
        wn = [w1, w2]
    else:
        order = draw(st.integers(1, 4))
        kind = draw(st.sampled_from(["low", "high", "band"]))
        if kind == "low":
            wn = [None, draw(edge)]
        elif kind == "high":
            wn = [draw(edge), None]
        else:
            w1 = min(draw(edge), WN_HI / MIN_RATIO)
            w2 = min(WN_HI, w1 * draw(gen.log_uniform(MIN_RATIO, max(MIN_RATIO, WN_HI / w1))))
            wn = [w1, w2]
    cut = [None if w is None else w * nyq for w in wn]
    return order, cut, dt


def _design_in_domain(order, cut, dt):
    wn = [w for w in _wn(cut, dt) if w is not None]
    return bool(order in (1, 2, 3, 4) and len(cut) == 2 and 1 <= len(wn) <= 2
                and all(WN_LO * (1 - 1e-9) <= w <= WN_HI * (1 + 1e-9) for w in wn)
                and (len(wn) == 1 or wn[1] >= MIN_RATIO * wn[0] * (1 - 1e-9)))


def _design_classes(ctx, order, cut, dt):
    kind = _ftype(cut)
    ctx.cls("type=" + kind, "order=%d" % order)
    lo = min(w for w in _wn(cut, dt) if w is not None)
    ctx.cls("wn_lo<0.01" if lo < 0.01 else ("wn_lo<0.1" if lo < 0.1 else "wn_lo>=0.1"))


def _filtered(ctx, values, dt, cut_arg, kwargs, no_cut=False, relaxed=False):
    """Filter a copy of `values` through Signal.butter_pass; asserts length / npts / dt.  relaxed (known finding C17-KF1 only):
    scipy refusing the ill-conditioned (b, a) design ('Filter not stable due to sum(a) == 0') is part of the finding -> None."""
    s = ctx.lib(eqsig.Signal, values, dt)
    args = () if no_cut else (cut_arg,)
    if relaxed:
        try:
            s.butter_pass(*args, **kwargs)
        except ValueError:
            ctx.cls("guarded-raises")
            return None
        except Exception as e:  # noqa
            ctx.fail("butter_pass raised %s: %s" % (type(e).__name__, str(e)[:200]))
    else:
        ctx.lib(s.butter_pass, *args, **kwargs)
    out = np.asarray(s.values)
    ctx.shape(out, (len(values),), "filtered values")
    ctx.check(s.npts == len(values), "npts %r after filtering a record of %d samples" % (s.npts, len(values)))
    ctx.check(s.dt == dt, "dt changed by filtering: %r -> %r" % (dt, s.dt))
    return out


# ---------------------------------------------------------------------------
# clause 1: analytic gain, zero phase


@st.composite
def _gain_cases(draw):
    fam = draw(st.integers(0, 19))
    if fam in (7, 13):
        # the documented default call butter_pass() = band (0.1, 15) Hz, order 4
        dt = draw(st.sampled_from([0.01, 0.02, 0.025]))
        order, cut, call = 4, [0.1, 15], "default-cut"
    else:
        order, cut, dt = draw(_designs())
        call = "kw"
    gibbs = draw(st.sampled_from(GIBBS))
    if call == "default-cut":
        gibbs = None
    elif order == 4 and gibbs is None and draw(st.booleans()):
        call = "defaults"
    elif gibbs is None and draw(st.booleans()):
        call = "kw-none"
    nyq = 0.5 / dt
    fs = []
    for band in ("pass", "transition", "stop"):  # one sinusoid per band in every case
        if band == "pass":
            g = draw(st.one_of(st.floats(0.9, 0.999), st.sampled_from([0.999999, 0.99])))
        elif band == "transition":
            g = draw(st.one_of(st.floats(0.011, 0.899), st.just(0.5)))
        else:
            g = draw(gen.log_uniform(1e-6, 0.0099))
        f = _freq_for_gain(order, cut, dt, g, draw(st.booleans()))
        fs.append(float(min(f, F_MAX * nyq)))
    case = {"order": order, "cut": cut, "dt": dt, "fs": fs, "phase": draw(st.floats(0.0, 6.2831, allow_nan=False)),
            "amp": draw(st.sampled_from([0, 0, -3, 3])), "gibbs": gibbs, "extra": draw(st.sampled_from([1, 2])),
            "periods": draw(st.integers(60, 90)), "container": draw(st.sampled_from(CONTAINERS)), "call": call}
    if fam in (3, 9, 16, 18):
        # ambient process state + history: the call is made under a non-default numpy print state, after the same kind of
        # filter with slightly different cut-offs has been applied to another signal in the same process
        case["ambient"] = {"precision": draw(st.integers(1, 5)), "threshold": draw(st.sampled_from([1000, 5])),
                           "suppress": draw(st.booleans()),
                           "prime": [[draw(st.sampled_from(PRIME_FACTORS)), draw(st.sampled_from([1.0, 1.0, 1.0002, 0.98]))]
                                     for _ in range(draw(st.integers(1, 2)))]}
    return case


PRIME_FACTORS = [1.0 + 1e-9, 1.0003, 0.9996, 1.004, 1.03, 0.97, 1.12, 1.24]


def _prime(case, dt, kwargs):
    """Earlier calls in the same process: the same filter type / order with perturbed cut-offs on a throw-away signal (what
    these calls return, or whether scipy accepts them, is not asserted here)."""
    x = np.sin(0.3 * np.arange(240.0))
    for f_lo, f_hi in case["ambient"]["prime"]:
        lo, hi = case["cut"]
        cut2 = [None if lo is None else lo * f_lo, None if hi is None else min(hi * f_hi, 0.99 * 0.5 / dt)]
        try:
            eqsig.Signal(x, dt).butter_pass(cut2, **kwargs)
        except Exception:  # noqa
            pass


def _freqs(case):
    """Sinusoid frequencies of a case: 'fs' (generated cases: one per band) or a single 'f' (hand-written cases)."""
    return [float(f) for f in case["fs"]] if "fs" in case else [float(case["f"])]


def _sinusoid(case, f=None):
    cut, dt = case["cut"], case["dt"]
    f = _freqs(case)[0] if f is None else f
    f_lo = min(float(c) for c in cut if c is not None)
    n = max(150, int(math.ceil(case["periods"] / (f_lo * dt))))
    i = np.arange(n, dtype=float)
    return (10.0 ** case.get("amp", 0)) * np.sin((2.0 * math.pi * f * dt) * i + case["phase"])


@clause(CLAUSES, "butter-gain", _gain_cases(), quick=500, thorough=1600,
        rule="x = A sin(2 pi f t + phi) over 60-90 periods of the lowest cut-off; low / high / band pass, orders 1-4, normalised "
             "cut-offs log-uniform on [0.002, 0.8] (+ end points, + the documented default call, + 1 in 12 order-3/4 band-pass "
             "designs with a very low lower cut-off), remove_gibbs in {None,start,end,mid}, gibbs_extra in {1,2}, three "
             "sinusoids per case, f placed in the pass / transition / stop band by drawn target gains, cut-offs as list / tuple / "
             "ndarray; 1 case in 5 runs under a non-default numpy print state (precision 1-5, summarisation threshold 5, suppress) "
             "after 1-2 calls of the same filter with cut-offs perturbed by 1e-9..24% on another signal; "
             "non-trivial = design passes the conditioning guard, so the gain is asserted",
        oracle="reference model: middle third == g(f) * x with g the closed-form squared magnitude of the bilinear-transformed "
               "Butterworth filter in t = tan(pi f dt) (validated at import against scipy's zpk design), tolerance "
               "min(2e-3, 1e-8 + 40 (u kappa + r_max^(n/3))) * A; "
               "length, npts, dt preserved; list / tuple / ndarray cut-offs give array_equal outputs; differential: the call under "
               "the ambient print state / after similar calls == the same call under the default print state (exact)",
        require={"band=pass": 0.35, "band=transition": 0.35, "band=stop": 0.35, "gibbs=None": 0.08, "gibbs=start": 0.05,
                 "gibbs=end": 0.05, "gibbs=mid": 0.05, "type=low": 0.1, "type=high": 0.1, "type=band": 0.15, "guarded": 0.01,
                 "cut=ndarray": 0.08, "cut=list": 0.08, "cut=tuple": 0.08, "order=1": 0.05, "order=2": 0.05, "order=3": 0.05,
                 "order=4": 0.05, "call=default-cut": 0.01, "ambient-print-state": 0.08},
        min_nontrivial=0.6)
def butter_gain(case, ctx):
    order, cut, dt = case["order"], case["cut"], case["dt"]
    freqs = _freqs(case)
    gibbs, extra, call = case.get("gibbs"), case.get("extra", 1), case.get("call", "kw")
    nyq = 0.5 / dt
    if not (_design_in_domain(order, cut, dt) and all(0 < f <= F_MAX * nyq * (1 + 1e-9) for f in freqs)):
        raise ValueError("case outside the domain of clause butter-gain")
    amp = 10.0 ** case.get("amp", 0)
    _design_classes(ctx, order, cut, dt)
    ctx.cls("gibbs=%s" % gibbs, "cut=" + case["container"], "call=" + call)
    if gibbs is not None:
        ctx.cls("extra=%d" % extra)
    kwargs = _butter_kwargs(order, gibbs, extra, call)
    no_cut = call == "default-cut"
    cut_arg = _cut_arg(cut, case["container"])
    cond = conditioning(order, cut, dt)
    ctx.notes["u*kappa"] = U * cond["kappa"]
    if not cond["ok"]:
        ctx.cls("guarded")
        if ctx.kf("C17-KF1"):
            # known finding: (b, a) form ill-conditioned for this design; only length / npts / dt (asserted inside _filtered)
            _filtered(ctx, _sinusoid(case), dt, cut_arg, kwargs, no_cut=no_cut, relaxed=True)
            return
    else:
        ctx.nt()
    amb = case.get("ambient")
    if amb:
        ctx.cls("ambient-print-state")
    for k, f in enumerate(freqs):
        x = _sinusoid(case, f)
        n = len(x)
        g = analytic_gain(order, cut, f, dt)
        ctx.cls("band=pass" if g >= 0.9 else ("band=stop" if g <= 0.01 else "band=transition"))
        if amb:
            with np.printoptions(precision=amb["precision"], threshold=amb["threshold"], suppress=amb["suppress"]):
                if k == 0:
                    _prime(case, dt, _butter_kwargs(order, gibbs, extra, "kw"))
                y = _filtered(ctx, x, dt, cut_arg, kwargs, no_cut=no_cut)
            # what numpy prints, and what was filtered before, is no input of the filter
            y_plain = _filtered(ctx, x, dt, cut_arg, kwargs, no_cut=no_cut)
            ctx.equal(y, y_plain, "the same butter_pass call under numpy print options %r after %d similar call(s) vs under the "
                                  "default print state" % ({k_: amb[k_] for k_ in ("precision", "threshold", "suppress")}, len(amb["prime"])))
        else:
            y = _filtered(ctx, x, dt, cut_arg, kwargs, no_cut=no_cut)
        lo, hi = n // 3, (2 * n) // 3
        ctx.finite(y[lo:hi], "filtered sinusoid (middle third)")
        # design-aware tolerance: rounding of the (b, a) coefficients (first-order bound u*kappa) + what is left of the edge
        # transients after lo = n/3 samples (slowest pole radius ^ lo); never looser than the flat 2e-3
        tol_gain = min(GAIN_TOL, GAIN_FLOOR + GAIN_FACTOR * (U * cond["kappa"] + cond["rmax"] ** lo))
        ctx.notes["tol_gain"] = tol_gain
        ctx.cls("tol<1e-6" if tol_gain < 1e-6 else ("tol<1e-4" if tol_gain < 1e-4 else "tol>=1e-4"))
        ctx.close(y[lo:hi], g * x[lo:hi], tol_gain * amp,
                  "middle third of the filtered sinusoid vs g(f)*x (g=%.6g, order %d, cut-offs %r Hz, f=%r Hz, dt=%r, remove_gibbs=%r)" % (
                      g, order, cut, f, dt, gibbs))
        if k > 0:
            continue
        # the same request spelled with the other containers
        for cont in CONTAINERS:
            if cont == case["container"] and not no_cut:
                continue
            y2 = _filtered(ctx, x, dt, _cut_arg(cut, cont), _butter_kwargs(order, gibbs, extra, "kw"))
            ctx.equal(y2, y, "cut-offs given as %s vs %s" % (cont, "the default argument" if no_cut else case["container"]))


# ---------------------------------------------------------------------------
# clause 2: linearity

RECIPE_KINDS = ["noise", "sines", "pulse", "step", "walk", "const", "quake"]


@st.composite
def _linear_cases(draw):
    order, cut, dt = draw(_designs(risky_share=30))
    n = draw(st.one_of(st.integers(32, 64), st.integers(32, 400), st.integers(32, 3000)))
    kinds = None if n <= 64 else RECIPE_KINDS
    ra = draw(gen.record_specs(min_n=n, max_n=n, small_max=n, kinds=kinds, allow_zero_runs=False))
    rb = draw(gen.record_specs(min_n=n, max_n=n, small_max=n, kinds=kinds, allow_zero_runs=False))
    return {"order": order, "cut": cut, "dt": dt, "ra": ra, "rb": rb, "alpha": draw(gen.scalars()), "beta": draw(gen.scalars()),
            "extra": draw(st.sampled_from([1, 2])), "container": draw(st.sampled_from(CONTAINERS))}


@clause(CLAUSES, "butter-linear", _linear_cases(), quick=200, thorough=800,
        rule="pairs of records of all kinds with equal length 32..3000, alpha / beta signed log-uniform on [1e-3,1e3] or powers of "
             "two, designs as in butter-gain, every case filtered with each of remove_gibbs in {None,start,end,mid}, gibbs_extra "
             "in {1,2}; non-trivial = both records non-zero and the design passes the conditioning guard",
        oracle="metamorphic: filter(alpha x + beta y) == alpha filter(x) + beta filter(y) within 16 eps (kappa+4) (|alpha| max|x| + "
               "|beta| max|y|), kappa = conditioning of the (b, a) denominator; length / npts / dt preserved; inputs not modified",
        require={"extra=2": 0.1, "type=band": 0.1, "type=low": 0.1, "type=high": 0.1},
        min_nontrivial=0.5)
def butter_linear(case, ctx):
    order, cut, dt = case["order"], case["cut"], case["dt"]
    extra = case.get("extra", 1)
    x = gen.build(case["ra"])
    y = gen.build(case["rb"])
    if len(x) != len(y) or len(x) < 32 or not _design_in_domain(order, cut, dt):
        raise ValueError("case outside the domain of clause butter-linear")
    al, be = float(case["alpha"]), float(case["beta"])
    _design_classes(ctx, order, cut, dt)
    ctx.cls("extra=%d" % extra, gen.size_class(len(x)), "kind=" + case["ra"]["k"], "cut=" + case.get("container", "tuple"))
    cut_arg = _cut_arg(cut, case.get("container", "tuple"))
    x0, y0 = x.copy(), y.copy()
    comb = al * x + be * y
    cond = conditioning(order, cut, dt)
    relaxed = False
    if not cond["ok"]:
        ctx.cls("guarded")
        relaxed = ctx.kf("C17-KF1")
    scale = abs(al) * float(np.max(np.abs(x))) + abs(be) * float(np.max(np.abs(y)))
    ctx.nt(bool(cond["ok"] and np.any(x != 0) and np.any(y != 0)))
    for gibbs in case.get("modes", GIBBS):
        kwargs = _butter_kwargs(order, gibbs, extra)
        if relaxed:  # known finding: only length / npts / dt (asserted inside _filtered)
            for rec in (x, y, comb):
                _filtered(ctx, rec, dt, cut_arg, kwargs, relaxed=True)
            continue
        fx = _filtered(ctx, x, dt, cut_arg, kwargs)
        fy = _filtered(ctx, y, dt, cut_arg, kwargs)
        fc = _filtered(ctx, comb, dt, cut_arg, kwargs)
        ctx.finite(fc, "filtered combination")
        ctx.close(fc, al * fx + be * fy, 16 * EPS * (cond["kappa"] + 4) * scale,
                  "filter(alpha x + beta y) vs alpha filter(x) + beta filter(y) (order %d, cut-offs %r Hz, dt=%r, remove_gibbs=%r, "
                  "gibbs_extra=%d, u*kappa=%.2e)" % (order, cut, dt, gibbs, extra, U * cond["kappa"]))
    ctx.equal(x, x0, "record modified by Signal(...).butter_pass")
    ctx.equal(y, y0, "record modified by Signal(...).butter_pass")


# ---------------------------------------------------------------------------
# clause 3: polynomial detrending


def _poly_basis(n, k):
    """Orthonormal basis (columns) of the polynomials of degree <= k on n equally spaced samples."""
    t = np.linspace(-1.0, 1.0, n)
    q, _r = np.linalg.qr(np.polynomial.legendre.legvander(t, k))
    return q


def _project(q, v):
    return q @ (q.T @ v)


@st.composite
def _detrend_cases(draw):
    k = draw(st.integers(0, 4))
    if draw(st.integers(0, 24)) == 0:
        # very long records (several minutes at 100-500 Hz): sizes at which index**k leaves the 53 / 63-bit integer range
        k = draw(st.sampled_from([3, 4, 4, 4]))
        spec = draw(gen.record_specs(min_n=52000, max_n=130000, kinds=["noise", "sines", "walk", "quake"], allow_zero_runs=False))
    else:
        spec = draw(gen.record_specs(min_n=k + 4, max_n=5000, allow_int=True))
    n = len(gen.build(spec))
    sec_kind = draw(st.sampled_from(["default", "pos", "neg"]))
    if sec_kind == "pos":
        section = draw(st.integers(1, n))
    elif sec_kind == "neg":
        section = -draw(st.integers(1, n - 1))
    else:
        section = None  # call without the argument (documented default -1)
    return {"rec": spec, "k": k, "dt": draw(gen.dts(1e-4, 1.0)),
            "coef": draw(st.lists(st.floats(-100, 100, allow_nan=False), min_size=k + 1, max_size=k + 1)),
            "form": draw(st.sampled_from(["kw", "pos"])), "section": section}


@clause(CLAUSES, "detrend", _detrend_cases(), quick=400, thorough=1600,
        rule="records of all kinds (n k+4..5000; float, integer-dtype and list containers), degree k in 0..4, a polynomial of degree "
             "<= k with coefficients U(-100,100)*max|record| in the Legendre-scaled index, keyword / positional call forms, "
             "remove_average with the default / a positive / a negative section; "
             "non-trivial = the record is not itself a polynomial of degree <= k (residual > 1e-6 max|record|)",
        oracle="reference model (orthonormal polynomial basis on the sample grid, QR): removed part r = x - out has r - P_k r == 0 and "
               "a vanishing (k+1)-th finite difference; P_k out == 0; remove_poly(out) == out; remove_poly(x + p) == out; "
               "Signal.remove_poly == fns.remove_poly (all 1e-8 max|.|); remove_average subtracts mean(x[:section]) ((n+8) eps max|x|)",
        require={"k=0": 0.03, "k=1": 0.03, "k=2": 0.03, "k=3": 0.03, "k=4": 0.03, "n>512": 0.05, "n>50000": 0.01}, min_nontrivial=0.5)
def detrend(case, ctx):
    spec = case["rec"]
    k = int(case["k"])
    dt = case["dt"]
    arg = gen.as_container(spec, gen.build(spec))
    x = np.array(arg, dtype=float)  # what the library sees (the integer variant rounds)
    n = len(x)
    if not (0 <= k <= 4 and n >= k + 4):
        raise ValueError("case outside the domain of clause detrend")
    scale = float(np.max(np.abs(x)))
    tol = 1e-8 * scale
    ctx.cls("k=%d" % k, "kind=" + spec["k"], gen.size_class(n), "n>50000" if n > 50000 else None)
    if spec.get("as"):
        ctx.cls("as=" + spec["as"])
    q = _poly_basis(n, k)
    positional = case.get("form") == "pos"

    def obj_level(values):
        s = ctx.lib(eqsig.Signal, values, dt)
        if positional:
            ctx.lib(s.remove_poly, k)
        else:
            ctx.lib(s.remove_poly, poly_fit=k)
        out = np.asarray(s.values)
        ctx.shape(out, (n,), "Signal.remove_poly values")
        ctx.check(s.npts == n and s.dt == dt, "npts / dt changed by remove_poly: %r, %r" % (s.npts, s.dt))
        return out

    def arr_level(values):
        out = np.asarray(ctx.lib(fns_generic.remove_poly, values, k) if positional
                         else ctx.lib(fns_generic.remove_poly, values, poly_fit=k))
        ctx.shape(out, (n,), "fns.remove_poly result")
        return out

    arg_copy = np.array(arg)
    out_o = obj_level(arg)
    out_a = arr_level(arg)
    ctx.equal(np.array(arg), arg_copy, "record modified by remove_poly")
    ctx.nt(bool(scale > 0 and np.max(np.abs(out_o)) > 1e-6 * scale))
    for name, out in (("Signal.remove_poly", out_o), ("fns.remove_poly", out_a)):
        ctx.finite(out, name)
        r = x - out
        ctx.close(r, _project(q, r), tol, "%s(k=%d): removed part vs its own best-fit polynomial of degree <= %d" % (name, k, k))
        if n > k + 1:
            ctx.close(np.diff(r, k + 1), np.zeros(n - k - 1), tol, "%s(k=%d): (k+1)-th finite difference of the removed part" % (name, k))
        ctx.close(_project(q, out), np.zeros(n), tol, "%s(k=%d): best-fit degree-%d polynomial of the result" % (name, k, k))
    ctx.close(out_o, out_a, tol, "Signal.remove_poly vs fns.remove_poly")
    # idempotent
    ctx.close(obj_level(out_o), out_o, tol, "Signal.remove_poly applied twice vs once")
    ctx.close(arr_level(out_a), out_a, tol, "fns.remove_poly applied twice vs once")
    # adding a polynomial of degree <= k beforehand
    t = np.linspace(-1.0, 1.0, n)
    p = np.polynomial.polynomial.polyval(t, np.array(case["coef"], dtype=float)) * (scale if scale > 0 else 1.0)
    tol_p = 1e-8 * max(scale, float(np.max(np.abs(p))))
    ctx.close(obj_level(x + p), out_o, tol_p, "Signal.remove_poly(k=%d) after adding a polynomial of degree <= %d" % (k, k))
    ctx.close(arr_level(x + p), out_a, tol_p, "fns.remove_poly(k=%d) after adding a polynomial of degree <= %d" % (k, k))
    # remove_average = degree 0 on the chosen section
    section = case.get("section")
    s = ctx.lib(eqsig.Signal, arg, dt)
    if section is None:
        ctx.lib(s.remove_average)
        sl = slice(None, -1)
    else:
        ctx.lib(s.remove_average, section=section)
        sl = slice(None, section)
    out = np.asarray(s.values)
    ctx.shape(out, (n,), "remove_average values")
    part = x[sl]
    if len(part) == 0:
        raise ValueError("case outside the domain of clause detrend (empty section)")
    mean = float(np.sum(part.astype(LD)) / len(part))
    ctx.close(out, x - mean, (n + 8) * EPS * scale,
              "remove_average(%s) vs x - mean(x[:section])" % ("default section=-1" if section is None else "section=%d" % section))


# very long records (continuous monitoring, hours at 100-500 Hz): lengths around 2^21 and 2^22


def _giant_enum(tier, shard, nshards):
    items = [(2 ** 21 + 5, 4), (2 ** 21 + 2, 1)]
    if tier != "quick":
        items += [(2 ** 20 - 1, 4), (2 ** 21 + 5, 0), (2 ** 21 + 5, 2), (2 ** 22 + 1, 3), (3 * 2 ** 20 + 17, 4), (2 ** 22 + 1, 0)]
    for i, (n, k) in enumerate(items):
        if i % nshards == shard:
            yield {"n": n, "k": k, "dt": 0.005, "seed": 31 + i}


@enum_clause(CLAUSES, "giant-detrend", _giant_enum,
             rule="fixed very long records (1-4 million samples: windowed noise + offset + slow drift), degrees 0..4, object and array level",
             oracle="reference model (orthonormal polynomial basis on the sample grid, QR): best-fit polynomial of degree <= k of the "
                    "result == 0 and removed part == its own best-fit polynomial (1e-8 max|record|); Signal.remove_poly == fns.remove_poly",
             exhaustive_note="the listed (length, degree) pairs", quick_shards=2)
def giant_detrend(case, ctx):
    n, k, dt = case["n"], case["k"], case["dt"]
    t = np.linspace(-1.0, 1.0, n)
    x = np.random.RandomState(case["seed"]).standard_normal(n) * np.hanning(n) + 0.3 + 0.2 * t - 0.4 * t ** 3
    ctx.nt(True)
    ctx.cls("k=%d" % k)
    tol = 1e-8 * float(np.max(np.abs(x)))
    q = _poly_basis(n, k)
    s = ctx.lib(eqsig.Signal, x, dt)
    ctx.lib(s.remove_poly, poly_fit=k)
    out_o = np.asarray(s.values)
    out_a = np.asarray(ctx.lib(fns_generic.remove_poly, x, poly_fit=k))
    for name, out in (("Signal.remove_poly", out_o), ("fns.remove_poly", out_a)):
        ctx.shape(out, (n,), name)
        ctx.finite(out, name)
        r = x - out
        ctx.close(r, _project(q, r), tol, "%s(k=%d, n=%d): removed part vs its own best-fit polynomial" % (name, k, n))
        ctx.close(_project(q, out), np.zeros(n), tol, "%s(k=%d, n=%d): best-fit degree-%d polynomial of the result" % (name, k, n, k))
    ctx.close(out_o, out_a, tol, "Signal.remove_poly vs fns.remove_poly (n=%d)" % n)


# ---------------------------------------------------------------------------
# clause 4: add_constant / add_series / add_signal


class _Duck(object):
    """Looks like a signal, is not one."""

    def __init__(self, values, dt):
        self.values = values
        self.dt = dt
        self.npts = len(values)


_NON_SIGNALS = ["none", "ndarray", "list", "float", "dict", "duck"]


@st.composite
def _add_cases(draw):
    spec = draw(gen.record_specs(min_n=2, max_n=2000, allow_int=True))
    n = len(gen.build(spec))
    op = draw(st.sampled_from(["signal", "series", "constant", "signal", "series", "signal"]))
    case = {"rec": spec, "dt": draw(gen.dts(1e-4, 1.0)), "op": op, "self": draw(st.sampled_from(["Signal", "AccSignal"]))}
    if op == "constant":
        case["c"] = draw(st.one_of(st.floats(-1e6, 1e6, allow_nan=False), st.integers(-1000, 1000), st.just(0.0)))
        return case
    case["other"] = draw(gen.record_specs(min_n=2, max_n=2000, allow_int=False, allow_zero_runs=False))
    wrong_len = draw(st.integers(0, 2)) == 0
    if wrong_len:
        case["dlen"] = draw(st.one_of(st.sampled_from([-1, 1, -n]), st.integers(-n, n))) or 1
    else:
        case["dlen"] = 0
    if op == "series":
        case["as"] = draw(st.sampled_from(["ndarray", "list", "tuple"]))
    else:
        case["cls"] = draw(st.sampled_from(["Signal", "AccSignal"]))
        how = draw(st.sampled_from(["ok", "dt", "non", "ok", "dt", "non"]))
        case["dtf"] = draw(st.sampled_from([0.5, 2.0, 1.001, 0.999, 1.1, 10.0])) if how == "dt" else 1.0
        case["non"] = draw(st.sampled_from(_NON_SIGNALS)) if how == "non" else None
    return case


@clause(CLAUSES, "add", _add_cases(), quick=400, thorough=1600,
        rule="records of all kinds (n 2..2000; float / integer-dtype / list) in a Signal or AccSignal; add_constant (float / int), "
             "add_series (ndarray / list / tuple; right length, or off by +-1, empty, any other length), add_signal (Signal / "
             "AccSignal with equal dt, with dt scaled by {.5,2,1.001,.999,1.1,10}, wrong length, or a non-Signal: None, ndarray, "
             "list, float, dict, duck-typed object); non-trivial = the added values are not all zero or the call must be rejected",
        oracle="reference model: element-wise Python additions (==); SignalProcessingError for wrong length / dt / type with the "
               "signal left unchanged; npts and dt preserved, the added object not modified",
        require={"op=constant": 0.05, "op=series": 0.1, "op=signal": 0.2, "reject-length": 0.08, "reject-dt": 0.03,
                 "reject-type": 0.03, "accepted": 0.2},
        min_nontrivial=0.5)
def add(case, ctx):
    spec = case["rec"]
    dt = case["dt"]
    arg = gen.as_container(spec, gen.build(spec))
    x = np.array(arg)
    n = len(x)
    op = case["op"]
    ctx.cls("op=" + op, "self=" + case.get("self", "Signal"), "kind=" + spec["k"], gen.size_class(n))
    if spec.get("as"):
        ctx.cls("as=" + spec["as"])
    make = eqsig.AccSignal if case.get("self") == "AccSignal" else eqsig.Signal
    s = ctx.lib(make, arg, dt)
    before = np.array(s.values)
    ctx.equal(before, x, "values right after construction")
    xs = x.tolist()

    def unchanged(what):
        ctx.equal(s.values, before, "values after the rejected %s" % what)
        ctx.check(s.npts == n and s.dt == dt, "npts / dt changed by the rejected %s" % what)

    def added(expect, what):
        ctx.cls("accepted")
        out = np.asarray(s.values)
        ctx.shape(out, (n,), "values after %s" % what)
        ctx.equal(out, np.array(expect), "values after %s vs element-wise sum" % what)
        ctx.check(s.npts == n and s.dt == dt, "npts / dt changed by %s: %r, %r" % (what, s.npts, s.dt))

    if op == "constant":
        c = case["c"]
        ctx.nt(c != 0)
        ctx.lib(s.add_constant, c)
        added([v + c for v in xs], "add_constant(%r)" % (c,))
        return
    dlen = int(case.get("dlen", 0))
    m = n + dlen
    if m < 0:
        raise ValueError("case outside the domain of clause add")
    o = np.resize(gen.build(case["other"]), m) if m > 0 else np.zeros(0)
    os_ = o.tolist()
    if op == "series":
        how = case.get("as", "ndarray")
        ser = o.copy() if how == "ndarray" else (list(os_) if how == "list" else tuple(os_))
        ctx.cls("series=" + how)
        if dlen != 0:
            ctx.cls("reject-length")
            ctx.nt()
            ctx.raises(eq_exc.SignalProcessingError, s.add_series, ser)
            unchanged("add_series (length %d vs %d)" % (m, n))
        else:
            ctx.nt(bool(np.any(o != 0)))
            ctx.lib(s.add_series, ser)
            added([a + b for a, b in zip(xs, os_)], "add_series")
        ctx.equal(np.array(ser), o, "series modified by add_series")
        return
    # add_signal
    non = case.get("non")
    dtf = float(case.get("dtf", 1.0))
    if non is not None:
        other = {"none": None, "ndarray": o.copy(), "list": list(os_), "float": 1.5, "dict": {"values": list(os_), "dt": dt},
                 "duck": _Duck(o.copy(), dt)}[non]
        ctx.cls("reject-type", "non=" + non)
        ctx.nt()
        ctx.raises(eq_exc.SignalProcessingError, s.add_signal, other)
        unchanged("add_signal(%s)" % non)
        return
    if m < 1:
        m, o, os_ = 1, np.zeros(1), [0.0]  # a Signal needs at least one sample
        dlen = m - n
    make_o = eqsig.AccSignal if case.get("cls") == "AccSignal" else eqsig.Signal
    dt2 = dt * dtf
    other = ctx.lib(make_o, o.copy(), dt2)
    ctx.cls("other=" + case.get("cls", "Signal"))
    if dtf != 1.0 or dlen != 0:
        ctx.cls("reject-dt" if dtf != 1.0 else None, "reject-length" if dlen != 0 else None)
        ctx.nt()
        ctx.raises(eq_exc.SignalProcessingError, s.add_signal, other)
        unchanged("add_signal (dt %r vs %r, length %d vs %d)" % (dt2, dt, m, n))
    else:
        ctx.nt(bool(np.any(o != 0)))
        ctx.lib(s.add_signal, other)
        added([a + b for a, b in zip(xs, os_)], "add_signal")
    ctx.equal(other.values, o, "added signal modified by add_signal")
    ctx.check(other.dt == dt2 and other.npts == m, "added signal's dt / npts modified by add_signal")


# ---------------------------------------------------------------------------
# clause 5: running average


@st.composite
def _avg_cases(draw):
    spec = draw(gen.record_specs(min_n=2, max_n=3000, small_max=60, allow_int=False))
    w = draw(st.one_of(st.integers(1, 25), st.integers(3, 25), st.sampled_from([1, 2, 3, 4, 5, 24, 25])))
    return {"rec": spec, "dt": draw(gen.dts(1e-4, 1.0)), "w": w, "form": draw(st.sampled_from(["kw", "pos"])),
            "self": draw(st.sampled_from(["Signal", "AccSignal"]))}


@clause(CLAUSES, "running-average", _avg_cases(), quick=400, thorough=1600,
        rule="float records of all kinds (n 2..3000), width 1..25 (odd and even, also wider than the record), Signal / AccSignal, "
             "keyword / positional call; non-trivial = floor(w/2) >= 1 and the record is not constant",
        oracle="reference model: loop over i, long-double mean of the ORIGINAL samples j with |j-i| <= floor(w/2), 0 <= j < n; "
               "tolerance 1e-12 max|record|; length, npts, dt preserved; the caller's array untouched",
        require={"w>=3": 0.4, "w=1": 0.02, "w=2": 0.02, "w>n": 0.01, "even-w": 0.1, "n>64": 0.15},
        min_nontrivial=0.5)
def running_average(case, ctx):
    spec = case["rec"]
    x = gen.build(spec)
    n = len(x)
    w = int(case["w"])
    dt = case["dt"]
    if not (1 <= w <= 25 and n >= 2):
        raise ValueError("case outside the domain of clause running-average")
    h = w // 2
    ctx.cls("w=1" if w == 1 else ("w=2" if w == 2 else "w>=3"), "even-w" if w % 2 == 0 else "odd-w", "kind=" + spec["k"],
            gen.size_class(n), "n>64" if n > 64 else None, "w>n" if w > n else None)
    ctx.nt(bool(h >= 1 and np.any(x != x[0])))
    make = eqsig.AccSignal if case.get("self") == "AccSignal" else eqsig.Signal
    x0 = x.copy()
    s = ctx.lib(make, x, dt)
    if case.get("form") == "pos":
        ctx.lib(s.running_average, w)
    else:
        ctx.lib(s.running_average, width=w)
    out = np.asarray(s.values)
    ctx.shape(out, (n,), "values after running_average")
    ctx.check(s.npts == n and s.dt == dt, "npts / dt changed by running_average: %r, %r" % (s.npts, s.dt))
    ctx.equal(x, x0, "caller's array modified by running_average")
    xl = x.astype(LD)
    csum = np.concatenate([[LD(0)], np.cumsum(xl)])
    expect = np.empty(n, dtype=LD)
    if n <= 400:
        for i in range(n):
            lo, hi = max(0, i - h), min(n - 1, i + h)
            tot = LD(0)
            for j in range(lo, hi + 1):
                tot += xl[j]
            expect[i] = tot / (hi - lo + 1)
    else:
        # same definition, window sums taken from a long-double prefix sum (error <= n * 2^-64 * max|x|, far below the tolerance)
        i = np.arange(n)
        lo, hi = np.maximum(0, i - h), np.minimum(n - 1, i + h)
        expect = (csum[hi + 1] - csum[lo]) / (hi - lo + 1).astype(LD)
    ctx.close(out, expect, 1e-12 * float(np.max(np.abs(x))),
              "running_average(width=%d): sample vs mean of the original samples within %d positions" % (w, h))
