"""C13 - peak-only series conserve total variation; equivalent-cycle measures are mutually inverse."""
import math

import numpy as np
from hypothesis import strategies as st

from eqsig import im
from eqsig.fns import peaks_and_crossings as pk

from pbt import core, gen
from pbt.core import clause
from pbt.ref import peaks as ref

PROPERTY = "C13"
CLAUSES = []
ASSUMPTIONS = [
    "series are non-constant, finite, n 3..3000, float64 / int64 ndarrays or lists; non-zero samples and differences are >= 1e-30 "
    "in magnitude (the library multiplies successive differences; products below 1e-308 underflow - an implicit precondition no "
    "ground motion violates, as in C11/C12)",
    "total-variation identities are asserted with equality on integer and dyadic data (all sums exact) and to 4*eps*n*TV otherwise",
    "power-law reference is built from the reference switched peaks of pbt/ref/peaks.py (C12's statement): N = sum over peaks at or "
    "before i of 0.5*(|p|/a_ref)^(1/b), A = (sum 0.5*|p|^(1/b)/N_cyc)^b; peaks below cut_off*max|x| are counted as 0 cycles - the "
    "library counts them as 0.5*(1e-14/a_ref)^(1/b), which is added to the tolerance",
    "when an excursion attains its largest |value| more than once the statement does not say which index is reported: the series are "
    "then compared at the end of the record only (plus length and monotonicity)",
    "power-law clause with cut_off > 0: series are rescaled (by a power of two) to max|x| >= 1e-3: the library represents a "
    "below-cut-off peak by the absolute amplitude 1e-14, which only means 'negligible' for records whose amplitudes dwarf it; "
    "with cut_off = 0 nothing is replaced and the series is additionally put into small / large units (x 2^-50 .. 2^40)",
    "b in (0.05, 1], cut_off in [0, 0.1], a_ref and the peak amplitudes within a factor 1e3 of each other so that ratios^(1/b) stay finite",
]
EPS = np.finfo(float).eps
LD = np.longdouble


def _tidy(a):
    """Flush tiny magnitudes / differences (underflow precondition)."""
    a = np.array(a, dtype=float)
    a[np.abs(a) < 1e-30] = 0.0
    return a


@st.composite
def _series(draw, max_n=3000, start_zero=None):
    spec = draw(gen.record_specs(min_n=3, max_n=max_n, allow_zero_runs=True, allow_int=True, amp_lo=-3, amp_hi=3))
    case = {"rec": spec, "start0": draw(st.booleans()) if start_zero is None else start_zero,
            "offset": draw(st.sampled_from([0.0, 0.0, 1.0, -2.5, 1024.0, -0.375]))}
    if not case["start0"] and draw(st.integers(0, 3)) == 0:
        # the record starts AT the largest value of its first excursion (a record cut at a peak, a step load): the first sample
        # is then itself a switched peak
        case["lead"] = draw(st.sampled_from([1.25, 2.0, 1.0]))
    return case


def _build(case):
    a = _tidy(gen.build(case["rec"]))
    if case.get("start0"):
        a = a - a[0] if case["rec"]["k"] == "dyadic" else np.concatenate([[0.0], a])
    elif case.get("lead") and np.any(a != 0):
        first = a[np.flatnonzero(a)[0]]
        a = np.concatenate([[math.copysign(case["lead"] * float(np.max(np.abs(a))), first)], a])
    how = case["rec"].get("as")
    if how == "int":
        a = np.round(a * (8 if np.max(np.abs(a)) < 1e6 else 1))
    return a, how


def _as(a, how):
    if how == "int":
        return np.array(a, dtype=np.int64)
    if how == "list":
        return [float(v) for v in a]
    return np.array(a, dtype=float)


def _exact_data(case, a):
    return case["rec"]["k"] == "dyadic" or case["rec"].get("as") == "int" or bool(np.all(a == np.round(a)) and np.max(np.abs(a)) < 2 ** 40)


@clause(CLAUSES, "total-variation", _series(), quick=700, thorough=3000,
        rule="series of all kinds (plateau-rich integer levels, dyadic, element-wise floats, long recipes up to 3000; float / int / list), "
             "with and without a zero start and constant offsets; non-trivial = >= 3 reported peaks and at least one plateau or offset",
        oracle="reference model: delta series non-zero only at reference peak indices (C11), sum|delta| == total variation, |sum delta| == |x[-1]-x[0]|; "
               "pseudo-cyclic series sums to TV/2 + sign(final movement)*(x[-1]-x[0])/2; identical output after a constant (dyadic) shift; "
               "equality on exact data, 4*eps*n*TV otherwise; input unchanged",
        require={"exact": 0.2, "plateau": 0.2})
def total_variation(case, ctx):
    a, how = _build(case)
    if ref.is_constant(a):
        a = a.copy()
        a[-1] += 1.0
    n = len(a)
    x = _as(a, how)
    exact = _exact_data(case, a)
    peaks = ref.local_peak_indices(a)
    has_plateau = bool(np.any(np.diff(a) == 0))
    ctx.cls(gen.size_class(n), "as=" + (how or "ndarray"), "exact" if exact else "real", "plateau" if has_plateau else None,
            "start0" if a[0] == 0 else "offset-start")
    ctx.nt(len(peaks) >= 3 and (has_plateau or a[0] != 0))
    snap = (list(x) if isinstance(x, list) else x.copy())
    d = np.asarray(ctx.lib(pk.determine_peaks_only_delta_series, x))
    c = np.asarray(ctx.lib(pk.determine_pseudo_cyclic_peak_only_series, x))
    same = (x == snap) if isinstance(x, list) else np.array_equal(x, snap)
    ctx.check(bool(same), "input series was modified")
    ctx.shape(d, (n,), "peaks-only delta series")
    ctx.shape(c, (n,), "pseudo-cyclic peak series")
    al = a.astype(LD)
    tv = float(np.sum(np.abs(np.diff(al))))
    off = float(al[-1] - al[0])
    # direction of the final movement: sign of the last non-zero difference
    dif = np.diff(a)
    last = dif[np.nonzero(dif)[0][-1]]
    # rounding: the library rebases the series (x - x[0]) before differencing, so errors scale with max|x| (incl. any offset)
    tol = 0.0 if exact else 4 * EPS * n * (tv + float(np.max(np.abs(a))))
    nz = set(np.nonzero(d)[0].tolist())
    allowed = set(peaks)
    if not exact and ref.local_peak_indices(a - a[0]) != peaks:
        # a difference smaller than the rounding of (x - x[0]) decides where a turning point is: the peak positions are
        # ambiguous in floating point; only the sums are asserted
        ctx.amb()
        allowed = allowed | set(ref.local_peak_indices(a - a[0]))
        nz = nz & allowed if nz <= allowed else nz
        allowed_min = set()
    else:
        allowed_min = allowed - {0}
    ctx.check(nz <= allowed, "delta series is non-zero away from reported peaks: indices %s (peaks %s)" % (sorted(nz - allowed)[:5], peaks[:8]))
    ctx.check(nz >= allowed_min, "delta series is zero at reported peak(s) %s" % sorted(allowed_min - nz)[:5])
    sabs = float(np.sum(np.abs(d.astype(LD))))
    ssum = float(np.sum(d.astype(LD)))
    ctx.check(abs(sabs - tv) <= tol, "sum|delta| = %r but the total variation is %r" % (sabs, tv))
    ctx.check(abs(abs(ssum) - abs(off)) <= tol, "|sum delta| = %r but |x[-1]-x[0]| = %r" % (abs(ssum), abs(off)))
    nzc = set(np.nonzero(c)[0].tolist())
    ctx.check(nzc <= allowed, "pseudo-cyclic series is non-zero away from reported peaks: %s" % sorted(nzc - allowed)[:5])
    want = tv / 2 + np.sign(last) * off / 2
    wants = [want]
    if not exact:
        # the direction of the final movement is a discontinuous functional: when the last movement is smaller than the
        # rounding of (x - x[0]) it vanishes in the rebased series and the previous movement becomes the final one
        rb = a - a[0]
        drb = np.diff(rb)
        if np.any(drb):
            wants.append(tv / 2 + np.sign(drb[np.nonzero(drb)[0][-1]]) * off / 2)
    csum = float(np.sum(c.astype(LD)))
    ctx.check(any(abs(csum - w_) <= tol for w_ in wants),
              "pseudo-cyclic series sums to %r, expected TV/2 + sign(final movement)*(end-start)/2 = %r" % (csum, want))
    # constant shift (exactly representable): identical output
    if exact and case["offset"] != 0:
        shift = case["offset"] if how != "int" else float(int(case["offset"] * 8))
        x2 = _as(a + shift, how)
        ctx.equal(ctx.lib(pk.determine_peaks_only_delta_series, x2), d, "delta series after a constant shift of %r" % shift)
        ctx.equal(ctx.lib(pk.determine_pseudo_cyclic_peak_only_series, x2), c, "pseudo-cyclic series after a constant shift of %r" % shift)
        ctx.cls("shifted")
    if how == "int" and np.max(np.abs(a)) < 2 ** 40:
        # raw counts on a large integer baseline: the rebase is exact in integer arithmetic, so the output is identical
        for big in (2 ** 55 + 7, -(2 ** 58) + 3):
            x3 = np.array(a, dtype=np.int64) + np.int64(big)
            ctx.equal(ctx.lib(pk.determine_peaks_only_delta_series, x3), d, "delta series after an integer shift of %d" % big)
            ctx.equal(ctx.lib(pk.determine_pseudo_cyclic_peak_only_series, x3), c, "pseudo-cyclic series after an integer shift of %d" % big)
        ctx.cls("huge-int-offset")


# ---------------------------------------------------------------------------

@st.composite
def _pl_cases(draw):
    c = draw(_series(max_n=1500))
    c["rec"].pop("as", None)
    c["b"] = draw(st.one_of(st.floats(0.05, 1.0, exclude_min=True, allow_nan=False), st.sampled_from([0.2, 0.34, 0.5, 1.0])))
    c["barr"] = draw(st.lists(st.floats(0.1, 1.0, allow_nan=False), min_size=1, max_size=3))
    c["cut"] = draw(st.one_of(st.just(0.0), st.just(0.01), st.floats(0.0, 0.1, allow_nan=False)))
    c["aref_rel"] = draw(gen.log_uniform(0.05, 20.0))
    c["ncyc"] = draw(gen.log_uniform(0.5, 50.0))
    c["alpha"] = draw(gen.scalars(1e-2, 1e2))
    c["unit"] = draw(st.sampled_from([0, 0, -20, -33, -50, 20, 40]))
    return c


def _ref_series(a, peaks, contrib):
    """Step series: running sum of contrib[j] at peak index peaks[j]."""
    out = np.zeros(len(a), dtype=LD)
    for j, i in enumerate(peaks):
        out[i] += contrib[j]
    return np.cumsum(out)


@clause(CLAUSES, "power-law", _pl_cases(), quick=500, thorough=2500,
        rule="series as above (n <= 1500, half of them starting at 0), b in (0.05,1] scalar and arrays, cut_off in [0,0.1], a_ref within "
             "[0.05,20] x max|x|, n_cyc in [0.5,50], alpha in +-[1e-2,1e2]; non-trivial = >= 4 reference switched peaks",
        oracle="reference model built from the reference switched peaks (C12): series == running sums (1e-10 rel), length, monotone; "
               "inverse A(N(a_ref)) == a_ref (cut_off 0; >= with cut_off); A(alpha x) == |alpha| A(x); N(alpha x, alpha a_ref) == N(x, a_ref); "
               "identical components: combined == 2^b single, geometric mean == single; array b column j == scalar call",
        require={"nonzero-start": 0.2, "cut>0": 0.3, "first-value-is-peak": 0.06}, min_nontrivial=0.3)
def power_law(case, ctx):
    a, _ = _build(case)
    if ref.is_constant(a):
        a = a.copy()
        a[-1] += 1.0
    cut = case["cut"]
    if cut > 0:
        if float(np.max(np.abs(a))) < 1e-3:
            # the library replaces below-cut-off peaks by the ABSOLUTE placeholder 1e-14: amplitudes must dwarf it (ASSUMPTIONS)
            a = a * 2.0 ** int(np.ceil(-np.log2(float(np.max(np.abs(a))))))
    else:
        # cut_off = 0: nothing is replaced by the placeholder, so every law holds in any unit (strain, micro-tremor
        # displacement in metres, raw counts): exact power-of-two change of unit - as long as |peak|^(1/b) stays inside the
        # double range (b = 0.05 raises amplitudes to the 20th power); otherwise the series is normalised to max|x| = 1
        bmin = min([case["b"]] + list(case["barr"]))
        scaled = a * 2.0 ** case.get("unit", 0)
        top = float(np.max(np.abs(scaled)))
        if top > 0 and abs(np.log10(top)) / bmin < 200:
            if case.get("unit"):
                ctx.cls("small-unit" if case["unit"] < 0 else "large-unit")
            a = scaled
        else:
            a = a * 2.0 ** int(np.ceil(-np.log2(float(np.max(np.abs(a))))))
            ctx.cls("unit-normalised")
    n = len(a)
    b = case["b"]
    amax = float(np.max(np.abs(a)))
    aref = case["aref_rel"] * amax
    ncyc = case["ncyc"]
    peaks = ref.switched_peaks(a)
    tie, _ = ref.switched_freedom(a)
    pv = np.abs(a[peaks]).astype(LD)
    ctx.cls("first-value-is-peak" if case.get("lead") else None)
    ctx.cls(gen.size_class(n), "nonzero-start" if a[0] != 0 else "zero-start", "cut>0" if cut > 0 else "cut=0", "tie" if tie else None,
            "below-cut" if cut > 0 and np.any((pv > 0) & (pv < cut * amax)) else None)
    ctx.nt(len([p for p in pv if p > 0]) >= 4)
    # ---- equivalent number of cycles
    keep = pv >= cut * amax
    contrib_n = np.where(keep, LD(0.5) * (pv / LD(aref)) ** (LD(1) / LD(b)), LD(0))
    nref = _ref_series(a, peaks, contrib_n)
    slack_n = len(peaks) * 0.5 * (1e-14 / aref) ** (1.0 / b) if cut > 0 else 0.0
    ns = np.asarray(ctx.lib(im.calc_n_cyc_array_w_power_law, a, aref, b, cut_off=cut))
    ctx.check(ns.shape[0] == n, "cycle series has length %s, record %d" % (ns.shape, n))
    ns1 = ns.reshape(n, -1)[:, 0]
    ctx.finite(ns1, "cycle series")
    ctx.check(bool(np.all(np.diff(ns1) >= 0)), "equivalent number of cycles is not non-decreasing")
    tol_n = 1e-10 * float(nref[-1]) + slack_n + core.TINY
    if tie:
        ctx.check(abs(float(ns1[-1]) - float(nref[-1])) <= tol_n, "final number of cycles %r, reference %r" % (float(ns1[-1]), float(nref[-1])))
    else:
        ctx.close(ns1, nref, tol_n, "equivalent number of cycles vs reference (b=%r, cut_off=%r, a_ref=%r)" % (b, cut, aref))
    # ---- equivalent uniform amplitude
    contrib_a = LD(0.5) * pv ** (LD(1) / LD(b)) / LD(ncyc)
    aref_series = _ref_series(a, peaks, contrib_a) ** LD(b)
    As = np.asarray(ctx.lib(im.calc_cyc_amp_array_w_power_law, a, ncyc, b))
    ctx.shape(As, (n,), "equivalent amplitude series (scalar b)")
    ctx.check(bool(np.all(np.diff(As) >= 0)), "equivalent uniform amplitude is not non-decreasing")
    tol_a = 1e-10 * float(aref_series[-1]) + core.TINY
    if tie:
        ctx.check(abs(float(As[-1]) - float(aref_series[-1])) <= tol_a, "final equivalent amplitude %r, reference %r" % (float(As[-1]), float(aref_series[-1])))
    else:
        ctx.close(As, aref_series, tol_a, "equivalent amplitude vs reference (b=%r, n_cyc=%r)" % (b, ncyc))
    # ---- mutually inverse
    n_end = float(ns1[-1])
    if n_end > 0:
        back = float(np.asarray(ctx.lib(im.calc_cyc_amp_array_w_power_law, a, n_end, b))[-1])
        if cut == 0:
            ctx.check(abs(back - aref) <= 1e-9 * aref, "A(N(a_ref)) = %r but a_ref = %r (b=%r)" % (back, aref, b))
        else:
            ctx.check(back >= aref * (1 - 1e-9), "A(N(a_ref)) = %r < a_ref = %r with cut_off=%r" % (back, aref, cut))
    # ---- scaling laws
    al = case["alpha"]
    A2 = np.asarray(ctx.lib(im.calc_cyc_amp_array_w_power_law, a * al, ncyc, b))
    ctx.close(A2, abs(al) * As, 1e-10 * abs(al) * float(As[-1]) + core.TINY, "A(alpha x) vs |alpha| A(x)")
    N2 = np.asarray(ctx.lib(im.calc_n_cyc_array_w_power_law, a * al, aref * abs(al), b, cut_off=cut)).reshape(n, -1)[:, 0]
    amb_cut = cut > 0 and np.any(np.abs(pv / (cut * amax) - 1) < 1e-9) if amax > 0 and cut > 0 else False
    if amb_cut:
        ctx.amb()
    else:
        ctx.close(N2, ns1, 1e-10 * float(ns1[-1]) + 2 * slack_n * max(1.0, abs(al) ** (-1.0 / b)) + core.TINY, "N(alpha x, alpha a_ref) vs N(x, a_ref)")
    # ---- two identical components
    comb = np.asarray(ctx.lib(im.calc_cyc_amp_combined_arrays_w_power_law, a, a.copy(), ncyc, b))
    gm = np.asarray(ctx.lib(im.calc_cyc_amp_gm_arrays_w_power_law, a, a.copy(), ncyc, b))
    ctx.close(comb, 2.0 ** b * As, 1e-10 * 2.0 ** b * float(As[-1]) + core.TINY, "combined amplitude of two identical components vs 2^b * single")
    ctx.close(gm, As, 1e-10 * float(As[-1]) + core.TINY, "geometric-mean amplitude of two identical components vs single")
    # ---- array b
    barr = np.array(case["barr"], dtype=float)
    Aarr = np.asarray(ctx.lib(im.calc_cyc_amp_array_w_power_law, a, ncyc, barr))
    Narr = np.asarray(ctx.lib(im.calc_n_cyc_array_w_power_law, a, aref, barr, cut_off=cut))
    ctx.shape(Aarr, (n, len(barr)), "amplitude series for array b")
    ctx.shape(Narr, (n, len(barr)), "cycle series for array b")
    for j, bj in enumerate(barr):
        Aj = np.asarray(ctx.lib(im.calc_cyc_amp_array_w_power_law, a, ncyc, float(bj)))
        Nj = np.asarray(ctx.lib(im.calc_n_cyc_array_w_power_law, a, aref, float(bj), cut_off=cut)).reshape(n, -1)[:, 0]
        ctx.close(Aarr[:, j], Aj, 1e-12 * float(Aj[-1]) + core.TINY, "array-b column %d vs scalar call (amplitude)" % j)
        ctx.close(Narr[:, j], Nj, 1e-12 * float(Nj[-1]) + core.TINY, "array-b column %d vs scalar call (cycles)" % j)
