"""C13 - peak-only series conserve total variation; equivalent-cycle measures are mutually inverse."""
import math

import numpy as np
from hypothesis import strategies as st

from eqsig import im
from eqsig.fns import peaks_and_crossings as pk

from pbt import core, gen
from pbt.core import clause
from pbt.ref import peaks as ref
from pbt.ref import peaks_fast as pf

PROPERTY = "C13"
CLAUSES = []
ASSUMPTIONS = [
    "series are non-constant, finite, n 3..3000, float64 / int64 / int32 / int16 ndarrays or lists (narrow integer dtypes use their full "
    "range: the difference of two samples need not fit into the dtype; an int64 series may sit on any offset, also beyond 2^53 - its differences are "
    "exactly representable and integer series are rebased exactly; unsigned uint8 / uint16 counts over the full range); non-zero samples and differences are >= 1e-30 "
    "in magnitude (the library multiplies successive differences; products below 1e-308 underflow - an implicit precondition no "
    "ground motion violates, as in C11/C12)",
    "total-variation identities are asserted with equality on integer and dyadic data (all sums exact) and to 4*eps*n*TV otherwise",
    "power-law reference is built from the reference switched peaks of pbt/ref/peaks.py (C12's statement): N = sum over peaks at or "
    "before i of 0.5*(|p|/a_ref)^(1/b), A = (sum 0.5*|p|^(1/b)/N_cyc)^b; peaks below cut_off*max|x| count exactly 0 cycles in any unit "
    "(fix f083e4b; the former 1e-14 placeholder tolerance and the rescaling of cut_off > 0 records to max|x| >= 1e-3 are gone: they hid a "
    "genuine violation of 'cycles are invariant when record and a_ref scale together'); the meaning of cut_off is not in the statement: it "
    "is read from the quantifier ('cut_off in [0, 0.1]'), the docstring ('Low amplitude cutoff value', default 0.01) and callers: peaks "
    "lower than cut_off * max|x| are ignored",
    "when an excursion attains its largest |value| more than once the statement does not say which index is reported: the cumulative "
    "series are not compared from the first to just before the last of those samples (everywhere else they are)",
    "power-law clause: records are put into small / large units (x 2^-50 .. 2^40, exact) with and without cut_off as long as "
    "max|x|^(1/b) stays within 1e+-200; entries whose running sum is below 1e-280 (subnormal range) are not compared; a peak within 1e-9 "
    "(relative) of cut_off*max|x| makes the cycle series ambiguous (not compared); A(N(a_ref)) is asserted two-sided as "
    "a_ref*(S_all/S_kept)^b, S = sum|p|^(1/b) over all / the kept peaks (derived from the two definitions; == a_ref when nothing is dropped)",
    "b in (0.05, 1], cut_off in [0, 0.1], a_ref and the peak amplitudes within a factor 1e3 of each other so that ratios^(1/b) stay finite",
    "mid-range clauses: records are noise / band-limited noise / modulated sines x a slow envelope + 0.11 (amplitudes O(1), units 2^-7 .. 2^5 or "
    "integer counts up to 2^40), b in (0.05, 1] (scalars and arrays), units 2^-33 .. 2^30 only with b >= 0.15, a_ref in [0.05, 20] x max|x|, n_cyc in [0.5, 50]: all powers stay "
    "within 1e-200 .. 1e210; the exponent is a python / numpy scalar or an ndarray (a python LIST of exponents is not in the domain: the "
    "quantifier says 'scalar and array b' and the pinned functions raise TypeError on 1. / list); the power-law functions get ndarrays "
    "(float64, int64, int32 / int16 over the full range of the dtype, read-only, strided, negative stride) and python lists of floats; the combined amplitude takes a "
    "scalar b only (its 1-D arithmetic does not broadcast over an array of exponents)",
    "mid-range whole-output oracle of the peak-only series = the statement applied to every prefix of the record that ends at a reported "
    "peak (the series up to a turning point does not depend on what follows it): |delta| at a reported peak is the variation since the "
    "previous reported peak with one sign convention for the whole record (either one is accepted), the pseudo-cyclic entry is "
    "sign(movement into the peak) * (x[peak] - x[0]); tolerance 0 on exact data, 4*eps*max|x| per entry otherwise (rebasing x - x[0] and "
    "one difference), 4*eps*max|x|*n_peaks for the sums",
    "mid-range power-law tolerance: element-wise RELATIVE (1e-10 + 2*eps*n_peaks) of the reference value itself (sequential float64 "
    "summation of n_peaks positive terms); (n x len(b)) outputs are compared in full against float64 powers / "
    "long-double sums of the reference peaks (+ 8 eps), a handful of columns against the all-long-double reference; the scaling laws "
    "A(alpha x), N(alpha x, alpha a_ref) are re-run at mid-range sizes for float64 records up to 40000 samples and all smooth ones "
    "(skipped when rounding alpha*x moves a reported peak)",
    "cutoff-tie: a peak exactly AT cut_off*max|x| counts.  This is NOT in the statement (which does not define the cut-off); it rests on the "
    "docstring 'LOW amplitude cutoff' (amplitudes lower than the cut-off are cut; one equal to it is not lower) and on the quantifier naming "
    "cut_off as a threshold relative to max|x|; kept on the coordinator's decision because an inclusive comparison silently drops the cycles "
    "of a record whose small cycles sit exactly at cut_off*max (quantised records: counts 1 and 16 with cut_off 1/16); asserted only when the product "
    "cut_off*max|x| is exact in binary (dyadic cut_off = p/2^k <= 0.1 and dyadic amplitudes); with cut_off = 0.1 and amplitudes 10 / 1 the "
    "double-precision product equals 1.0 bit for bit but the real product of the stored 0.1000000000000000055 does not: ambiguous, bracket-checked; "
    "b >= 0.25 so that the contribution of the peak at the cut-off stays above the 1e-10 tolerance",
]
EPS = np.finfo(float).eps
LD = np.longdouble


def _tidy(a):
    """Flush tiny magnitudes / differences (underflow precondition)."""
    a = np.array(a, dtype=float)
    a[np.abs(a) < 1e-30] = 0.0
    return a


@st.composite
def _series(draw, max_n=3000, start_zero=None):
    spec = draw(gen.record_specs(min_n=2, max_n=max_n, allow_zero_runs=True, allow_int=True, amp_lo=-3, amp_hi=3))
    if draw(st.integers(0, 5)) == 0:
        # narrow integer containers (raw counts of a 16 / 32 bit digitiser): the values are scaled to the full range of the
        # dtype, so that the difference of two samples does not fit into the dtype
        spec["as"] = draw(st.sampled_from(["int16", "int16", "int32", "uint8", "uint16", "uint16"]))
    case = {"rec": spec, "start0": draw(st.booleans()) if start_zero is None else start_zero,
            "offset": draw(st.sampled_from([0.0, 0.0, 1.0, -2.5, 1024.0, -0.375]))}
    if not case["start0"] and draw(st.integers(0, 3)) == 0:
        # the record starts AT the largest value of its first excursion (a record cut at a peak, a step load): the first sample
        # is then itself a switched peak
        case["lead"] = draw(st.sampled_from([1.25, 2.0, 1.0]))
    return case


def _build(case):
    a = _tidy(gen.build(case["rec"]))
    if case.get("start0"):
        a = a - a[0] if case["rec"]["k"] == "dyadic" else np.concatenate([[0.0], a])
    elif case.get("lead") and np.any(a != 0):
        first = a[np.flatnonzero(a)[0]]
        a = np.concatenate([[math.copysign(case["lead"] * float(np.max(np.abs(a))), first)], a])
    how = case["rec"].get("as")
    if how == "int":
        a = np.round(a * (8 if np.max(np.abs(a)) < 1e6 else 1))
    elif how in NARROW:
        if how.startswith("u"):
            lo, hi = float(np.min(a)), float(np.max(a))
            a = np.round((a - lo) / (hi - lo) * NARROW[how][1]) if hi > lo else np.zeros_like(a)
        else:
            top = float(np.max(np.abs(a)))
            a = np.round(a / top * NARROW[how][1]) if top > 0 else np.round(a)
    return a, how


# narrow integer dtypes: (dtype, full-scale count used by the generator; full scale + the constant shifts stay inside the dtype)
NARROW = {"int16": (np.int16, 30000.0, 2000), "int32": (np.int32, 2.1e9, 2000), "uint8": (np.uint8, 250.0, 5), "uint16": (np.uint16, 65000.0, 500)}


def _as(a, how):
    if how == "int":
        return np.array(a, dtype=np.int64)
    if how in NARROW:
        return np.array(a, dtype=NARROW[how][0])
    if how == "list":
        return [float(v) for v in a]
    if how in ("view", "negstride", "readonly"):
        return gen.as_container({"as": how}, np.array(a, dtype=float))
    return np.array(a, dtype=float)


def _exact_data(case, a):
    return case["rec"]["k"] == "dyadic" or (case["rec"].get("as") == "int" or case["rec"].get("as") in NARROW) or bool(np.all(a == np.round(a)) and np.max(np.abs(a)) < 2 ** 40)



def _per_peak(ctx, a, lp, d, cs, tol_el):
    """Values of the two peak-only series at every reported peak.  The statement applied to every prefix of the record that ends
    at a reported peak (the record up to a turning point is itself a series of the quantifier, and the docstrings say 'changes
    between peak values' / 'peak values with alternating sign'): |delta| at a reported peak is the variation since the previous
    one, with ONE sign convention for the whole record (either is accepted); the pseudo-cyclic entry is
    sign(movement into the peak) * (x[peak] - x[0])."""
    if len(lp) < 2:
        return
    al = a.astype(LD)
    pvals = al[lp]
    moves = np.diff(pvals)
    dl = np.asarray(d).astype(LD)
    cl_ = np.asarray(cs).astype(LD)
    dp = dl[lp[1:]]
    e_pos = np.abs(dp - moves)
    e_neg = np.abs(dp + moves)
    if not (np.all(e_pos <= tol_el) or np.all(e_neg <= tol_el)):
        w_ = e_pos if np.sum(e_pos <= tol_el) >= np.sum(e_neg <= tol_el) else e_neg
        j = int(np.flatnonzero(~(w_ <= tol_el))[0])
        ctx.fail("delta series at reported peak %d (index %d of %d): %r, but the series moved by %r since the previous reported peak (index %d); %d of %d peaks differ" % (
            j + 1, int(lp[j + 1]), len(a), float(dp[j]), float(moves[j]), int(lp[j]), int(np.sum(~(w_ <= tol_el))), len(dp)))
    ctx.check(abs(float(dl[lp[0]])) <= tol_el, "delta series at the first sample is %r" % float(dl[lp[0]]))
    want_c = np.sign(moves) * (pvals[1:] - al[0])
    e_c = np.abs(cl_[lp[1:]] - want_c)
    if not np.all(e_c <= tol_el):
        j = int(np.flatnonzero(~(e_c <= tol_el))[0])
        ctx.fail("pseudo-cyclic series at reported peak %d (index %d of %d): %r, expected sign(movement)*(x - x[0]) = %r; %d of %d peaks differ" % (
            j + 1, int(lp[j + 1]), len(a), float(cl_[lp[j + 1]]), float(want_c[j]), int(np.sum(~(e_c <= tol_el))), len(e_c)))
    ctx.check(abs(float(cl_[lp[0]])) <= tol_el, "pseudo-cyclic series at the first sample is %r" % float(cl_[lp[0]]))


def _real_shift(ctx, a, lp, d, cs, shift):
    """Sentence 5 on real data: the two series of x + c agree with those of x to the rounding of x + c and of its rebasing:
    every entry is a difference of (at most) two rebased samples, each within eps*(max|x| + |c|) -> 8 eps (max|x| + |c|)."""
    a2 = a + shift
    lp2 = pf.local_peak_indices(a2)
    if not (np.array_equal(lp2, lp) and np.array_equal(pf.local_peak_indices(a2 - a2[0]), lp)):
        ctx.cls("shift-moves-a-turning-point")      # a step smaller than the rounding of x + c: positions ambiguous
        return
    tol = 8 * EPS * (float(np.max(np.abs(a))) + abs(shift))
    d2 = np.asarray(ctx.lib(pk.determine_peaks_only_delta_series, a2.copy()))
    c2 = np.asarray(ctx.lib(pk.determine_pseudo_cyclic_peak_only_series, a2.copy()))
    ctx.close(d2, np.asarray(d, dtype=float), tol, "delta series after a constant (real) shift of %r" % shift)
    ctx.close(c2, np.asarray(cs, dtype=float), tol, "pseudo-cyclic series after a constant (real) shift of %r" % shift)
    ctx.cls("shifted-real")


@clause(CLAUSES, "total-variation", _series(), quick=700, thorough=3000,
        rule="series of all kinds (plateau-rich integer levels, dyadic, element-wise floats, long recipes up to 3000; float / int64 / list / "
             "int16 and int32 counts scaled to the full range of the dtype), "
             "with and without a zero start and constant offsets; non-trivial = >= 3 reported peaks and at least one plateau or offset",
        oracle="reference model: delta series non-zero only at reference peak indices (C11), sum|delta| == total variation, |sum delta| == |x[-1]-x[0]|; "
               "pseudo-cyclic series sums to TV/2 + sign(final movement)*(x[-1]-x[0])/2; identical output after a constant (dyadic) shift; "
               "equality on exact data, 4*eps*n*TV otherwise; input unchanged",
        require={"exact": 0.2, "plateau": 0.2, "narrow-int": 0.08, "difference-exceeds-dtype": 0.05, "rebased-exceeds-dtype": 0.03})
def total_variation(case, ctx):
    a, how = _build(case)
    if ref.is_constant(a):
        a = a.copy()
        a[-1] += 1.0
    n = len(a)
    x = _as(a, how)
    exact = _exact_data(case, a)
    peaks = ref.local_peak_indices(a)
    has_plateau = bool(np.any(np.diff(a) == 0))
    ctx.cls(gen.size_class(n), "as=" + (how or "ndarray"), "exact" if exact else "real", "plateau" if has_plateau else None,
            "start0" if a[0] == 0 else "offset-start")
    if how in NARROW:
        lim = float(np.iinfo(NARROW[how][0]).max) / (2 if how.startswith("u") else 1)   # unsigned: a falling step wraps around
        ctx.cls("narrow-int", "unsigned" if how.startswith("u") else None, "difference-exceeds-dtype" if float(np.max(a) - np.min(a)) > lim else None,
                "rebased-exceeds-dtype" if float(np.max(np.abs(a - a[0]))) > lim else None)
    ctx.nt(len(peaks) >= 3 and (has_plateau or a[0] != 0))
    snap = (list(x) if isinstance(x, list) else np.array(x))
    d = np.asarray(ctx.lib(pk.determine_peaks_only_delta_series, x))
    c = np.asarray(ctx.lib(pk.determine_pseudo_cyclic_peak_only_series, x))
    same = (x == snap) if isinstance(x, list) else np.array_equal(x, snap)
    ctx.check(bool(same), "input series was modified")
    ctx.shape(d, (n,), "peaks-only delta series")
    ctx.shape(c, (n,), "pseudo-cyclic peak series")
    al = a.astype(LD)
    tv = float(np.sum(np.abs(np.diff(al))))
    off = float(al[-1] - al[0])
    # direction of the final movement: sign of the last non-zero difference
    dif = np.diff(a)
    last = dif[np.nonzero(dif)[0][-1]]
    # rounding: the library rebases the series (x - x[0]) before differencing, so errors scale with max|x| (incl. any offset)
    tol = 0.0 if exact else 4 * EPS * n * (tv + float(np.max(np.abs(a))))
    nz = set(np.nonzero(d)[0].tolist())
    allowed = set(peaks)
    if not exact and ref.local_peak_indices(a - a[0]) != peaks:
        # a difference smaller than the rounding of (x - x[0]) decides where a turning point is: the peak positions are
        # ambiguous in floating point; only the sums are asserted
        ctx.amb()
        allowed = allowed | set(ref.local_peak_indices(a - a[0]))
        nz = nz & allowed if nz <= allowed else nz
        allowed_min = set()
    else:
        allowed_min = allowed - {0}
    ctx.check(nz <= allowed, "delta series is non-zero away from reported peaks: indices %s (peaks %s)" % (sorted(nz - allowed)[:5], peaks[:8]))
    ctx.check(nz >= allowed_min, "delta series is zero at reported peak(s) %s" % sorted(allowed_min - nz)[:5])
    sabs = float(np.sum(np.abs(d.astype(LD))))
    ssum = float(np.sum(d.astype(LD)))
    ctx.check(abs(sabs - tv) <= tol, "sum|delta| = %r but the total variation is %r" % (sabs, tv))
    ctx.check(abs(abs(ssum) - abs(off)) <= tol, "|sum delta| = %r but |x[-1]-x[0]| = %r" % (abs(ssum), abs(off)))
    nzc = set(np.nonzero(c)[0].tolist())
    ctx.check(nzc <= allowed, "pseudo-cyclic series is non-zero away from reported peaks: %s" % sorted(nzc - allowed)[:5])
    want = tv / 2 + np.sign(last) * off / 2
    wants = [want]
    if not exact:
        # the direction of the final movement is a discontinuous functional: when the last movement is smaller than the
        # rounding of (x - x[0]) it vanishes in the rebased series and the previous movement becomes the final one
        rb = a - a[0]
        drb = np.diff(rb)
        if np.any(drb):
            wants.append(tv / 2 + np.sign(drb[np.nonzero(drb)[0][-1]]) * off / 2)
    csum = float(np.sum(c.astype(LD)))
    ctx.check(any(abs(csum - w_) <= tol for w_ in wants),
              "pseudo-cyclic series sums to %r, expected TV/2 + sign(final movement)*(end-start)/2 = %r" % (csum, want))
    if not ctx.ambiguous:
        # per-peak values (the statement applied to every prefix that ends at a reported peak, see _per_peak)
        _per_peak(ctx, a, np.array(peaks), d, c, 0.0 if exact else 4 * EPS * float(np.max(np.abs(a))))
        if not exact and case["offset"] != 0:
            _real_shift(ctx, a, np.array(peaks), d, c, float(case["offset"]) * 1.1)
    # constant shift (exactly representable): identical output
    if exact and case["offset"] != 0:
        shift = case["offset"] if how != "int" else float(int(case["offset"] * 8))
        if how in NARROW:
            shift = float(max(-NARROW[how][2], min(NARROW[how][2], int(case["offset"] * 8))))     # stays inside the dtype
            if how.startswith("u"):
                shift = abs(shift)
        x2 = _as(a + shift, how)
        ctx.equal(ctx.lib(pk.determine_peaks_only_delta_series, x2), d, "delta series after a constant shift of %r" % shift)
        ctx.equal(ctx.lib(pk.determine_pseudo_cyclic_peak_only_series, x2), c, "pseudo-cyclic series after a constant shift of %r" % shift)
        ctx.cls("shifted")
    if how == "int" and np.max(np.abs(a)) < 2 ** 40:
        # raw counts on a large integer baseline, also beyond 2^53: an integer series is rebased exactly, so the output is identical
        for big in (2 ** 55 + 7, -(2 ** 58) + 3):
            x3 = np.array(a, dtype=np.int64) + np.int64(big)
            ctx.equal(ctx.lib(pk.determine_peaks_only_delta_series, x3), d, "delta series after an integer shift of %d" % big)
            ctx.equal(ctx.lib(pk.determine_pseudo_cyclic_peak_only_series, x3), c, "pseudo-cyclic series after an integer shift of %d" % big)
        ctx.cls("huge-int-offset")


# ---------------------------------------------------------------------------

@st.composite
def _pl_cases(draw):
    c = draw(_series(max_n=1500))
    c["rec"].pop("as", None)
    c["b"] = draw(st.one_of(st.floats(0.05, 1.0, exclude_min=True, allow_nan=False), st.sampled_from([0.2, 0.34, 0.5, 1.0])))
    c["barr"] = draw(st.lists(st.one_of(st.floats(0.05, 1.0, exclude_min=True, allow_nan=False), st.floats(0.05, 0.1, exclude_min=True, allow_nan=False)),
                              min_size=1, max_size=3))
    c["cut"] = draw(st.one_of(st.just(0.0), st.just(0.01), st.floats(0.0, 0.1, allow_nan=False)))
    c["aref_rel"] = draw(gen.log_uniform(0.05, 20.0))
    c["ncyc"] = draw(gen.log_uniform(0.5, 50.0))
    c["alpha"] = draw(gen.scalars(1e-2, 1e2))
    c["unit"] = draw(st.sampled_from([0, 0, -20, -33, -50, 20, 40]))
    # raw counts of a 16 / 32 bit digitiser using the full range of the dtype, the most negative sample at the dtype's minimum
    c["narrow"] = draw(st.sampled_from([None, None, None, None, None, "int16", "int16", "int32", "uint16", "uint8"]))
    c["scont"] = draw(st.sampled_from(["ndarray", "list", "int"]))      # container of the scaled record alpha * x
    return c


def _ref_series(a, peaks, contrib):
    """Step series: running sum of contrib[j] at peak index peaks[j]."""
    out = np.zeros(len(a), dtype=LD)
    for j, i in enumerate(peaks):
        out[i] += contrib[j]
    return np.cumsum(out)


@clause(CLAUSES, "power-law", _pl_cases(), quick=500, thorough=2500,
        rule="series as above (n <= 1500, half of them starting at 0; 3 in 7 as int16 / int32 counts over the full range of the dtype with the "
             "most negative sample at the dtype's minimum), b in (0.05,1] scalar and arrays, cut_off in [0,0.1], a_ref within "
             "[0.05,20] x max|x|, n_cyc in [0.5,50], alpha in +-[1e-2,1e2]; non-trivial = >= 4 reference switched peaks",
        oracle="reference model built from the reference switched peaks (C12): series == running sums (1e-10 relative, element-wise, outside "
               "the tied stretch of an excursion), length, monotone; inverse A(N(a_ref)) == a_ref * (S_all/S_kept)^b two-sided (== a_ref when no "
               "peak is below the cut-off); A(alpha x) == |alpha| A(x) and N(alpha x, alpha a_ref) == N(x, a_ref) for scalar and array b, float64 / "
               "list / int64 records, any unit with and without cut-off; identical components: combined == 2^b single, geometric mean == single "
               "(4 eps); array b column j == reference == scalar call",
        require={"nonzero-start": 0.2, "cut>0": 0.3, "first-value-is-peak": 0.06, "narrow-int": 0.2, "most-negative-count": 0.08,
                 "small-unit-with-cut": 0.08, "inverse-with-dropped-peaks": 0.03}, min_nontrivial=0.3)
def power_law(case, ctx):
    a, _ = _build(case)
    if ref.is_constant(a):
        a = a.copy()
        a[-1] += 1.0
    cut = case["cut"]
    # every law holds in any unit (strain, micro-tremor displacement in metres, raw counts), with and without a cut-off: exact
    # power-of-two change of unit - as long as |peak|^(1/b) stays inside the double range (b = 0.05 raises amplitudes to the
    # 20th power); otherwise the series is normalised to max|x| = 1
    bmin = min([case["b"]] + list(case["barr"]))
    scaled = a * 2.0 ** case.get("unit", 0)
    top = float(np.max(np.abs(scaled)))
    if top > 0 and abs(np.log10(top)) / bmin < 200:
        if case.get("unit"):
            ctx.cls("small-unit" if case["unit"] < 0 else "large-unit", "small-unit-with-cut" if case["unit"] < 0 and cut > 0 else None)
        a = scaled
    else:
        a = a * 2.0 ** int(np.ceil(-np.log2(float(np.max(np.abs(a))))))
        ctx.cls("unit-normalised")
    x = a      # the argument handed to the library; `a` = the float64 values it represents
    if case.get("narrow"):
        xi, ai = gen.narrow_int(a, case["narrow"])
        if not ref.is_constant(ai):
            x, a = xi, ai
            ctx.cls("narrow-int", "unsigned" if case["narrow"].startswith("u") else None,
                    "most-negative-count" if float(np.min(ai)) == float(np.iinfo(case["narrow"]).min) and float(np.min(ai)) < 0 else None)
    n = len(a)
    b = case["b"]
    amax = float(np.max(np.abs(a)))
    aref = case["aref_rel"] * amax
    ncyc = case["ncyc"]
    peaks = ref.switched_peaks(a)
    _, tie, free = pf.switched(a, with_free=True)
    fixed = ~free      # samples at which the cumulative series are determined (outside the tied stretch of an excursion)
    pv = np.abs(a[peaks]).astype(LD)
    ctx.cls("first-value-is-peak" if case.get("lead") else None)
    ctx.cls(gen.size_class(n), "nonzero-start" if a[0] != 0 else "zero-start", "cut>0" if cut > 0 else "cut=0", "tie" if tie else None,
            "below-cut" if cut > 0 and np.any((pv > 0) & (pv < cut * amax)) else None)
    ctx.nt(len([p for p in pv if p > 0]) >= 4)
    rel = 1e-10 + 2 * EPS * len(peaks)
    # a peak within 1e-9 of the cut-off: which side it falls on depends on how the product cut_off*max|x| is rounded
    amb_cut = bool(cut > 0 and amax > 0 and np.any(np.abs(pv / LD(cut * amax) - 1) < 1e-9))

    def series(contrib, power=None):
        cum = _ref_series(a, peaks, contrib)
        # sums below 1e-280 are (or were) subnormal in double precision: not compared (relative accuracy is lost there)
        ok = fixed & ((cum >= 1e-280) | (cum == 0))
        return (cum if power is None else cum ** LD(power)), ok

    def cmp(got, want_ok, what, factor=1.0):
        want, ok = want_ok
        got = np.asarray(got)
        if got.shape != want.shape:
            ctx.fail("%s: shape %s, expected %s" % (what, got.shape, want.shape))
        _cmp_series(ctx, got[ok], want[ok] * LD(factor), rel, 0.0, what)

    # ---- equivalent number of cycles (peaks BELOW the cut-off count no cycles)
    keep = pv >= cut * amax

    def n_ref(bj, aref_=aref):
        return series(np.where(keep, LD(0.5) * (pv / LD(aref_)) ** (LD(1) / LD(bj)), LD(0)))

    def a_ref_series(bj, ncyc_=ncyc):
        return series(LD(0.5) * pv ** (LD(1) / LD(bj)) / LD(ncyc_), power=bj)

    ns = np.asarray(ctx.lib(im.calc_n_cyc_array_w_power_law, x, aref, b, cut_off=cut))
    ctx.check(ns.shape[0] == n and ns.size == n, "cycle series has shape %s, record %d" % (ns.shape, n))
    ns1 = ns.reshape(n, -1)[:, 0]
    ctx.finite(ns1, "cycle series")
    ctx.check(bool(np.all(np.diff(ns1) >= 0)), "equivalent number of cycles is not non-decreasing")
    if amb_cut:
        ctx.amb()
    else:
        cmp(ns1, n_ref(b), "equivalent number of cycles vs reference (b=%r, cut_off=%r, a_ref=%r)" % (b, cut, aref))
    # ---- equivalent uniform amplitude
    As = np.asarray(ctx.lib(im.calc_cyc_amp_array_w_power_law, x, ncyc, b))
    ctx.shape(As, (n,), "equivalent amplitude series (scalar b)")
    ctx.check(bool(np.all(np.diff(As) >= 0)), "equivalent uniform amplitude is not non-decreasing")
    cmp(As, a_ref_series(b), "equivalent amplitude vs reference (b=%r, n_cyc=%r)" % (b, ncyc))
    # ---- mutually inverse.  N counts the kept peaks only, A all of them: A(N(a_ref)) = a_ref * (S_all / S_kept)^b with
    # S = sum |p|^(1/b); that is a_ref itself when no peak lies below the cut-off (always for cut_off = 0) - two-sided either way
    n_end = float(ns1[-1])
    if n_end > 1e-280 and not amb_cut:
        back = float(np.asarray(ctx.lib(im.calc_cyc_amp_array_w_power_law, x, n_end, b))[-1])
        pw = pv ** (LD(1) / LD(b))
        s_all, s_kept = np.sum(pw), np.sum(np.where(keep, pw, LD(0)))
        if s_kept >= 1e-280 and s_all < 1e300:
            want = float(LD(aref) * (s_all / s_kept) ** LD(b))
            ctx.cls("inverse-exact" if s_all == s_kept else "inverse-with-dropped-peaks")
            ctx.check(abs(back - want) <= 1e-9 * want, "A(N(a_ref)) = %r but a_ref = %r, expected %r (b=%r, cut_off=%r)" % (back, aref, want, b, cut))
    # ---- scaling laws: scalar and array b; float64 / list containers (integer containers below)
    al = case["alpha"]
    barr = np.array(case["barr"], dtype=float)
    a2 = a * al
    sw2, _t2, free2 = pf.switched(a2, with_free=True)
    amax2 = float(np.max(np.abs(a2)))
    same_peaks = np.array_equal(sw2, np.array(peaks)) and np.array_equal(free2, free) and \
        bool(np.all((np.abs(a2[sw2]) >= cut * amax2) == np.asarray(keep)))
    x2 = [float(v) for v in a2] if case.get("scont") == "list" else a2
    Aarr = np.asarray(ctx.lib(im.calc_cyc_amp_array_w_power_law, x, ncyc, barr))
    Narr = np.asarray(ctx.lib(im.calc_n_cyc_array_w_power_law, x, aref, barr, cut_off=cut))
    ctx.shape(Aarr, (n, len(barr)), "amplitude series for array b")
    ctx.shape(Narr, (n, len(barr)), "cycle series for array b")
    if not same_peaks:
        # alpha*x rounds two samples onto each other (or across the cut-off): the reported peaks move - nothing to compare
        ctx.cls("scaling-moves-a-peak")
    else:
        okA = a_ref_series(b)[1]
        okN = n_ref(b)[1]
        A2 = np.asarray(ctx.lib(im.calc_cyc_amp_array_w_power_law, x2, ncyc, b))
        ctx.close(A2[okA], abs(al) * As[okA], 2 * rel * abs(al) * np.abs(As[okA]) + core.TINY, "A(alpha x) vs |alpha| A(x)")
        N2 = np.asarray(ctx.lib(im.calc_n_cyc_array_w_power_law, x2, aref * abs(al), b, cut_off=cut)).reshape(n, -1)[:, 0]
        if amb_cut:
            ctx.amb()
        else:
            ctx.close(N2[okN], ns1[okN], 2 * rel * np.abs(ns1[okN]) + core.TINY, "N(alpha x, alpha a_ref) vs N(x, a_ref)")
        A2a = np.asarray(ctx.lib(im.calc_cyc_amp_array_w_power_law, x2, ncyc, barr))
        N2a = np.asarray(ctx.lib(im.calc_n_cyc_array_w_power_law, x2, aref * abs(al), barr, cut_off=cut))
        for j, bj in enumerate(barr):
            oka = a_ref_series(float(bj))[1]
            okn = n_ref(float(bj))[1]
            ctx.close(A2a[oka, j], abs(al) * Aarr[oka, j], 2 * rel * abs(al) * np.abs(Aarr[oka, j]) + core.TINY, "A(alpha x) vs |alpha| A(x), array b column %d" % j)
            if not amb_cut:
                ctx.close(N2a[okn, j], Narr[okn, j], 2 * rel * np.abs(Narr[okn, j]) + core.TINY, "N(alpha x, alpha a_ref) vs N(x, a_ref), array b column %d" % j)
    if case.get("scont") == "int" and not case.get("narrow"):
        # integer counts and an integer factor: alpha * x is exact
        k = 30 - int(math.ceil(math.log2(amax)))
        xi = np.round(a * 2.0 ** k).astype(np.int64)
        ka = [2, -3, 5, -7][int(abs(case["alpha"]) * 1000) % 4]
        if not ref.is_constant(xi.astype(float)):
            ai_max = float(np.max(np.abs(xi)))
            Ai = np.asarray(ctx.lib(im.calc_cyc_amp_array_w_power_law, xi, ncyc, b))
            Ai2 = np.asarray(ctx.lib(im.calc_cyc_amp_array_w_power_law, xi * ka, ncyc, b))
            ctx.close(Ai2, abs(ka) * Ai, 2 * rel * abs(ka) * np.abs(Ai) + 1e-280, "A(k x) vs |k| A(x), int64 counts, k=%d" % ka)
            Ni = np.asarray(ctx.lib(im.calc_n_cyc_array_w_power_law, xi, case["aref_rel"] * ai_max, b, cut_off=cut)).reshape(n, -1)[:, 0]
            Ni2 = np.asarray(ctx.lib(im.calc_n_cyc_array_w_power_law, xi * ka, case["aref_rel"] * ai_max * abs(ka), b, cut_off=cut)).reshape(n, -1)[:, 0]
            pvi = np.abs(xi[pf.switched_peaks(xi.astype(float))]).astype(float)
            if cut > 0 and np.any(np.abs(pvi / (cut * ai_max) - 1) < 1e-9):
                ctx.amb()
            else:
                ctx.close(Ni2, Ni, 2 * rel * np.abs(Ni) + 1e-280, "N(k x, k a_ref) vs N(x, a_ref), int64 counts, k=%d" % ka)
            ctx.cls("scaling-int")
    # ---- two identical components
    comb = np.asarray(ctx.lib(im.calc_cyc_amp_combined_arrays_w_power_law, x, x.copy(), ncyc, b))
    gm = np.asarray(ctx.lib(im.calc_cyc_amp_gm_arrays_w_power_law, x, x.copy(), ncyc, b))
    cmp(comb, a_ref_series(b), "combined amplitude of two identical components vs 2^b * single", factor=2.0 ** b)
    cmp(gm, a_ref_series(b), "geometric-mean amplitude of two identical components vs single")
    ctx.close(gm, As, 4 * EPS * np.abs(As) + core.TINY, "geometric-mean amplitude of two identical components vs the single-component call")
    # ---- array b: reference and scalar call
    for j, bj in enumerate(barr):
        cmp(Aarr[:, j], a_ref_series(float(bj)), "amplitude series for array b, column %d (b=%r)" % (j, float(bj)))
        if not amb_cut:
            cmp(Narr[:, j], n_ref(float(bj)), "cycle series for array b, column %d (b=%r)" % (j, float(bj)))
        Aj = np.asarray(ctx.lib(im.calc_cyc_amp_array_w_power_law, x, ncyc, float(bj)))
        Nj = np.asarray(ctx.lib(im.calc_n_cyc_array_w_power_law, x, aref, float(bj), cut_off=cut)).reshape(n, -1)[:, 0]
        ctx.close(Aarr[:, j], Aj, 1e-12 * np.abs(Aj) + core.TINY, "array-b column %d vs scalar call (amplitude)" % j)
        ctx.close(Narr[:, j], Nj, 1e-12 * np.abs(Nj) + core.TINY, "array-b column %d vs scalar call (cycles)" % j)


# ---------------------------------------------------------------------------
# mid-range sizes (DESIGN 8.5): records of 2e3 .. 3e5 samples (thorough 2e6), 20 .. n/2 switched peaks, 1 .. 2000 exponents b,
# products n x len(b) of 1e5 .. 3e7.  Deterministic enumerations: sizes from gen.size_ladder / gen.product_pairs (one size per
# logarithmic bin, placed by a hash of VERIF_SEED, plus the integer literals mined from the source under test); every other
# parameter is a hash of (VERIF_SEED, tag, index).  The WHOLE output is compared with an O(n) reference built from the vectorised
# reference peaks of pbt/ref/peaks_fast.py (cross-checked against the loops of pbt/ref/peaks.py at import).

import hashlib as _hashlib  # noqa: E402

from pbt.core import enum_clause  # noqa: E402
from pbt.ref import peaks_fast as pf  # noqa: E402


def _hu(*parts):
    """Uniform number in [0, 1): hash of (VERIF_SEED, parts)."""
    s = ":".join(str(p) for p in (gen.run_seed(), "c13") + parts)
    return (int(_hashlib.blake2b(s.encode(), digest_size=8).hexdigest(), 16) % 10 ** 9) / 1e9


def _pick(seq, *parts):
    return seq[min(len(seq) - 1, int(_hu(*parts) * len(seq)))]


def _logu(lo, hi, *parts):
    return float(math.exp(math.log(lo) + (math.log(hi) - math.log(lo)) * _hu(*parts)))


def _sd(*parts):
    return int(_hu("seed", *parts) * (2 ** 31 - 1))


B_SCALARS = [0.051, 0.07, 0.1, 0.2, 0.3, 0.34, 0.5, 0.8, 1.0]
CUTS = [None, 0.0, 0.01, 0.03, 0.1]       # None: the argument is omitted (default 0.01)
UNITS = [0, 0, -7, 5]
UNITS_WIDE = [0, -7, 5, -20, -33, 12, 30]       # with b >= 0.15 (powers up to 6.7): strain / micro-tremor units and raw counts


def _mr_series(c):
    """Record of a mid-range case (pure function of the case).  Ordinary data that keep an error visible: noise / band-limited
    noise / modulated sines times a slowly varying envelope (every stretch of the record contributes differently), a non-zero
    mean, no trailing quiet stretch."""
    n = int(c["n"])
    rs = np.random.RandomState(int(c["seed"]))
    t = np.arange(n, dtype=float)
    kind = c["kind"]
    if kind == "noise":
        a = rs.standard_normal(n)
    elif kind == "band":
        # white noise through two running means (widths w and w // 2 + 1): a few switched peaks per w samples, few ripples
        w = int(c["w"])
        w2 = w // 2 + 1
        cs = np.cumsum(rs.standard_normal(n + w + w2))
        a = (cs[w:] - cs[:-w]) / math.sqrt(w)
        cs = np.cumsum(a)
        a = (cs[w2:] - cs[:-w2]) / math.sqrt(w2)
    elif kind == "smooth":
        cyc = float(c["cyc"])
        ph = rs.uniform(0, 2 * math.pi, 3)
        a = (np.sin(2 * math.pi * cyc * t / n + ph[0]) * (1 + 0.4 * np.sin(2 * math.pi * 3.3 * t / n + ph[1]))
             + 0.3 * np.sin(2 * math.pi * 0.377 * cyc * t / n + ph[2]))
    else:
        raise ValueError(kind)
    env = c.get("env", "up")
    x = t / n
    e = {"up": 0.6 + 0.8 * x, "down": 1.4 - 0.8 * x, "hump": 0.6 + 0.8 * np.sin(math.pi * x)}[env]
    a = a * e + 0.11
    g = int(c.get("grid", 0))
    if g:
        a = np.round(a * 2.0 ** g) / 2.0 ** g
    start = c.get("start", "offset")
    if start == "zero":
        a[0] = 0.0
    elif start == "lead":
        # the record starts AT the largest value of its first excursion
        sg = np.sign(a[1]) if a[1] != 0 else 1.0
        other = np.flatnonzero(np.sign(a[1:]) != sg)
        k = int(other[0]) + 1 if len(other) else n
        a[0] = sg * 1.25 * float(np.max(np.abs(a[1:k + 1])))
    elif a[0] == 0:
        a[0] = 0.125     # dyadic: data on a grid stay exact
    a = a * 2.0 ** int(c.get("unit", 0))
    if pf.is_constant(a):
        a[-1] += 1.0
    return np.ascontiguousarray(a)


def _mr_container(a, how):
    """(argument handed to the library, the float64 values it represents)."""
    if how == "int":
        # integer counts up to 2^40: no two samples of an excursion share their |value| (no ties), every count exact in float64
        k = 40 - int(math.ceil(math.log2(float(np.max(np.abs(a))))))
        ai = np.round(a * 2.0 ** k).astype(np.int64)
        if np.all(ai == ai[0]):
            ai[-1] += 1
        return ai, ai.astype(float)
    if how == "list":
        return [float(v) for v in a], a
    if how in ("int16", "int32"):
        # raw counts over the full range of the dtype, the most negative sample at the dtype's minimum
        xi, ai = gen.narrow_int(a, how)
        if np.all(ai == ai[0]):
            return a.copy(), a
        return xi, ai
    if how in ("view", "negstride", "readonly"):
        return gen.as_container({"as": how}, a), a
    return a.copy(), a


def _kind_params(kind, n, *parts):
    c = {"kind": kind}
    if kind == "band":
        c["w"] = int(_logu(4, 120, "w", *parts))
    elif kind == "smooth":
        c["cyc"] = round(_logu(8, max(10, min(3000, n / 40.0)), "cyc", *parts), 3)
    c["env"] = _pick(["up", "down", "hump"], "env", *parts)
    return c


def _deal(cases, shard, nshards):
    """Costly cases first, then dealt round-robin: shards of equal weight."""
    order = sorted(range(len(cases)), key=lambda i: (-cases[i].get("cost", 0), i))
    for rank, i in enumerate(order):
        if rank % nshards == shard:
            yield cases[i]


def _step_index(n, sw):
    """k[i] = number of switched peaks at or before sample i."""
    cnt = np.zeros(n, dtype=np.int64)
    cnt[sw] = 1
    return np.cumsum(cnt)


def _rel_tol(npeaks):
    # sequential float64 summation of npeaks positive terms: relative error <= npeaks*eps of the partial sum itself; the
    # powers (rounded exponent 1/b, |log| <= 400) add < 1e-12; 1e-10 is the module's stated tolerance for short records
    return 1e-10 + 2 * EPS * npeaks


def _cmp_series(ctx, got, want, rel, slack, what):
    """Whole series: |got - want| <= rel*want + slack element-wise (want >= 0, long double)."""
    got = np.asarray(got)
    if got.shape != want.shape:
        ctx.fail("%s: shape %s, expected %s" % (what, got.shape, want.shape))
    d = np.abs(got.astype(LD) - want)
    bad = ~(d <= rel * want + slack + core.TINY)
    if np.any(bad):
        i = tuple(np.argwhere(bad)[0])
        ctx.fail("%s: |diff|=%.6g > tol=%.6g at %s of %s: got %r expected %r (%d of %d out)" % (
            what, float(d[i]), float(rel * want[i] + slack), i, got.shape, float(got[i]), float(want[i]),
            int(np.sum(bad)), got.size))


def _pl_setup(ctx, c):
    """Record, reference switched peaks and the scalar parameters of a power-law case."""
    a0 = _mr_series(c)
    x, a = _mr_container(a0, c.get("container", "ndarray"))
    n = len(a)
    sw, tie, free = pf.switched(a, with_free=True)
    pv = np.abs(a[sw])
    amax = float(np.max(np.abs(a)))
    aref = float(c["aref_rel"]) * amax
    ncyc = float(c["ncyc"])
    cut = c.get("cut")
    cutv = 0.01 if cut is None else float(cut)
    ctx.cls("kind=" + c["kind"], "n>50000" if n > 50000 else "n<=50000", "start=" + c.get("start", "offset"),
            "cut=default" if cut is None else ("cut=0" if cutv == 0 else "cut>0"), "tie" if tie else None,
            "container=" + c.get("container", "ndarray"), "peaks>%d" % (10 ** int(math.log10(max(1, len(sw))))))
    ctx.nt(int(np.sum(pv > 0)) >= 4)
    amb_cut = bool(cutv > 0 and np.any(np.abs(pv / (cutv * amax) - 1) < 1e-9))
    keep = pv >= cutv * amax
    if cutv > 0 and np.any((pv > 0) & ~keep):
        ctx.cls("below-cut")
    return dict(x=x, a=a, n=n, sw=sw, tie=tie, fixed=~free, pv=pv, amax=amax, aref=aref, ncyc=ncyc, cut=cut, cutv=cutv, keep=keep,
                amb_cut=amb_cut, kidx=_step_index(n, sw), rel=_rel_tol(len(sw)))


def _ncyc_call(ctx, s, b):
    if s["cut"] is None:
        return np.asarray(ctx.lib(im.calc_n_cyc_array_w_power_law, s["x"], s["aref"], b))
    return np.asarray(ctx.lib(im.calc_n_cyc_array_w_power_law, s["x"], s["aref"], b, cut_off=s["cut"]))


def _ref_n_ld(s, bj):
    """Reference cycle series for one exponent (long double, whole record)."""
    contrib = np.where(s["keep"], LD(0.5) * (s["pv"].astype(LD) / LD(s["aref"])) ** (LD(1) / LD(bj)), LD(0))
    return np.concatenate([[LD(0)], np.cumsum(contrib)])[s["kidx"]]


def _ref_a_ld(s, bj, ncyc=None):
    ncyc = s["ncyc"] if ncyc is None else ncyc
    contrib = LD(0.5) * s["pv"].astype(LD) ** (LD(1) / LD(bj)) / LD(ncyc)
    return (np.concatenate([[LD(0)], np.cumsum(contrib)]) ** LD(bj))[s["kidx"]]


def _check_n_col(ctx, s, col, bj, what):
    n = s["n"]
    ctx.check(col.shape == (n,), "%s: cycle series has shape %s, record %d" % (what, col.shape, n))
    ctx.finite(col, what)
    ctx.check(bool(np.all(np.diff(col) >= 0)), "%s: equivalent number of cycles is not non-decreasing" % what)
    want = _ref_n_ld(s, bj)
    if s["amb_cut"]:
        ctx.amb()
    else:
        # an excursion that attains its largest |value| more than once leaves the series open between those samples only
        ok = s["fixed"]
        _cmp_series(ctx, col[ok], want[ok], s["rel"], 0.0, what + " vs reference (b=%r, cut_off=%r, a_ref=%r)" % (
            float(bj), s["cut"], s["aref"]))


def _check_a_col(ctx, s, col, bj, what, factor=1.0, ncyc=None):
    n = s["n"]
    ctx.check(col.shape == (n,), "%s: amplitude series has shape %s, record %d" % (what, col.shape, n))
    ctx.finite(col, what)
    ctx.check(bool(np.all(np.diff(col) >= 0)), "%s: equivalent uniform amplitude is not non-decreasing" % what)
    want = _ref_a_ld(s, bj, ncyc) * LD(factor)
    ok = s["fixed"]
    _cmp_series(ctx, col[ok], want[ok], s["rel"], 0.0, what + " vs reference (b=%r)" % float(bj))


def _b_arg(c):
    """Exponent argument of a case: python float / numpy scalar / int 1 / ndarray (contiguous, strided, read-only)."""
    spec = c["b"]
    if not isinstance(spec, dict):
        return float(spec), [float(spec)], False
    if spec["form"] == "npfloat":
        return np.float64(spec["v"]), [float(spec["v"])], False
    if spec["form"] == "int1":
        return 1, [1.0], False
    m = int(spec["m"])
    rs = np.random.RandomState(int(spec["seed"]))
    fill = spec["fill"]
    if fill == "linspace":
        lo, hi = sorted(rs.uniform(0.0501, 1.0, 2))
        v = np.linspace(lo, max(hi, lo + 0.05), m)
    elif fill == "random":
        v = rs.uniform(0.0501, 1.0, m)
    elif fill == "repeat":
        # a flattened parameter grid: few distinct values, each many times, unsorted
        v = rs.choice(rs.uniform(0.0501, 1.0, max(1, min(7, m // 2))), size=m)
    elif fill == "const":
        v = np.full(m, float(rs.uniform(0.0501, 1.0)))
    elif fill == "ones-int":
        return np.ones(m, dtype=np.int64), [1.0] * m, True
    else:
        raise ValueError(fill)
    v = np.minimum(1.0, v)
    lay = spec.get("layout", "c")
    if lay == "strided":
        buf = np.full(2 * m, 0.77)
        buf[0::2] = v
        arg = buf[0::2]
    elif lay == "readonly":
        arg = v.copy()
        arg.flags.writeable = False
    else:
        arg = v.copy()
    return arg, [float(q) for q in v], True


# ---- 3. mid-range: record length x peak density x function group ---------------------------------------------------------

def _mid_sizes(tier):
    """(sizes of the power-law groups, sizes of the cheap total-variation group).  The last rung is an anchor just above the
    nominal end of the range, so that a window that opens anywhere below the end is entered by at least one record."""
    if tier == "quick":
        top = int(300000 * (1 + 0.1 * _hu("top")))
        return (sorted(set(gen.size_ladder(2000, 300000, 14, "c13:n")) | {top}),
                sorted(set(gen.size_ladder(2000, 300000, 24, "c13:n:tv")) | {top + 1}))
    top = int(2000000 * (1 + 0.05 * _hu("top:t")))
    return (sorted(set(gen.size_ladder(2000, 2000000, 30, "c13:n:t", mined_limit=16)) | set(gen.ladder(2000, 300000, 14, "c13:n")) | {top}),
            sorted(set(gen.size_ladder(2000, 2000000, 60, "c13:n:tv:t", mined_limit=16)) | set(gen.ladder(2000, 300000, 24, "c13:n:tv")) | {top + 1}))


def _mid_cases(tier):
    sizes, sizes_tv = _mid_sizes(tier)
    cases = []
    for i, n in enumerate(sizes_tv):
        for kind in ("smooth", "band", "noise"):
            base = dict(n=int(n), seed=_sd("mid-tv", i, kind), group="tv", cost=0.05 * n, **_kind_params(kind, n, "mid-tv", i, kind))
            # total-variation functions (no Python loop in the library: cheap): real data and exact (dyadic grid / integer) data
            cases.append(dict(base, start=_pick(["zero", "offset", "offset", "lead"], "tvs", i, kind), grid=0,
                              container=_pick(["ndarray", "ndarray", "list"], "tvc", i, kind)))
            cases.append(dict(base, seed=_sd("mid-tvx", i, kind), start=_pick(["zero", "offset", "offset", "lead"], "tvsx", i, kind),
                              grid=_pick([3, 10], "tvg", i, kind), container=_pick(["ndarray", "int", "list", "int16", "int32"], "tvcx", i, kind),
                              shift=_pick([1024.0, -2.5, 1.0, -0.375], "tvo", i, kind)))
    for i, n in enumerate(sizes):
        for kind in ("smooth", "band", "noise"):
            per_sample = {"smooth": 0.05, "band": 0.4, "noise": 1.8}[kind]       # micro-seconds per library peak walk
            base = dict(n=int(n), seed=_sd("mid", i, kind), **_kind_params(kind, n, "mid", i, kind))
            # power-law functions
            pl = dict(base, start=_pick(["zero", "zero", "offset", "lead"], "pls", i, kind), unit=_pick(UNITS, "plu", i, kind),
                      aref_rel=round(_logu(0.05, 20.0, "plr", i, kind), 6), ncyc=round(_logu(0.5, 50.0, "pln", i, kind), 6),
                      container=_pick(["ndarray", "ndarray", "ndarray", "int", "readonly", "int32", "list"], "plc", i, kind))
            if _hu("plb", i, kind) < 0.6:
                b = _pick(B_SCALARS, "plbs", i, kind) if _hu("plb2", i, kind) < 0.5 else round(0.0501 + 0.9499 * _hu("plb3", i, kind), 4)
            else:
                b = {"form": "array", "m": 1 + int(3 * _hu("plbm", i, kind)), "fill": _pick(["random", "repeat", "linspace"], "plbf", i, kind),
                     "seed": _sd("plb", i, kind), "layout": "c"}
            wide = {"unit": _pick(UNITS_WIDE, "pluw", i, kind)} if not isinstance(b, dict) and b >= 0.15 else {}
            cases.append(dict(pl, group="single", b=b, cut=_pick(CUTS, "plcut", i, kind), cost=3 * per_sample * n, **wide))
            bs = _pick(B_SCALARS, "plbp", i, kind) if _hu("plbp2", i, kind) < 0.5 else round(0.0501 + 0.9499 * _hu("plbp3", i, kind), 4)
            pair = dict(pl, b=bs, seed=_sd("mid-pair", i, kind), start=_pick(["zero", "offset", "lead"], "pps", i, kind))
            if bs >= 0.15:
                pair["unit"] = _pick(UNITS_WIDE, "ppuw", i, kind)
            if kind != "smooth" and n > 20000:
                # the library walks over every local peak in Python (~2 micro-seconds each, four walks for the two functions):
                # long wiggly records get one of the two functions, alternately
                which = _pick(["comb", "gm"], "ppw", i, kind)
                cases.append(dict(pair, group=which, cost=2 * per_sample * n))
            else:
                cases.append(dict(pair, group="pair", cost=4 * per_sample * n))
    return cases


def _mid_enum(tier, shard, nshards):
    return _deal(_mid_cases(tier), shard, nshards)


def _tv_check(ctx, c):
    a0 = _mr_series(dict(c, unit=0))
    how = c.get("container", "ndarray")
    if how == "int":
        a0 = np.round(a0 * 1024.0)
        if pf.is_constant(a0):
            a0[-1] += 1.0
        x = a0.astype(np.int64)
    elif how in NARROW:
        # raw counts using the full range of a 16 / 32 bit dtype: differences of two samples do not fit into the dtype
        a0 = np.round(a0 / float(np.max(np.abs(a0))) * NARROW[how][1])
        if pf.is_constant(a0):
            a0[-1] += 1.0
        x = a0.astype(NARROW[how][0])
    elif how == "list":
        x = [float(v) for v in a0]
    else:
        x = a0.copy()
    a = a0
    n = len(a)
    exact = how in ("int", "int16", "int32") or int(c.get("grid", 0)) > 0
    lp = pf.local_peak_indices(a)
    has_plateau = bool(np.any(a[1:] == a[:-1]))
    ctx.cls("kind=" + c["kind"], "n>50000" if n > 50000 else "n<=50000", "as=" + how, "exact" if exact else "real",
            "plateau" if has_plateau else None, "start=" + c.get("start", "offset"))
    ctx.nt(len(lp) >= 3)
    snap = list(x) if isinstance(x, list) else x.copy()
    d = np.asarray(ctx.lib(pk.determine_peaks_only_delta_series, x))
    cs = np.asarray(ctx.lib(pk.determine_pseudo_cyclic_peak_only_series, x))
    same = (x == snap) if isinstance(x, list) else np.array_equal(x, snap)
    ctx.check(bool(same), "input series was modified")
    ctx.shape(d, (n,), "peaks-only delta series")
    ctx.shape(cs, (n,), "pseudo-cyclic peak series")
    al = a.astype(LD)
    big = float(np.max(np.abs(a)))
    tv = np.sum(np.abs(np.diff(al)))
    off = al[-1] - al[0]
    pvals = al[lp]
    moves = np.diff(pvals)                       # movement into reported peak j (j >= 1): monotone between reported peaks
    last_dir = np.sign(moves[-1])
    ambiguous = False
    if not exact and a[0] != 0:
        # a difference smaller than the rounding of (x - x[0]) decides where a turning point is: the peak positions are then
        # ambiguous in floating point and only the sums are asserted (as in the clause total-variation)
        lp2 = pf.local_peak_indices(a - a[0])
        ambiguous = not np.array_equal(lp, lp2)
    dl = d.astype(LD)
    cl_ = cs.astype(LD)
    if ambiguous:
        ctx.amb()
        tol = 4 * EPS * n * (float(tv) + big)
        ctx.check(abs(float(np.sum(np.abs(dl)) - tv)) <= tol, "sum|delta| = %r but the total variation is %r" % (float(np.sum(np.abs(dl))), float(tv)))
        ctx.check(abs(abs(float(np.sum(dl))) - abs(float(off))) <= tol, "|sum delta| = %r but |x[-1]-x[0]| = %r" % (abs(float(np.sum(dl))), abs(float(off))))
        return
    # rounding (real data): the rebased values x - x[0] carry eps/2*|x - x[0]| <= eps*max|x| each, a difference of two of them
    # and its own rounding < 4*eps*max|x|; sums over the reported peaks accordingly
    tol_el = 0.0 if exact else 4 * EPS * big
    tol_sum = 0.0 if exact else 4 * EPS * big * len(lp)
    away = np.ones(n, dtype=bool)
    away[lp] = False
    for name, ser in (("delta", d), ("pseudo-cyclic", cs)):
        nzaway = np.flatnonzero(ser[away] != 0)
        if len(nzaway):
            ctx.fail("%s series is non-zero away from reported peaks: e.g. index %d (%d such samples)" % (
                name, int(np.flatnonzero(away)[nzaway[0]]), len(nzaway)))
    _per_peak(ctx, a, lp, d, cs, tol_el)
    sabs = np.sum(np.abs(dl))
    ctx.check(abs(float(sabs - tv)) <= tol_sum, "sum|delta| = %r but the total variation is %r" % (float(sabs), float(tv)))
    ctx.check(abs(abs(float(np.sum(dl))) - abs(float(off))) <= tol_sum, "|sum delta| = %r but |x[-1]-x[0]| = %r" % (abs(float(np.sum(dl))), abs(float(off))))
    want_sum = tv / 2 + last_dir * off / 2
    ctx.check(abs(float(np.sum(cl_) - want_sum)) <= tol_sum,
              "pseudo-cyclic series sums to %r, expected TV/2 + sign(final movement)*(end-start)/2 = %r" % (float(np.sum(cl_)), float(want_sum)))
    if exact:
        if how == "int":
            x2 = x + np.int64(2 ** 55 + 7)     # beyond 2^53: an integer series is rebased exactly
            what = "an integer shift of 2^55+7"
        elif how in NARROW:
            x2 = x + NARROW[how][0](2000)
            what = "an integer shift of 2000 (%s)" % how
        else:
            x2 = a + float(c.get("shift", 1024.0))
            x2 = [float(v) for v in x2] if how == "list" else x2
            what = "a constant shift of %r" % c.get("shift", 1024.0)
        ctx.equal(ctx.lib(pk.determine_peaks_only_delta_series, x2), d, "delta series after " + what)
        ctx.equal(ctx.lib(pk.determine_pseudo_cyclic_peak_only_series, x2), cs, "pseudo-cyclic series after " + what)
        ctx.cls("shifted")
    elif how == "ndarray":
        _real_shift(ctx, a, lp, d, cs, float(_pick([1024.0, -2.5, 1.0, -0.375], "rshift", c["seed"])) * 1.1)


def _single_check(ctx, c):
    s = _pl_setup(ctx, c)
    b, bvals, is_arr = _b_arg(c)
    n = s["n"]
    ctx.cls("b=array" if is_arr else "b=scalar")
    ns = _ncyc_call(ctx, s, b)
    ctx.check(ns.ndim >= 1 and ns.shape[0] == n and ns.size == n * len(bvals), "cycle series has shape %s, record %d, %d exponent(s)" % (ns.shape, n, len(bvals)))
    ns = ns.reshape(n, -1)
    As = np.asarray(ctx.lib(im.calc_cyc_amp_array_w_power_law, s["x"], s["ncyc"], b))
    ctx.shape(As, (n, len(bvals)) if is_arr else (n,), "equivalent amplitude series")
    As = As.reshape(n, -1)
    for j, bj in enumerate(bvals):
        _check_n_col(ctx, s, ns[:, j], bj, "equivalent number of cycles (column %d)" % j)
        _check_a_col(ctx, s, As[:, j], bj, "equivalent uniform amplitude (column %d)" % j)
    # mutually inverse at the end of the record
    j = len(bvals) - 1
    n_end = float(ns[-1, j])
    if n_end > 0 and np.isfinite(n_end):
        back = float(np.asarray(ctx.lib(im.calc_cyc_amp_array_w_power_law, s["x"], n_end, b)).reshape(n, -1)[-1, j])
        _inverse_check(ctx, s, back, bvals[j])
    # scaling laws at mid sizes (two more walks over the peaks: records up to 40000 samples and all smooth ones)
    if (n <= 40000 or c["kind"] == "smooth") and not isinstance(s["x"], list) and s["x"].dtype == float:
        al = float(_pick([-1.0, 1.0], "als", c["seed"])) * _logu(1e-2, 1e2, "al", c["seed"])
        a2 = s["a"] * al
        sw2, _t, free2 = pf.switched(a2, with_free=True)
        if np.array_equal(sw2, s["sw"]) and np.array_equal(~free2, s["fixed"]) and not s["amb_cut"] and \
                bool(np.all((np.abs(a2[sw2]) >= s["cutv"] * float(np.max(np.abs(a2)))) == s["keep"])):
            ok = s["fixed"]
            A2 = np.asarray(ctx.lib(im.calc_cyc_amp_array_w_power_law, a2, s["ncyc"], b)).reshape(n, -1)
            ctx.close(A2[ok], abs(al) * As[ok], 2 * s["rel"] * abs(al) * np.abs(As[ok]) + core.TINY, "A(alpha x) vs |alpha| A(x), alpha=%r" % al)
            s2 = dict(s, x=a2, aref=s["aref"] * abs(al))
            N2 = _ncyc_call(ctx, s2, b).reshape(n, -1)
            ctx.close(N2[ok], ns[ok], 2 * s["rel"] * np.abs(ns[ok]) + core.TINY, "N(alpha x, alpha a_ref) vs N(x, a_ref), alpha=%r" % al)
            ctx.cls("scaling")


def _inverse_check(ctx, s, back, bj):
    """A(N(a_ref))[-1] two-sided: N counts the kept peaks, A all of them -> a_ref * (S_all / S_kept)^b with S = sum |p|^(1/b);
    a_ref itself when no peak lies below the cut-off."""
    if s["amb_cut"]:
        return
    pw = s["pv"].astype(LD) ** (LD(1) / LD(bj))
    s_all, s_kept = np.sum(pw), np.sum(np.where(s["keep"], pw, LD(0)))
    if not (s_kept > 0):
        return
    want = float(LD(s["aref"]) * (s_all / s_kept) ** LD(bj))
    ctx.cls("inverse-exact" if s_all == s_kept else "inverse-with-dropped-peaks")
    ctx.check(abs(back - want) <= max(1e-9, 4 * s["rel"]) * want,
              "A(N(a_ref)) = %r but a_ref = %r, expected %r (b=%r, cut_off=%r)" % (back, s["aref"], want, bj, s["cutv"]))


def _pair_check(ctx, c, which):
    s = _pl_setup(ctx, dict(c, cut=0.0))
    b = float(c["b"])
    x2 = list(s["x"]) if isinstance(s["x"], list) else s["x"].copy()
    if which in ("pair", "comb"):
        comb = np.asarray(ctx.lib(im.calc_cyc_amp_combined_arrays_w_power_law, s["x"], x2, s["ncyc"], b))
        _check_a_col(ctx, s, comb, b, "combined amplitude of two identical components vs 2^b * single", factor=2.0 ** b)
    if which in ("pair", "gm"):
        gmv = np.asarray(ctx.lib(im.calc_cyc_amp_gm_arrays_w_power_law, s["x"], x2, s["ncyc"], b))
        _check_a_col(ctx, s, gmv, b, "geometric-mean amplitude of two identical components vs single")


@enum_clause(CLAUSES, "mid-range", _mid_enum,
             rule="record lengths gen.size_ladder(2000, 300000, 14) (thorough: to 2 000 000, 30 + 14 rungs; plus lengths aimed at the integer "
                  "literals of the source) x three peak densities (modulated sines with 8..3000 cycles, band-limited noise, white noise with n/2 "
                  "switched peaks) x function groups {both peak-only series | N, A and their inverse | combined and geometric mean}; "
                  "start at zero / offset / first-value-is-peak, float64 / int64 / list / read-only containers, exact (dyadic grid) and real "
                  "data, cut_off omitted / 0 / > 0, scalar b and arrays of 1..3, units 2^-7 .. 2^5 by hash of (VERIF_SEED, index); "
                  "non-trivial = >= 3 reported / >= 4 switched peaks",
             oracle="reference model over the WHOLE output (vectorised reference peaks cross-checked against the loops at import; long-double "
                    "cumulative sums): peak-only series element-wise at every reported peak (equality on exact data, 4 eps max|x| otherwise), zero "
                    "elsewhere, sums, shift invariance; N and A element-wise to (1e-10 + 2 eps n_peaks) relative, non-decreasing, length; "
                    "A(N(a_ref))[-1] == a_ref; combined(x, x) == 2^b single, gm(x, x) == single over the whole series",
             exhaustive_note="deterministic size ladder: one record length per logarithmic bin of [2000, 300000] (thorough [2000, 2000000]) "
                             "and per mined literal, each with three peak densities and three function groups",
             require={"kind=noise": 0.2, "kind=smooth": 0.2, "n>50000": 0.1}, min_nontrivial=0.9, quick_shards=4)
def mid_range(case, ctx):
    g = case["group"]
    ctx.cls("group=" + g)
    if g == "tv":
        _tv_check(ctx, case)
    elif g == "single":
        _single_check(ctx, case)
    else:
        _pair_check(ctx, case, g)


# ---- 4. mid-range-products: number of exponents and the product record length x number of exponents -----------------------

PROD_A_MAX = {"quick": 1.6e7, "thorough": 3.0e7}     # calc_cyc_amp_array_w_power_law holds ~4 temporaries of n x len(b) doubles
PROD_N_MAX = {"quick": 3.0e7, "thorough": 5.0e7}


def _prod_kind(n, m, *parts):
    """Peak density such that (number of switched peaks) x m stays affordable for the reference (<= ~4e6 powers)."""
    room = 4e6 / m                      # affordable number of switched peaks
    opts = ["smooth"]
    if n / 2.0 <= room:
        opts += ["noise", "noise", "band"]
    elif n / 12.0 <= room:
        opts += ["band", "band"]
    kind = _pick(opts, "pk", *parts)
    c = _kind_params(kind, n, "prod", *parts)
    if kind == "smooth":
        c["cyc"] = round(min(c["cyc"], max(8.0, room / 4.0)), 3)
    if kind == "band":
        c["w"] = max(c["w"], 12)
    return c


def _prod_cases(tier):
    quick = tier == "quick"
    pairs = []
    # (a) the number of exponents: 1 .. 2000 (thorough 5000) with a record of a few thousand samples
    ms = gen.size_ladder(1, 2000, 10, "c13:m") if quick else sorted(set(gen.size_ladder(1, 5000, 24, "c13:m:t", mined_limit=16)) | set(gen.ladder(1, 2000, 10, "c13:m")))
    for i, m in enumerate(ms):
        n = int(_logu(2000, max(2500, min(30000, 3e6 / m)), "mn", i))
        pairs.append((n, int(m), "m%d" % i))
    # (b) the product: 1e5 .. 3e7, split by hash between the two dimensions
    pp = gen.product_pairs(1e5, 3e7, 12, (2000, 300000), (2, 2000), "c13:nb") if quick else (
        gen.product_pairs(1e5, 5e7, 30, (2000, 2000000), (2, 5000), "c13:nb:t") + gen.product_pairs(1e5, 3e7, 12, (2000, 300000), (2, 2000), "c13:nb"))
    for i, (n, m) in enumerate(pp):
        pairs.append((int(n), int(m), "p%d" % i))
    # anchors just above the nominal ends of the ranges (a window that opens anywhere below the end is entered):
    # the number of exponents, the product for A and the product for N
    m_top = int((2000 if quick else 5000) * (1 + 0.05 * _hu("m-top", tier)))
    pairs.append((int(_logu(2000, 4000, "m-top-n", tier)), m_top, "mtop"))
    for tag, total in (("atop", PROD_A_MAX[tier] * (0.94 + 0.05 * _hu("a-top", tier))), ("ntop", PROD_N_MAX[tier] * (0.94 + 0.05 * _hu("n-top", tier)))):
        m = int(_logu(60, 1500, tag, tier))
        pairs.append((int(total // m), m, tag))
    cases = []
    for (n, m, tag) in pairs:
        prod = n * m
        base = dict(n=n, seed=_sd("prod", tag), start=_pick(["zero", "offset", "lead"], "prs", tag), unit=_pick(UNITS, "pru", tag),
                    aref_rel=round(_logu(0.05, 20.0, "prr", tag), 6), ncyc=round(_logu(0.5, 50.0, "prn", tag), 6), **_prod_kind(n, m, tag))
        b = {"form": "array", "m": m, "fill": _pick(["linspace", "random", "repeat", "repeat", "const"], "prf", tag) if m > 1 else "random",
             "seed": _sd("prb", tag), "layout": _pick(["c", "c", "strided", "readonly"], "prl", tag)}
        fns = []
        if prod <= PROD_N_MAX[tier]:
            fns.append("N")
        if prod <= PROD_A_MAX[tier]:
            fns.append("A")
        if prod <= 3e6 and _hu("prg", tag) < 0.5:
            fns.append("gm")
        for fn in fns:
            cases.append(dict(base, group=fn, b=b, cut=_pick(CUTS, "prc", tag, fn), cost={"N": 0.03, "A": 0.12, "gm": 0.25}[fn] * prod))
    return cases


def _prod_enum(tier, shard, nshards):
    return _deal(_prod_cases(tier), shard, nshards)


def _seam_columns(m, *parts):
    """A handful of columns: first, last, hash-chosen ones and neighbours of multiples of 2^k (seams of a column-blocked loop)."""
    cols = {0, m - 1, int(_hu("col", 0, *parts) * m), int(_hu("col", 1, *parts) * m)}
    for k in (5, 7, 9, 10):
        if m > 2 ** k + 1:
            q = 2 ** k * (1 + int(_hu("seam", k, *parts) * ((m - 2) // 2 ** k)))
            cols.update({q - 1, q})
    return sorted(j for j in cols if 0 <= j < m)


def _matrix_check(ctx, s, out, bvals, mode, what, ncyc=None):
    """Whole (n x m) output against the step series of the reference: all rows, all columns.

    Reference per block of columns: float64 powers of the reference peaks (their number is small compared with n), long-double
    cumulative sums over the peaks, expanded to the record by the step index; non-decreasing along the record."""
    n, m = s["n"], len(bvals)
    ctx.shape(out, (n, m), what)
    bv = np.array(bvals, dtype=float)
    pv = s["pv"]
    npk = len(pv)
    rel = s["rel"] + 8 * EPS            # the float64 powers of the reference: a few ulp
    ncyc = s["ncyc"] if ncyc is None else ncyc
    if mode == "N" and s["amb_cut"]:
        ctx.amb()
        return
    colblk = max(1, int(4e6 // (npk + 1)))
    rowblk = max(1, int(2e6 // min(m, colblk)))
    kidx = s["kidx"]
    for j0 in range(0, m, colblk):
        j1 = min(m, j0 + colblk)
        e = 1.0 / bv[j0:j1]
        if mode == "N":
            contrib = 0.5 * (pv / s["aref"])[:, None] ** e[None, :]
            contrib[~s["keep"], :] = 0.0
        else:
            contrib = 0.5 * pv[:, None] ** e[None, :] / ncyc
        cum = np.concatenate([np.zeros((1, j1 - j0), dtype=LD), np.cumsum(contrib.astype(LD), axis=0)], axis=0)
        step = cum.astype(float)
        if mode != "N":
            step = step ** bv[j0:j1][None, :]
        del contrib, cum
        rows = [(i0, min(n, i0 + rowblk)) for i0 in range(0, n, rowblk)]
        for (i0, i1) in rows:
            got = out[i0:i1, j0:j1]
            if not np.all(np.isfinite(got)):
                ctx.fail("%s: non-finite values in rows %d..%d" % (what, i0, i1))
            want = step[kidx[i0:i1]]
            bad = ~(np.abs(got - want) <= rel * want + core.TINY) & s["fixed"][i0:i1, None]
            if np.any(bad):
                r, q = [int(v) for v in np.argwhere(bad)[0]]
                ctx.fail("%s: row %d of %d, column %d of %d (b=%r): got %r, reference %r (tol %.3g relative; %d entries of this block out)" % (
                    what, i0 + r, n, j0 + q, m, float(bv[j0 + q]), float(got[r, q]), float(want[r, q]), rel, int(np.sum(bad))))
        # non-decreasing along the record: everything
        for i0 in range(0, n - 1, rowblk):
            i1 = min(n, i0 + rowblk + 1)
            blk = out[i0:i1, j0:j1]
            if not np.all(blk[1:] >= blk[:-1]):
                r, q = [int(v) for v in np.argwhere(~(blk[1:] >= blk[:-1]))[0]]
                ctx.fail("%s: decreases between rows %d and %d in column %d" % (what, i0 + r, i0 + r + 1, j0 + q))


def _prod_check(ctx, c):
    s = _pl_setup(ctx, c)
    b, bvals, _ = _b_arg(c)
    n, m = s["n"], len(bvals)
    mode = c["group"]
    ctx.cls("m>%d" % (10 ** int(math.log10(m))) if m > 1 else "m=1", "product>%.0e" % (10 ** int(math.log10(n * m))),
            "b:" + c["b"]["fill"], "b-layout:" + c["b"].get("layout", "c"))
    bsnap = np.array(b, copy=True)
    if mode == "N":
        out = _ncyc_call(ctx, s, b)
        name = "cycle series for array b"
    elif mode == "A":
        out = np.asarray(ctx.lib(im.calc_cyc_amp_array_w_power_law, s["x"], s["ncyc"], b))
        name = "amplitude series for array b"
    else:
        out = np.asarray(ctx.lib(im.calc_cyc_amp_gm_arrays_w_power_law, s["x"], s["x"].copy(), s["ncyc"], b))  # ndarray containers only here
        name = "geometric-mean amplitude of two identical components for array b"
    ctx.check(np.array_equal(bsnap, np.asarray(b)), "the array of exponents was modified")
    _matrix_check(ctx, s, out, bvals, "N" if mode == "N" else "A", name)
    cols = _seam_columns(m, c["seed"])
    for j in cols[:8]:
        # accurate (long-double) reference, whole column
        if mode == "N":
            _check_n_col(ctx, s, np.ascontiguousarray(out[:, j]), bvals[j], "%s, column %d of %d" % (name, j, m))
        else:
            _check_a_col(ctx, s, np.ascontiguousarray(out[:, j]), bvals[j], "%s, column %d of %d" % (name, j, m))
    # differential: column j equals the scalar call with b[j] (one hash-chosen column; the walk over the peaks is slow)
    j = cols[len(cols) // 2]
    if mode == "N":
        if s["cut"] is None:
            one = np.asarray(ctx.lib(im.calc_n_cyc_array_w_power_law, s["x"], s["aref"], float(bvals[j]))).reshape(n, -1)[:, 0]
        else:
            one = np.asarray(ctx.lib(im.calc_n_cyc_array_w_power_law, s["x"], s["aref"], float(bvals[j]), cut_off=s["cut"])).reshape(n, -1)[:, 0]
    else:
        one = np.asarray(ctx.lib(im.calc_cyc_amp_array_w_power_law, s["x"], s["ncyc"], float(bvals[j])))
    ctx.close(out[:, j], one, 1e-12 * np.abs(one) + core.TINY, "array-b column %d vs scalar call (%s)" % (j, name))
    # mutually inverse at the end of the record, two columns (small products only: every call is O(n x m))
    if mode == "N" and n * m <= 2e6 and not s["amb_cut"]:
        for j in (cols[0], cols[-1]):
            n_end = float(out[-1, j])
            if n_end > 0 and np.isfinite(n_end):
                back = float(np.asarray(ctx.lib(im.calc_cyc_amp_array_w_power_law, s["x"], n_end, b))[-1, j])
                _inverse_check(ctx, s, back, bvals[j])
        ctx.cls("inverse")


@enum_clause(CLAUSES, "mid-range-products", _prod_enum,
             rule="(a) number of exponents gen.size_ladder(1, 2000, 10) (thorough 1..5000, 24 + 10 rungs) with records of 2000..30000 samples, "
                  "(b) gen.product_pairs: n x len(b) from 1e5 to 3e7 (thorough 5e7; A up to 1.6e7 / 3e7) with n in 2000..300000 (2e6) and "
                  "len(b) in 2..2000 (5000); peak density by hash among sines / band-limited noise / white noise as far as "
                  "n_peaks x len(b) <= 4e6; b arrays sorted / random / with repeated entries (a flattened grid) / constant, contiguous / strided "
                  "/ read-only; cut_off omitted / 0 / > 0; functions N, A and (products <= 3e6) the geometric mean of identical components",
             oracle="reference model over the WHOLE (n x len(b)) output: float64 powers of the reference switched peaks, long-double cumulative "
                    "sums, expanded by the step index - every row and column to (1e-10 + 2 eps n_peaks) relative, non-decreasing everywhere; "
                    "up to 8 columns (first, last, hashed, neighbours of multiples of 2^k) against the all-long-double reference; one column "
                    "against the scalar call (1e-12); A(N(a_ref))[-1] == a_ref in two columns (products <= 2e6)",
             exhaustive_note="deterministic ladders: one number of exponents per logarithmic bin of [1, 2000] and one product per logarithmic bin "
                             "of [1e5, 3e7] (thorough [1, 5000], [1e5, 5e7]), plus the sizes aimed at mined literals",
             require={"b:repeat": 0.1}, min_nontrivial=0.9, quick_shards=4)
def mid_range_products(case, ctx):
    ctx.cls("group=" + case["group"])
    _prod_check(ctx, case)


# ---- 5. mid-range-options: cross product of cut_off x form of b x container x start ------------------------------------

OPT_CUTS = [None, 0.0, 0.03, 0.1]
OPT_B = ["float", "npfloat", "int1", "array1", "array3r", "array-strided", "array-int"]
OPT_CONT = ["ndarray", "int", "readonly", "view", "negstride", "list", "int16", "int32"]
OPT_START = ["zero", "offset", "lead"]


def _opt_cases(tier):
    cases = []
    reps = 1 if tier == "quick" else 3
    i = 0
    for rep in range(reps):
        for cut in OPT_CUTS:
            for bform in OPT_B:
                for cont in OPT_CONT:
                    for start in OPT_START:
                        i += 1
                        n = int(_logu(2200, 9000 if tier == "quick" else 60000, "on", i))
                        kind = _pick(["band", "band", "smooth", "noise"], "ok", i)
                        seed = _sd("opt", i)
                        if bform == "float":
                            b = round(0.0501 + 0.9499 * _hu("ob", i), 4)
                        elif bform == "npfloat":
                            b = {"form": "npfloat", "v": _pick(B_SCALARS, "ob", i)}
                        elif bform == "int1":
                            b = {"form": "int1"}
                        elif bform == "array1":
                            b = {"form": "array", "m": 1, "fill": "random", "seed": seed, "layout": "c"}
                        elif bform == "array3r":
                            b = {"form": "array", "m": 3 + int(4 * _hu("obm", i)), "fill": "repeat", "seed": seed, "layout": "readonly"}
                        elif bform == "array-strided":
                            b = {"form": "array", "m": 2 + int(5 * _hu("obm", i)), "fill": "random", "seed": seed, "layout": "strided"}
                        else:
                            b = {"form": "array", "m": 1 + int(3 * _hu("obm", i)), "fill": "ones-int", "seed": seed}
                        bmin = b if not isinstance(b, dict) else (b.get("v", 1.0) if b["form"] in ("npfloat", "int1") else 0.05)
                        cases.append(dict(n=n, seed=seed, start=start, container=cont, cut=cut, b=b, bform=bform,
                                          unit=_pick(UNITS_WIDE if bmin >= 0.15 else UNITS, "ou", i), aref_rel=round(_logu(0.05, 20.0, "or", i), 6),
                                          ncyc=round(_logu(0.5, 50.0, "onc", i), 6), cost=n, **_kind_params(kind, n, "opt", i)))
    return cases


def _opt_enum(tier, shard, nshards):
    return _deal(_opt_cases(tier), shard, nshards)


@enum_clause(CLAUSES, "mid-range-options", _opt_enum,
             rule="full cross product cut_off {omitted, 0, 0.03, 0.1} x exponent {float, numpy scalar, int 1, array of 1, array with repeated "
                  "entries (read-only), strided array, integer array of ones} x container {float64, int64, read-only, strided view, negative "
                  "stride, list, int16 and int32 full-range counts} x start {zero, offset, first-value-is-peak} (672 cases; thorough 3 x with other "
                  "data), records of 2200..9000 "
                  "(thorough 60000) samples, keyword / positional spelling by the case's hash",
             oracle="as mid-range: N and A over the whole series against the long-double reference, inverse at the end of the record; for scalar "
                    "exponents also combined(x, x) == 2^b single and gm(x, x) == single; arguments unchanged",
             exhaustive_note="every combination of the four option dimensions (4 x 7 x 8 x 3)",
             min_nontrivial=0.9, quick_shards=4)
def mid_range_options(case, ctx):
    ctx.cls("bform=" + case["bform"])
    _single_check(ctx, case)
    if not isinstance(case["b"], dict) or case["b"]["form"] in ("npfloat", "int1"):
        s = _pl_setup(core.Ctx(), dict(case, cut=0.0))
        b = _b_arg(case)[0]
        x2 = list(s["x"]) if isinstance(s["x"], list) else s["x"].copy()
        comb = np.asarray(ctx.lib(im.calc_cyc_amp_combined_arrays_w_power_law, s["x"], x2, s["ncyc"], b))
        _check_a_col(ctx, s, comb, float(b), "combined amplitude of two identical components vs 2^b * single", factor=2.0 ** float(b))
        gmv = np.asarray(ctx.lib(im.calc_cyc_amp_gm_arrays_w_power_law, s["x"], x2, s["ncyc"], b))
        _check_a_col(ctx, s, gmv, float(b), "geometric-mean amplitude of two identical components vs single")


# ---------------------------------------------------------------------------
# 6. cutoff-tie: a switched peak whose amplitude is bit-for-bit EQUAL to cut_off * max|values|.  The statement ignores the peaks
# BELOW the cut-off, so a peak AT the cut-off counts.  Decided only when the product cut_off * max|x| is exact (dyadic cut_off and
# amplitudes: 1/16 x 16, 3/32 x 32 ...); with a decimal cut_off (0.1 x 10 == 1.0 in double precision, but 0.1 is really
# 0.1000000000000000055...) the real-number reading and the floating-point reading differ and the case is only bracket-checked.

from fractions import Fraction as _Fr  # noqa: E402


@st.composite
def _tie_cases(draw):
    c = {}
    if draw(st.integers(0, 5)) == 0:
        c["variant"] = "decimal"
        top = draw(st.sampled_from([10, 20, 50]))
        c["top"], c["p"], c["cut"] = top, top // 10, 0.1
        c["j"] = 0
    else:
        c["variant"] = "dyadic"
        k = draw(st.integers(4, 7))
        top = 2 ** k
        pmax = int(0.1 * top)
        c["top"] = top
        c["p"] = draw(st.one_of(st.just(pmax), st.integers(1, pmax)))
        c["cut"] = c["p"] / float(top)          # exact in binary, <= 0.1
        c["j"] = draw(st.one_of(st.integers(-6, 6), st.integers(-40, -7)))       # unit 2^j (exact)
    amps = draw(st.lists(st.one_of(st.integers(1, c["top"]), st.integers(1, max(1, 2 * c["p"]))), min_size=3, max_size=14))
    # make sure the largest amplitude and (at least once) the amplitude AT the cut-off are present
    amps[draw(st.integers(0, len(amps) - 1))] = c["top"]
    free = [i for i, v in enumerate(amps) if v != c["top"]] or [0]
    for _ in range(draw(st.integers(1, 3))):
        amps[draw(st.sampled_from(free))] = c["p"]
    if c["top"] not in amps:
        amps.append(c["top"])
    c["amps"] = amps
    c["shape"] = draw(st.sampled_from(["tri", "single", "ramp"]))
    c["start0"] = draw(st.booleans())
    c["neg_first"] = draw(st.booleans())
    c["b"] = draw(st.one_of(st.sampled_from([0.3, 0.34, 0.5, 1.0]), st.floats(0.25, 1.0, allow_nan=False)))
    c["barr"] = draw(st.booleans())
    c["aref_rel"] = draw(gen.log_uniform(0.05, 2.0))
    return c


def _tie_record(c):
    unit = 2.0 ** c["j"]
    out = [0.0] if c["start0"] else []
    sgn = -1.0 if c["neg_first"] else 1.0
    for v in c["amps"]:
        v = float(v) * unit
        if c["shape"] == "tri":
            out += [sgn * v / 2, sgn * v, sgn * v / 2]
        elif c["shape"] == "ramp":
            out += [sgn * v / 4, sgn * v / 2, sgn * v, sgn * v / 8]
        else:
            out += [sgn * v]
        sgn = -sgn
    return np.array(out, dtype=float)


@clause(CLAUSES, "cutoff-tie", _tie_cases(), quick=250, thorough=1200,
        rule="records of 3..14 half cycles (one sample / triangle / ramp per half cycle) with integer amplitudes x 2^j, the largest one a power "
             "of two 16..128 (or 10, 20, 50 in the decimal variant), at least one half cycle whose amplitude equals cut_off * max|x| bit for bit "
             "(cut_off = p / 2^k <= 0.1, exact; decimal variant: cut_off = 0.1), others just above and below it; b in [0.25, 1] scalar and "
             "one-element array; units 2^-40 .. 2^6; non-trivial = the peaks AT the cut-off contribute more than 1e-6 of the final number of cycles",
        oracle="reference model: N = running sum over the reference switched peaks with |p| >= cut_off * max|x| (a peak AT the cut-off is not "
               "below it), whole series, 1e-10 relative; the decimal variant (product not exact) is ambiguous and "
               "bracket-checked (either reading)",
        require={"exact-tie": 0.5, "peaks-below-cut": 0.3}, min_nontrivial=0.4)
def cutoff_tie(case, ctx):
    a = _tie_record(case)
    n = len(a)
    cut = float(case["cut"])
    b = float(case["b"])
    amax = float(np.max(np.abs(a)))
    thr = cut * amax
    exact = _Fr(cut) * _Fr(amax) == _Fr(thr)
    peaks = ref.switched_peaks(a)
    pv = np.abs(a[peaks]).astype(LD)
    at = np.asarray(pv == LD(thr))
    if not np.any(at):
        ctx.cls("no-tie")      # the decimal product did not land on a peak value bit for bit: nothing to decide
    aref = case["aref_rel"] * amax
    contrib = LD(0.5) * (pv / LD(aref)) ** (LD(1) / LD(b))
    keep_incl = np.asarray(pv >= LD(thr))       # statement: only the peaks BELOW the cut-off are ignored
    keep_strict = np.asarray(pv > LD(thr))
    n_incl = _ref_series(a, peaks, np.where(keep_incl, contrib, LD(0)))
    n_strict = _ref_series(a, peaks, np.where(keep_strict, contrib, LD(0)))
    share = float((n_incl[-1] - n_strict[-1]) / n_incl[-1]) if n_incl[-1] > 0 else 0.0
    ctx.cls("exact-tie" if exact and np.any(at) else ("inexact-tie" if np.any(at) else None), "shape=" + case["shape"],
            "peaks-below-cut" if np.any(pv < LD(thr)) else None, "start0" if case["start0"] else None,
            "b=array" if case["barr"] else "b=scalar")
    ctx.nt(exact and share > 1e-6)
    barg = np.array([b]) if case["barr"] else b
    ns = np.asarray(ctx.lib(im.calc_n_cyc_array_w_power_law, a, aref, barg, cut_off=cut))
    ctx.check(ns.shape[0] == n, "cycle series has length %s, record %d" % (ns.shape, n))
    ns1 = ns.reshape(n, -1)[:, 0]
    ctx.finite(ns1, "cycle series")
    tol = 1e-10 * float(n_incl[-1]) + core.TINY
    if exact:
        ctx.close(ns1, n_incl, tol, "equivalent number of cycles with peak(s) exactly AT cut_off*max|x| = %r (cut_off=%r, b=%r): a peak at "
                                    "the cut-off is not below it" % (thr, cut, b))
    else:
        ctx.amb()
        d1 = float(np.max(np.abs(ns1.astype(LD) - n_incl)))
        d2 = float(np.max(np.abs(ns1.astype(LD) - n_strict)))
        ctx.check(min(d1, d2) <= tol, "equivalent number of cycles matches neither reading of the cut-off (%r, %r away; cut_off=%r)" % (d1, d2, cut))
