"""C15 - Stockwell transform: definition, both implementations, Fourier marginal, inverse, dominant frequency."""
import math

import numpy as np
from hypothesis import strategies as st

import eqsig
from eqsig import stockwell as sw

from pbt import core
from pbt import gen
from pbt.core import clause, enum_clause
from pbt.ref import stockwell as ref

PROPERTY = "C15"
CLAUSES = []
ASSUMPTIONS = [
    "records are finite real float64 ndarrays, also handed over as a Python list, an int64 ndarray (all clauses), a "
    "non-contiguous / negative-stride / read-only view (definition, marginal-inverse) or an int16 ndarray (implementations): "
    "both implementations document `acc: array_like`, so a list or an integer array holding the same reals is the same record; "
    "4 <= length <= 1024 (longer generated records are cut to 1024 samples); n denotes the length truncated to even, "
    "2*floor(length/2); the last sample of an odd record is ignored.  float32 / float16 and narrow unsigned / int32 records are "
    "left to the shared generator (handled centrally)",
    "magnitudes: 'every real record' has no unit, so the recipes (non-zero |x| in [1e-30, 1e9]) are also presented in another unit, "
    "x * 2^u with u in [-700, 700] (exact), i.e. non-zero |x| from about 1e-241 to 1e219 in the cell-level clauses and "
    "A * 2^u, u in {-800, -600, 560, 800} (|x| from 1e-247 to 7e246) in dominant-frequency.  The transform is linear in x, none of "
    "the statement's quantities needs a product of two data values, so no correct implementation leaves the double range there; "
    "an implementation that squares the data (argmax of |S|^2, a peak-normalised copy that is not scaled back) and thereby "
    "under/overflows does break the statement for a record that is inside the quantifier ('all real records'); all norms in the "
    "oracle are computed on max-normalised data",
    "quick tier: the Hypothesis clauses draw lengths up to 128, thorough up to 1024 (the length is drawn first; generated records "
    "with leading / trailing zero runs are cut back to it); explicit value lists only for lengths <= 64, longer records are seeded "
    "recipes; lengths 129..1024 are covered in BOTH tiers by the deterministic enumerations `mid-range` (all cell-level sentences) "
    "and `mid-range-dominant` (gen.size_ladder: one length per logarithmic bin placed by VERIF_SEED + lengths aimed at the integer "
    "literals of the source under test + 1023 and 1024); the thorough tier adds 2047 / 2048 / 3001 / 4096 samples, which lie "
    "OUTSIDE the quantifier (4..1024) and are looked at with tolerances multiplied by n/1024; the check itself does not depend on "
    "the tier (a replayed case is evaluated the same way in both)",
    "tolerance on every time-frequency cell: 1e-12*||x||_2 (x = the truncated record).  Derivation: |S[k,tau]| <= ||S_k||_2 <= "
    "||x||_2 (Parseval, Gaussian <= 1), a backward-stable FFT has norm-wise error c*eps*log2(n)*||.||_2, so forward + inverse FFT "
    "give |dS| <= 2c*eps*log2(n)*||x||_2 ~ 5e-14*||x||_2 at n = 1024; observed 3e-17.  DESIGN.md's 1e-10*max|S| is NOT used: "
    "for a constant record max|S| = exp(-2 pi^2)*|mean| = 2.7e-9*|mean| while rounding is eps*|mean|, so that scale is unsound.  "
    "The bound is norm-wise on purpose: a cell far below ||x||_2 is only known to that absolute level by ANY FFT-based "
    "implementation, so a per-cell relative bound would be unsound",
    "tolerance on a row sum and on the inverse transform: 1e-12*sqrt(n)*||x||_2 (Cauchy-Schwarz over the n cells of a row; covers "
    "recursive as well as pairwise summation: (c*log2(n) + n)*eps <= 1e-12 for n <= 1024); note sqrt(n)*||x||_2 >= sum|x|",
    "linearity: transform(alpha*a + beta*b) vs alpha*transform(a) + beta*transform(b) with tolerance "
    "1e-12*(|alpha|*||a||_2 + |beta|*||b||_2) (rounding of the combination itself is eps per sample of the same scale)",
    "reference for n <= 160: long-double triple sum with a direct O(n^2) DFT (no FFT); for n > 160 the same formula row by row "
    "with one double-precision inverse FFT per frequency over the WHOLE array plus, in the mid-range enumeration, the long-double "
    "sum itself (direct DFT, no FFT) on a sample of cells: ~20 rows x ~40 columns chosen by hash, always with the first two / last "
    "two rows and columns and indices that are 0, 1, -1 modulo 2^5..2^9; on every record the two reference forms are compared with "
    "each other (disagreement is a harness error, not a violation)",
    "Fourier coefficient X_k = sum_t x_t exp(-2 pi i k t/n) (direct long-double DFT of the truncated record); Nyquist component "
    "= (X_{n/2}/n)*(-1)^t; mean = X_0/n",
    "the optional argument `interp` of both implementations is not mentioned by the statement: it is passed only at its documented "
    "default, interp=False (by keyword or positionally, hash-chosen), which must be the same request as omitting it; nothing is "
    "asserted for interp=True",
    "the inverse transform may return a real array or a complex one whose imaginary part is zero to the same tolerance (the "
    "statement says 'recovers the record'); it is fed the transform's own output, a C-ordered copy or a Fortran-ordered copy",
    "argument purity (the caller's array byte-identical after the call) and 'same result when called again' are claims of C05, "
    "which lists Stockwell explicitly; they are not asserted here (the oracle works on a float copy taken before the calls)",
    "dominant frequency: x_t = A*cos(2 pi k0 t/n + phase) for t = 0..length-1 (the phase index k0*t is reduced mod n in integers), "
    "k0 integer in [2, floor(0.75*n/2)], hence n >= 6; A in [1e-6, 1e6] (times 2^u, see above); 'all dt': dt log-uniform in "
    "[1e-9, 1e6] besides [1e-4, 10] and the repo's rates, float or int; 'middle half' = samples ceil(n/4)..floor(3n/4); expected "
    "value k0/(n*dt) with relative tolerance 1e-12 (two roundings in the frequency axis); the margin |S[k0]| - max other row is >= "
    "1e-4*A/2 for every n <= 1024 (probe over all k0 and 5 phases), rounding is 1e-16*A; the trace may have n or `length` entries "
    "(the statement fixes the middle half only)",
    "the trace is read through get_max_stockwell_freq on an AccSignal or Signal whose record has not been replaced since it was "
    "constructed (read once or twice; a second read goes through the `swtf` attribute cached by the first) and through "
    "get_max_tifq_vals_freq on transform(x) or |transform(x)|.  History variant (half of the cases, finding C15-F1, fixed in "
    "126b2f0): after the first read the object is given another on-grid cosine of the same length through reset_values (another "
    "k0 in the statement's band, same amplitude / unit) and read again - the statement's last sentence speaks of the record the "
    "object holds NOW, so the trace must equal the new k0/(n dt); reset_values is the representative of the mutators that go "
    "through clear_cache",
]
LD = np.longdouble
CLD = np.clongdouble
MAX_LEN = 1024
DIRECT_MAX_N = 160
RTOL = 1e-12


def _max_n():
    return 128 if core.tier() == "quick" else MAX_LEN


def _is_pow2(n):
    return n > 0 and (n & (n - 1)) == 0


def _fix_int_amp(spec):
    # integer-dtype variant: keep the rounded record non-zero
    if spec.get("as") == "int" and "amp" in spec and spec["amp"] < 1:
        spec["amp"] = min(6, 1 - spec["amp"])
    return spec


RECIPE_KINDS = ["noise", "sines", "pulse", "step", "walk", "const", "quake"]


def _special_lengths(top, lo=4):
    """Powers of two and their neighbours (p-1 and p+1 are odd and truncate to p-2 / p)."""
    return [p + o for p in (4, 8, 16, 32, 64, 128, 256, 512, 1024) for o in (-1, 0, 1, 2) if lo <= p + o <= top]


def _lengths(lo=4):
    """Record lengths: uniform / small / around a power of two; the parity is drawn separately so that odd lengths
    (last sample ignored) are half of the cases."""
    top = _max_n()
    uniform = st.integers(lo, top)
    base = st.one_of(st.integers(lo, 24), uniform, uniform, st.integers(max(lo, top // 2), top), st.sampled_from(_special_lengths(top, max(lo, 15))))

    def parity(t):
        length, odd = t
        if (length % 2 == 1) != odd:
            length = length + 1 if length + 1 <= top else length - 1
        return length
    return st.tuples(base, st.booleans()).map(parity)


# the same record in another unit: x * 2^u (exact).  'every real record' carries no unit (see ASSUMPTIONS)
_UNITS = st.one_of(st.just(0), st.just(0), st.integers(-700, 700), st.sampled_from([34, 40, -40, 100, -100, 300, -300, 700, -700]))
_CONTAINERS = ("list", "int", "view", "negstride", "readonly")


@st.composite
def _rec_cases(draw, allow_int=_CONTAINERS):
    """{"rec": spec, "cut": length}: the length is drawn first (uniform, small, or around a power of two), then a record
    of that length (+ optional zero runs; the record is cut back to `length`, so leading zeros survive)."""
    length = draw(_lengths())
    kinds = None if length <= 64 else RECIPE_KINDS  # explicit value lists only for short records
    spec = _fix_int_amp(draw(gen.record_specs(min_n=length, max_n=length, small_max=length, kinds=kinds,
                                              allow_int=allow_int)))
    case = {"rec": spec, "cut": length}
    unit = draw(_UNITS)
    if unit and spec.get("as") != "int":
        case["unit"] = unit
    return case


def _record(case, key="rec"):
    """(argument handed to the library, float64 array of what the library sees)."""
    spec = case[key]
    a = gen.build(spec)
    a = a[:int(case.get("cut") or MAX_LEN)]
    u = int(case.get("unit") or 0)
    if u and spec.get("as") != "int":
        a = a * 2.0 ** u  # exact: |a| <= 1e9 and non-zero |a| >= 1e-30, |u| <= 700
    arg = gen.as_container(spec, a)
    return arg, np.array(arg, dtype=float)


def _norm(x):
    """||x||_2 without squaring the unit (records in extreme units would over / underflow)."""
    x = np.asarray(x, dtype=float)
    m = float(np.max(np.abs(x))) if x.size else 0.0
    if m == 0.0:
        return 0.0
    return m * float(np.linalg.norm(x / m))


def _pick(case, salt, seq):
    """Deterministic choice from `seq` by the case's hash (replay files reproduce it)."""
    h = int(core.case_hash({"c": case, "salt": salt})[:8], 16)
    return seq[h % len(seq)]


def _classify(ctx, spec, x, n):
    length = len(x)
    ctx.cls("kind=" + spec["k"], gen.size_class(length), "odd" if length % 2 else "even",
            "pow2" if _is_pow2(n) else "non-pow2", "n/2-odd" if (n // 2) % 2 else "n/2-even")
    if spec.get("as"):
        ctx.cls("as=" + spec["as"])
    xt = x[:n]
    if not np.any(xt != 0):
        ctx.cls("zero-record")
    elif np.ptp(xt) == 0:
        ctx.cls("constant-record")
    top = float(np.max(np.abs(xt))) if n else 0.0
    xs = xt / top if top > 0 else xt
    if abs(float(np.mean(xs))) > 0.01 * float(np.sqrt(np.mean(xs * xs))) > 0:
        ctx.cls("has-mean")
    if top > 1e10:
        ctx.cls("peak>1e10")
    elif 0 < top < 1e-10:
        ctx.cls("peak<1e-10")
    return n >= 8 and spec["k"] not in ("sines", "const") and np.ptp(xt) > 0


def _reference_array(x):
    """The statement's (n/2, n) array for the even-length record x, and the label of the form used."""
    n = len(x)
    if n <= DIRECT_MAX_N:
        s = ref.s_transform(x)
        s2 = ref.s_transform_rows_fft(x)
        scale = _norm(x)
        if not float(np.max(np.abs(s2 - s))) <= RTOL * scale + core.TINY:
            raise core.HarnessError("the two reference forms of the S-transform disagree (n=%d)" % n)
        return ref.statement_array(s), "ref=direct-longdouble"
    return ref.statement_array(ref.s_transform_rows_fft(x)), "ref=rows-ifft"


def _check_array(ctx, got, n, what):
    got = np.asarray(got)
    ctx.shape(got, (n // 2, n), what)
    ctx.check(np.iscomplexobj(got), "%s: dtype %s is not complex" % (what, got.dtype))
    ctx.finite(got, what)
    return got


def _call(ctx, case, fn, arg, salt):
    """fn(arg) | fn(arg, interp=False) | fn(arg, False): omitting the option, or giving its documented default by keyword or
    positionally, is the same request (hash-chosen)."""
    how = _pick(case, "interp:" + salt, ["omit", "omit", "kw", "pos"])
    if how == "kw":
        ctx.cls("interp=False(kw)")
        return ctx.lib(fn, arg, interp=False)
    if how == "pos":
        ctx.cls("interp=False(pos)")
        return ctx.lib(fn, arg, False)
    return ctx.lib(fn, arg)


# ---------------------------------------------------------------------------
# clause 1: definition


@clause(CLAUSES, "definition", _rec_cases(), quick=800, thorough=600,
        rule="float records of all kinds; length 4..128 (quick) / 4..1024 (thorough) drawn first: uniform, small (<= 24) or a "
             "power of two -1/+0/+1/+2, odd and even; float64 ndarray, list, int64, strided / reversed / read-only view; the record "
             "in its own unit or times 2^u, |u| <= 700; interp omitted or False; non-trivial = non-sinusoidal, non-constant record "
             "with n >= 8",
        oracle="reference model, BOTH implementations: shape (n/2, 2*floor(len/2)), complex, equal to flipud(conj(S)) with S the discrete S-transform "
               "(long-double triple sum + direct DFT for n <= 160, per-row inverse FFT of the shifted spectrum above), "
               "tolerance 1e-12*||x||_2 per cell",
        require={"odd": 0.3, "even": 0.3, "pow2": 0.1, "non-pow2": 0.3, "n/2-odd": 0.1, "has-mean": 0.2, "peak>1e10": 0.08,
                 "peak<1e-10": 0.08},
        min_nontrivial=0.3)
def definition(case, ctx):
    arg, x = _record(case)
    n = ref.even_length(len(x))
    ctx.nt(_classify(ctx, case["rec"], x, n))
    want, form = _reference_array(x[:n])
    ctx.cls(form)
    for name, fn in (("transform", sw.transform), ("transform_w_scipy_fft", sw.transform_w_scipy_fft)):
        got = _check_array(ctx, _call(ctx, case, fn, arg, name), n, name)
        ctx.close(got, want, RTOL * _norm(x[:n]),
                  "%s vs conj of the discrete S-transform (row 0 = Nyquist, row n/2-1 = first harmonic)" % name)


# ---------------------------------------------------------------------------
# clause 2: both implementations, linearity, containers


@st.composite
def _impl_cases(draw):
    length = draw(_lengths())
    kinds = None if length <= 64 else RECIPE_KINDS
    ra = draw(gen.record_specs(min_n=length, max_n=length, small_max=length, kinds=kinds, allow_zero_runs=False))
    rb = draw(gen.record_specs(min_n=length, max_n=length, small_max=length, kinds=kinds, allow_zero_runs=False))
    how = draw(st.sampled_from([None, None, "list", "int"]))
    if how:
        ra["as"] = how
        _fix_int_amp(ra)
    case = {"ra": ra, "rb": rb, "alpha": draw(gen.scalars()), "beta": draw(gen.scalars())}
    unit = draw(_UNITS)
    if unit and how != "int":
        case["unit"] = unit
    return case


@clause(CLAUSES, "implementations", _impl_cases(), quick=600, thorough=500,
        rule="pairs of equal-length records (a, b) of all kinds, length 4..128 (quick) / 4..1024 (thorough) incl. powers of two "
             "(+1), record a as float ndarray / integer-dtype ndarray / list, factors alpha, beta signed log-uniform or +-2^k, both "
             "records in their own unit or times 2^u, |u| <= 700; non-trivial = n >= 8 and both records non-constant",
        oracle="differential: transform vs transform_w_scipy_fft (1e-12*||x||_2 per cell, same shape and complex dtype); "
               "metamorphic linearity of both (1e-12*(|alpha| ||a|| + |beta| ||b||)); list / integer input (array_like) gives the "
               "array of the float ndarray",
        require={"odd": 0.3, "even": 0.3, "as=list": 0.1, "as=int": 0.1, "pow2": 0.1, "non-pow2": 0.3},
        min_nontrivial=0.3)
def implementations(case, ctx):
    arg, a = _record(case, "ra")
    _, b = _record(case, "rb")
    n = ref.even_length(len(a))
    _classify(ctx, case["ra"], a, n)
    ctx.nt(n >= 8 and np.ptp(a[:n]) > 0 and np.ptp(b[:n]) > 0)
    na = _norm(a[:n])
    nb = _norm(b[:n])
    # the two implementations on the caller's container (a and b are float copies taken before any call)
    t1 = _check_array(ctx, _call(ctx, case, sw.transform, arg, "t1"), n, "transform")
    t2 = _check_array(ctx, _call(ctx, case, sw.transform_w_scipy_fft, arg, "t2"), n, "transform_w_scipy_fft")
    ctx.close(t2, t1, RTOL * na, "transform_w_scipy_fft vs transform")
    # container independence (list / integer dtype vs the float ndarray of the same values)
    if not (isinstance(arg, np.ndarray) and arg.dtype == np.float64):
        fa = np.array(a, dtype=float)
        t1f = _check_array(ctx, ctx.lib(sw.transform, fa), n, "transform(float ndarray)")
        t2f = _check_array(ctx, ctx.lib(sw.transform_w_scipy_fft, np.array(a, dtype=float)), n, "transform_w_scipy_fft(float ndarray)")
        ctx.close(t1, t1f, RTOL * na, "transform(%s) vs transform(float ndarray)" % case["ra"].get("as"))
        ctx.close(t2, t2f, RTOL * na, "transform_w_scipy_fft(%s) vs the float ndarray" % case["ra"].get("as"))
        if isinstance(arg, np.ndarray) and arg.dtype.kind == "i" and np.max(np.abs(a)) <= 32767:
            # raw digitiser counts are usually stored in a small integer dtype (kept from round 3; further narrow dtypes are
            # left to the shared generator)
            small = np.array(arg, dtype=np.int16)
            ctx.cls("as=int16")
            ctx.close(_check_array(ctx, ctx.lib(sw.transform, small), n, "transform(int16)"), t1f, RTOL * na, "transform(int16) vs transform(float ndarray)")
            ctx.close(_check_array(ctx, ctx.lib(sw.transform_w_scipy_fft, small), n, "transform_w_scipy_fft(int16)"), t2f, RTOL * na,
                      "transform_w_scipy_fft(int16) vs the float ndarray")
    # linearity
    al, be = float(case["alpha"]), float(case["beta"])
    comb = al * a + be * b
    scale = abs(al) * na + abs(be) * nb
    for name, fn, ta in (("transform", sw.transform, t1), ("transform_w_scipy_fft", sw.transform_w_scipy_fft, t2)):
        tb = _check_array(ctx, ctx.lib(fn, np.array(b)), n, name + "(b)")
        tc = _check_array(ctx, ctx.lib(fn, np.array(comb)), n, name + "(alpha*a + beta*b)")
        ctx.close(tc, al * ta + be * tb, RTOL * scale, "%s: linearity (alpha=%r, beta=%r)" % (name, al, be))


# ---------------------------------------------------------------------------
# clause 3: Fourier marginal and inverse


@clause(CLAUSES, "marginal-inverse", _rec_cases(), quick=800, thorough=600,
        rule="same generator as `definition`; non-trivial = non-sinusoidal, non-constant record with n >= 8",
        oracle="reference model: long-double sum over time of row r equals conj(X_k), k = n/2 - r, X from the direct long-double DFT "
               "(1e-12*sqrt(n)*||x||_2); itransform(transform(x)) (the array itself, a C copy or a Fortran-ordered copy) has "
               "length n, zero imaginary part and equals x[:n] - mean - Nyquist component (same tolerance)",
        require={"odd": 0.3, "even": 0.3, "pow2": 0.1, "non-pow2": 0.3, "n/2-odd": 0.1, "has-mean": 0.2, "peak>1e10": 0.08,
                 "peak<1e-10": 0.08},
        min_nontrivial=0.3)
def marginal_inverse(case, ctx):
    arg, x = _record(case)
    n = ref.even_length(len(x))
    ctx.nt(_classify(ctx, case["rec"], x, n))
    xt = x[:n]
    tol = RTOL * math.sqrt(n) * _norm(xt)
    big_x = ref.dft(xt)
    if float(np.abs(big_x[n // 2])) > 0.01 * float(np.max(np.abs(big_x))) > 0:
        ctx.cls("has-nyquist")
    name, fn = _pick(case, "impl", [("transform", sw.transform), ("transform", sw.transform),
                                    ("transform_w_scipy_fft", sw.transform_w_scipy_fft)])
    ctx.cls("impl=" + name)
    got = _check_array(ctx, _call(ctx, case, fn, arg, "mi"), n, name)
    _marginal_and_inverse(ctx, case, got, xt, big_x, tol, name)


def _marginal_and_inverse(ctx, case, got, xt, big_x, tol, name):
    """Sentences 8 and 9 on one transform array `got` of the even-length record xt (big_x: its long-double DFT)."""
    n = len(xt)
    rows = got.astype(CLD).sum(axis=1)
    want = np.conj(big_x[np.arange(n // 2, 0, -1)])  # row r <-> frequency index n/2 - r
    ctx.close(rows, want, tol, "%s: sum over time of each row vs conjugate Fourier coefficient (row 0 = Nyquist)" % name)
    layout = _pick(case, "layout:" + name, ["same", "copy", "fortran"])
    ctx.cls("itransform-input=" + layout)
    stock = got if layout == "same" else (np.array(got, order="C") if layout == "copy" else np.asfortranarray(got))
    back = np.asarray(ctx.lib(sw.itransform, stock))
    ctx.shape(back, (n,), "itransform(%s(x))" % name)
    if np.iscomplexobj(back):  # 'recovers the record': a complex result must have a zero imaginary part
        ctx.close(back.imag, np.zeros(n), tol, "itransform(%s(x)): imaginary part" % name)
        back = back.real
    ctx.check(back.dtype.kind in "fiu", "itransform: dtype %s is not numeric" % back.dtype)
    ctx.close(back, ref.nyquist_and_mean_removed(xt), tol, "itransform(%s(x)) vs x - mean - Nyquist component" % name)


# ---------------------------------------------------------------------------
# clause 4: dominant frequency of a stationary on-grid sinusoid


# 'all dt': the repo's rates, the usual band, any positive magnitude, and integer steps
_DTS = st.one_of(gen.dts(1e-4, 10.0), gen.dts(1e-4, 10.0), gen.log_uniform(1e-9, 1e-4), gen.log_uniform(10.0, 1e6), st.integers(1, 3000),
                  st.integers(1, 50))


@st.composite
def _dom_cases(draw):
    length = draw(_lengths(6))
    n = ref.even_length(length)
    kmax = (3 * n) // 8  # floor(0.75 * n/2)
    k0 = draw(st.one_of(st.integers(2, kmax), st.sampled_from([2, kmax]), st.integers(max(2, kmax - 3), kmax)))
    return {"len": length, "k0": k0, "phase": draw(st.floats(0.0, 2 * math.pi, allow_nan=False)),
            "amp": draw(gen.log_uniform(1e-6, 1e6)), "unit": draw(st.sampled_from([0, 0, 0, -600, -800, 560, 800])),
            "dt": draw(_DTS),
            "obj": draw(st.sampled_from(["acc", "sig"])), "mag": draw(st.booleans()), "reads": draw(st.sampled_from([1, 1, 2])),
            "reset_k0": draw(st.one_of(st.none(), st.integers(2, kmax)))}


@clause(CLAUSES, "dominant-frequency", _dom_cases(), quick=800, thorough=600,
        rule="x_t = A cos(2 pi k0 t/n + phase), length 6..128 (quick) / 6..1024 (thorough) odd and even, k0 uniform in "
             "[2, floor(0.75 n/2)] or at / near either end, A log-uniform [1e-6,1e6] (x 2^{0,-800,-600,560,800}), dt log-uniform "
             "[1e-4,10] + repo rates | log-uniform [1e-9,1e6] | integer 1..3000; the object is read once or twice and, in half of the cases, "
             "given another on-grid cosine (reset_k0) through reset_values and read again; non-trivial = n >= 8",
        oracle="reference model (closed form from the statement): get_max_stockwell_freq(AccSignal|Signal) and "
               "get_max_tifq_vals_freq(transform(x) | |transform(x)|, dt) have n (or len(x)) entries and equal k0/(n dt) on samples "
               "ceil(n/4)..floor(3n/4), relative 1e-12",
        require={"odd": 0.3, "even": 0.3, "k0=2": 0.05, "k0=kmax": 0.05, "k0>n/4": 0.1, "pow2": 0.05, "dt-int": 0.06, "history=reset_values": 0.25,
                 "dt>10": 0.04, "dt<1e-4": 0.03, "reads=2": 0.15},
        min_nontrivial=0.5)
def dominant_frequency(case, ctx):
    length = int(case["len"])
    n = ref.even_length(length)
    k0 = int(case["k0"])
    kmax = (3 * n) // 8
    if not (6 <= length <= MAX_LEN and 2 <= k0 <= kmax):
        raise ValueError("case outside the domain")
    x = _cosine(case)
    if case.get("unit"):
        ctx.cls("extreme-unit")
    ctx.cls(gen.size_class(length), "odd" if length % 2 else "even", "pow2" if _is_pow2(n) else "non-pow2",
            "k0=2" if k0 == 2 else None, "k0=kmax" if k0 == kmax else None, "k0>n/4" if 4 * k0 > n else "k0<=n/4",
            "obj=" + case["obj"])
    ctx.nt(n >= 8)
    _dominant(ctx, case, x)


def _cosine(case):
    length = int(case["len"])
    n = ref.even_length(length)
    t = np.arange(length)
    x = float(case["amp"]) * np.cos(2 * math.pi * ((int(case["k0"]) * t) % n) / n + float(case["phase"]))
    if case.get("unit"):
        x = x * 2.0 ** case["unit"]  # the same record in extreme units (about 1e-247 .. 7e246): exact change of unit
    return x


def _trace(ctx, tr, n, length, lo, hi, f0, tol, what):
    tr = np.asarray(tr)
    ctx.check(tr.ndim == 1 and len(tr) in (n, length), "%s: trace of shape %s for a record of %d samples (n = %d)" % (
        what, tr.shape, length, n))
    ctx.close(tr[lo:hi + 1], np.full(hi + 1 - lo, f0), tol, "%s on samples %d..%d vs k0/(n dt)" % (what, lo, hi))


def _dominant(ctx, case, x):
    """Sentence 10 on the cosine x of `case` through both entry points; returns the object that was read."""
    length = len(x)
    n = ref.even_length(length)
    k0 = int(case["k0"])
    dt = case["dt"]  # float or int, handed to the library as it is
    ctx.cls("dt-int" if isinstance(dt, int) else None, "dt>10" if dt > 10 else None, "dt<1e-4" if dt < 1e-4 else None)
    f0 = LD(k0) / (LD(n) * LD(float(dt)))
    lo, hi = -((-n) // 4), (3 * n) // 4
    tol = RTOL * float(f0)
    asig = ctx.lib(eqsig.AccSignal if case["obj"] == "acc" else eqsig.Signal, x, dt)
    reads = int(case.get("reads", 1))
    ctx.cls("reads=%d" % reads)
    for i in range(reads):  # the second read goes through the attribute cached by the first; the record is unchanged
        _trace(ctx, ctx.lib(sw.get_max_stockwell_freq, asig), n, length, lo, hi, f0, tol,
               "get_max_stockwell_freq (read %d, k0=%d, n=%d)" % (i + 1, k0, n))
    tifq = ctx.lib(sw.transform, x)
    if case["mag"]:
        tifq = np.abs(tifq)
    _trace(ctx, ctx.lib(sw.get_max_tifq_vals_freq, tifq, dt), n, length, lo, hi, f0, tol,
           "get_max_tifq_vals_freq (k0=%d, n=%d)" % (k0, n))
    k1 = case.get("reset_k0")
    if k1 is not None:
        # history (C15-F1): the object now holds ANOTHER on-grid cosine of the same length; the statement speaks of that record
        k1 = int(k1)
        if not 2 <= k1 <= (3 * n) // 8:
            raise ValueError("case outside the domain")
        ctx.cls("history=reset_values", "reset-same-k0" if k1 == k0 else None)
        y = _cosine(dict(case, k0=k1, phase=float(case["phase"]) + 0.5))
        ctx.lib(asig.reset_values, y)
        f0 = LD(k1) / (LD(n) * LD(float(dt)))
        tol = RTOL * float(f0)
        for i in range(reads):
            _trace(ctx, ctx.lib(sw.get_max_stockwell_freq, asig), n, length, lo, hi, f0, tol,
                   "get_max_stockwell_freq after reset_values (read %d, k0 %d -> %d, n=%d)" % (i + 1, k0, k1, n))
    return asig, (n, length, lo, hi, f0, tol)


# ---------------------------------------------------------------------------
# mid-range (DESIGN 8.5): lengths 129..1024 in BOTH tiers (the quantifier ends at 1024; thorough adds a few longer records).
# Deterministic enumerations: lengths from gen.size_ladder (one per logarithmic bin, placed by a hash of VERIF_SEED, plus the
# lengths aimed at the integer literals of the source under test), every other parameter a hash of (VERIF_SEED, tag, index).
# All sentences are checked on the WHOLE array (per-row inverse-FFT form of the formula, row sums, inverse, linearity, the two
# implementations against each other AND each against the reference); the long-double sum without any FFT on a sample of cells.

import hashlib as _hashlib  # noqa: E402


def _hu(*parts):
    """Uniform number in [0, 1): hash of (VERIF_SEED, parts)."""
    s = ":".join(str(p) for p in (gen.run_seed(), "c15") + parts)
    return (int(_hashlib.blake2b(s.encode(), digest_size=8).hexdigest(), 16) % 10 ** 9) / 1e9


def _hpick(seq, *parts):
    return seq[min(len(seq) - 1, int(_hu(*parts) * len(seq)))]


def _sd(*parts):
    return int(_hu("seed", *parts) * (2 ** 31 - 1))


MR_KINDS = ["noise", "band", "sines", "walk"]
MR_UNITS = [0, 0, 0, 34, -47, 120, -333, 700, -700]


def _mr_record(n, kind, seed):
    """Ordinary data that keep an error visible: every stretch of the record (and of its spectrum) contributes differently,
    non-zero mean, non-zero Nyquist component, no quiet tail."""
    rs = np.random.RandomState(int(seed))
    t = np.arange(n, dtype=float)
    x = t / n
    if kind == "noise":
        a = rs.standard_normal(n) * (0.6 + 0.8 * x)
    elif kind == "band":
        w = 3 + int(rs.randint(0, 6))
        cs = np.cumsum(rs.standard_normal(n + w))
        a = (cs[w:] - cs[:-w]) / math.sqrt(w) * (1.3 - 0.7 * x) + 0.05 * rs.standard_normal(n)
    elif kind == "sines":
        a = np.zeros(n)
        for j in range(4):
            cyc = float(rs.uniform(0.7, n / 2.0 - 0.5))
            a = a + rs.uniform(0.2, 1.0) * np.sin(2 * math.pi * cyc * t / n + rs.uniform(0, 2 * math.pi))
        a = a * (0.7 + 0.6 * np.sin(math.pi * x)) + 0.02 * rs.standard_normal(n)
    elif kind == "walk":
        a = np.cumsum(rs.standard_normal(n)) / math.sqrt(n) + 0.1 * rs.standard_normal(n)
    else:
        raise ValueError(kind)
    return a + 0.37 + 0.21 * np.where(np.arange(n) % 2 == 0, 1.0, -1.0)


def _mr_lengths(tier, tag):
    """(lengths inside the quantifier, lengths beyond it - thorough only)."""
    if tier == "quick":
        return sorted(set(gen.size_ladder(129, MAX_LEN, 16, "c15:" + tag)) | {1023, 1024}), []
    inside = (set(gen.size_ladder(129, MAX_LEN, 40, "c15:t:" + tag, mined_limit=16)) | set(gen.ladder(129, MAX_LEN, 16, "c15:" + tag))
              | {1023, 1024} | set(_special_lengths(MAX_LEN, 129)))
    return sorted(inside), [2047, 2048, 3001, 4096]


def _mr_cases(tier):
    inside, beyond = _mr_lengths(tier, "n")
    cases = []
    for i, length in enumerate(inside + beyond):
        for j in range(2 if length <= MAX_LEN else 1):
            ln = int(length)
            if j == 1:  # the second case of a rung has the other parity (last sample of an odd record ignored)
                ln = ln + 1 if ln + 1 <= MAX_LEN else ln - 1
            c = {"len": ln, "kind": MR_KINDS[(i + 2 * j + int(4 * _hu("kind", i))) % 4], "kind_b": _hpick(MR_KINDS, "kb", i, j),
                 "seed": _sd("mr", i, j), "unit": 0 if j == 0 else _hpick(MR_UNITS, "unit", i, j),
                 "as": "ndarray" if j == 0 else _hpick(["ndarray", "list", "int", "view", "negstride", "readonly"], "as", i, j),
                 "alpha": round((-1) ** int(2 * _hu("as", i, j)) * math.exp(math.log(1e-3) + math.log(1e6) * _hu("al", i, j)), 9),
                 "beta": float((-1) ** int(2 * _hu("bs", i, j)) * 2.0 ** int(-8 + 17 * _hu("be", i, j)))}
            if c["as"] == "int":
                c["unit"] = 0
            if j == 1:  # a property of the WHOLE record (sign, exact zeros, largest value 0): half-wave rectified records
                c["clip"] = _hpick(["no", "no", "neg", "pos"], "clip", i, j)
            cases.append(c)
    return cases


def _mr_enum(tier, shard, nshards):
    for i, c in enumerate(_mr_cases(tier)):
        if i % nshards == shard:
            yield c


def _sample_indices(lo, hi, count, *tag):
    """Indices in [lo, hi]: the first two, the last two, `count` hash-chosen ones and, for every 2^j (j = 5..9), up to three
    hash-chosen indices that are 0, 1 or -1 modulo 2^j (block seams)."""
    out = {lo, min(hi, lo + 1), max(lo, hi - 1), hi}
    span = hi - lo + 1
    for i in range(count):
        out.add(lo + int(_hu("idx", i, *tag) * span))
    for j in range(5, 10):
        b = 2 ** j
        seams = [v for q in range(lo // b, hi // b + 2) for v in (q * b - 1, q * b, q * b + 1) if lo <= v <= hi]
        for i in range(min(3, len(seams))):
            out.add(_hpick(seams, "seam", j, i, *tag))
    return np.array(sorted(out), dtype=np.int64)


def _mr_reference(ctx, x, tag):
    """Whole-array reference (per-row inverse FFT of the formula, double) cross-checked against the long-double sum (direct
    DFT, no FFT) on a sample of cells; returns (statement array, X long-double, sampled rows r, sampled columns, cells)."""
    n = len(x)
    scale = _norm(x)
    big_x = ref.dft(x) if n <= 1024 else ref.dft_chunked(x)
    want = ref.statement_array(ref.s_transform_rows_fft(x))
    ks = _sample_indices(1, n // 2, 12, "k", *tag)
    taus = _sample_indices(0, n - 1, 28, "tau", *tag)
    cells = np.conj(ref.s_cells(big_x, ks, taus))       # statement's values at (row n/2 - k, tau)
    rows = n // 2 - ks
    d = np.abs(want[np.ix_(rows, taus)].astype(CLD) - cells)
    if not float(np.max(d)) <= 0.1 * _rtol(n) * scale + core.TINY:
        raise core.HarnessError("the two reference forms of the S-transform disagree on the sampled cells (n=%d)" % n)
    return want, big_x, rows, taus, cells


def _rtol(n):
    """1e-12 inside the quantifier (n <= 1024, see ASSUMPTIONS); longer records (thorough only, outside the quantifier): x n/1024."""
    return RTOL * max(1.0, n / 1024.0)


@enum_clause(CLAUSES, "mid-range", _mr_enum,
             rule="record lengths gen.size_ladder(129, 1024, 16) + 1023 + 1024 (thorough: 40 + 16 rungs, the powers of two -1/+0/+1/+2, "
                  "and 2047 / 2048 / 3001 / 4096 outside the quantifier), each rung in both parities; noise x envelope, band-limited "
                  "noise, modulated off-grid sines, walk - all with a mean and a Nyquist component, as they are or half-wave rectified (non-positive / non-negative with exact zeros); float64 / list / int64 / strided / "
                  "reversed / read-only container, unit 2^{0,34,-47,120,-333,+-700}, alpha signed log-uniform [1e-3,1e3], beta +-2^k by hash of "
                  "(VERIF_SEED, index); interp omitted / False",
             oracle="reference model on the WHOLE array for transform AND transform_w_scipy_fft (per-row inverse FFT of the statement's "
                    "formula, 1e-12*||x||_2 per cell) + long-double sum without FFT on ~20 x ~40 sampled cells (first / last two rows and "
                    "columns, seams modulo 2^5..2^9, hash-chosen); the two implementations against each other; every row sum vs the "
                    "direct long-double DFT and the inverse of both (1e-12*sqrt(n)*||x||_2); linearity of both on the whole array",
             exhaustive_note="deterministic size ladder: one record length per logarithmic bin of [129, 1024] and per mined literal, both parities",
             require={"odd": 0.3, "even": 0.3}, min_nontrivial=0.9, quick_shards=4)
def mid_range(case, ctx):
    length = int(case["len"])
    n = ref.even_length(length)
    a = _mr_record(length, case["kind"], case["seed"])
    b = _mr_record(length, case["kind_b"], int(case["seed"]) + 1)
    u = int(case.get("unit") or 0)
    if case.get("clip") == "neg":
        a = np.minimum(a, 0.0)  # non-positive, many exact zeros, largest value exactly 0
    elif case.get("clip") == "pos":
        a = np.maximum(a, 0.0)
    if case["as"] == "int":
        a = np.round(a * 1000.0)
    if u:
        a = a * 2.0 ** u
        b = b * 2.0 ** u
    spec = {"as": case["as"]} if case["as"] != "ndarray" else {}
    arg = gen.as_container(spec, np.array(a))
    x = np.array(arg, dtype=float)
    xt = x[:n]
    ctx.cls("kind=" + case["kind"], "as=" + case["as"], gen.size_class(length), "odd" if length % 2 else "even",
            "pow2" if _is_pow2(n) else "non-pow2", "unit!=0" if u else "unit=0", "beyond-quantifier" if length > MAX_LEN else None,
            "clip=" + case["clip"] if case.get("clip", "no") != "no" else None)
    ctx.nt(True)
    rt = _rtol(n)
    na = _norm(xt)
    nb = _norm(b[:n])
    want, big_x, rows, taus, cells = _mr_reference(ctx, xt, (case["seed"],))
    got = {}
    for name, fn in (("transform", sw.transform), ("transform_w_scipy_fft", sw.transform_w_scipy_fft)):
        t = _check_array(ctx, _call(ctx, case, fn, arg, name), n, name)
        got[name] = t
        ctx.close(t, want, rt * na, "%s vs conj of the discrete S-transform, whole array (row 0 = Nyquist)" % name)
        ctx.close(t[np.ix_(rows, taus)].astype(CLD), cells, rt * na,
                  "%s vs the long-double sum on sampled cells (rows %s..., columns %s...)" % (name, rows[:4].tolist(), taus[:4].tolist()))
        _marginal_and_inverse(ctx, case, t, xt, big_x, rt * math.sqrt(n) * na, name)
    ctx.close(got["transform_w_scipy_fft"], got["transform"], rt * na, "transform_w_scipy_fft vs transform")
    al, be = float(case["alpha"]), float(case["beta"])
    comb = al * x + be * b
    scale = abs(al) * na + abs(be) * nb
    for name, fn in (("transform", sw.transform), ("transform_w_scipy_fft", sw.transform_w_scipy_fft)):
        tb = _check_array(ctx, ctx.lib(fn, np.array(b)), n, name + "(b)")
        tc = _check_array(ctx, ctx.lib(fn, np.array(comb)), n, name + "(alpha*a + beta*b)")
        ctx.close(tc, al * got[name] + be * tb, rt * scale, "%s: linearity (alpha=%r, beta=%r)" % (name, al, be))


# ---- mid-range, dominant frequency: length x k0 x (object type, magnitude / complex array, dt, unit, reads) ------------------


def _md_cases(tier):
    inside, _ = _mr_lengths(tier, "dom")
    cases = []
    for i, length in enumerate(inside):
        n = ref.even_length(length)
        kmax = (3 * n) // 8
        k0s = sorted({2, kmax, kmax - 1, 3} | set(gen.ladder(4, kmax - 2, 4 if tier == "quick" else 8, "c15:k0:%d" % i)))
        for j, k0 in enumerate(k0s):
            ln = int(length)
            if _hu("par", i, j) < 0.5:
                ln = ln + 1 if ln % 2 == 0 and ln + 1 <= MAX_LEN else (ln - 1 if ln % 2 else ln)  # same n, other parity
            dt_kind = _hpick(["repo", "repo", "wide", "int"], "dtk", i, j)
            dt = (_hpick(gen.REPO_DTS, "dtr", i, j) if dt_kind == "repo" else
                  (int(1 + 2999 * _hu("dti", i, j)) if dt_kind == "int" else
                   float("%.6g" % math.exp(math.log(1e-9) + math.log(1e15) * _hu("dtw", i, j)))))
            cases.append({"len": ln, "k0": int(k0), "phase": round(2 * math.pi * _hu("ph", i, j), 6),
                          "amp": float("%.6g" % math.exp(math.log(1e-6) + math.log(1e12) * _hu("amp", i, j))),
                          "unit": _hpick([0, 0, 0, -600, -800, 560, 800], "u", i, j), "dt": dt,
                          "obj": _hpick(["acc", "sig"], "obj", i, j), "mag": _hu("mag", i, j) < 0.5,
                          "reads": _hpick([1, 2], "reads", i, j), "other_k0": int(2 + int((kmax - 1) * _hu("ok0", i, j))),
                          "reset_k0": int(2 + int((kmax - 1) * _hu("rk0", i, j))) if _hu("hist", i, j) < 0.5 else None})
    return cases


def _md_enum(tier, shard, nshards):
    for i, c in enumerate(_md_cases(tier)):
        if i % nshards == shard:
            yield c


@enum_clause(CLAUSES, "mid-range-dominant", _md_enum,
             rule="record lengths as in `mid-range` (own ladder), n or n+1 samples; k0 in {2, 3, kmax-1, kmax} + a ladder of 4 (thorough 8) "
                  "over [4, kmax-2]; phase, A in [1e-6,1e6] x 2^{0,-600,-800,560,800}, dt (repo rates | log-uniform [1e-9,1e6] | integer), "
                  "Signal / AccSignal, complex array / magnitudes, one or two reads, reset_values history in half of the cases by hash of "
                  "(VERIF_SEED, index)",
             oracle="closed form k0/(n dt) on samples ceil(n/4)..floor(3n/4) (relative 1e-12) through get_max_stockwell_freq and "
                    "get_max_tifq_vals_freq; then a second, freshly constructed object of the same length with another on-grid frequency "
                    "is read (its own closed form), and the first object - record unchanged - is read again; history variant: reset_values "
                    "with another on-grid cosine, then the closed form of the CURRENT record",
             exhaustive_note="deterministic size ladder x frequency ladder incl. both ends of the statement's band",
             min_nontrivial=0.9, quick_shards=4)
def mid_range_dominant(case, ctx):
    length = int(case["len"])
    n = ref.even_length(length)
    k0 = int(case["k0"])
    kmax = (3 * n) // 8
    if not (6 <= length <= MAX_LEN and 2 <= k0 <= kmax):
        raise ValueError("case outside the domain")
    ctx.cls(gen.size_class(length), "odd" if length % 2 else "even", "k0=2" if k0 == 2 else None, "k0=kmax" if k0 == kmax else None,
            "obj=" + case["obj"], "extreme-unit" if case.get("unit") else None)
    ctx.nt(True)
    first, (n, length, lo, hi, f0, tol) = _dominant(ctx, case, _cosine(case))
    # another record of the same length in a fresh object (a module-level cache keyed on the length would serve the first one)
    other = dict(case, k0=int(case["other_k0"]), phase=float(case["phase"]) + 1.0, unit=0, reads=1, reset_k0=None)
    _dominant(ctx, other, _cosine(other))
    # the first object again: its record has not been touched since its last read (f0 is the frequency it holds now)
    _trace(ctx, ctx.lib(sw.get_max_stockwell_freq, first), n, length, lo, hi, f0, tol,
           "get_max_stockwell_freq (first object read again after another object was analysed, n=%d)" % n)
