"""C15 - Stockwell transform: definition, both implementations, Fourier marginal, inverse, dominant frequency."""
import math

import numpy as np
from hypothesis import strategies as st

import eqsig
from eqsig import stockwell as sw

from pbt import core
from pbt import gen
from pbt.core import clause
from pbt.ref import stockwell as ref

PROPERTY = "C15"
CLAUSES = []
ASSUMPTIONS = [
    "records are finite real float64 ndarrays (clause implementations: also integer-dtype ndarrays and Python lists), "
    "4 <= length <= 1024 (longer generated records are cut to 1024 samples), non-zero |x| in [1e-30, 1e9]; n denotes the "
    "length truncated to even, 2*floor(length/2); the last sample of an odd record is ignored",
    "quick tier draws lengths up to 128, thorough tier up to 1024 (the length is drawn first; generated records with leading / "
    "trailing zero runs are cut back to it); explicit value lists only for lengths <= 64, longer records are seeded recipes; "
    "the check itself does not depend on the tier (a replayed case is evaluated the same way in both)",
    "tolerance on every time-frequency cell: 1e-12*||x||_2 (x = the truncated record).  Derivation: |S[k,tau]| <= ||S_k||_2 <= "
    "||x||_2 (Parseval, Gaussian <= 1), a backward-stable FFT has norm-wise error c*eps*log2(n)*||.||_2, so forward + inverse FFT "
    "give |dS| <= 2c*eps*log2(n)*||x||_2 ~ 5e-14*||x||_2 at n = 1024; observed 3e-17.  DESIGN.md's 1e-10*max|S| is NOT used: "
    "for a constant record max|S| = exp(-2 pi^2)*|mean| = 2.7e-9*|mean| while rounding is eps*|mean|, so that scale is unsound",
    "tolerance on a row sum and on the inverse transform: 1e-12*sqrt(n)*||x||_2 (Cauchy-Schwarz over the n cells of a row; covers "
    "recursive as well as pairwise summation: (c*log2(n) + n)*eps <= 1e-12 for n <= 1024); note sqrt(n)*||x||_2 >= sum|x|",
    "linearity: transform(alpha*a + beta*b) vs alpha*transform(a) + beta*transform(b) with tolerance "
    "1e-12*(|alpha|*||a||_2 + |beta|*||b||_2) (rounding of the combination itself is eps per sample of the same scale)",
    "reference for n <= 160: long-double triple sum with a direct O(n^2) DFT (no FFT); for n > 160 the same formula row by row "
    "with one double-precision inverse FFT per frequency; on every record with n <= 160 the two reference forms are compared with "
    "each other (disagreement is a harness error, not a violation)",
    "Fourier coefficient X_k = sum_t x_t exp(-2 pi i k t/n) (direct long-double DFT of the truncated record); Nyquist component "
    "= (X_{n/2}/n)*(-1)^t; mean = X_0/n",
    "dominant frequency: x_t = A*cos(2 pi k0 t/n + phase) for t = 0..length-1 (the phase index k0*t is reduced mod n in integers), "
    "k0 integer in [2, floor(0.75*n/2)], hence n >= 6; A in [1e-6, 1e6]; dt in [1e-4, 10]; 'middle half' = samples "
    "ceil(n/4)..floor(3n/4); expected value k0/(n*dt) with relative tolerance 1e-12 (two roundings in the frequency axis); "
    "the margin |S[k0]| - max other row is >= 1e-4*A/2 for every n <= 1024 (probe over all k0 and 5 phases), rounding is 1e-16*A",
    "the trace is read through get_max_stockwell_freq on a fresh AccSignal or Signal (no cached swtf attribute) and through "
    "get_max_tifq_vals_freq on transform(x) or |transform(x)|",
]
LD = np.longdouble
CLD = np.clongdouble
MAX_LEN = 1024
DIRECT_MAX_N = 160
RTOL = 1e-12


def _max_n():
    return 128 if core.tier() == "quick" else MAX_LEN


def _is_pow2(n):
    return n > 0 and (n & (n - 1)) == 0


def _fix_int_amp(spec):
    # integer-dtype variant: keep the rounded record non-zero
    if spec.get("as") == "int" and "amp" in spec and spec["amp"] < 1:
        spec["amp"] = min(6, 1 - spec["amp"])
    return spec


RECIPE_KINDS = ["noise", "sines", "pulse", "step", "walk", "const", "quake"]


def _special_lengths(top, lo=4):
    """Powers of two and their neighbours (p-1 and p+1 are odd and truncate to p-2 / p)."""
    return [p + o for p in (4, 8, 16, 32, 64, 128, 256, 512, 1024) for o in (-1, 0, 1, 2) if lo <= p + o <= top]


def _lengths(lo=4):
    """Record lengths: uniform / small / around a power of two; the parity is drawn separately so that odd lengths
    (last sample ignored) are half of the cases."""
    top = _max_n()
    uniform = st.integers(lo, top)
    base = st.one_of(st.integers(lo, 24), uniform, uniform, st.integers(max(lo, top // 2), top), st.sampled_from(_special_lengths(top, max(lo, 15))))

    def parity(t):
        length, odd = t
        if (length % 2 == 1) != odd:
            length = length + 1 if length + 1 <= top else length - 1
        return length
    return st.tuples(base, st.booleans()).map(parity)


@st.composite
def _rec_cases(draw, allow_int=False):
    """{"rec": spec, "cut": length}: the length is drawn first (uniform, small, or around a power of two), then a record
    of that length (+ optional zero runs; the record is cut back to `length`, so leading zeros survive)."""
    length = draw(_lengths())
    kinds = None if length <= 64 else RECIPE_KINDS  # explicit value lists only for short records
    spec = _fix_int_amp(draw(gen.record_specs(min_n=length, max_n=length, small_max=length, kinds=kinds,
                                              allow_int=allow_int)))
    return {"rec": spec, "cut": length}


def _record(case, key="rec"):
    """(argument handed to the library, float64 array of what the library sees)."""
    spec = case[key]
    a = gen.build(spec)
    a = a[:int(case.get("cut") or MAX_LEN)]
    arg = gen.as_container(spec, a)
    return arg, np.array(arg, dtype=float)


def _classify(ctx, spec, x, n):
    length = len(x)
    ctx.cls("kind=" + spec["k"], gen.size_class(length), "odd" if length % 2 else "even",
            "pow2" if _is_pow2(n) else "non-pow2", "n/2-odd" if (n // 2) % 2 else "n/2-even")
    if spec.get("as"):
        ctx.cls("as=" + spec["as"])
    xt = x[:n]
    if not np.any(xt != 0):
        ctx.cls("zero-record")
    elif np.ptp(xt) == 0:
        ctx.cls("constant-record")
    if abs(float(np.mean(xt))) > 0.01 * float(np.sqrt(np.mean(xt * xt))) > 0:
        ctx.cls("has-mean")
    return n >= 8 and spec["k"] not in ("sines", "const") and np.ptp(xt) > 0


def _reference_array(x):
    """The statement's (n/2, n) array for the even-length record x, and the label of the form used."""
    n = len(x)
    if n <= DIRECT_MAX_N:
        s = ref.s_transform(x)
        s2 = ref.s_transform_rows_fft(x)
        scale = float(np.linalg.norm(x))
        if not float(np.max(np.abs(s2 - s))) <= RTOL * scale + core.TINY:
            raise core.HarnessError("the two reference forms of the S-transform disagree (n=%d)" % n)
        return ref.statement_array(s), "ref=direct-longdouble"
    return ref.statement_array(ref.s_transform_rows_fft(x)), "ref=rows-ifft"


def _check_array(ctx, got, n, what):
    got = np.asarray(got)
    ctx.shape(got, (n // 2, n), what)
    ctx.check(np.iscomplexobj(got), "%s: dtype %s is not complex" % (what, got.dtype))
    ctx.finite(got, what)
    return got


# ---------------------------------------------------------------------------
# clause 1: definition


@clause(CLAUSES, "definition", _rec_cases(), quick=800, thorough=600,
        rule="float records of all kinds; length 4..128 (quick) / 4..1024 (thorough) drawn first: uniform, small (<= 24) or a "
             "power of two -1/+0/+1/+2, odd and even; non-trivial = non-sinusoidal, non-constant record with n >= 8",
        oracle="reference model: shape (n/2, 2*floor(len/2)), complex, equal to flipud(conj(S)) with S the discrete S-transform "
               "(long-double triple sum + direct DFT for n <= 160, per-row inverse FFT of the shifted spectrum above), "
               "tolerance 1e-12*||x||_2 per cell",
        require={"odd": 0.3, "even": 0.3, "pow2": 0.1, "non-pow2": 0.3, "n/2-odd": 0.1, "has-mean": 0.2},
        min_nontrivial=0.3)
def definition(case, ctx):
    arg, x = _record(case)
    n = ref.even_length(len(x))
    ctx.nt(_classify(ctx, case["rec"], x, n))
    got = _check_array(ctx, ctx.lib(sw.transform, arg), n, "transform")
    want, form = _reference_array(x[:n])
    ctx.cls(form)
    ctx.close(got, want, RTOL * float(np.linalg.norm(x[:n])),
              "transform vs conj of the discrete S-transform (row 0 = Nyquist, row n/2-1 = first harmonic)")


# ---------------------------------------------------------------------------
# clause 2: both implementations, linearity, containers, purity


@st.composite
def _impl_cases(draw):
    length = draw(_lengths())
    kinds = None if length <= 64 else RECIPE_KINDS
    ra = draw(gen.record_specs(min_n=length, max_n=length, small_max=length, kinds=kinds, allow_zero_runs=False))
    rb = draw(gen.record_specs(min_n=length, max_n=length, small_max=length, kinds=kinds, allow_zero_runs=False))
    how = draw(st.sampled_from([None, None, "list", "int"]))
    if how:
        ra["as"] = how
        _fix_int_amp(ra)
    return {"ra": ra, "rb": rb, "alpha": draw(gen.scalars()), "beta": draw(gen.scalars())}


def _snapshot(arg):
    if isinstance(arg, np.ndarray):
        return (arg.dtype, arg.shape, arg.tobytes())
    return list(arg)


def _unchanged(ctx, arg, snap, what):
    if isinstance(arg, np.ndarray):
        ctx.check((arg.dtype, arg.shape, arg.tobytes()) == snap, "%s modified its input array" % what)
    else:
        ctx.check(type(arg) is list and arg == snap, "%s modified its input list" % what)


@clause(CLAUSES, "implementations", _impl_cases(), quick=600, thorough=500,
        rule="pairs of equal-length records (a, b) of all kinds, length 4..128 (quick) / 4..1024 (thorough) incl. powers of two "
             "(+1), record a as float ndarray / integer-dtype ndarray / list, factors alpha, beta signed log-uniform or +-2^k; "
             "non-trivial = n >= 8 and both records non-constant",
        oracle="differential: transform vs transform_w_scipy_fft (1e-12*||x||_2 per cell, same shape and complex dtype); "
               "metamorphic linearity of both (1e-12*(|alpha| ||a|| + |beta| ||b||)); list / integer input gives the array of "
               "the float ndarray; argument byte-identical after each call",
        require={"odd": 0.3, "even": 0.3, "as=list": 0.1, "as=int": 0.1, "pow2": 0.1, "non-pow2": 0.3},
        min_nontrivial=0.3)
def implementations(case, ctx):
    arg, a = _record(case, "ra")
    _, b = _record(case, "rb")
    n = ref.even_length(len(a))
    _classify(ctx, case["ra"], a, n)
    ctx.nt(n >= 8 and np.ptp(a[:n]) > 0 and np.ptp(b[:n]) > 0)
    na = float(np.linalg.norm(a[:n]))
    nb = float(np.linalg.norm(b[:n]))
    # the two implementations on the caller's container
    snap = _snapshot(arg)
    t1 = _check_array(ctx, ctx.lib(sw.transform, arg), n, "transform")
    _unchanged(ctx, arg, snap, "transform")
    t2 = _check_array(ctx, ctx.lib(sw.transform_w_scipy_fft, arg), n, "transform_w_scipy_fft")
    _unchanged(ctx, arg, snap, "transform_w_scipy_fft")
    ctx.close(t2, t1, RTOL * na, "transform_w_scipy_fft vs transform")
    # container independence (list / integer dtype vs the float ndarray of the same values)
    if not (isinstance(arg, np.ndarray) and arg.dtype == np.float64):
        fa = np.array(a, dtype=float)
        snap_f = _snapshot(fa)
        t1f = _check_array(ctx, ctx.lib(sw.transform, fa), n, "transform(float ndarray)")
        t2f = _check_array(ctx, ctx.lib(sw.transform_w_scipy_fft, fa), n, "transform_w_scipy_fft(float ndarray)")
        _unchanged(ctx, fa, snap_f, "transform / transform_w_scipy_fft")
        ctx.close(t1, t1f, RTOL * na, "transform(%s) vs transform(float ndarray)" % case["ra"].get("as"))
        ctx.close(t2, t2f, RTOL * na, "transform_w_scipy_fft(%s) vs the float ndarray" % case["ra"].get("as"))
        if isinstance(arg, np.ndarray) and arg.dtype.kind == "i" and np.max(np.abs(a)) <= 32767:
            # raw digitiser counts are usually stored in a small integer dtype
            small = np.array(arg, dtype=np.int16)
            ctx.cls("as=int16")
            ctx.close(_check_array(ctx, ctx.lib(sw.transform, small), n, "transform(int16)"), t1f, RTOL * na, "transform(int16) vs transform(float ndarray)")
            ctx.close(_check_array(ctx, ctx.lib(sw.transform_w_scipy_fft, small), n, "transform_w_scipy_fft(int16)"), t2f, RTOL * na,
                      "transform_w_scipy_fft(int16) vs the float ndarray")
    # linearity
    al, be = float(case["alpha"]), float(case["beta"])
    comb = al * a + be * b
    scale = abs(al) * na + abs(be) * nb
    for name, fn, ta in (("transform", sw.transform, t1), ("transform_w_scipy_fft", sw.transform_w_scipy_fft, t2)):
        tb = _check_array(ctx, ctx.lib(fn, b), n, name + "(b)")
        tc = _check_array(ctx, ctx.lib(fn, comb), n, name + "(alpha*a + beta*b)")
        ctx.close(tc, al * ta + be * tb, RTOL * scale, "%s: linearity (alpha=%r, beta=%r)" % (name, al, be))


# ---------------------------------------------------------------------------
# clause 3: Fourier marginal and inverse


@clause(CLAUSES, "marginal-inverse", _rec_cases(), quick=800, thorough=600,
        rule="same generator as `definition`; non-trivial = non-sinusoidal, non-constant record with n >= 8",
        oracle="reference model: long-double sum over time of row r equals conj(X_k), k = n/2 - r, X from the direct long-double DFT "
               "(1e-12*sqrt(n)*||x||_2); itransform(transform(x)) is a real array of length n equal to "
               "x[:n] - mean - Nyquist component (same tolerance)",
        require={"odd": 0.3, "even": 0.3, "pow2": 0.1, "non-pow2": 0.3, "n/2-odd": 0.1, "has-mean": 0.2},
        min_nontrivial=0.3)
def marginal_inverse(case, ctx):
    arg, x = _record(case)
    n = ref.even_length(len(x))
    ctx.nt(_classify(ctx, case["rec"], x, n))
    xt = x[:n]
    tol = RTOL * math.sqrt(n) * float(np.linalg.norm(xt))
    big_x = ref.dft(xt)
    if float(np.abs(big_x[n // 2])) > 0.01 * float(np.max(np.abs(big_x))) > 0:
        ctx.cls("has-nyquist")
    got = _check_array(ctx, ctx.lib(sw.transform, arg), n, "transform")
    rows = got.astype(CLD).sum(axis=1)
    want = np.conj(big_x[np.arange(n // 2, 0, -1)])  # row r <-> frequency index n/2 - r
    ctx.close(rows, want, tol, "sum over time of each row vs conjugate Fourier coefficient (row 0 = Nyquist)")
    back = ctx.lib(sw.itransform, got)
    back = np.asarray(back)
    ctx.shape(back, (n,), "itransform(transform(x))")
    ctx.check(not np.iscomplexobj(back) and back.dtype.kind == "f", "itransform: dtype %s is not real" % back.dtype)
    ctx.close(back, ref.nyquist_and_mean_removed(xt), tol, "itransform(transform(x)) vs x - mean - Nyquist component")


# ---------------------------------------------------------------------------
# clause 4: dominant frequency of a stationary on-grid sinusoid


@st.composite
def _dom_cases(draw):
    length = draw(_lengths(6))
    n = ref.even_length(length)
    kmax = (3 * n) // 8  # floor(0.75 * n/2)
    k0 = draw(st.one_of(st.integers(2, kmax), st.sampled_from([2, kmax]), st.integers(max(2, kmax - 3), kmax)))
    return {"len": length, "k0": k0, "phase": draw(st.floats(0.0, 2 * math.pi, allow_nan=False)),
            "amp": draw(gen.log_uniform(1e-6, 1e6)), "unit": draw(st.sampled_from([0, 0, 0, -600, -800, 560, 800])),
            "dt": draw(gen.dts(1e-4, 10.0)),
            "obj": draw(st.sampled_from(["acc", "sig"])), "mag": draw(st.booleans())}


@clause(CLAUSES, "dominant-frequency", _dom_cases(), quick=800, thorough=600,
        rule="x_t = A cos(2 pi k0 t/n + phase), length 6..128 (quick) / 6..1024 (thorough) odd and even, k0 uniform in "
             "[2, floor(0.75 n/2)] or at / near either end, A log-uniform [1e-6,1e6], dt log-uniform [1e-4,10] + repo rates; "
             "non-trivial = n >= 8",
        oracle="reference model (closed form from the statement): get_max_stockwell_freq(AccSignal|Signal) and "
               "get_max_tifq_vals_freq(transform(x) | |transform(x)|, dt) have n entries and equal k0/(n dt) on samples "
               "ceil(n/4)..floor(3n/4), relative 1e-12",
        require={"odd": 0.3, "even": 0.3, "k0=2": 0.05, "k0=kmax": 0.05, "k0>n/4": 0.1, "pow2": 0.05},
        min_nontrivial=0.5)
def dominant_frequency(case, ctx):
    length = int(case["len"])
    n = ref.even_length(length)
    k0 = int(case["k0"])
    kmax = (3 * n) // 8
    if not (6 <= length <= MAX_LEN and 2 <= k0 <= kmax):
        raise ValueError("case outside the domain")
    dt = float(case["dt"])
    t = np.arange(length)
    x = float(case["amp"]) * np.cos(2 * math.pi * ((k0 * t) % n) / n + float(case["phase"]))
    if case.get("unit"):
        x = x * 2.0 ** case["unit"]  # the same record in extreme units (about 1e-240 .. 1e240): exact change of unit
        ctx.cls("extreme-unit")
    ctx.cls(gen.size_class(length), "odd" if length % 2 else "even", "pow2" if _is_pow2(n) else "non-pow2",
            "k0=2" if k0 == 2 else None, "k0=kmax" if k0 == kmax else None, "k0>n/4" if 4 * k0 > n else "k0<=n/4",
            "obj=" + case["obj"])
    ctx.nt(n >= 8)
    f0 = LD(k0) / (LD(n) * LD(dt))
    lo, hi = -((-n) // 4), (3 * n) // 4
    tol = RTOL * float(f0)
    asig = ctx.lib(eqsig.AccSignal if case["obj"] == "acc" else eqsig.Signal, x, dt)
    tr1 = np.asarray(ctx.lib(sw.get_max_stockwell_freq, asig))
    ctx.shape(tr1, (n,), "get_max_stockwell_freq")
    ctx.close(tr1[lo:hi + 1], np.full(hi + 1 - lo, f0), tol,
              "get_max_stockwell_freq on samples %d..%d vs k0/(n dt) (k0=%d, n=%d)" % (lo, hi, k0, n))
    tifq = ctx.lib(sw.transform, x)
    if case["mag"]:
        tifq = np.abs(tifq)
    tr2 = np.asarray(ctx.lib(sw.get_max_tifq_vals_freq, tifq, dt))
    ctx.shape(tr2, (n,), "get_max_tifq_vals_freq")
    ctx.close(tr2[lo:hi + 1], np.full(hi + 1 - lo, f0), tol,
              "get_max_tifq_vals_freq on samples %d..%d vs k0/(n dt) (k0=%d, n=%d)" % (lo, hi, k0, n))
