"""C02 - response operator: linear, causal, shift-, batch- and refinement-invariant (metamorphic)."""
import numpy as np
from hypothesis import strategies as st

from eqsig import sdof

from pbt import core, gen
from pbt.core import clause, enum_clause
from pbt.ref import sdof as ref

PROPERTY = "C02"
CLAUSES = []
ASSUMPTIONS = [
    "domain as C01 (0.2 <= T/dt <= 2e4, 0 <= xi < 1, optional single leading T=0), n <= 1500 (quick: <= 600)",
    "rounding model for the linear recurrence: 1e-10 of the robust scale (series peak floored by the response to one "
    "step of the largest sample) plus a sound bound 4*eps*dt*sum|input terms|*max|h| on the response to the rounding "
    "of the combined / interpolated input samples",
    "causality, time shift and leading-zero handling are asserted bit-for-bit (the recurrence performs the same operations); "
    "batching/permutation to 1e-10 of scale (vectorised exp/sin/cos may differ in the last bit between array lengths)",
    "refinement: tolerance tol_C01(dt)+tol_C01(dt/m) with the 16*eps/(w dt)^3 rounding term (C02 fixes no tolerance of its own), "
    "restricted to T/(dt/m) <= 2e4",
    "a zero period is only meaningful in first position (the code recognises T=0 there only)",
]
EPS = np.finfo(float).eps
MAX_N = 600 if core.tier() == "quick" else 1500
LONG_KINDS = ["noise", "sines", "pulse", "step", "walk", "const", "quake"]


@st.composite
def _pair(draw, max_n=None):
    """Two record specs of the same length."""
    max_n = max_n or MAX_N
    if draw(st.booleans()):
        n = draw(st.integers(2, 40))
        kinds = ["vals", "dyadic", "levels"]
        a = draw(gen.record_specs(min_n=n, max_n=n, small_max=n, kinds=kinds, allow_zero_runs=False))
        b = draw(gen.record_specs(min_n=n, max_n=n, small_max=n, kinds=kinds + ["noise", "const"], allow_zero_runs=False))
    else:
        n = draw(st.integers(2, max_n))
        a = draw(gen.record_specs(min_n=n, max_n=n, kinds=LONG_KINDS, allow_zero_runs=False))
        b = draw(gen.record_specs(min_n=n, max_n=n, kinds=LONG_KINDS, allow_zero_runs=False))
    return a, b


@st.composite
def _base(draw, lo=0.2, hi=2e4, max_p=5):
    return {"dt": draw(gen.dts(1e-4, 3.0)), "ratios": draw(gen.period_ratios(lo, hi, 1, max_p)),
            "xi": draw(gen.xis()), "lead0": draw(st.integers(0, 3)) == 0}


def _T(case):
    return np.array([float(r) * case["dt"] for r in case["ratios"]])


def _periods(case):
    T = _T(case)
    return np.concatenate([[0.0], T]) if case["lead0"] else T


def _cls(ctx, case, n):
    r = np.array(case["ratios"])
    ctx.cls(gen.size_class(n), "T<6dt" if np.any(r < 6) else None, "T>100dt" if np.any(r > 100) else None,
            "xi=0" if case["xi"] == 0 else None, "lead0" if case["lead0"] else None)


# ---------------------------------------------------------------------------

@st.composite
def _linear_cases(draw):
    a, b = draw(_pair())
    c = draw(_base())
    c.update({"a": a, "b": b, "alpha": draw(gen.scalars()), "beta": draw(gen.scalars())})
    return c


@clause(CLAUSES, "linear", _linear_cases(), quick=400, thorough=2000,
        rule="pairs of records of equal length (all kinds), alpha/beta signed log-uniform [1e-3,1e3] or +-2^k; "
             "non-trivial = both records non-zero and not proportional",
        oracle="metamorphic: resp(alpha a + beta b) == alpha resp(a) + beta resp(b) for u, v and the third series, "
               "bound 1e-10*robust scale + input-rounding response bound")
def linear(case, ctx):
    a = gen.build(case["a"])
    b = gen.build(case["b"])
    n = len(a)
    dt, xi = case["dt"], case["xi"]
    al, be = case["alpha"], case["beta"]
    _cls(ctx, case, n)
    prop = np.linalg.matrix_rank(np.vstack([a, b])) < 2
    ctx.nt(bool(np.any(a) and np.any(b) and not prop))
    P = _periods(case)
    T = _T(case)
    s = 1 if case["lead0"] else 0
    ra = ctx.lib(sdof.response_series, a, dt, P, xi)
    rb = ctx.lib(sdof.response_series, b, dt, P, xi)
    comb = al * a + be * b
    rc = ctx.lib(sdof.response_series, comb, dt, P, xi)
    sua, sva, saa = ref.lib_scales(a, dt, T, xi, ra[0][s:], ra[1][s:])
    sub, svb, sab = ref.lib_scales(b, dt, T, xi, rb[0][s:], rb[1][s:])
    err_in = 4 * EPS * float(np.sum(abs(al) * np.abs(a) + abs(be) * np.abs(b)))
    bu, bv, ba = ref.perturbation_bounds(err_in, dt, n, T, xi)
    tols = (1e-10 * (abs(al) * sua + abs(be) * sub) + bu,
            1e-10 * (abs(al) * sva + abs(be) * svb) + bv,
            1e-10 * (abs(al) * saa + abs(be) * sab) + ba)
    for k, name in enumerate(("displacement", "velocity", "acceleration")):
        ctx.close(rc[k][s:], al * ra[k][s:] + be * rb[k][s:], tols[k][:, None] + 0 * ra[k][s:], "linearity of response " + name)
    if s:
        ctx.close(rc[2][0], al * ra[2][0] + be * rb[2][0], 4 * EPS * (abs(al) * np.abs(a) + abs(be) * np.abs(b)), "linearity of T=0 row")


@st.composite
def _spectra_cases(draw):
    c = draw(_base())
    c["a"] = draw(gen.record_specs(min_n=2, max_n=MAX_N, allow_int=["view", "negstride", "readonly"]))
    c["alpha"] = draw(gen.scalars())
    c["k"] = draw(st.integers(-20, 20))
    return c


@clause(CLAUSES, "spectra-scale", _spectra_cases(), quick=400, thorough=2000,
        rule="single records, alpha as above, k in -20..20; non-trivial = non-zero record",
        oracle="metamorphic: spectra(-a) == spectra(a) exactly, spectra(2^k a) == 2^k spectra(a) exactly, "
               "spectra(alpha a) == |alpha| spectra(a) to 1e-10 of the robust scale; pseudo and true spectra")
def spectra_scale(case, ctx):
    a = gen.build(case["a"])
    n = len(a)
    dt, xi, al, k = case["dt"], case["xi"], case["alpha"], case["k"]
    _cls(ctx, case, n)
    ctx.nt(bool(np.any(a)))
    P = _periods(case)
    T = _T(case)
    s = 1 if case["lead0"] else 0
    ru, rv, _ = sdof.response_series(a, dt, P, xi)
    su, sv, sa = ref.lib_scales(a, dt, T, xi, ru[s:], rv[s:])
    w = 2 * np.pi / T
    err_in = 4 * EPS * abs(al) * float(np.sum(np.abs(a)))
    bu, bv, ba = ref.perturbation_bounds(err_in, dt, n, T, xi)
    amax = float(np.max(np.abs(a)))
    for fname, f in (("pseudo_response_spectra", sdof.pseudo_response_spectra), ("true_response_spectra", sdof.true_response_spectra)):
        base = ctx.lib(f, gen.as_container(case["a"], a), dt, P, xi)
        neg = ctx.lib(f, -a, dt, P, xi)
        p2 = ctx.lib(f, a * 2.0 ** k, dt, P, xi)
        gen_ = ctx.lib(f, a * al, dt, P, xi)
        if fname.startswith("pseudo"):
            scales = (su, w * su, w ** 2 * su + amax)
            extra = (bu, w * bu, w ** 2 * bu)
        else:
            scales = (su, sv, sa + amax)
            extra = (bu, bv, ba)
        for j, name in enumerate(("S_d", "S_v", "S_a")):
            ctx.shape(base[j], (len(P),), "%s %s" % (fname, name))
            ctx.equal(neg[j], base[j], "%s %s of -a vs a" % (fname, name))
            ctx.equal(p2[j], np.asarray(base[j]) * 2.0 ** k, "%s %s of 2^%d*a" % (fname, name, k))
            tol = abs(al) * 1e-10 * scales[j] + extra[j] + 4 * EPS * abs(al) * amax
            ctx.close(np.asarray(gen_[j])[s:], abs(al) * np.asarray(base[j])[s:], tol, "%s %s of alpha*a vs |alpha|*" % (fname, name))


# ---------------------------------------------------------------------------

@st.composite
def _causal_cases(draw):
    a, b = draw(_pair())
    c = draw(_base())
    n = len(gen.build(a))
    c.update({"a": a, "b": b, "split": draw(st.integers(0, n - 1))})
    return c


@clause(CLAUSES, "causal", _causal_cases(), quick=400, thorough=2000,
        rule="records a and a' = a[:i+1] ++ b[i+1:], all split indices i; non-trivial = split strictly inside and the tails differ",
        oracle="metamorphic: responses array_equal on samples [0, i] (same floating-point operations)")
def causal(case, ctx):
    a = gen.build(case["a"])
    b = gen.build(case["b"])
    i = case["split"]
    n = len(a)
    dt, xi = case["dt"], case["xi"]
    _cls(ctx, case, n)
    a2 = a.copy()
    a2[i + 1:] = b[i + 1:]
    ctx.nt(bool(0 < i < n - 1 and np.any(a2 != a)))
    P = _periods(case)
    r1 = ctx.lib(sdof.response_series, a, dt, P, xi)
    r2 = ctx.lib(sdof.response_series, a2, dt, P, xi)
    for k, name in enumerate(("displacement", "velocity", "acceleration")):
        ctx.equal(np.asarray(r2[k])[:, :i + 1], np.asarray(r1[k])[:, :i + 1], "causality of %s up to index %d" % (name, i))


@st.composite
def _shift_cases(draw):
    c = draw(_base())
    c["a"] = draw(gen.record_specs(min_n=2, max_n=MAX_N, allow_zero_runs=False))
    c["k"] = draw(st.integers(1, 40))
    return c


@clause(CLAUSES, "shift", _shift_cases(), quick=400, thorough=2000,
        rule="records forced to start at 0 (first sample zeroed), k in 1..40 zeros prepended; non-trivial = non-zero record",
        oracle="metamorphic: response delayed by exactly k samples and zero before (array_equal)")
def shift(case, ctx):
    a = gen.build(case["a"]).copy()
    a[0] = 0.0
    k = case["k"]
    n = len(a)
    dt, xi = case["dt"], case["xi"]
    _cls(ctx, case, n)
    ctx.nt(bool(np.any(a)))
    P = _periods(case)
    r1 = ctx.lib(sdof.response_series, a, dt, P, xi)
    r2 = ctx.lib(sdof.response_series, np.concatenate([np.zeros(k), a]), dt, P, xi)
    for j, name in enumerate(("displacement", "velocity", "acceleration")):
        x = np.asarray(r2[j])
        ctx.shape(x, (len(P), n + k), "shifted " + name)
        ctx.check(not np.any(x[:, :k]), "%s is non-zero before the shifted record starts" % name)
        ctx.equal(x[:, k:], np.asarray(r1[j]), "%s delayed by %d samples" % (name, k))


# ---------------------------------------------------------------------------

@st.composite
def _batch_cases(draw):
    c = draw(_base(max_p=7))
    c["a"] = draw(gen.record_specs(min_n=2, max_n=MAX_N))
    p = len(c["ratios"])
    if draw(st.integers(0, 4)) == 0:
        # integer-typed periods (python ints), as the repo's own test passes ([0, 2, 4])
        c["dt"] = draw(st.sampled_from([1.0, 0.5, 0.25, 0.1]))
        c["int_periods"] = draw(st.lists(st.integers(1, 40), min_size=p, max_size=p))
        c["ratios"] = [t / c["dt"] for t in c["int_periods"]]
    c["perm"] = draw(st.permutations(list(range(p))))
    c["cuts"] = sorted(draw(st.lists(st.integers(1, max(1, p - 1)), max_size=3, unique=True))) if p > 1 else []
    return c


@clause(CLAUSES, "batch", _batch_cases(), quick=400, thorough=2000,
        rule="1-7 periods; a random permutation, a random partition into consecutive batches and single-period calls; "
             "a leading 0 stays leading; non-trivial = >= 2 periods, permutation not the identity, non-zero record",
        oracle="metamorphic: every period's rows (series and both spectra) equal those of the reference call to 1e-10 of the robust scale")
def batch(case, ctx):
    a = gen.build(case["a"])
    n = len(a)
    dt, xi = case["dt"], case["xi"]
    _cls(ctx, case, n)
    T = _T(case)
    p = len(T)
    perm = list(case["perm"])
    ctx.nt(bool(np.any(a) and p >= 2 and perm != list(range(p))))
    lead = [0.0] if case["lead0"] else []
    s = len(lead)
    ints = case.get("int_periods")
    if ints:
        ctx.cls("int-periods")

    def mk(idx):
        """Period container for the periods idx (python ints when the case says so, else a float ndarray)."""
        if ints:
            return ([0] if s else []) + [int(ints[i]) for i in idx]
        return np.array(lead + [T[i] for i in idx])
    base = ctx.lib(sdof.response_series, a, dt, np.array(lead + list(T)), xi)
    su, sv, sa = ref.lib_scales(a, dt, T, xi, base[0][s:], base[1][s:])
    scales = (su, sv, sa)
    pb = ctx.lib(sdof.pseudo_response_spectra, a, dt, np.array(lead + list(T)), xi)
    tb = ctx.lib(sdof.true_response_spectra, a, dt, np.array(lead + list(T)), xi)
    w = 2 * np.pi / T
    amax = float(np.max(np.abs(a)))
    sp_scales = {"pseudo": (su, w * su, w ** 2 * su + amax), "true": (su, sv, sa + amax)}

    def compare(idx, res, pres, tres, what):
        idx = np.asarray(idx)
        for k, name in enumerate(("displacement", "velocity", "acceleration")):
            ctx.close(np.asarray(res[k])[s:], np.asarray(base[k])[s:][idx], 1e-10 * scales[k][idx][:, None] + 0 * np.asarray(res[k])[s:],
                      "%s: %s rows" % (what, name))
            if s:
                ctx.equal(np.asarray(res[k])[0], np.asarray(base[k])[0], "%s: T=0 row of %s" % (what, name))
        for k, name in enumerate(("S_d", "S_v", "S_a")):
            ctx.close(np.asarray(pres[k])[s:], np.asarray(pb[k])[s:][idx], 1e-10 * sp_scales["pseudo"][k][idx], "%s: pseudo %s" % (what, name))
            ctx.close(np.asarray(tres[k])[s:], np.asarray(tb[k])[s:][idx], 1e-10 * sp_scales["true"][k][idx], "%s: true %s" % (what, name))

    def call(idx):
        P = mk(idx)
        return (ctx.lib(sdof.response_series, a, dt, P, xi), ctx.lib(sdof.pseudo_response_spectra, a, dt, P, xi),
                ctx.lib(sdof.true_response_spectra, a, dt, P, xi))

    compare(perm, *call(perm), what="permuted period list")
    cuts = [0] + list(case["cuts"]) + [p]
    for lo, hi in zip(cuts[:-1], cuts[1:]):
        if hi > lo:
            idx = list(range(lo, hi))
            compare(idx, *call(idx), what="batch [%d:%d]" % (lo, hi))
    j = perm[0]
    compare([j], *call([j]), what="single period call")


# ---------------------------------------------------------------------------

@st.composite
def _refine_cases(draw):
    m = draw(st.integers(2, 8))
    c = draw(_base(lo=0.2, hi=2e4 / m, max_p=4))
    c["a"] = draw(gen.record_specs(min_n=2, max_n=max(40, MAX_N // m)))
    c["m"] = m
    return c


@clause(CLAUSES, "refine", _refine_cases(), quick=400, thorough=2000,
        rule="records refined by m in 2..8 with linearly interpolated samples, dt/m, T/(dt/m) <= 2e4; non-trivial = non-zero record",
        oracle="metamorphic: response at the original instants unchanged within tol_C01(dt)+tol_C01(dt/m) on the robust scale "
               "(+ input-rounding bound); S_d(refined) >= S_d(raw) - tol*scale")
def refine(case, ctx):
    a = gen.build(case["a"])
    n = len(a)
    m = case["m"]
    dt, xi = case["dt"], case["xi"]
    _cls(ctx, case, n)
    ctx.cls("m=%d" % m)
    ctx.nt(bool(np.any(a)))
    T = _T(case)
    P = _periods(case)
    s = 1 if case["lead0"] else 0
    fine = np.interp(np.arange((n - 1) * m + 1) / float(m), np.arange(n), a)
    fine[::m] = a  # original samples reappear exactly (np.interp already guarantees it on integer abscissae)
    r1 = ctx.lib(sdof.response_series, a, dt, P, xi)
    r2 = ctx.lib(sdof.response_series, fine, dt / m, P, xi)
    su, sv, sa = ref.lib_scales(a, dt, T, xi, r1[0][s:], r1[1][s:])
    dur = (n - 1) * dt
    tol = ref.tol_c01(dur, T, dt, relaxed=True) + ref.tol_c01(dur, T, dt / m, relaxed=True)
    err_in = 4 * EPS * float(np.sum(np.abs(fine))) / m  # rounding of the interpolated samples (spacing dt/m)
    bu, bv, ba = ref.perturbation_bounds(err_in * m, dt / m, len(fine), T, xi)
    u2 = np.asarray(r2[0])[s:, ::m]
    v2 = np.asarray(r2[1])[s:, ::m]
    ctx.shape(u2, (len(T), n), "refined displacement at original instants")
    ctx.close(u2, np.asarray(r1[0])[s:], (tol * su + bu)[:, None] + 0 * u2, "displacement at original instants after refinement x%d" % m)
    ctx.close(v2, np.asarray(r1[1])[s:], (tol * sv + bv)[:, None] + 0 * v2, "velocity at original instants after refinement x%d" % m)
    sd1 = np.asarray(ctx.lib(sdof.pseudo_response_spectra, a, dt, P, xi)[0])
    sd2 = np.asarray(ctx.lib(sdof.pseudo_response_spectra, fine, dt / m, P, xi)[0])
    ctx.check(bool(np.all(sd2[s:] >= sd1[s:] - (tol * su + bu) - core.TINY)),
              "S_d decreased under refinement x%d: %r -> %r" % (m, sd1.tolist(), sd2.tolist()))


# ---------------------------------------------------------------------------
# many periods: a single transposition inside a long period list


@st.composite
def _many_cases(draw):
    npd = draw(st.integers(1001, 1600))
    return {"a": draw(gen.record_specs(min_n=2, max_n=40, small_max=40, allow_zero_runs=False)),
            "dt": draw(gen.dts(1e-3, 1.0)), "xi": draw(st.sampled_from([0.0, 0.05, 0.3])), "np": npd,
            "lo": draw(gen.log_uniform(0.5, 20.0)), "span": draw(gen.log_uniform(5.0, 500.0)),
            "i": draw(st.integers(3, npd - 4)), "j": draw(st.integers(3, npd - 4)), "lead0": draw(st.booleans())}


@clause(CLAUSES, "many-periods", _many_cases(), quick=40, thorough=120,
        rule="1001-1600 log-spaced periods (more than NumPy's summarisation threshold), short records; the same list with two interior "
             "periods swapped, called in the same process; non-trivial = the two swapped periods differ and the record is non-zero",
        oracle="metamorphic: every period's series rows and spectra equal those of the unswapped call (1e-10 of the robust scale)",
        min_nontrivial=0.5)
def many_periods(case, ctx):
    a = gen.build(case["a"])
    dt, xi = case["dt"], case["xi"]
    npd = case["np"]
    T = case["lo"] * dt * np.logspace(0, np.log10(case["span"]), npd)
    i, j = case["i"], case["j"]
    ctx.nt(bool(i != j and np.any(a)))
    ctx.cls("lead0" if case["lead0"] else None)
    lead = [0.0] if case["lead0"] else []
    s = len(lead)
    P1 = np.array(lead + list(T))
    T2 = T.copy()
    T2[[i, j]] = T2[[j, i]]
    P2 = np.array(lead + list(T2))
    idx = np.arange(npd)
    idx[[i, j]] = idx[[j, i]]
    r1 = ctx.lib(sdof.response_series, a, dt, P1, xi)
    p1 = ctx.lib(sdof.pseudo_response_spectra, a, dt, P1, xi)
    r2 = ctx.lib(sdof.response_series, a, dt, P2, xi)
    p2 = ctx.lib(sdof.pseudo_response_spectra, a, dt, P2, xi)
    su, sv, sa = ref.lib_scales(a, dt, T, xi, r1[0][s:], r1[1][s:])
    for k, (name, sc) in enumerate((("displacement", su), ("velocity", sv), ("acceleration", sa))):
        ctx.close(np.asarray(r2[k])[s:], np.asarray(r1[k])[s:][idx], 1e-10 * sc[idx][:, None] + 0 * np.asarray(r2[k])[s:],
                  "%s rows after swapping periods %d and %d of %d" % (name, i, j, npd))
    w = 2 * np.pi / T
    amax = float(np.max(np.abs(a)))
    for k, (name, sc) in enumerate((("S_d", su), ("S_v", w * su), ("S_a", w ** 2 * su + amax))):
        ctx.close(np.asarray(p2[k])[s:], np.asarray(p1[k])[s:][idx], 1e-10 * sc[idx], "pseudo %s after swapping two periods" % name)


# ---------------------------------------------------------------------------
# very large (periods x samples) products: thorough tier only (about 25 s per call)


def _huge_enum(tier, shard, nshards):
    if tier != "thorough":
        return
    cases = [{"n": 170000, "np": 101, "cut": 60, "seed": 5}, {"n": 70000, "np": 259, "cut": 100, "seed": 6}]
    for k, c in enumerate(cases):
        if k % nshards == shard:
            yield c


@enum_clause(CLAUSES, "huge-batch", _huge_enum,
             rule="thorough tier only: two fixed very large problems (170 000 samples x 101 periods, 70 000 x 259: more than 2^24 response "
                  "values per series), whole list vs two batches; the quick tier does not reach this regime",
             oracle="metamorphic: pseudo spectra of the whole list equal those of the two batches (1e-10 relative)",
             exhaustive_note="two fixed cases (not an exhaustive space); listed as an enumeration because nothing is drawn", quick_shards=1,
             thorough_only=True)
def huge_batch(case, ctx):
    a = gen.build({"k": "quake", "n": case["n"], "seed": case["seed"], "amp": 0})
    dt = 0.005
    T = np.logspace(np.log10(0.05), np.log10(5.0), case["np"])
    ctx.nt(True)
    whole = [np.asarray(x) for x in ctx.lib(sdof.pseudo_response_spectra, a, dt, T, 0.05)]
    c = case["cut"]
    lo = [np.asarray(x) for x in ctx.lib(sdof.pseudo_response_spectra, a, dt, T[:c], 0.05)]
    hi = [np.asarray(x) for x in ctx.lib(sdof.pseudo_response_spectra, a, dt, T[c:], 0.05)]
    for k, name in enumerate(("S_d", "S_v", "S_a")):
        both = np.concatenate([lo[k], hi[k]])
        ctx.close(whole[k], both, 1e-10 * np.abs(both) + core.TINY, "pseudo %s: whole list of %d periods vs two batches (%d samples)" % (name, case["np"], case["n"]))
