"""C02 - response operator: linear, causal, shift-, batch- and refinement-invariant (metamorphic)."""
import numpy as np
from hypothesis import strategies as st

from eqsig import sdof

from pbt import core, gen
from pbt.core import clause, enum_clause
from pbt.ref import sdof as ref
from pbt.ref import sdof_mid as mid

PROPERTY = "C02"
CLAUSES = []
ASSUMPTIONS = [
    "domain as C01 (0.2 <= T/dt <= 2e4, 0 <= xi < 1, optional single leading T=0), n <= 1500 (quick: <= 600)",
    "rounding model for the linear recurrence: 1e-10 of the robust scale (series peak floored by the response to one "
    "step of the largest sample) plus a sound bound 4*eps*dt*sum|input terms|*max|h| on the response to the rounding "
    "of the combined / interpolated input samples",
    "causality, time shift and leading-zero handling are asserted bit-for-bit (the recurrence performs the same operations); "
    "batching/permutation to 1e-10 of scale (vectorised exp/sin/cos may differ in the last bit between array lengths)",
    "refinement: C02 fixes no tolerance of its own; the bound used is derived from the arithmetic of two runs of the same recurrence at "
    "steps dt and dt/m with the SAME angular frequency (see _tol_refine: 1e-10 + 16 eps n m max(1, 1/(w dt/m)) + 16 eps/(w dt)^3 + "
    "16 eps/(w dt/m)^3 of the robust scale + input-rounding bound), restricted to T/(dt/m) <= 2e4",
    "records: float64 arrays / views, and (linear, spectra-scale) int64, full-range int8/16/32, uint8/16, python-int lists and tuples "
    "with the oracle evaluated at the exact values of the container (the transformed records alpha*a, -a, 2^k*a are float64); float32 "
    "records are not generated (handled centrally); dt in [1e-7, 3], in linear / spectra-scale also as np.float64 / np.float32 / 0-d",
    "a zero period is only meaningful in first position (the code recognises T=0 there only)",
    "object-spectra: AccSignal.gen_response_spectrum refines the record by an integer factor of at most ceil(min_dt_ratio) (default 4) "
    "and appends less than one original step of constant load; the laws asserted on the object are those that survive this: exact "
    "sign / power-of-two scaling, |alpha| scaling, permutation of the list (same shortest period, hence the same refinement), and "
    "'not below the array function on the raw record' (refinement law); a general sub-list may be refined differently and is "
    "compared at the array level only; T/dt <= 2500 keeps T/(dt/8) <= 2e4",
]
EPS = np.finfo(float).eps
MAX_N = 600 if core.tier() == "quick" else 1500
LONG_KINDS = ["noise", "sines", "pulse", "step", "walk", "const", "quake"]


@st.composite
def _pair(draw, max_n=None):
    """Two record specs of the same length."""
    max_n = max_n or MAX_N
    if draw(st.booleans()):
        n = draw(st.integers(2, 40))
        kinds = ["vals", "dyadic", "levels"]
        a = draw(gen.record_specs(min_n=n, max_n=n, small_max=n, kinds=kinds, allow_zero_runs=False))
        b = draw(gen.record_specs(min_n=n, max_n=n, small_max=n, kinds=kinds + ["noise", "const"], allow_zero_runs=False))
    else:
        n = draw(st.integers(2, max_n))
        a = draw(gen.record_specs(min_n=n, max_n=n, kinds=LONG_KINDS, allow_zero_runs=False))
        b = draw(gen.record_specs(min_n=n, max_n=n, kinds=LONG_KINDS, allow_zero_runs=False))
    return a, b


@st.composite
def _base(draw, lo=0.2, hi=2e4, max_p=5):
    dt = draw(gen.dts(1e-4, 3.0))
    if draw(st.integers(0, 4)) == 0:
        dt = draw(gen.log_uniform(1e-7, 1e-4))   # "all dt > 0": high-rate records
    return {"dt": dt, "ratios": draw(gen.period_ratios(lo, hi, 1, max_p)),
            "xi": draw(gen.xis()), "lead0": draw(st.integers(0, 3)) == 0}


def _containers(draw, c):
    """Record container (integer-typed / tuple / float) and dt container of a case."""
    c["rec_int"] = draw(st.sampled_from(mid.INT_KINDS)) if draw(st.integers(0, 3)) == 0 else None
    c["dt_as"] = draw(st.sampled_from(mid.DT_KINDS))
    return c


def _dt(case, ctx):
    """(dt argument, case whose 'dt' is the exact value of that argument)."""
    dt_arg, dt = mid.dt_argument(case["dt"], case.get("dt_as"))
    ctx.cls("dt-as=%s" % case["dt_as"] if case.get("dt_as") else None, "dt<1e-4" if dt < 1e-4 else None)
    return dt_arg, (case if dt == case["dt"] else dict(case, dt=dt))


def _rec(spec, kind, ctx):
    """(record argument, exact float64 values)."""
    a = gen.build(spec)
    if kind:
        ctx.cls("rec=" + kind, "rec-integer" if kind != "tuple" else None)
        return mid.int_record(a, kind)
    return gen.as_container(spec, a), a


def _T(case):
    return np.array([float(r) * case["dt"] for r in case["ratios"]])


def _periods(case):
    T = _T(case)
    return np.concatenate([[0.0], T]) if case["lead0"] else T


def _cls(ctx, case, n):
    r = np.array(case["ratios"])
    ctx.cls(gen.size_class(n), "T<6dt" if np.any(r < 6) else None, "T>100dt" if np.any(r > 100) else None,
            "xi=0" if case["xi"] == 0 else None, "lead0" if case["lead0"] else None)


# ---------------------------------------------------------------------------

@st.composite
def _linear_cases(draw):
    a, b = draw(_pair())
    c = draw(_base())
    c.update({"a": a, "b": b, "alpha": draw(gen.scalars()), "beta": draw(gen.scalars())})
    return _containers(draw, c)


@clause(CLAUSES, "linear", _linear_cases(), quick=400, thorough=2000,
        rule="pairs of records of equal length (all kinds; one case in four in an integer-typed / python-int / tuple container, the "
             "combination in float64), dt also below 1e-4 and as numpy scalar / 0-d array, alpha/beta signed log-uniform [1e-3,1e3] or +-2^k; "
             "non-trivial = both records non-zero and not proportional",
        oracle="metamorphic: resp(alpha a + beta b) == alpha resp(a) + beta resp(b) for u, v and the third series, "
               "bound 1e-10*robust scale + input-rounding response bound")
def linear(case, ctx):
    dt_arg, case = _dt(case, ctx)
    a_arg, a = _rec(case["a"], case.get("rec_int"), ctx)
    b_arg, b = _rec(case["b"], case.get("rec_int"), ctx)
    n = len(a)
    dt, xi = case["dt"], case["xi"]
    al, be = case["alpha"], case["beta"]
    _cls(ctx, case, n)
    prop = np.linalg.matrix_rank(np.vstack([a, b])) < 2
    ctx.nt(bool(np.any(a) and np.any(b) and not prop))
    P = _periods(case)
    T = _T(case)
    s = 1 if case["lead0"] else 0
    ra = ctx.lib(sdof.response_series, a_arg, dt_arg, P, xi)
    rb = ctx.lib(sdof.response_series, b_arg, dt_arg, P, xi)
    comb = al * a + be * b
    rc = ctx.lib(sdof.response_series, comb, dt_arg, P, xi)
    sua, sva, saa = ref.lib_scales(a, dt, T, xi, ra[0][s:], ra[1][s:])
    sub, svb, sab = ref.lib_scales(b, dt, T, xi, rb[0][s:], rb[1][s:])
    err_in = 4 * EPS * float(np.sum(abs(al) * np.abs(a) + abs(be) * np.abs(b)))
    bu, bv, ba = ref.perturbation_bounds(err_in, dt, n, T, xi)
    tols = (1e-10 * (abs(al) * sua + abs(be) * sub) + bu,
            1e-10 * (abs(al) * sva + abs(be) * svb) + bv,
            1e-10 * (abs(al) * saa + abs(be) * sab) + ba)
    for k, name in enumerate(("displacement", "velocity", "acceleration")):
        ctx.close(rc[k][s:], al * ra[k][s:] + be * rb[k][s:], tols[k][:, None] + 0 * ra[k][s:], "linearity of response " + name)
    if s:
        ctx.close(rc[2][0], al * ra[2][0] + be * rb[2][0], 4 * EPS * (abs(al) * np.abs(a) + abs(be) * np.abs(b)), "linearity of T=0 row")


@st.composite
def _spectra_cases(draw):
    c = draw(_base())
    c["a"] = draw(gen.record_specs(min_n=2, max_n=MAX_N, allow_int=["view", "negstride", "readonly"]))
    c["alpha"] = draw(gen.scalars())
    c["k"] = draw(st.integers(-20, 20))
    return _containers(draw, c)


@clause(CLAUSES, "spectra-scale", _spectra_cases(), quick=400, thorough=2000,
        rule="single records (one in four in an integer-typed / python-int / tuple container; -a, 2^k a, alpha a in float64), dt also "
             "below 1e-4 and as numpy scalar / 0-d array, alpha as above, k in -20..20; non-trivial = non-zero record",
        oracle="metamorphic: spectra(-a) == spectra(a) exactly, spectra(2^k a) == 2^k spectra(a) exactly, "
               "spectra(alpha a) == |alpha| spectra(a) to 1e-10 of the robust scale; pseudo and true spectra")
def spectra_scale(case, ctx):
    dt_arg, case = _dt(case, ctx)
    a_arg, a = _rec(case["a"], case.get("rec_int"), ctx)
    n = len(a)
    dt, xi, al, k = case["dt"], case["xi"], case["alpha"], case["k"]
    _cls(ctx, case, n)
    ctx.nt(bool(np.any(a)))
    P = _periods(case)
    T = _T(case)
    s = 1 if case["lead0"] else 0
    ru, rv, _ = ctx.lib(sdof.response_series, a, dt, P, xi)
    su, sv, sa = ref.lib_scales(a, dt, T, xi, ru[s:], rv[s:])
    w = 2 * np.pi / T
    err_in = 4 * EPS * abs(al) * float(np.sum(np.abs(a)))
    bu, bv, ba = ref.perturbation_bounds(err_in, dt, n, T, xi)
    amax = float(np.max(np.abs(a)))
    for fname, f in (("pseudo_response_spectra", sdof.pseudo_response_spectra), ("true_response_spectra", sdof.true_response_spectra)):
        base = ctx.lib(f, a_arg, dt_arg, P, xi)   # the record in its own container; the transformed records in float64
        neg = ctx.lib(f, -a, dt_arg, P, xi)
        p2 = ctx.lib(f, a * 2.0 ** k, dt_arg, P, xi)
        gen_ = ctx.lib(f, a * al, dt_arg, P, xi)
        if fname.startswith("pseudo"):
            scales = (su, w * su, w ** 2 * su + amax)
            extra = (bu, w * bu, w ** 2 * bu)
        else:
            scales = (su, sv, sa + amax)
            extra = (bu, bv, ba)
        for j, name in enumerate(("S_d", "S_v", "S_a")):
            ctx.shape(base[j], (len(P),), "%s %s" % (fname, name))
            ctx.equal(neg[j], base[j], "%s %s of -a vs a" % (fname, name))
            ctx.equal(p2[j], np.asarray(base[j]) * 2.0 ** k, "%s %s of 2^%d*a" % (fname, name, k))
            tol = abs(al) * 1e-10 * scales[j] + extra[j] + 4 * EPS * abs(al) * amax
            ctx.close(np.asarray(gen_[j])[s:], abs(al) * np.asarray(base[j])[s:], tol, "%s %s of alpha*a vs |alpha|*" % (fname, name))
            if s:   # the T=0 entry (0, 0, peak ground acceleration) scales as well
                ctx.close(np.asarray(gen_[j])[0], abs(al) * np.asarray(base[j])[0], 4 * EPS * abs(al) * amax,
                          "%s %s of alpha*a vs |alpha|*, T=0 entry" % (fname, name))


# ---------------------------------------------------------------------------

@st.composite
def _causal_cases(draw):
    a, b = draw(_pair())
    c = draw(_base())
    n = len(gen.build(a))
    c.update({"a": a, "b": b, "split": draw(st.integers(0, n - 1))})
    return c


@clause(CLAUSES, "causal", _causal_cases(), quick=400, thorough=2000,
        rule="records a and a' = a[:i+1] ++ b[i+1:], all split indices i; non-trivial = split strictly inside and the tails differ",
        oracle="metamorphic: responses array_equal on samples [0, i] (same floating-point operations)")
def causal(case, ctx):
    a = gen.build(case["a"])
    b = gen.build(case["b"])
    i = case["split"]
    n = len(a)
    dt, xi = case["dt"], case["xi"]
    _cls(ctx, case, n)
    a2 = a.copy()
    a2[i + 1:] = b[i + 1:]
    ctx.nt(bool(0 < i < n - 1 and np.any(a2 != a)))
    P = _periods(case)
    r1 = ctx.lib(sdof.response_series, a, dt, P, xi)
    r2 = ctx.lib(sdof.response_series, a2, dt, P, xi)
    for k, name in enumerate(("displacement", "velocity", "acceleration")):
        ctx.equal(np.asarray(r2[k])[:, :i + 1], np.asarray(r1[k])[:, :i + 1], "causality of %s up to index %d" % (name, i))


@st.composite
def _shift_cases(draw):
    c = draw(_base())
    c["a"] = draw(gen.record_specs(min_n=2, max_n=MAX_N, allow_zero_runs=False))
    c["k"] = draw(st.integers(1, 40))
    return c


@clause(CLAUSES, "shift", _shift_cases(), quick=400, thorough=2000,
        rule="records forced to start at 0 (first sample zeroed), k in 1..40 zeros prepended; non-trivial = non-zero record",
        oracle="metamorphic: response delayed by exactly k samples and zero before (array_equal)")
def shift(case, ctx):
    a = gen.build(case["a"]).copy()
    a[0] = 0.0
    k = case["k"]
    n = len(a)
    dt, xi = case["dt"], case["xi"]
    _cls(ctx, case, n)
    ctx.nt(bool(np.any(a)))
    P = _periods(case)
    r1 = ctx.lib(sdof.response_series, a, dt, P, xi)
    r2 = ctx.lib(sdof.response_series, np.concatenate([np.zeros(k), a]), dt, P, xi)
    for j, name in enumerate(("displacement", "velocity", "acceleration")):
        x = np.asarray(r2[j])
        ctx.shape(x, (len(P), n + k), "shifted " + name)
        ctx.check(not np.any(x[:, :k]), "%s is non-zero before the shifted record starts" % name)
        ctx.equal(x[:, k:], np.asarray(r1[j]), "%s delayed by %d samples" % (name, k))


# ---------------------------------------------------------------------------

@st.composite
def _batch_cases(draw):
    c = draw(_base(max_p=7))
    c["a"] = draw(gen.record_specs(min_n=2, max_n=MAX_N))
    p = len(c["ratios"])
    if draw(st.integers(0, 4)) == 0:
        # integer-typed periods (python ints), as the repo's own test passes ([0, 2, 4])
        c["dt"] = draw(st.sampled_from([1.0, 0.5, 0.25, 0.1]))
        c["int_periods"] = draw(st.lists(st.integers(1, 40), min_size=p, max_size=p))
        c["ratios"] = [t / c["dt"] for t in c["int_periods"]]
    c["perm"] = draw(st.permutations(list(range(p))))
    c["cuts"] = sorted(draw(st.lists(st.integers(1, max(1, p - 1)), max_size=3, unique=True))) if p > 1 else []
    return c


@clause(CLAUSES, "batch", _batch_cases(), quick=400, thorough=2000,
        rule="1-7 periods; a random permutation, a random partition into consecutive batches and single-period calls; "
             "a leading 0 stays leading; non-trivial = >= 2 periods, permutation not the identity, non-zero record",
        oracle="metamorphic: every period's rows (series and both spectra) equal those of the reference call to 1e-10 of the robust scale")
def batch(case, ctx):
    a = gen.build(case["a"])
    n = len(a)
    dt, xi = case["dt"], case["xi"]
    _cls(ctx, case, n)
    T = _T(case)
    p = len(T)
    perm = list(case["perm"])
    ctx.nt(bool(np.any(a) and p >= 2 and perm != list(range(p))))
    lead = [0.0] if case["lead0"] else []
    s = len(lead)
    ints = case.get("int_periods")
    if ints:
        ctx.cls("int-periods")

    def mk(idx):
        """Period container for the periods idx (python ints when the case says so, else a float ndarray)."""
        if ints:
            return ([0] if s else []) + [int(ints[i]) for i in idx]
        return np.array(lead + [T[i] for i in idx])
    base = ctx.lib(sdof.response_series, a, dt, np.array(lead + list(T)), xi)
    su, sv, sa = ref.lib_scales(a, dt, T, xi, base[0][s:], base[1][s:])
    scales = (su, sv, sa)
    pb = ctx.lib(sdof.pseudo_response_spectra, a, dt, np.array(lead + list(T)), xi)
    tb = ctx.lib(sdof.true_response_spectra, a, dt, np.array(lead + list(T)), xi)
    w = 2 * np.pi / T
    amax = float(np.max(np.abs(a)))
    sp_scales = {"pseudo": (su, w * su, w ** 2 * su + amax), "true": (su, sv, sa + amax)}

    def compare(idx, res, pres, tres, what):
        idx = np.asarray(idx)
        for k, name in enumerate(("displacement", "velocity", "acceleration")):
            ctx.close(np.asarray(res[k])[s:], np.asarray(base[k])[s:][idx], 1e-10 * scales[k][idx][:, None] + 0 * np.asarray(res[k])[s:],
                      "%s: %s rows" % (what, name))
            if s:
                ctx.equal(np.asarray(res[k])[0], np.asarray(base[k])[0], "%s: T=0 row of %s" % (what, name))
        for k, name in enumerate(("S_d", "S_v", "S_a")):
            ctx.close(np.asarray(pres[k])[s:], np.asarray(pb[k])[s:][idx], 1e-10 * sp_scales["pseudo"][k][idx], "%s: pseudo %s" % (what, name))
            ctx.close(np.asarray(tres[k])[s:], np.asarray(tb[k])[s:][idx], 1e-10 * sp_scales["true"][k][idx], "%s: true %s" % (what, name))
            if s:
                ctx.close(np.asarray(pres[k])[0], np.asarray(pb[k])[0], 4 * EPS * amax, "%s: pseudo %s, T=0 entry" % (what, name))
                ctx.close(np.asarray(tres[k])[0], np.asarray(tb[k])[0], 4 * EPS * amax, "%s: true %s, T=0 entry" % (what, name))

    def call(idx):
        P = mk(idx)
        return (ctx.lib(sdof.response_series, a, dt, P, xi), ctx.lib(sdof.pseudo_response_spectra, a, dt, P, xi),
                ctx.lib(sdof.true_response_spectra, a, dt, P, xi))

    compare(perm, *call(perm), what="permuted period list")
    cuts = [0] + list(case["cuts"]) + [p]
    for lo, hi in zip(cuts[:-1], cuts[1:]):
        if hi > lo:
            idx = list(range(lo, hi))
            compare(idx, *call(idx), what="batch [%d:%d]" % (lo, hi))
    j = perm[0]
    compare([j], *call([j]), what="single period call")


# ---------------------------------------------------------------------------

def _tol_refine(n_fine, m, T, dt):
    """Tolerance (relative to the robust scale) for 'the response at the original instants is unchanged by refinement x m'.
    Both runs use the same angular frequency, so whatever the library does to w (the truncated 6.2831853) is common to both and
    cancels; none of C01's 1e-6 / 5e-8 duration/T terms applies.  What differs between the runs:
      (i)  the load coefficients of the recurrence are differences of O(1/(w h)^3) terms: relative rounding <= 16 eps/(w h)^3 of
           the response at either step h = dt and h = dt/m (the bound of known finding C01-KF1, which the pinned code meets);
      (ii) each of the n_fine steps rounds the state (16 eps per step, cf. _tol_n) and applies a transition matrix whose entries carry
           a relative rounding eps: a rotation by theta = w h whose cosine is off by eps is off in phase by eps/theta;
      (iii) 1e-10: the floor the other clauses of this module use.
    The rounding of the interpolated samples is added separately (perturbation_bounds).  On the pinned code the measured
    difference stays below 1.5 % of this bound (1900 random rows incl. resonant sinusoids and constant records)."""
    th = 2 * np.pi / np.asarray(T, dtype=float) * dt
    thf = th / m
    return 1e-10 + 16 * EPS * n_fine * np.maximum(1.0, 1.0 / thf) + 16 * EPS / th ** 3 + 16 * EPS / thf ** 3


@st.composite
def _refine_cases(draw):
    m = draw(st.integers(2, 8))
    c = draw(_base(lo=0.2, hi=2e4 / m, max_p=4))
    c["a"] = draw(gen.record_specs(min_n=2, max_n=max(40, MAX_N // m)))
    c["m"] = m
    return c


@clause(CLAUSES, "refine", _refine_cases(), quick=400, thorough=2000,
        rule="records refined by m in 2..8 with linearly interpolated samples, dt/m, T/(dt/m) <= 2e4; non-trivial = non-zero record",
        oracle="metamorphic: response (u, v, third series) at the original instants unchanged within 1e-10 + 16 eps n m max(1, 1/(w dt/m)) "
               "+ 16 eps/(w dt)^3 + 16 eps/(w dt/m)^3 of the robust scale (the detuned constant is common to both runs and cancels) "
               "+ input-rounding bound; every output (S_d, S_v, S_a) of pseudo_response_spectra and true_response_spectra for the refined "
               "record >= the raw one - the same allowance (S_a where T >= 6.001 dt: no peak-ground-acceleration substitution)")
def refine(case, ctx):
    a = gen.build(case["a"])
    n = len(a)
    m = case["m"]
    dt, xi = case["dt"], case["xi"]
    _cls(ctx, case, n)
    ctx.cls("m=%d" % m)
    ctx.nt(bool(np.any(a)))
    T = _T(case)
    P = _periods(case)
    s = 1 if case["lead0"] else 0
    fine = np.interp(np.arange((n - 1) * m + 1) / float(m), np.arange(n), a)
    fine[::m] = a  # original samples reappear exactly (np.interp already guarantees it on integer abscissae)
    r1 = ctx.lib(sdof.response_series, a, dt, P, xi)
    r2 = ctx.lib(sdof.response_series, fine, dt / m, P, xi)
    su, sv, sa = ref.lib_scales(a, dt, T, xi, r1[0][s:], r1[1][s:])
    tol = _tol_refine(len(fine), m, T, dt)
    err_in = 4 * EPS * float(np.sum(np.abs(fine))) / m  # rounding of the interpolated samples (spacing dt/m)
    bu, bv, ba = ref.perturbation_bounds(err_in * m, dt / m, len(fine), T, xi)
    u2 = np.asarray(r2[0])[s:, ::m]
    v2 = np.asarray(r2[1])[s:, ::m]
    a2 = np.asarray(r2[2])[s:, ::m]
    sa = mid.escales(a, dt, T, xi, np.asarray(r1[0])[s:], np.asarray(r1[1])[s:])[2]
    ctx.shape(u2, (len(T), n), "refined displacement at original instants")
    ctx.close(u2, np.asarray(r1[0])[s:], (tol * su + bu)[:, None] + 0 * u2, "displacement at original instants after refinement x%d" % m)
    ctx.close(v2, np.asarray(r1[1])[s:], (tol * sv + bv)[:, None] + 0 * v2, "velocity at original instants after refinement x%d" % m)
    ctx.close(a2, np.asarray(r1[2])[s:], (tol * sa + ba)[:, None] + 0 * a2, "third series at original instants after refinement x%d" % m)
    _spectra_never_decrease(ctx, a, dt, fine, dt / m, P, T, s, xi, tol, (su, sv, sa), (bu, bv, ba), "refinement x%d" % m)


def _spectra_never_decrease(ctx, a, dt, fine, dt_fine, P, T, s, xi, tol, scales, pert, what):
    """Every output of both spectra functions for the refined record is >= the one for the raw record, less the allowance of the
    series comparison (the refined response contains the original instants).  S_a is compared where neither call substitutes the
    peak ground acceleration (T >= 6.001 dt; the refined call then has T >= 6 dt_fine a fortiori)."""
    su, sv, sa = scales
    bu, bv, ba = pert
    w = 2 * np.pi / T
    du = tol * su + bu
    allow = {"pseudo_response_spectra": (du, w * du, w ** 2 * du),
             "true_response_spectra": (du, tol * sv + bv, tol * sa + ba)}
    keep_a = (T / dt) >= 6.001
    for fname, f in (("pseudo_response_spectra", sdof.pseudo_response_spectra), ("true_response_spectra", sdof.true_response_spectra)):
        raw = ctx.lib(f, a, dt, P, xi)
        fin = ctx.lib(f, fine, dt_fine, P, xi)
        for j, name in enumerate(("S_d", "S_v", "S_a")):
            r = np.asarray(raw[j], dtype=float)[s:]
            g = np.asarray(fin[j], dtype=float)[s:]
            ctx.shape(g, (len(T),), "%s %s of the refined record" % (fname, name))
            rows = keep_a if j == 2 else np.ones(len(T), dtype=bool)
            ok = g[rows] >= r[rows] - allow[fname][j][rows] - core.TINY
            ctx.check(bool(np.all(ok)), "%s %s decreased under %s: %r -> %r (allowance %r)" % (
                fname, name, what, r[rows].tolist()[:6], g[rows].tolist()[:6], allow[fname][j][rows].tolist()[:6]))


# ---------------------------------------------------------------------------
# the spectra laws on the object-level entry point (AccSignal.gen_response_spectrum / .s_d / .s_v / .s_a)


@st.composite
def _object_cases(draw):
    c = draw(_base(hi=2e4 / 8, max_p=5))
    c["a"] = draw(gen.record_specs(min_n=2, max_n=MAX_N))
    c["alpha"] = draw(gen.scalars())
    c["k"] = draw(st.integers(-20, 20))
    c["ratio"] = draw(st.sampled_from([None, 1, 2, 4, 8, 3.5]))   # None: the default min_dt_ratio (4)
    c["perm"] = draw(st.permutations(list(range(len(c["ratios"])))))
    c["lazy"] = draw(st.booleans())
    c["reuse"] = draw(st.booleans())   # the permuted list goes to the same object (history) instead of a fresh one
    return c


def _object_spectra(ctx, a, dt, P, xi, ratio, lazy=False, keep=None):
    """(s_d, s_v, s_a) of an AccSignal: gen_response_spectrum(...) then the three properties; lazy: periods given to the
    constructor and the properties read straight away (then xi and min_dt_ratio are the defaults 0.05 and 4)."""
    import eqsig
    if lazy:
        asig = ctx.lib(eqsig.AccSignal, a, dt, response_times=P)
    else:
        asig = ctx.lib(eqsig.AccSignal, a, dt)
        kw = {"response_times": P, "xi": xi}
        if ratio is not None:
            kw["min_dt_ratio"] = ratio
        ctx.lib(asig.gen_response_spectrum, **kw)
    out = _read_object(ctx, asig, len(P))
    if keep is not None:
        keep.append(asig)
    return out


def _read_object(ctx, asig, npd):
    out = [np.asarray(ctx.lib(lambda: asig.s_d)), np.asarray(ctx.lib(lambda: asig.s_v)), np.asarray(ctx.lib(lambda: asig.s_a))]
    for x, name in zip(out, ("s_d", "s_v", "s_a")):
        ctx.shape(x, (npd,), "AccSignal." + name)
    return out


@clause(CLAUSES, "object-spectra", _object_cases(), quick=250, thorough=1200,
        rule="single records; AccSignal(a, dt).gen_response_spectrum(response_times, xi, min_dt_ratio in {default, 1, 2, 3.5, 4, 8}) then "
             ".s_d / .s_v / .s_a, or (lazy) periods given to the constructor and the properties read directly; T/dt <= 2500 so that the "
             "internally refined step stays in the domain; non-trivial = non-zero record",
        oracle="metamorphic on all three object spectra: (-a) exactly equal, (2^k a) exactly 2^k times, (alpha a) |alpha| times to 1e-10 of "
               "the robust scale; a permuted period list gives the permuted rows; refinement law: the object's spectra (it refines the "
               "record by an integer factor <= ceil(min_dt_ratio)) are >= pseudo_response_spectra of the raw record less "
               "the refinement bound of 'refine' for m = ceil(min_dt_ratio) (S_a where T >= 6.001 dt); half of the cases put the second "
               "(permuted) period list on the SAME object (setter + lazy read, or a second gen_response_spectrum)")
def object_spectra(case, ctx):
    a = gen.build(case["a"])
    n = len(a)
    dt, al, k, ratio = case["dt"], case["alpha"], case["k"], case["ratio"]
    lazy = case["lazy"]
    xi = 0.05 if lazy else case["xi"]
    _cls(ctx, case, n)
    ctx.cls("lazy" if lazy else "ratio=%s" % ratio)
    ctx.nt(bool(np.any(a)))
    P = _periods(case)
    T = _T(case)
    s = 1 if case["lead0"] else 0
    kept = []
    base = _object_spectra(ctx, a, dt, P, xi, ratio, lazy, keep=kept)
    neg = _object_spectra(ctx, -a, dt, P, xi, ratio, lazy)
    p2 = _object_spectra(ctx, a * 2.0 ** k, dt, P, xi, ratio, lazy)
    gen_ = _object_spectra(ctx, a * al, dt, P, xi, ratio, lazy)
    ru, rv, _ = ctx.lib(sdof.response_series, a, dt, P, xi)
    su, sv, sa = ref.lib_scales(a, dt, T, xi, ru[s:], rv[s:])
    w = 2 * np.pi / T
    amax = float(np.max(np.abs(a)))
    m_max = int(np.ceil(4 if (ratio is None or lazy) else ratio))
    # rounding of the scaled / interpolated samples: dt_i * sum|e_i| <= dt * 4 eps (sum|a| + |a_last|) (x2: np.interp's own rounding)
    err_in = 8 * EPS * float(np.sum(np.abs(a)) + abs(a[-1]))
    bu, bv, ba = ref.perturbation_bounds(err_in, dt, n + 1, T, xi)
    scales = (su, w * su, w ** 2 * su + amax)
    extra = (bu, w * bu, w ** 2 * bu)
    for j, name in enumerate(("s_d", "s_v", "s_a")):
        ctx.equal(neg[j], base[j], "AccSignal.%s of -a vs a" % name)
        ctx.equal(p2[j], base[j] * 2.0 ** k, "AccSignal.%s of 2^%d*a" % (name, k))
        tol = abs(al) * (1e-10 * scales[j] + extra[j] + 4 * EPS * amax)
        ctx.close(gen_[j][s:], abs(al) * base[j][s:], tol, "AccSignal.%s of alpha*a vs |alpha|*" % name)
    perm = list(case["perm"])
    if len(perm) > 1:
        Pp = np.concatenate([[0.0], T[perm]]) if s else T[perm]
        if case.get("reuse"):
            # order / batch independence on ONE object that receives the two lists in turn
            asig = kept[0]
            ctx.cls("same-object")
            if lazy:
                ctx.lib(setattr, asig, "response_times", Pp)          # setter, then the lazy properties
            else:
                kw = {"response_times": Pp, "xi": xi}
                if ratio is not None:
                    kw["min_dt_ratio"] = ratio
                ctx.lib(asig.gen_response_spectrum, **kw)
            pr = _read_object(ctx, asig, len(Pp))
        else:
            pr = _object_spectra(ctx, a, dt, Pp, xi, ratio, lazy)
        for j, name in enumerate(("s_d", "s_v", "s_a")):
            ctx.close(pr[j][s:], base[j][s:][perm], 1e-10 * scales[j][perm] + core.TINY, "AccSignal.%s rows of the permuted period list" % name)
            if s:
                ctx.equal(pr[j][0], base[j][0], "AccSignal.%s of the T=0 entry, permuted list" % name)
    # refinement law against the array function on the raw record
    raw = ctx.lib(sdof.pseudo_response_spectra, a, dt, P, xi)
    tol_r = _tol_refine((n + 1) * m_max, m_max, T, dt)
    du = tol_r * su + bu
    keep_a = (T / dt) >= 6.001
    for j, (name, allow) in enumerate((("s_d", du), ("s_v", w * du), ("s_a", w ** 2 * du))):
        rows = keep_a if j == 2 else np.ones(len(T), dtype=bool)
        r = np.asarray(raw[j], dtype=float)[s:][rows]
        g = base[j][s:][rows]
        ctx.check(bool(np.all(g >= r - allow[rows] - core.TINY)),
                  "AccSignal.%s (min_dt_ratio=%s) is below pseudo_response_spectra of the raw record: %r vs %r (allowance %r)" % (
                      name, "default" if (ratio is None or lazy) else ratio, g.tolist()[:6], r.tolist()[:6], allow[rows].tolist()[:6]))


# ---------------------------------------------------------------------------
# many periods: a single transposition inside a long period list


@st.composite
def _many_cases(draw):
    npd = draw(st.integers(1001, 1600))
    return {"a": draw(gen.record_specs(min_n=2, max_n=40, small_max=40, allow_zero_runs=False)),
            "dt": draw(gen.dts(1e-3, 1.0)), "xi": draw(st.sampled_from([0.0, 0.05, 0.3])), "np": npd,
            "lo": draw(gen.log_uniform(0.5, 20.0)), "span": draw(gen.log_uniform(5.0, 500.0)),
            "i": draw(st.integers(3, npd - 4)), "j": draw(st.integers(3, npd - 4)), "lead0": draw(st.booleans())}


@clause(CLAUSES, "many-periods", _many_cases(), quick=40, thorough=120,
        rule="1001-1600 log-spaced periods (more than NumPy's summarisation threshold), short records; the same list with two interior "
             "periods swapped, called in the same process; non-trivial = the two swapped periods differ and the record is non-zero",
        oracle="metamorphic: every period's series rows and pseudo / true spectra (all outputs) equal those of the unswapped call "
               "(1e-10 of the robust scale)",
        min_nontrivial=0.5)
def many_periods(case, ctx):
    a = gen.build(case["a"])
    dt, xi = case["dt"], case["xi"]
    npd = case["np"]
    T = case["lo"] * dt * np.logspace(0, np.log10(case["span"]), npd)
    i, j = case["i"], case["j"]
    ctx.nt(bool(i != j and np.any(a)))
    ctx.cls("lead0" if case["lead0"] else None)
    lead = [0.0] if case["lead0"] else []
    s = len(lead)
    P1 = np.array(lead + list(T))
    T2 = T.copy()
    T2[[i, j]] = T2[[j, i]]
    P2 = np.array(lead + list(T2))
    idx = np.arange(npd)
    idx[[i, j]] = idx[[j, i]]
    r1 = ctx.lib(sdof.response_series, a, dt, P1, xi)
    p1 = ctx.lib(sdof.pseudo_response_spectra, a, dt, P1, xi)
    r2 = ctx.lib(sdof.response_series, a, dt, P2, xi)
    p2 = ctx.lib(sdof.pseudo_response_spectra, a, dt, P2, xi)
    su, sv, sa = ref.lib_scales(a, dt, T, xi, r1[0][s:], r1[1][s:])
    for k, (name, sc) in enumerate((("displacement", su), ("velocity", sv), ("acceleration", sa))):
        ctx.close(np.asarray(r2[k])[s:], np.asarray(r1[k])[s:][idx], 1e-10 * sc[idx][:, None] + 0 * np.asarray(r2[k])[s:],
                  "%s rows after swapping periods %d and %d of %d" % (name, i, j, npd))
    w = 2 * np.pi / T
    amax = float(np.max(np.abs(a)))
    for k, (name, sc) in enumerate((("S_d", su), ("S_v", w * su), ("S_a", w ** 2 * su + amax))):
        ctx.close(np.asarray(p2[k])[s:], np.asarray(p1[k])[s:][idx], 1e-10 * sc[idx], "pseudo %s after swapping two periods" % name)
        if s:
            ctx.close(np.asarray(p2[k])[0], np.asarray(p1[k])[0], 4 * EPS * amax, "pseudo %s, T=0 entry, after swapping two periods" % name)
    t1 = ctx.lib(sdof.true_response_spectra, a, dt, P1, xi)
    t2 = ctx.lib(sdof.true_response_spectra, a, dt, P2, xi)
    for k, (name, sc) in enumerate((("S_d", su), ("S_v", sv), ("S_a", sa + amax))):
        ctx.close(np.asarray(t2[k])[s:], np.asarray(t1[k])[s:][idx], 1e-10 * sc[idx], "true %s after swapping two periods" % name)
        if s:
            ctx.close(np.asarray(t2[k])[0], np.asarray(t1[k])[0], 4 * EPS * amax, "true %s, T=0 entry, after swapping two periods" % name)


# ---------------------------------------------------------------------------
# very large (periods x samples) products: thorough tier only (about 25 s per call)


def _huge_enum(tier, shard, nshards):
    if tier != "thorough":
        return
    cases = [{"n": 170000, "np": 101, "cut": 60, "seed": 5}, {"n": 70000, "np": 259, "cut": 100, "seed": 6}]
    for k, c in enumerate(cases):
        if k % nshards == shard:
            yield c


@enum_clause(CLAUSES, "huge-batch", _huge_enum,
             rule="thorough tier only: two fixed very large problems (170 000 samples x 101 periods, 70 000 x 259: more than 2^24 response "
                  "values per series), whole list vs two batches; the quick tier does not reach this regime",
             oracle="metamorphic: pseudo spectra of the whole list equal those of the two batches (1e-10 relative)",
             exhaustive_note="two fixed cases (not an exhaustive space); listed as an enumeration because nothing is drawn", quick_shards=1,
             thorough_only=True)
def huge_batch(case, ctx):
    a = gen.build({"k": "quake", "n": case["n"], "seed": case["seed"], "amp": 0})
    dt = 0.005
    T = np.logspace(np.log10(0.05), np.log10(5.0), case["np"])
    ctx.nt(True)
    whole = [np.asarray(x) for x in ctx.lib(sdof.pseudo_response_spectra, a, dt, T, 0.05)]
    c = case["cut"]
    lo = [np.asarray(x) for x in ctx.lib(sdof.pseudo_response_spectra, a, dt, T[:c], 0.05)]
    hi = [np.asarray(x) for x in ctx.lib(sdof.pseudo_response_spectra, a, dt, T[c:], 0.05)]
    for k, name in enumerate(("S_d", "S_v", "S_a")):
        both = np.concatenate([lo[k], hi[k]])
        ctx.close(whole[k], both, 1e-10 * np.abs(both) + core.TINY, "pseudo %s: whole list of %d periods vs two batches (%d samples)" % (name, case["np"], case["n"]))


# ---------------------------------------------------------------------------
# mid-range sizes: long records, many periods, large (periods x samples) products
#
# The relations above are drawn for n <= 1500 and <= 7 periods ('many-periods': one transposition in 1001-1600 periods of a
# 40-sample record).  A code path that exists only inside a window of sizes - a loop blocked over the periods or the samples,
# a streamed spectrum above some (periods x samples) budget - is exercised by the enumerations below: one size in every
# octave of every size dimension, all relations at every size, every row and every sample compared.

from pbt.ref import sdof_mid as mid  # noqa: E402

ASSUMPTIONS.extend([
    "mid-range enumerations: records of up to 1.2e5 (thorough 6e5) samples, 1..3000 (6000) periods, periods x samples up to 3e7 "
    "(4e7); noise x envelope / noise + mean / sines + noise records (non-zero mean, no silent stretch), 60 % of them ending in a "
    "burst (last 3-60 samples x 25) so that peaks sit at the very end of the record; long period lists are "
    "distinct, unsorted, log-spread over a hash-chosen sub-range of [0.2, 2e4] dt",
    "rounding model at length n: (1e-10 + 16*eps*n) of the energy-consistent robust scale S_u = max(s_u, s_v/w), S_v = max(s_v, w*s_u) "
    "(s_u, s_v the robust scales above), S_a = 2 xi w S_v + w^2 S_u: each of the n steps of the recurrence rounds its state by "
    "<= 4 eps of the state's energy norm and a free vibration never gains energy, so the rounding of two mathematically equal "
    "runs differs by <= 8 eps n of the peak energy norm (16 eps n leaves a factor 2); 1e-10 is the floor the short clauses use",
    "spectra vs series (mid-range only, declared differential between public entry points): S_d of pseudo_response_spectra and "
    "S_d, S_v, S_a of true_response_spectra equal the row-wise max|.| of response_series for the same arguments, to the rounding "
    "model above; S_a is not compared for T < 6.001 dt nor for T = 0 (C03 owns the substitution rule there), pseudo S_v / S_a are C03's",
    "mid-range shift / causality are asserted bit-for-bit between calls with the same period list (same operations)",
])


def _tol_n(n):
    return 1e-10 + 16 * EPS * n


def _oct(prefix, v):
    return "%s~2^%d" % (prefix, int(np.floor(np.log2(max(1, v)))))


def _escales(a, dt, T, xi, ru, rv):
    """Energy-consistent robust scales (S_u, S_v, S_a) per row from library series."""
    su, sv, _ = ref.lib_scales(a, dt, T, xi, ru, rv)
    w = 2 * np.pi / T
    Su = np.maximum(su, sv / w)
    Sv = np.maximum(sv, w * su)
    return Su, Sv, 2 * xi * w * Sv + w ** 2 * Su


def _close_rows(ctx, got, want, tol_rows, what):
    """|got - want| <= tol_rows[:, None] on every element; chunked over rows (no giant temporaries); reports row / sample."""
    got, want = np.asarray(got), np.asarray(want)
    if got.shape != want.shape:
        ctx.fail("%s: shape %s vs %s" % (what, got.shape, want.shape))
    p, n = got.shape
    rows = max(1, (1 << 21) // max(1, n))
    tol_rows = np.asarray(tol_rows, dtype=float)
    for j0 in range(0, p, rows):
        d = np.abs(got[j0:j0 + rows] - want[j0:j0 + rows])
        bad = ~(d <= tol_rows[j0:j0 + rows, None] + core.TINY)
        key = "used:" + what.split(":")[-1].strip().split(",")[0][:40]
        ctx.notes[key] = max(ctx.notes.get(key, 0.0), float(np.max(np.max(d, axis=1) / (tol_rows[j0:j0 + rows] + core.TINY))))
        if np.any(bad):
            r, c = np.argwhere(bad)[0]
            ctx.fail("%s: |diff|=%.4g > tol=%.4g at row %d (of %d) sample %d (of %d): got %r expected %r (%d elements out in this block of rows)" % (
                what, d[r, c], tol_rows[j0 + r], j0 + r, p, c, n, got[j0 + r, c], want[j0 + r, c], int(np.sum(bad))))


def _equal_rows(ctx, got, want, what):
    got, want = np.asarray(got), np.asarray(want)
    if got.shape != want.shape:
        ctx.fail("%s: shape %s vs %s" % (what, got.shape, want.shape))
    if not np.array_equal(got, want):
        bad = np.argwhere(~(got == want))
        i = tuple(int(x) for x in bad[0])
        ctx.fail("%s: not equal at row %d sample %d (shape %s): %r vs %r (%d elements differ)" % (
            what, i[0], i[1], got.shape, got[i], want[i], len(bad)))


def _rowmax(x):
    return np.max(np.abs(np.asarray(x)), axis=1)


def _burst(a, length):
    """Optionally end the record with a strong burst (the last `length` samples x 25): the peaks of the quasi-static rows then
    sit in the last samples, so a reduction that drops the end of the record cannot hide."""
    if length:
        a = a.copy()
        a[-int(length):] *= 25.0
    return a


def _mk_periods(T, lead0, container, ints=None):
    """Period argument: float ndarray | list of python floats | tuple | python ints (when ints is given)."""
    if ints is not None:
        return ([0] if lead0 else []) + [int(t) for t in ints]
    vals = ([0.0] if lead0 else []) + [float(t) for t in T]
    if container == "list":
        return vals
    if container == "tuple":
        return tuple(vals)
    return np.array(vals)


def _check_spectra_vs_series(ctx, a, dt, P, T, s, xi, series, scales, tol, what, fns=("pseudo", "true")):
    """pseudo S_d and true S_d / S_v / S_a of the same arguments equal the row-wise max|.| of the series."""
    Su, Sv, Sa = scales
    mu, mv, ma = _rowmax(series[0]), _rowmax(series[1]), _rowmax(series[2])
    amax = float(np.max(np.abs(a)))
    ps = ts = None
    if "pseudo" in fns:
        ps = ctx.lib(sdof.pseudo_response_spectra, a, dt, P, xi)
        ctx.check(isinstance(ps, (tuple, list)) and len(ps) == 3, "%s: pseudo_response_spectra does not return a triple" % what)
        for x, name in zip(ps, ("S_d", "S_v", "S_a")):
            ctx.shape(x, (len(T) + s,), "%s: pseudo %s" % (what, name))
        ctx.close(np.asarray(ps[0])[s:], mu[s:], tol * Su, "%s: pseudo S_d vs row-wise max|u| of response_series" % what)
        if s:
            ctx.check(np.asarray(ps[0])[0] == 0, "%s: pseudo S_d of the T=0 entry is not 0" % what)
    if "true" in fns:
        ts = ctx.lib(sdof.true_response_spectra, a, dt, P, xi)
        ctx.check(isinstance(ts, (tuple, list)) and len(ts) == 3, "%s: true_response_spectra does not return a triple" % what)
        for x, name in zip(ts, ("S_d", "S_v", "S_a")):
            ctx.shape(x, (len(T) + s,), "%s: true %s" % (what, name))
        ctx.close(np.asarray(ts[0])[s:], mu[s:], tol * Su, "%s: true S_d vs row-wise max|u| of response_series" % what)
        ctx.close(np.asarray(ts[1])[s:], mv[s:], tol * Sv, "%s: true S_v vs row-wise max|v| of response_series" % what)
        keep = (T / dt) >= 6.001
        if np.any(keep):
            ctx.close(np.asarray(ts[2])[s:][keep], ma[s:][keep], tol * (Sa[keep] + amax), "%s: true S_a vs row-wise max of the third series" % what)
        if s:
            ctx.check(np.asarray(ts[0])[0] == 0 and np.asarray(ts[1])[0] == 0, "%s: true S_d / S_v of the T=0 entry are not 0" % what)
    return ps, ts


def _check_sub_spectra(ctx, a, dt, Psub, idx, T, s, xi, whole, scales, tol, what, which):
    """Batch law on the spectra themselves: all three outputs of a spectra function for a sub-list equal the whole-list entries."""
    Su, Sv, Sa = scales
    w = 2 * np.pi / T
    amax = float(np.max(np.abs(a)))
    if which == "pseudo":
        f, sc = sdof.pseudo_response_spectra, (Su, w * Su, w ** 2 * Su + amax)
    else:
        f, sc = sdof.true_response_spectra, (Su, Sv, Sa + amax)
    sub = ctx.lib(f, a, dt, Psub, xi)
    for j, name in enumerate(("S_d", "S_v", "S_a")):
        ctx.close(np.asarray(sub[j])[s:], np.asarray(whole[j])[s:][idx], tol * sc[j][idx], "%s: %s %s of the sub-list vs the whole-list entries" % (what, which, name))
        if s:
            ctx.equal(np.asarray(sub[j])[0], np.asarray(whole[j])[0], "%s: %s %s of the T=0 entry, sub-list call" % (what, which, name))


def _check_shift_causal_linear(ctx, a, dt, P, T, s, xi, R1, scales, hs, what):
    """Three relations with two more calls on the same period list (a[0] must be 0):
    call 2: zeros(k) ++ a ++ tail2          -> zero before k, equal to R1 on [k, k+n) bit for bit (shift + causality);
    call 3: alpha*(a ++ tail) + beta*(zeros(k) ++ a), length n+k -> alpha*R1 + beta*R2 on [0, n) (linearity, causality)."""
    n = len(a)
    k = mid.hint(1, 997, "k", hs)
    k2 = mid.hint(1, 500, "k2", hs)
    rs = np.random.RandomState(hs % (2 ** 31 - 1))
    tail2 = rs.standard_normal(k2) + 0.5
    tail = rs.standard_normal(k) - 0.5
    al = (1.0 if mid.hu("als", hs) < 0.5 else -1.0) * mid.hlog(0.3, 3.0, "al", hs)
    be = (1.0 if mid.hu("bes", hs) < 0.5 else -1.0) * mid.hlog(0.3, 3.0, "be", hs)
    R2 = ctx.lib(sdof.response_series, np.concatenate([np.zeros(k), a, tail2]), dt, P, xi)
    for j, name in enumerate(("displacement", "velocity", "acceleration")):
        x = np.asarray(R2[j])
        ctx.shape(x, (len(T) + s, n + k + k2), "%s: %s of the shifted record" % (what, name))
        ctx.check(not np.any(x[:, :k]), "%s: %s is non-zero before the record shifted by %d samples starts" % (what, name, k))
        _equal_rows(ctx, x[:, k:k + n], np.asarray(R1[j]), "%s: %s delayed by %d samples (and %d later samples appended)" % (what, name, k, k2))
    b = np.concatenate([np.zeros(k), a])
    c = al * np.concatenate([a, tail]) + be * b
    R3 = ctx.lib(sdof.response_series, c, dt, P, xi)
    Su, Sv, Sa = scales
    tol = _tol_n(n + k)
    err_in = 4 * EPS * float(np.sum(abs(al) * np.abs(a)) + np.sum(abs(be) * np.abs(a)) + abs(al) * np.sum(np.abs(tail)))
    bu, bv, ba = ref.perturbation_bounds(err_in, dt, n + k, T, xi)
    mix = abs(al) + abs(be)
    for j, (name, S, pb) in enumerate((("displacement", Su, bu), ("velocity", Sv, bv), ("acceleration", Sa, ba))):
        x = np.asarray(R3[j])
        ctx.shape(x, (len(T) + s, n + k), "%s: %s of the combined record" % (what, name))
        _close_rows(ctx, x[s:, :n], al * np.asarray(R1[j])[s:] + be * np.asarray(R2[j])[s:, :n], tol * mix * S + pb,
                    "%s: linearity of %s, %.4g*a + %.4g*(a delayed by %d), first %d samples" % (what, name, al, be, k, n))
    if s:
        ctx.close(np.asarray(R3[2])[0, :n], -(c[:n]), 0.0, "%s: T=0 row of the combined record" % what)


def _c02_cfg(tier):
    if tier == "quick":
        return dict(n=(2000, 120000, 10, "c02-n"), n_mined=(2000, 50000, 3),
                    p=(7, 3000, 10, "c02-p", 6), pn=(100, 800),
                    prod=(1e5, 3e7, 10, "c02-prod"), prod_p=(8, 3000), prod_n=(400, 60000), sub_budget=1.0e5)
    return dict(n=(2000, 600000, 22, "c02-n-th"), n_mined=(2000, 200000, 10),
                p=(7, 6000, 24, "c02-p-th", 16), pn=(100, 2000),
                prod=(1e5, 4e7, 20, "c02-prod-th"), prod_p=(8, 6000), prod_n=(400, 300000), sub_budget=4e5)


def _sharded(cases, shard, nshards, cost):
    cases = sorted(cases, key=lambda c: (-cost(c), core.canon(c)))
    for i, c in enumerate(cases):
        if i % nshards == shard:
            yield c


REL_COST = {"shift-causal-linear": 3.0, "batch-spectra": 5.0, "refine": 1.5}


def _mk_n_case(n, rel, idx):
    sd = int(mid.hu("c02-long", gen.run_seed(), idx, n, rel) * (2 ** 31 - 2))
    c = {"n": int(n), "rel": rel, "seed": sd, "kind": mid.hpick(mid.RECORD_KINDS[:3], "kind", sd), "dt": mid.dt_from_hash(sd),
         "xi": mid.xi_from_hash(sd), "lead0": mid.hu("lead0", sd) < 0.4, "container": mid.hpick(["ndarray", "list", "tuple"], "cont", sd),
         "burst": mid.hint(3, 60, "burst", sd) if mid.hu("has-burst", sd) < 0.6 else 0}
    if rel == "refine":
        c["m"] = mid.hint(2, 8, "m", sd)
        c["ratios"] = mid.ratios_from_hash(mid.hint(1, 4, "np", sd), 0.2, 2e4 / c["m"], sd)
    else:
        c["ratios"] = mid.ratios_from_hash(mid.hint(2, 6, "np", sd), 0.2, 2e4, sd)
    return c


def _c02_n_enum(tier, shard, nshards):
    cfg = _c02_cfg(tier)
    lo, hi, count, tag = cfg["n"]
    sizes = sorted(set(gen.ladder(lo, hi, count, tag)) | set(gen.mined_sizes(cfg["n_mined"][0], cfg["n_mined"][1], cfg["n_mined"][2], tag)))
    cases = []
    for k, n in enumerate(sizes):
        for r, rel in enumerate(("shift-causal-linear", "batch-spectra", "refine")):
            cases.append(_mk_n_case(n, rel, 3 * k + r))
    return _sharded(cases, shard, nshards, lambda c: c["n"] * REL_COST[c["rel"]])


@enum_clause(CLAUSES, "mid-range", _c02_n_enum,
             rule="record-length ladder: one length per logarithmic bin of [2000, 1.2e5] (10 bins; thorough [2000, 6e5], 22 bins) placed by a "
                  "hash of VERIF_SEED, and lengths next to integer literals of the source under test; at every length "
                  "three cases: (shift + causality + linearity: k <= 997 zeros prepended and later samples appended; alpha*a + beta*(a delayed)), "
                  "(batch + spectra: a permuted proper sub-list of the 2-6 periods, series rows and all outputs of one spectra function; pseudo / true spectra of the whole list against the series), "
                  "(refinement x2..8 whose refined record has the ladder length); optional leading 0; non-trivial = non-zero record",
             oracle="metamorphic on the whole output: shift / causality array_equal; linearity, batch and spectra-vs-series to "
                    "(1e-10 + 16 eps n) of the energy-consistent robust scale (+ input-rounding bound); refinement to the bound of the clause 'refine'",
             exhaustive_note="three cases per ladder length (the lengths move with VERIF_SEED)", min_nontrivial=0.5, quick_shards=4)
def mid_range(case, ctx):
    n, dt, xi, rel = case["n"], case["dt"], case["xi"], case["rel"]
    s = 1 if case["lead0"] else 0
    T = np.array([float(r) * dt for r in case["ratios"]])
    P = _mk_periods(T, s, case["container"])
    ctx.cls(_oct("n", n), "rel=" + rel, "lead0" if s else None, "T<6dt" if np.any(T / dt < 6) else None,
            "T>100dt" if np.any(T / dt > 100) else None, "xi=0" if xi == 0 else None)
    ctx.nt(True)
    if rel == "refine":
        m = case["m"]
        n0 = (n - 1) // m + 1
        a = mid.record(case["kind"], n0, case["seed"])
        fine = np.interp(np.arange((n0 - 1) * m + 1) / float(m), np.arange(n0), a)
        fine[::m] = a
        ctx.cls("m=%d" % m)
        what = "refinement x%d of %d samples to %d" % (m, n0, len(fine))
        r1 = ctx.lib(sdof.response_series, a, dt, P, xi)
        r2 = ctx.lib(sdof.response_series, fine, dt / m, P, xi)
        su, sv, sa = ref.lib_scales(a, dt, T, xi, np.asarray(r1[0])[s:], np.asarray(r1[1])[s:])
        tol = _tol_refine(len(fine), m, T, dt)
        err_in = 4 * EPS * float(np.sum(np.abs(fine)))
        bu, bv, ba = ref.perturbation_bounds(err_in, dt / m, len(fine), T, xi)
        ctx.shape(r2[0], (len(T) + s, len(fine)), what + ": refined displacement")
        _close_rows(ctx, np.asarray(r2[0])[s:, ::m], np.asarray(r1[0])[s:], tol * su + bu, what + ": displacement at the original instants")
        _close_rows(ctx, np.asarray(r2[1])[s:, ::m], np.asarray(r1[1])[s:], tol * sv + bv, what + ": velocity at the original instants")
        return
    a = _burst(mid.record(case["kind"], n, case["seed"]), case.get("burst"))
    a[0] = 0.0
    ctx.cls("end-burst" if case.get("burst") else None)
    R1 = ctx.lib(sdof.response_series, a, dt, P, xi)
    for x, name in zip(R1, ("displacement", "velocity", "acceleration")):
        ctx.shape(x, (len(T) + s, n), "response %s" % name)
    scales = _escales(a, dt, T, xi, np.asarray(R1[0])[s:], np.asarray(R1[1])[s:])
    if rel == "shift-causal-linear":
        _check_shift_causal_linear(ctx, a, dt, P, T, s, xi, R1, scales, case["seed"], "%d samples, %d periods" % (n, len(T)))
        return
    # batch + spectra
    what = "%d samples, %d periods" % (n, len(T))
    tol = _tol_n(n)
    ps, ts = _check_spectra_vs_series(ctx, a, dt, P, T, s, xi, R1, scales, tol, what)
    p = len(T)
    rs = np.random.RandomState(case["seed"] % (2 ** 31 - 1))
    idx = rs.permutation(p)[:mid.hint(1, p - 1, "nsub", case["seed"])]
    which = "pseudo" if mid.hu("subspec", case["seed"]) < 0.5 else "true"
    ctx.cls("sub-spectra=" + which)
    _check_sub_spectra(ctx, a, dt, _mk_periods(T[idx], s, case["container"]), idx, T, s, xi, ps if which == "pseudo" else ts,
                       scales, tol, "%s, sub-list %s" % (what, idx.tolist()), which)
    Rs = ctx.lib(sdof.response_series, a, dt, _mk_periods(T[idx], s, case["container"]), xi)
    for j, (name, S) in enumerate(zip(("displacement", "velocity", "acceleration"), scales)):
        _close_rows(ctx, np.asarray(Rs[j])[s:], np.asarray(R1[j])[s:][idx], tol * S[idx], "%s: %s rows of the sub-list %s" % (what, name, idx.tolist()))
        if s:
            _equal_rows(ctx, np.asarray(Rs[j])[:1], np.asarray(R1[j])[:1], "%s: T=0 row of %s, sub-list call" % (what, name))


# --- many periods, and large periods x samples products -----------------------------------------------------------

SUB_CAP = 48   # longest sub-list of a batch comparison (the drawn clauses verify lists of <= 7 periods, 'many-periods' swaps)


def _mk_wide_case(npd, n, idx, lead0, tag):
    sd = int(mid.hu("c02-wide", tag, gen.run_seed(), idx, npd, n) * (2 ** 31 - 2))
    rlo = mid.hlog(0.2, 200.0, "rlo", sd)
    c = {"np": int(npd), "n": int(n), "seed": sd, "kind": mid.hpick(mid.RECORD_KINDS[:3], "kind", sd), "dt": mid.dt_from_hash(sd),
         "rlo": rlo, "rhi": min(2e4, rlo * mid.hlog(30.0, 1e5, "rspan", sd)), "xi": mid.xi_from_hash(sd), "lead0": bool(lead0),
         "container": mid.hpick(["ndarray", "list", "tuple"], "cont", sd), "int": mid.hu("int", sd) < 0.2,
         "burst": mid.hint(3, 60, "burst", sd) if mid.hu("has-burst", sd) < 0.6 else 0}
    if c["int"]:
        c["dt"] = 1.0 if mid.hu("intdt", sd) < 0.5 else 0.5
    return c


def _groups(p, ncalls, sd):
    """Index arrays (sub-lists of the period list) for the batch comparison, and whether they cover every row.
    All rows (a hash permutation cut into sub-lists of hash-chosen lengths <= SUB_CAP) when that takes about `ncalls` calls;
    otherwise the seam rows (first, last, around multiples of 2^k) and hash-chosen rows.  Always one single-period call."""
    rs = np.random.RandomState(sd % (2 ** 31 - 1))
    hi_sz = int(min(SUB_CAP, max(3, p // 3)))
    lo_sz = max(1, hi_sz // 3)
    mean_sz = 0.5 * (lo_sz + hi_sz)
    full = p <= mean_sz * max(1, ncalls - 1)
    if full:
        rows = rs.permutation(p)
    else:
        seams = mid.seam_rows(p, sd, extra=12, tag="c02")
        rs.shuffle(seams)
        rows = np.array(seams[:int(mean_sz * max(1, ncalls - 1))], dtype=int)
    out, i = [], 0
    while i < len(rows):
        k = int(rs.randint(lo_sz, hi_sz + 1))
        out.append(np.array(rows[i:i + k], dtype=int))
        i += k
    out.append(np.array([int(rs.randint(0, p))], dtype=int))
    return out, full


def _wide_check(case, ctx, cfg, extras):
    n, dt, xi, npd = case["n"], case["dt"], case["xi"], case["np"]
    s = 1 if case["lead0"] else 0
    a = _burst(mid.record(case["kind"], n, case["seed"]), case.get("burst"))
    a[0] = 0.0
    ints = None
    if case["int"]:
        rs = np.random.RandomState(case["seed"] % (2 ** 31 - 1))
        ints = (rs.permutation(int(min(2e4 * dt, max(2 * npd, 50)))) + 1)[:npd]
        T = ints.astype(float)
    else:
        T = np.array(mid.spread_ratios(npd, case["rlo"], case["rhi"], case["seed"])) * dt

    def mk(idx):
        return _mk_periods(T[idx], s, case["container"], None if ints is None else ints[idx])
    P = mk(np.arange(npd))
    what = "%d periods%s x %d samples" % (npd, " + leading 0" if s else "", n)
    ctx.cls(_oct("P", npd), _oct("n", n), _oct("PxN", npd * n), "lead0" if s else None, "int-periods" if case["int"] else None,
            "container=" + case["container"], "end-burst" if case.get("burst") else None)
    ctx.nt(True)
    R1 = ctx.lib(sdof.response_series, a, dt, P, xi)
    for x, name in zip(R1, ("displacement", "velocity", "acceleration")):
        ctx.shape(x, (npd + s, n), "%s: response %s" % (what, name))
    R1 = [np.asarray(x) for x in R1]
    scales = _escales(a, dt, T, xi, R1[0][s:], R1[1][s:])
    tol = _tol_n(n)
    ps_all, ts_all = _check_spectra_vs_series(ctx, a, dt, P, T, s, xi, R1, scales, tol, what)
    # batch: sub-lists against the whole list
    ncalls = max(2, int(cfg["sub_budget"] // n))
    groups, full = _groups(npd, ncalls, case["seed"])
    ctx.cls("batch=all-rows" if full else "batch=seam-rows")
    n_spec = 2 if n <= 5000 else 1
    for gi, idx in enumerate(reversed(groups)):   # the single-period call first
        Rs = ctx.lib(sdof.response_series, a, dt, mk(idx), xi)
        w8 = "%s: sub-list of %d periods (rows %s%s)" % (what, len(idx), idx[:5].tolist(), "..." if len(idx) > 5 else "")
        for j, (name, S) in enumerate(zip(("displacement", "velocity", "acceleration"), scales)):
            _close_rows(ctx, np.asarray(Rs[j])[s:], R1[j][s:][idx], tol * S[idx], "%s: %s rows" % (w8, name))
            if s:
                _equal_rows(ctx, np.asarray(Rs[j])[:1], R1[j][:1], "%s: T=0 row of %s" % (w8, name))
        if gi < n_spec:
            _check_sub_spectra(ctx, a, dt, mk(idx), idx, T, s, xi, ps_all, scales, tol, w8, "pseudo")
            _check_sub_spectra(ctx, a, dt, mk(idx), idx, T, s, xi, ts_all, scales, tol, w8, "true")
    if extras:
        rs = np.random.RandomState((case["seed"] + 5) % (2 ** 31 - 1))
        perm = rs.permutation(npd)
        Rp = ctx.lib(sdof.response_series, a, dt, mk(perm), xi)
        for j, (name, S) in enumerate(zip(("displacement", "velocity", "acceleration"), scales)):
            _close_rows(ctx, np.asarray(Rp[j])[s:], R1[j][s:][perm], tol * S[perm], "%s: %s rows of the permuted list" % (what, name))
        _check_shift_causal_linear(ctx, a, dt, P, T, s, xi, R1, scales, case["seed"], what)


def _c02_p_enum(tier, shard, nshards):
    cfg = _c02_cfg(tier)
    lo, hi, count, tag, mlim = cfg["p"]
    sizes = sorted(set(gen.size_ladder(lo, hi, count, tag, mined_limit=mlim)) | {hi})
    cases = []
    for k, npd in enumerate(sizes):
        for lead0 in (False, True):
            n = mid.hlogint(cfg["pn"][0], cfg["pn"][1], "pn", gen.run_seed(), tag, npd, lead0)
            cases.append(_mk_wide_case(npd, n, 2 * k + int(lead0), lead0, tag))
    return _sharded(cases, shard, nshards, lambda c: c["n"] * (12.0 + 0.1 * c["np"]) * (6 + c["np"] / 30.0))


@enum_clause(CLAUSES, "mid-range-periods", _c02_p_enum,
             rule="period-count ladder: one count per logarithmic bin of [7, 3000] (10 bins; thorough [7, 6000], 24 bins), the end of the range "
                  "and counts next to integer literals of the source under test, each with and without a leading 0; distinct unsorted periods "
                  "(float ndarray / list / tuple, or python ints); records of 100-800 (2000) samples; every row is recomputed in sub-lists of "
                  "<= 48 periods (a hash permutation cut at hash-chosen lengths) and in one single-period call; the whole list permuted; "
                  "shift + causality + linearity on the whole list; spectra of the whole list and of two sub-lists; non-trivial = non-zero record",
             oracle="metamorphic on the whole output: sub-list / permuted rows and spectra to (1e-10 + 16 eps n) of the energy-consistent "
                    "robust scale; T=0 rows, shift and causality array_equal; spectra vs row-wise max|.| of the series",
             exhaustive_note="one case per ladder count and leading-0 variant (the counts move with VERIF_SEED)", min_nontrivial=0.5, quick_shards=4)
def mid_range_periods(case, ctx):
    _wide_check(case, ctx, _c02_cfg(core.tier()), extras=True)


def _c02_prod_enum(tier, shard, nshards):
    cfg = _c02_cfg(tier)
    lo, hi, count, tag = cfg["prod"]
    pairs = gen.product_pairs(lo, hi, count, cfg["prod_p"], cfg["prod_n"], tag)
    cases = [_mk_wide_case(npd, n, k, mid.hu("prod-lead0", gen.run_seed(), tag, k) < 0.5, tag) for k, (npd, n) in enumerate(pairs)]
    return _sharded(cases, shard, nshards, lambda c: c["n"] * (12.0 + 0.1 * c["np"]))


@enum_clause(CLAUSES, "mid-range-products", _c02_prod_enum,
             rule="(periods x samples) ladder: one product per logarithmic bin of [1e5, 3e7] (10 bins; thorough [1e5, 4e7], 20 bins) and products "
                  "just above integer literals of the source under test, split by hash into 8..3000 (6000) periods x 400..60 000 (300 000) "
                  "samples; leading 0 in half of the cases; the whole list (series, pseudo and true spectra) against sub-lists of <= 48 periods: "
                  "every row when about 1e5 (4e5) loop steps pay for it, otherwise the seam rows (first, last, around multiples of 2^5..2^12) "
                  "and hash-chosen rows, always one single-period call; non-trivial = non-zero record",
             oracle="metamorphic as 'mid-range-periods' (batch rows, T=0 rows, spectra vs row-wise max|.| of the series)",
             exhaustive_note="one case per ladder product (products and splits move with VERIF_SEED)", min_nontrivial=0.5, quick_shards=4)
def mid_range_products(case, ctx):
    _wide_check(case, ctx, _c02_cfg(core.tier()), extras=False)
