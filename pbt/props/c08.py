"""C08 - velocity / displacement are cumulative trapezoid integrals; peaks are max abs."""
import math

import numpy as np
from hypothesis import strategies as st

import eqsig
from eqsig import displacements as disp_mod
from eqsig import im

from pbt import core, gen
from pbt.core import clause, enum_clause

PROPERTY = "C08"
CLAUSES = []
ASSUMPTIONS = [
    "records are finite float64 (or integer / list variants), 2 <= n <= 5000, |a| <= 1e9",
    "rectangle rule (trap=False): either endpoint accepted as long as it is the same for every i and the series start at 0",
    "rounding bound for a running sum of k terms: eps*(k+4)*sum|terms| (standard recursive-summation bound)",
]
EPS = np.finfo(float).eps
LD = np.longdouble


def _dyadic_dt():
    return st.integers(-10, 2).map(lambda k: 2.0 ** k)


@st.composite
def _cases(draw):
    if draw(st.integers(0, 39)) == 0:
        # very long records (tens of minutes at 100-200 Hz)
        spec = draw(gen.record_specs(min_n=60000, max_n=150000, kinds=["noise", "quake", "walk", "sines"], allow_zero_runs=False))
    else:
        spec = draw(gen.record_specs(min_n=2, max_n=5000, allow_int=True))
    exact = spec["k"] == "dyadic" and draw(st.booleans())
    dt = draw(_dyadic_dt()) if exact else draw(gen.dts(1e-4, 2.0))
    return {"rec": spec, "dt": dt, "trap": draw(st.booleans()), "exact": exact}


def _classify(ctx, spec, a, case):
    ctx.cls("kind=" + spec["k"], gen.size_class(len(a)), "trap" if case.get("trap", True) else "rect")
    if case.get("exact"):
        ctx.cls("exact-dyadic")
    if spec.get("as"):
        ctx.cls("as=" + spec["as"])
    ctx.nt(gen.sign_changes(a) >= 2)


def _run_bound(terms):
    """eps*(k+4)*running sum |terms| for a sequentially accumulated sum."""
    k = np.arange(1, len(terms) + 1, dtype=float)
    return EPS * (k + 4) * np.cumsum(np.abs(terms))


@clause(CLAUSES, "increments", _cases(), quick=700, thorough=3000,
        rule="records of all kinds (n 2..5000, float/int/list), dt log-uniform or dyadic, trap in {T,F}; "
             "non-trivial = record has >= 2 sign changes",
        oracle="reference model: long-double loop over the defining increments; equality on dyadic data")
def increments(case, ctx):
    spec = case["rec"]
    a0 = gen.build(spec)
    arg = gen.as_container(spec, a0)
    a = np.array(arg, dtype=float)  # what the library sees (int variant rounds)
    dt = case["dt"]
    trap = case["trap"]
    _classify(ctx, spec, a, case)
    n = len(a)
    if isinstance(arg, list) and not trap:
        arg = np.array(arg)  # `acceleration * dt` on a list is outside "records" for the rectangle branch
    # the flag by keyword, or positionally as documented (acceleration, dt, trap) in one case out of three
    v, d = ctx.libf(core.call_form(case), disp_mod.calc_velo_and_disp_from_accel_arr, ["trap"], arg, dt, trap=trap)
    v = np.asarray(v)
    d = np.asarray(d)
    ctx.shape(v, (n,), "velocity")
    ctx.shape(d, (n,), "displacement")
    ctx.check(v[0] == 0 and d[0] == 0, "series do not start at zero: v0=%r d0=%r" % (v[0], d[0]))
    al = a.astype(LD)
    vl = v.astype(LD)
    dl = d.astype(LD)
    dv = vl[1:] - vl[:-1]
    dd = dl[1:] - dl[:-1]
    if trap:
        inc_v = [LD(dt) * (al[1:] + al[:-1]) / 2]
        inc_d = [LD(dt) * (vl[1:] + vl[:-1]) / 2]
    else:
        inc_v = [LD(dt) * al[:-1], LD(dt) * al[1:]]
        inc_d = [LD(dt) * vl[:-1], LD(dt) * vl[1:]]
    if case["exact"]:
        tol_v = np.zeros(n - 1)
        tol_d = np.zeros(n - 1)
    else:
        tol_v = 4 * EPS * (np.abs(v[1:]) + np.abs(v[:-1]) + np.abs(np.asarray(inc_v[0], dtype=float)))
        tol_d = 4 * EPS * (np.abs(d[1:]) + np.abs(d[:-1]) + np.abs(np.asarray(inc_d[0], dtype=float)))
    ok_v = [bool(np.all(np.abs(dv - iv) <= tol_v + core.TINY)) for iv in inc_v]
    ok_d = [bool(np.all(np.abs(dd - idd) <= tol_d + core.TINY)) for idd in inc_d]
    if not any(ok_v):
        j = int(np.argmax(np.abs(dv - inc_v[0]) - tol_v))
        ctx.fail("velocity increment %d: got %r, expected %r (trap=%s, dt=%r)" % (
            j + 1, float(dv[j]), float(inc_v[0][j]), trap, dt))
    if not any(ok_d):
        j = int(np.argmax(np.abs(dd - inc_d[0]) - tol_d))
        ctx.fail("displacement increment %d: got %r, expected %r (trap=%s, dt=%r)" % (
            j + 1, float(dd[j]), float(inc_d[0][j]), trap, dt))
    # global agreement with the long-double running sum (guards against drift hidden by local tolerances)
    which = ok_v.index(True)
    vref = np.concatenate([[LD(0)], np.cumsum(inc_v[which])])
    ctx.close(v, vref, np.concatenate([[0.0], _run_bound(np.asarray(inc_v[which], dtype=float))]) if not case["exact"] else 0.0,
              "velocity vs long-double running sum")


@clause(CLAUSES, "object-level", _cases(), quick=300, thorough=1500,
        rule="same generator; AccSignal(values, dt).velocity/.displacement/.pga/.pgv/.pgd and im.calc_peak; "
             "non-trivial = >= 2 sign changes",
        oracle="differential (object vs array level, exact) + reference max|.| (exact) + metamorphic sign flip / 2^k scaling (exact)")
def object_level(case, ctx):
    spec = case["rec"]
    a0 = gen.build(spec)
    arg = gen.as_container(spec, a0)
    a = np.array(arg, dtype=float)
    dt = case["dt"]
    _classify(ctx, spec, a, case)
    n = len(a)
    asig = ctx.lib(eqsig.AccSignal, arg, dt)
    v = ctx.lib(lambda: asig.velocity)
    d = ctx.lib(lambda: asig.displacement)
    v2, d2 = ctx.lib(disp_mod.calc_velo_and_disp_from_accel_arr, np.array(arg), dt, trap=True)
    ctx.equal(v, v2, "AccSignal.velocity vs array level")
    ctx.equal(d, d2, "AccSignal.displacement vs array level")
    ctx.shape(v, (n,), "velocity")
    for trap in (True, False):
        form = core.call_form(case)
        v3, d3 = ctx.libf(form, disp_mod.velocity_and_displacement_from_acceleration, ["trap"], np.array(arg), dt, trap=trap)
        v4, d4 = ctx.libf("kw" if form == "pos" else "pos", disp_mod.calc_velo_and_disp_from_accel_arr, ["trap"], np.array(arg), dt, trap=trap)
        ctx.equal(v3, v4, "velocity_and_displacement_from_acceleration vs calc_velo_and_disp_from_accel_arr (velocity, trap=%s)" % trap)
        ctx.equal(d3, d4, "velocity_and_displacement_from_acceleration vs calc_velo_and_disp_from_accel_arr (displacement, trap=%s)" % trap)
    if not case.get("trap", True):
        # switching trapezoid integration off at object level: on a fresh object and on one whose default series were already read
        for label, other in (("fresh object", ctx.lib(eqsig.AccSignal, arg, dt)), ("object with cached default series", asig)):
            ctx.libf(core.call_form(case), other.generate_displacement_and_velocity_series, ["trap"], trap=False)
            ctx.equal(other.velocity, v4, "generate_displacement_and_velocity_series(trap=False) velocity vs array level (%s)" % label)
            ctx.equal(other.displacement, d4, "generate_displacement_and_velocity_series(trap=False) displacement vs array level (%s)" % label)
            ctx.lib(other.generate_displacement_and_velocity_series, trap=True)
            ctx.equal(other.velocity, v2, "generate_displacement_and_velocity_series(trap=True) restores the trapezoid velocity (%s)" % label)
            ctx.equal(other.displacement, d2, "generate_displacement_and_velocity_series(trap=True) restores the trapezoid displacement (%s)" % label)
    pga = ctx.lib(lambda: asig.pga)
    pgv = ctx.lib(lambda: asig.pgv)
    pgd = ctx.lib(lambda: asig.pgd)
    ctx.check(pga == np.max(np.abs(a)), "pga %r != max|a| %r" % (pga, np.max(np.abs(a))))
    ctx.check(pgv == np.max(np.abs(v)), "pgv %r != max|v| %r" % (pgv, np.max(np.abs(v))))
    ctx.check(pgd == np.max(np.abs(d)), "pgd %r != max|d| %r" % (pgd, np.max(np.abs(d))))
    for name, ser in (("a", a), ("v", np.asarray(v)), ("d", np.asarray(d))):
        pk = ctx.lib(im.calc_peak, ser)
        ctx.check(pk == np.max(np.abs(ser)), "calc_peak(%s)=%r != max abs %r" % (name, pk, np.max(np.abs(ser))))
        pk2 = ctx.lib(im.calc_peak, -ser)
        ctx.check(pk2 == pk, "calc_peak not invariant to sign reversal: %r vs %r" % (pk2, pk))
    # second read is idempotent
    ctx.check(asig.pga == pga and asig.pgv == pgv and asig.pgd == pgd, "peak values changed on re-read")
    # the series and peaks describe the record the object holds NOW: repeat after an in-place edit handed back through
    # reset_values (the idiom the library's own baseline corrections use) and after such a correction
    if np.asarray(asig.values).dtype.kind == "f" and n >= 3 and np.any(a):
        m = ctx.lib(eqsig.AccSignal, np.array(a, dtype=float), dt)
        _ = (m.velocity, m.displacement, m.pga, m.pgv, m.pgd)
        vals = m.values
        vals[n // 2] += 0.5 * (np.max(np.abs(a)) or 1.0)
        ctx.lib(m.reset_values, vals)
        for step in ("edit + reset_values", "set_zero_residual_velocity"):
            if step == "set_zero_residual_velocity":
                try:
                    m.set_zero_residual_velocity()
                except Exception:  # noqa  (which records a correction accepts is not C08's business)
                    break
            cur = np.array(m.values, dtype=float)
            if not np.all(np.isfinite(cur)):
                break
            v6, d6 = disp_mod.calc_velo_and_disp_from_accel_arr(cur, dt, trap=True)
            ctx.equal(m.velocity, v6, "AccSignal.velocity vs array level after %s" % step)
            ctx.equal(m.displacement, d6, "AccSignal.displacement vs array level after %s" % step)
            ctx.check(m.pga == np.max(np.abs(cur)) and m.pgv == np.max(np.abs(v6)) and m.pgd == np.max(np.abs(d6)),
                      "peaks %r after %s do not match the current record (%r)" % (
                          (m.pga, m.pgv, m.pgd), step, (np.max(np.abs(cur)), np.max(np.abs(v6)), np.max(np.abs(d6)))))
        ctx.cls("after-edit")
    # sign flip and power-of-two scaling are exact
    k = case.get("k2", 3)
    flip = ctx.lib(eqsig.AccSignal, -a, dt)
    ctx.check(flip.pga == pga and flip.pgv == pgv and flip.pgd == pgd,
              "peaks not invariant to sign reversal: %r vs %r" % ((flip.pga, flip.pgv, flip.pgd), (pga, pgv, pgd)))
    sc = ctx.lib(eqsig.AccSignal, a * 2.0 ** k, dt)
    ctx.check(sc.pga == pga * 2.0 ** k and sc.pgv == pgv * 2.0 ** k and sc.pgd == pgd * 2.0 ** k,
              "peaks do not scale exactly by 2^%d" % k)


@st.composite
def _lin_cases(draw):
    n = draw(st.integers(2, 400))
    kind = draw(st.sampled_from(["const", "linear", "pair"]))
    case = {"n": n, "kind": kind, "dt": draw(gen.dts(1e-4, 2.0))}
    if kind == "const":
        case["c"] = draw(st.floats(-1e3, 1e3, allow_nan=False))
    elif kind == "linear":
        case["c"] = draw(st.floats(-1e3, 1e3, allow_nan=False))
        case["s"] = draw(st.floats(-1e3, 1e3, allow_nan=False))
    else:
        case["ra"] = draw(gen.record_specs(min_n=n, max_n=n, small_max=n, allow_zero_runs=False))
        case["rb"] = draw(gen.record_specs(min_n=n, max_n=n, small_max=n, allow_zero_runs=False))
        case["alpha"] = draw(gen.scalars())
        case["beta"] = draw(gen.scalars())
    return case


@clause(CLAUSES, "consequences", _lin_cases(), quick=600, thorough=3000,
        rule="constant / linearly varying records against closed forms, and pairs (a,b,alpha,beta) for linearity; "
             "non-trivial = non-zero record(s)",
        oracle="reference model (closed forms c*t, c*t^2/2, s*t^2/2) and metamorphic linearity, bound eps*(n+4)*running sum|increments|")
def consequences(case, ctx):
    n = case["n"]
    dt = case["dt"]
    t = np.arange(n, dtype=LD) * LD(dt)
    ctx.cls("kind=" + case["kind"], gen.size_class(n))
    f = disp_mod.calc_velo_and_disp_from_accel_arr
    if case["kind"] in ("const", "linear"):
        c = LD(case["c"])
        s = LD(case.get("s", 0.0))
        a = np.asarray(c + s * t, dtype=float)
        ctx.nt(bool(np.any(a != 0)))
        v, d = ctx.lib(f, a, dt, trap=True)
        al = a.astype(LD)
        # the trapezoid is exact for linearly varying a: v(t) = integral of the interpolant of the *stored* samples
        inc = LD(dt) * (al[1:] + al[:-1]) / 2
        vex = c * t + s * t * t / 2
        # stored samples differ from c+s*t by rounding eps*|a|; allow for that in the closed form comparison
        bound = np.concatenate([[0.0], _run_bound(np.asarray(inc, dtype=float))]) + EPS * np.asarray(np.abs(t), dtype=float) * np.max(np.abs(a)) * 2
        ctx.close(v, vex, bound, "velocity of %s acceleration vs closed form" % case["kind"])
        # displacement = trapezoid of the exact v (closed form for constant a: c t^2/2 exactly since v is linear)
        vl = np.asarray(v).astype(LD)
        incd = LD(dt) * (vl[1:] + vl[:-1]) / 2
        dref = np.concatenate([[LD(0)], np.cumsum(incd)])
        bd = np.concatenate([[0.0], _run_bound(np.asarray(incd, dtype=float))])
        ctx.close(d, dref, bd, "displacement vs trapezoid of velocity")
        if case["kind"] == "const":
            dex = c * t * t / 2
            bd2 = bd + np.asarray(np.abs(t), dtype=float) * np.concatenate([[0.0], np.maximum.accumulate(bound[1:])])
            ctx.close(d, dex, bd2, "displacement of constant acceleration vs c*t^2/2")
    else:
        a = gen.build(case["ra"])
        b = gen.build(case["rb"])
        al, be = case["alpha"], case["beta"]
        ctx.nt(bool(np.any(a != 0) and np.any(b != 0) and al != 0 and be != 0))
        va, da = ctx.lib(f, a, dt, trap=True)
        vb, db = ctx.lib(f, b, dt, trap=True)
        vc, dc = ctx.lib(f, al * a + be * b, dt, trap=True)
        terms = dt * (abs(al) * np.abs(a) + abs(be) * np.abs(b))
        bv = 4 * EPS * (n + 4) * np.cumsum(terms)
        ctx.close(vc, al * np.asarray(va) + be * np.asarray(vb), bv, "velocity linearity")
        bdd = 4 * EPS * (n + 4) * np.cumsum(dt * np.cumsum(terms)) + dt * np.cumsum(bv)
        ctx.close(dc, al * np.asarray(da) + be * np.asarray(db), bdd, "displacement linearity")
        # general |alpha| scaling of the peaks
        if al != 0 and np.any(a != 0):
            s0 = eqsig.AccSignal(a, dt)
            s1 = eqsig.AccSignal(al * a, dt)
            ctx.check(abs(s1.pga - abs(al) * s0.pga) <= 4 * EPS * abs(al) * s0.pga, "pga does not scale with |alpha|")
            ctx.check(abs(s1.pgv - abs(al) * s0.pgv) <= abs(al) * 4 * EPS * (n + 4) * dt * np.sum(np.abs(a)),
                      "pgv does not scale with |alpha|: %r vs %r" % (s1.pgv, abs(al) * s0.pgv))


# ---------------------------------------------------------------------------
# every small length: peak functions on records whose largest |value| is negative / positive, at the first, a middle and
# the last sample (a length- or position-specific slip cannot hide between the randomly drawn lengths)


def _small_peak_enum(tier, shard, nshards):
    top = 48 if tier == "quick" else 160
    k = 0
    for n in range(2, top + 1):
        for where in ("first", "mid", "last"):
            for sign in (-1.0, 1.0):
                if k % nshards == shard:
                    yield {"n": n, "where": where, "sign": sign}
                k += 1


@enum_clause(CLAUSES, "peak-small-lengths", _small_peak_enum,
             rule="every length 2..48 (thorough 2..160) x position of the largest |value| (first / middle / last) x its sign",
             oracle="reference model: im.calc_peak == max|x| for the record, its velocity and displacement; AccSignal.pga / pgv / pgd == "
                    "max|.| of the respective series; invariant to sign reversal",
             exhaustive_note="lengths x {first, middle, last} x {+, -}", quick_shards=1)
def peak_small_lengths(case, ctx):
    n, where, sign = int(case["n"]), case["where"], float(case["sign"])
    i = np.arange(n, dtype=float)
    a = 0.4 * np.cos(1.7 * i + 0.3) * (1.0 + 0.01 * i)          # |.| < 0.9 for n <= 160
    pos = {"first": 0, "mid": n // 2, "last": n - 1}[where]
    a[pos] = sign * 2.0
    ctx.nt(True)
    asig = ctx.lib(eqsig.AccSignal, a.copy(), 0.01)
    v = np.asarray(ctx.lib(lambda: asig.velocity))
    d = np.asarray(ctx.lib(lambda: asig.displacement))
    for name, ser in (("acceleration", a), ("velocity", v), ("displacement", d)):
        want = float(np.max(np.abs(ser)))
        for s_, lab in ((1.0, ""), (-1.0, " (sign reversed)")):
            pk = ctx.lib(im.calc_peak, s_ * ser)
            ctx.check(pk == want, "calc_peak(%s%s) = %r, max|.| = %r (n=%d, largest value %s at sample %d)" % (
                name, lab, pk, want, n, "negative" if sign < 0 else "positive", pos))
    ctx.check(asig.pga == 2.0 and asig.pgv == float(np.max(np.abs(v))) and asig.pgd == float(np.max(np.abs(d))),
              "pga / pgv / pgd = %r / %r / %r vs max|.| (n=%d)" % (asig.pga, asig.pgv, asig.pgd, n))


# very long records (continuous monitoring): lengths around 2^20 and 2^21


def _giant_enum(tier, shard, nshards):
    ns = [2 ** 20 + 2, 2 ** 20 + 6000] if tier == "quick" else [2 ** 20 - 1, 2 ** 20 + 2, 2 ** 20 + 6000, 2 ** 21 + 5, 3 * 2 ** 20 + 17]
    for i, n in enumerate(ns):
        if i % nshards == shard:
            yield {"n": n, "dt": 0.005, "seed": 11 + i}


@enum_clause(CLAUSES, "giant-records", _giant_enum,
             rule="fixed very long records (about 1-3 million samples) at object and array level",
             oracle="reference model: long-double cumulative trapezoid (bound eps*(k+4)*running sum|increments|); object level == array level "
                    "(exact); peaks == max|.|",
             exhaustive_note="the listed lengths", quick_shards=2)
def giant_records(case, ctx):
    n, dt = case["n"], case["dt"]
    a = np.random.RandomState(case["seed"]).standard_normal(n) * np.hanning(n) + 0.01
    ctx.nt(True)
    asig = ctx.lib(eqsig.AccSignal, a, dt)
    v = np.asarray(ctx.lib(lambda: asig.velocity))
    d = np.asarray(ctx.lib(lambda: asig.displacement))
    v2, d2 = ctx.lib(disp_mod.calc_velo_and_disp_from_accel_arr, a, dt, trap=True)
    ctx.equal(v, v2, "AccSignal.velocity vs array level (n=%d)" % n)
    ctx.equal(d, d2, "AccSignal.displacement vs array level (n=%d)" % n)
    al = a.astype(LD)
    inc_v = LD(dt) * (al[1:] + al[:-1]) / 2
    vref = np.concatenate([[LD(0)], np.cumsum(inc_v)])
    ctx.close(v, vref, np.concatenate([[0.0], _run_bound(np.asarray(inc_v, dtype=float))]), "velocity vs long-double running sum (n=%d)" % n)
    vl = v.astype(LD)
    inc_d = LD(dt) * (vl[1:] + vl[:-1]) / 2
    dref = np.concatenate([[LD(0)], np.cumsum(inc_d)])
    ctx.close(d, dref, np.concatenate([[0.0], _run_bound(np.asarray(inc_d, dtype=float))]), "displacement vs long-double running sum (n=%d)" % n)
    ctx.check(asig.pga == np.max(np.abs(a)) and asig.pgv == np.max(np.abs(v)) and asig.pgd == np.max(np.abs(d)), "peaks of a giant record")
