"""C08 - velocity / displacement are cumulative trapezoid integrals; peaks are max abs."""
import hashlib
import math

import numpy as np
from hypothesis import strategies as st

import eqsig
from eqsig import displacements as disp_mod
from eqsig import im

from pbt import core, gen
from pbt.core import clause, enum_clause

PROPERTY = "C08"
CLAUSES = []
ASSUMPTIONS = [
    "records are finite float64 arrays or int64 / int32 / int16 / int8 / list / non-contiguous / negative-stride / read-only variants, "
    "2 <= n <= 5000 (drawn), 60 000..150 000 (drawn, 1 in 40), 2 000..300 000 (mid-range ladder, thorough to 2e6), about 1e6..3e6 "
    "(giant-records); |a| <= 1e9 (int32 counts to 2^31).  float32 records are not generated here",
    "trap is True / False as a python bool, a numpy bool or the integer 1 / 0 (all equal to True / False), by keyword or positionally",
    "narrow integer records (int16 / int32 / int8 counts using the type's full range, gen.narrow_int) with float time steps and with "
    "integer ones (python int, numpy int16 / int64) under both rules, at array and object level",
    "rectangle rule (trap=False): either endpoint accepted as long as it is the same for every i and the series start at 0 "
    "(the statement does not fix the endpoint)",
    "rounding, local: |(s[i]-s[i-1]) - increment| <= 4 eps (2 max_{j<=i}|s[j]| + dt (|x[i]|+|x[i-1]|)/2): the intermediates of ANY "
    "evaluation order (sequential, blocked with a carry, prefix scan) are sums over sub-ranges of [0, i], each at most "
    "2 max_{j<=i}|s[j]|; exact equality on dyadic data (every order is exact there)",
    "rounding, global: |s[k] - long-double running sum| <= eps (k+4) sum_{i<=k} dt (|x[i]|+|x[i-1]|)/2 (any summation order of k terms)",
    "object level (AccSignal) is held to the same reference model as the array level, not to bit-equality with it; after "
    "reset_values(new array) and after the library's own set_zero_residual_velocity the series and peaks are those of the record the "
    "object holds now (the statement quantifies over every record an object can hold)",
    "integer variant: counts round(a * s) with s chosen so that the largest |count| is 10^3..10^6 (int64)",
]
EPS = np.finfo(float).eps
LD = np.longdouble


def _hh(*parts):
    return int(hashlib.blake2b(":".join(str(p) for p in parts).encode(), digest_size=8).hexdigest(), 16)


def _hu(*parts):
    return (_hh(*parts) % 10 ** 6) / 1e6


def _dyadic_dt():
    return st.integers(-10, 2).map(lambda k: 2.0 ** k)


@st.composite
def _cases(draw, long_one_in=40):
    if draw(st.integers(0, long_one_in - 1)) == 0:
        # very long records (tens of minutes at 100-200 Hz)
        spec = draw(gen.record_specs(min_n=60000, max_n=150000, kinds=["noise", "quake", "walk", "sines"], allow_zero_runs=False))
    else:
        spec = draw(gen.record_specs(min_n=2, max_n=5000, allow_int=True))
    exact = spec["k"] == "dyadic" and draw(st.booleans())
    dt = draw(_dyadic_dt()) if exact else draw(gen.dts(1e-4, 2.0))
    return {"rec": spec, "dt": dt, "trap": draw(st.booleans()), "exact": exact, "alias": draw(st.booleans()),
            "order": draw(st.integers(0, 119)), "k2": draw(st.integers(-8, 8)), "peek": draw(st.integers(0, 3)),
            "narrow": draw(st.sampled_from([None, None, None, None, None, "int16", "int32", "int8"])),
            "flag": draw(st.sampled_from(["py", "py", "np", "int"])),
            "dti": draw(st.sampled_from([None, None, "py2", "py3", "np16", "np64"]))}


def _flag(trap, how):
    """The trap flag as a python bool, a numpy bool or an integer: all of them are True / False."""
    return {"py": bool(trap), "np": np.bool_(trap), "int": int(bool(trap))}[how or "py"]


def _case_dt(case):
    """The time step of a case; narrow-integer records also come with integer time steps (python int, numpy int16 / int64)."""
    how = case.get("dti") if case.get("narrow") else None
    if not how:
        return case["dt"]
    return {"py2": 2, "py3": 3, "np16": np.int16(2), "np64": np.int64(2)}[how]


def _container(spec, a0, narrow=None):
    """(what the caller hands over, the float64 values it stands for)."""
    if narrow:
        if narrow.endswith("!"):  # the values as they are, cast (corpus cases)
            arg = np.array(np.round(a0), dtype=narrow[:-1])
            return arg, arg.astype(float)
        return gen.narrow_int(a0, narrow)
    if spec.get("as") == "int":
        top = float(np.max(np.abs(a0))) if len(a0) else 0.0
        s = 10.0 ** (3 + _hh("int", len(a0), spec.get("seed", 0)) % 4) / top if 0 < top < 1e3 else 1.0
        arg = np.array(np.round(a0 * s), dtype=np.int64)
        return arg, arg.astype(float)
    arg = gen.as_container(spec, a0)
    return arg, np.array(arg, dtype=float)


def _classify(ctx, spec, a, case):
    ctx.cls("kind=" + spec["k"], gen.size_class(len(a)), "trap" if case.get("trap", True) else "rect",
            "narrow=" + case["narrow"] if case.get("narrow") else None, "flag=" + case.get("flag", "py"))
    if case.get("exact"):
        ctx.cls("exact-dyadic")
    if spec.get("as"):
        ctx.cls("as=" + spec["as"])
    ctx.nt(gen.sign_changes(a) >= 2)


def _run_bound(terms):
    """eps*(k+4)*running sum |terms| for a sum of k terms accumulated in any order."""
    k = np.arange(1, len(terms) + 1, dtype=float)
    return EPS * (k + 4) * np.cumsum(np.abs(terms))


def _check_integral(ctx, what, x, s, dt, trap, exact):
    """s is the cumulative integral of x: starts at 0; s[i]-s[i-1] = dt (x[i]+x[i-1])/2 (trap) or dt x[i-1] / dt x[i] for every i (rectangle);
    and s agrees with the long-double running sum of those increments (no drift hidden by the local tolerance)."""
    n = len(x)
    ctx.shape(s, (n,), what)
    ctx.check(s[0] == 0, "%s does not start at zero: %r" % (what, s[0]))
    xl = np.asarray(x).astype(LD)
    sl = np.asarray(s).astype(LD)
    ds = sl[1:] - sl[:-1]
    if trap:
        cands = [("trapezoid", LD(dt) * (xl[1:] + xl[:-1]) / 2)]
    else:
        cands = [("left rectangle", LD(dt) * xl[:-1]), ("right rectangle", LD(dt) * xl[1:])]
    ax = np.abs(np.asarray(x, dtype=float))
    terms = abs(dt) * (ax[1:] + ax[:-1]) / 2
    if exact:
        tol = np.zeros(n - 1)
        gtol = np.zeros(n)
    else:
        runmax = np.maximum.accumulate(np.abs(np.asarray(s, dtype=float)))
        tol = 4 * EPS * (2 * runmax[1:] + terms)
        gtol = np.concatenate([[0.0], _run_bound(terms)])
    worst = None
    for name, inc in cands:
        err = np.abs(ds - inc)
        if bool(np.all(err <= tol + core.TINY)):
            ref = np.concatenate([[LD(0)], np.cumsum(inc)])
            ctx.close(s, ref, gtol, "%s vs long-double running sum of the %s increments (n=%d)" % (what, name, n))
            return name
        j = int(np.argmax(err - tol))
        if worst is None:
            worst = (j, float(ds[j]), float(inc[j]), name)
    j, got, want, name = worst
    ctx.fail("%s increment %d: got %r, expected %r (%s%s, dt=%r, n=%d)" % (
        what, j + 1, got, want, name, "" if trap else " - nor the other endpoint throughout", dt, n))


def _check_series(ctx, what, a, dt, v, d, trap, exact=False):
    """The statement for one (record, velocity, displacement) triple."""
    a = np.asarray(a, dtype=float)
    v = np.asarray(v)
    d = np.asarray(d)
    ctx.check(v.dtype.kind == "f" and d.dtype.kind == "f", "%s: series of dtype %s / %s" % (what, v.dtype, d.dtype))
    _check_integral(ctx, what + " velocity", a, v, dt, trap, exact)
    _check_integral(ctx, what + " displacement", v, d, dt, trap, exact)


def _maxabs(x):
    return np.max(np.abs(np.asarray(x)))


_READS = ["velocity", "displacement", "pga", "pgv", "pgd"]


def _read_order(k):
    """k in 0..119 -> a permutation of the five lazily loaded attributes (k // 24 is the attribute read first)."""
    names = list(_READS)
    out = []
    k = int(k) % 120
    for base in (24, 6, 2, 1, 1):
        out.append(names.pop((k // base) % len(names)))
        k %= base
    return out


def _order_first(first, k):
    """A read order beginning with _READS[first]; the rest permuted by k."""
    return _read_order(24 * (int(first) % 5) + int(k) % 24)


def _check_object(ctx, what, asig, a, dt, trap, order, exact=False):
    """Read the five attributes of an AccSignal in the given order and hold them to the statement for the record `a`."""
    got = {}
    for name in order:
        got[name] = ctx.lib(lambda nm=name: getattr(asig, nm))
    _check_series(ctx, what, a, dt, got["velocity"], got["displacement"], trap, exact)
    want = {"pga": _maxabs(a), "pgv": _maxabs(got["velocity"]), "pgd": _maxabs(got["displacement"])}
    for name in ("pga", "pgv", "pgd"):
        ctx.check(got[name] == want[name], "%s: %s = %r, max|.| of the series = %r (read order %s)" % (what, name, got[name], want[name], order))
        again = ctx.lib(lambda nm=name: getattr(asig, nm))
        ctx.check(again == got[name], "%s: %s changed on re-read: %r then %r" % (what, name, got[name], again))
    return got


@clause(CLAUSES, "increments", _cases(), quick=600, thorough=2400,
        rule="records of all kinds (n 2..5000, float64 / int64 / list / view / negative stride / read-only), dt log-uniform or dyadic, "
             "trap in {T,F} by keyword or positionally, either array-level entry point; non-trivial = record has >= 2 sign changes",
        oracle="reference model: long-double loop over the defining increments (local bound) and their running sum (global bound) for "
               "velocity and displacement; equality on dyadic data",
        require={"as=list": 0.02, "rect": 0.25, "narrow=int16": 0.04, "flag=np": 0.1})
def increments(case, ctx):
    spec = case["rec"]
    a0 = gen.build(spec)
    arg, a = _container(spec, a0, case.get("narrow"))
    dt = _case_dt(case)
    ctx.cls("int-dt" if dt is not case["dt"] else None)
    trap = case["trap"]
    _classify(ctx, spec, a, case)
    fn = disp_mod.velocity_and_displacement_from_acceleration if case.get("alias") else disp_mod.calc_velo_and_disp_from_accel_arr
    ctx.cls("entry=" + ("alias" if case.get("alias") else "calc"))
    # the flag by keyword, or positionally as documented (acceleration, dt, trap) in one case out of three
    v, d = ctx.libf(core.call_form(case), fn, ["trap"], arg, dt, trap=_flag(trap, case.get("flag")))
    _check_series(ctx, "%s(trap=%r)" % (fn.__name__, _flag(trap, case.get("flag"))), a, dt, v, d, trap, case["exact"])
    if trap:
        v, d = ctx.lib(fn, arg, dt)
        _check_series(ctx, fn.__name__ + " (default trap)", a, dt, v, d, True, case["exact"])


@clause(CLAUSES, "object-level", _cases(long_one_in=200), quick=300, thorough=1500,
        rule="same generator; AccSignal(values, dt): velocity / displacement / pga / pgv / pgd read in a drawn order (each of them first in a "
             "fifth of the cases), switching the rectangle rule on and off with peaks read in between, a new record through reset_values, "
             "im.calc_peak; non-trivial = >= 2 sign changes",
        oracle="reference model (as `increments`) on the object's series + peaks == max|.| (exact: a maximum is one of the values) + "
               "metamorphic sign flip / 2^k scaling (exact)",
        require={"first=displacement": 0.08, "first=pgd": 0.08, "rect": 0.25})
def object_level(case, ctx):
    spec = case["rec"]
    a0 = gen.build(spec)
    arg, a = _container(spec, a0, case.get("narrow"))
    dt = _case_dt(case)
    ctx.cls("int-dt" if dt is not case["dt"] else None)
    exact = case["exact"]
    _classify(ctx, spec, a, case)
    n = len(a)
    order = _read_order(case.get("order", 0))
    ctx.cls("first=" + order[0])
    asig = ctx.lib(eqsig.AccSignal, arg, dt)
    got = _check_object(ctx, "AccSignal", asig, a, dt, True, order, exact)
    pga, pgv, pgd = got["pga"], got["pgv"], got["pgd"]
    v, d = np.asarray(got["velocity"]), np.asarray(got["displacement"])
    if not case.get("trap", True):
        # switching trapezoid integration off at object level: on a fresh object (nothing read yet) and on one whose default series
        # and peaks were already read; the peaks read after each switch are those of the series generated last
        peek = case.get("peek", 0)
        for label, other in (("fresh object", ctx.lib(eqsig.AccSignal, arg, dt)), ("object with cached default series", asig)):
            ctx.libf(core.call_form(case), other.generate_displacement_and_velocity_series, ["trap"], trap=_flag(False, case.get("flag")))
            o2 = _order_first(3 + peek % 2, case.get("order", 0))  # pgv or pgd first
            _check_object(ctx, "after generate_displacement_and_velocity_series(trap=False), %s:" % label, other, a, dt, False, o2, exact)
            if peek >= 2:
                ctx.lib(other.generate_displacement_and_velocity_series)
            else:
                ctx.lib(other.generate_displacement_and_velocity_series, trap=_flag(True, case.get("flag")))
            _check_object(ctx, "after generate_displacement_and_velocity_series(trap=True) again, %s:" % label, other, a, dt, True,
                          _order_first(4 - peek % 2, case.get("order", 0) // 5), exact)
    if case.get("narrow"):
        pk = ctx.lib(im.calc_peak, arg)
        ctx.check(pk == _maxabs(a), "calc_peak(%s record)=%r != max abs %r" % (case["narrow"], pk, _maxabs(a)))
    for name, ser in (("a", a), ("v", v), ("d", d)):
        pk = ctx.lib(im.calc_peak, ser)
        ctx.check(pk == _maxabs(ser), "calc_peak(%s)=%r != max abs %r" % (name, pk, _maxabs(ser)))
        pk2 = ctx.lib(im.calc_peak, -ser)
        ctx.check(pk2 == pk, "calc_peak not invariant to sign reversal: %r vs %r" % (pk2, pk))
    if n <= 2000:
        pk3 = ctx.lib(im.calc_peak, [float(x) for x in a])
        ctx.check(pk3 == _maxabs(a), "calc_peak(list)=%r != max abs %r" % (pk3, _maxabs(a)))
    # the series and peaks describe the record the object holds NOW: a new record handed over through reset_values, then the
    # library's own residual-velocity correction
    if n >= 3 and np.any(a):
        m = ctx.lib(eqsig.AccSignal, np.array(a, dtype=float), dt)
        for name in order[:1 + case.get("order", 0) % 5]:
            getattr(m, name)
        new = np.array(a, dtype=float)
        new[n // 2] += 0.5 * float(_maxabs(a))
        ctx.lib(m.reset_values, new)
        for step in ("reset_values(new record)", "set_zero_residual_velocity"):
            if step == "set_zero_residual_velocity":
                try:
                    m.set_zero_residual_velocity()
                except Exception:  # noqa  (which records a correction accepts is not C08's business)
                    break
            cur = np.array(m.values, dtype=float)
            if not np.all(np.isfinite(cur)):
                break
            _check_object(ctx, "after %s:" % step, m, cur, dt, True, _read_order(case.get("order", 0) * 13 + 5 + 24 * (step != "set_zero_residual_velocity")), False)
        ctx.cls("after-edit")
    # sign flip and power-of-two scaling are exact
    k = case.get("k2", 3)
    flip = ctx.lib(eqsig.AccSignal, -a, dt)
    ctx.check(flip.pgd == pgd and flip.pgv == pgv and flip.pga == pga,
              "peaks not invariant to sign reversal: %r vs %r" % ((flip.pga, flip.pgv, flip.pgd), (pga, pgv, pgd)))
    sc = ctx.lib(eqsig.AccSignal, a * 2.0 ** k, dt)
    ctx.check(sc.pga == pga * 2.0 ** k and sc.pgd == pgd * 2.0 ** k and sc.pgv == pgv * 2.0 ** k,
              "peaks do not scale exactly by 2^%d" % k)


@st.composite
def _lin_cases(draw):
    n = draw(st.integers(2, 400))
    kind = draw(st.sampled_from(["const", "linear", "pair"]))
    case = {"n": n, "kind": kind, "dt": draw(gen.dts(1e-4, 2.0))}
    if kind == "const":
        case["c"] = draw(st.floats(-1e3, 1e3, allow_nan=False))
    elif kind == "linear":
        case["c"] = draw(st.floats(-1e3, 1e3, allow_nan=False))
        case["s"] = draw(st.floats(-1e3, 1e3, allow_nan=False))
    else:
        case["ra"] = draw(gen.record_specs(min_n=n, max_n=n, small_max=n, allow_zero_runs=False))
        case["rb"] = draw(gen.record_specs(min_n=n, max_n=n, small_max=n, allow_zero_runs=False))
        case["alpha"] = draw(gen.scalars())
        case["beta"] = draw(gen.scalars())
        case["trap"] = draw(st.booleans())
    return case


def _closed_forms(ctx, c, s, n, dt, kind):
    """Constant / linearly varying acceleration against c t, c t^2/2, s t^2/2 (the trapezoid is exact for them)."""
    f = disp_mod.calc_velo_and_disp_from_accel_arr
    t = np.arange(n, dtype=LD) * LD(dt)
    c = LD(c)
    s = LD(s)
    a = np.asarray(c + s * t, dtype=float)
    v, d = ctx.lib(f, a, dt, trap=True)
    al = a.astype(LD)
    # the trapezoid is exact for linearly varying a: v(t) = integral of the interpolant of the *stored* samples
    inc = LD(dt) * (al[1:] + al[:-1]) / 2
    vex = c * t + s * t * t / 2
    # stored samples differ from c+s*t by rounding eps*|a|; allow for that in the closed form comparison
    bound = np.concatenate([[0.0], _run_bound(np.asarray(inc, dtype=float))]) + EPS * np.asarray(np.abs(t), dtype=float) * np.max(np.abs(a)) * 2
    ctx.close(v, vex, bound, "velocity of %s acceleration vs closed form (n=%d)" % (kind, n))
    # displacement = trapezoid of the exact v (closed form for constant a: c t^2/2 exactly since v is linear)
    vl = np.asarray(v).astype(LD)
    incd = LD(dt) * (vl[1:] + vl[:-1]) / 2
    dref = np.concatenate([[LD(0)], np.cumsum(incd)])
    bd = np.concatenate([[0.0], _run_bound(np.asarray(incd, dtype=float))])
    ctx.close(d, dref, bd, "displacement vs trapezoid of velocity (n=%d)" % n)
    if kind == "const":
        dex = c * t * t / 2
        bd2 = bd + np.asarray(np.abs(t), dtype=float) * np.concatenate([[0.0], np.maximum.accumulate(bound[1:])])
        ctx.close(d, dex, bd2, "displacement of constant acceleration vs c*t^2/2 (n=%d)" % n)
    return a


def _linearity(ctx, a, b, al, be, dt, trap):
    f = disp_mod.calc_velo_and_disp_from_accel_arr
    n = len(a)
    va, da = ctx.lib(f, a, dt, trap=trap)
    vb, db = ctx.lib(f, b, dt, trap=trap)
    vc, dc = ctx.lib(f, al * a + be * b, dt, trap=trap)
    terms = dt * (abs(al) * np.abs(a) + abs(be) * np.abs(b))
    bv = 4 * EPS * (n + 4) * np.cumsum(terms)
    ctx.close(vc, al * np.asarray(va) + be * np.asarray(vb), bv, "velocity linearity (trap=%s, n=%d)" % (trap, n))
    bdd = 4 * EPS * (n + 4) * np.cumsum(dt * np.cumsum(terms)) + dt * np.cumsum(bv)
    ctx.close(dc, al * np.asarray(da) + be * np.asarray(db), bdd, "displacement linearity (trap=%s, n=%d)" % (trap, n))


@clause(CLAUSES, "consequences", _lin_cases(), quick=600, thorough=3000,
        rule="constant / linearly varying records against closed forms, and pairs (a,b,alpha,beta) for linearity under either rule; "
             "non-trivial = non-zero record(s)",
        oracle="reference model (closed forms c*t, c*t^2/2, s*t^2/2) and metamorphic linearity / |alpha| scaling of pga, pgv, pgd, "
               "bound eps*(n+4)*running sum|increments|")
def consequences(case, ctx):
    n = case["n"]
    dt = case["dt"]
    ctx.cls("kind=" + case["kind"], gen.size_class(n))
    if case["kind"] in ("const", "linear"):
        a = _closed_forms(ctx, case["c"], case.get("s", 0.0), n, dt, case["kind"])
        ctx.nt(bool(np.any(a != 0)))
    else:
        a = gen.build(case["ra"])
        b = gen.build(case["rb"])
        al, be = case["alpha"], case["beta"]
        trap = case.get("trap", True)
        ctx.cls("trap" if trap else "rect")
        ctx.nt(bool(np.any(a != 0) and np.any(b != 0) and al != 0 and be != 0))
        _linearity(ctx, a, b, al, be, dt, trap)
        # general |alpha| scaling of the peaks
        if al != 0 and np.any(a != 0):
            s0 = eqsig.AccSignal(a, dt)
            s1 = eqsig.AccSignal(al * a, dt)
            ctx.check(abs(s1.pga - abs(al) * s0.pga) <= 4 * EPS * abs(al) * s0.pga, "pga does not scale with |alpha|")
            bv = abs(al) * 4 * EPS * (n + 4) * dt * np.sum(np.abs(a))
            ctx.check(abs(s1.pgv - abs(al) * s0.pgv) <= bv, "pgv does not scale with |alpha|: %r vs %r" % (s1.pgv, abs(al) * s0.pgv))
            bd = abs(al) * 4 * EPS * (n + 4) * dt * dt * float(np.sum(np.cumsum(np.abs(a)))) + dt * n * bv
            ctx.check(abs(s1.pgd - abs(al) * s0.pgd) <= bd, "pgd does not scale with |alpha|: %r vs %r" % (s1.pgd, abs(al) * s0.pgd))


# ---------------------------------------------------------------------------
# every small length: peak functions on records whose largest |value| is negative / positive, at the first, a middle and
# the last sample (a length- or position-specific slip cannot hide between the randomly drawn lengths)


def _small_peak_enum(tier, shard, nshards):
    top = 48 if tier == "quick" else 160
    k = 0
    for n in range(2, top + 1):
        for where in ("first", "mid", "last"):
            for sign in (-1.0, 1.0):
                if k % nshards == shard:
                    yield {"n": n, "where": where, "sign": sign}
                k += 1


@enum_clause(CLAUSES, "peak-small-lengths", _small_peak_enum,
             rule="every length 2..48 (thorough 2..160) x position of the largest |value| (first / middle / last) x its sign; arrays and lists",
             oracle="reference model: im.calc_peak (and its deprecated twin calculate_peak) == max|x| for the record, its velocity and "
                    "displacement; AccSignal.pga / pgv / pgd == max|.| of the respective series; invariant to sign reversal",
             exhaustive_note="lengths x {first, middle, last} x {+, -}", quick_shards=1)
def peak_small_lengths(case, ctx):
    n, where, sign = int(case["n"]), case["where"], float(case["sign"])
    i = np.arange(n, dtype=float)
    a = 0.4 * np.cos(1.7 * i + 0.3) * (1.0 + 0.01 * i)          # |.| < 0.9 for n <= 160
    pos = {"first": 0, "mid": n // 2, "last": n - 1}[where]
    a[pos] = sign * 2.0
    ctx.nt(True)
    asig = ctx.lib(eqsig.AccSignal, a.copy(), 0.01)
    order = _read_order(_hh("small", n, where, sign) % 120)
    got = {name: ctx.lib(lambda nm=name: getattr(asig, nm)) for name in order}
    v = np.asarray(got["velocity"])
    d = np.asarray(got["displacement"])
    for name, ser in (("acceleration", a), ("velocity", v), ("displacement", d)):
        want = float(np.max(np.abs(ser)))
        for s_, lab in ((1.0, ""), (-1.0, " (sign reversed)")):
            for fn in (im.calc_peak, im.calculate_peak):
                for cont in ("array", "list"):
                    ser2 = s_ * ser if cont == "array" else [float(x) for x in s_ * ser]
                    pk = ctx.lib(fn, ser2)
                    ctx.check(pk == want, "%s(%s%s as %s) = %r, max|.| = %r (n=%d, largest value %s at sample %d)" % (
                        fn.__name__, name, lab, cont, pk, want, n, "negative" if sign < 0 else "positive", pos))
    ctx.check(got["pga"] == 2.0 and got["pgv"] == float(np.max(np.abs(v))) and got["pgd"] == float(np.max(np.abs(d))),
              "pga / pgv / pgd = %r / %r / %r vs max|.| (n=%d, read order %s)" % (got["pga"], got["pgv"], got["pgd"], n, order))
    # the same record as raw counts using the full range of a narrow integer type (a negative largest value is the type's minimum)
    for dtype in gen.NARROW_DTYPES:
        c, ex = gen.narrow_int(a, dtype)
        for fn in (im.calc_peak, im.calculate_peak):
            pk = ctx.lib(fn, c)
            ctx.check(pk == _maxabs(ex), "%s(%s record) = %r, max|.| = %r (n=%d, largest value %s at sample %d)" % (
                fn.__name__, dtype, pk, _maxabs(ex), n, "negative" if sign < 0 else "positive", pos))
        _check_object(ctx, "AccSignal(%s record, n=%d)" % (dtype, n), ctx.lib(eqsig.AccSignal, c, 0.01), ex, 0.01, True, order)
        dtn = [0.01, 2, np.int16(3)][n % 3]
        v2, d2 = ctx.lib(disp_mod.calc_velo_and_disp_from_accel_arr, c, dtn, trap=bool(n % 2))
        _check_series(ctx, "calc_velo_and_disp_from_accel_arr(%s record, dt=%r, trap=%s)" % (dtype, dtn, bool(n % 2)), ex, dtn, v2, d2, bool(n % 2))


# very long records (continuous monitoring): lengths around 2^20 and 2^21


def _giant_enum(tier, shard, nshards):
    ns = [2 ** 20 + 2, 2 ** 20 + 6000] if tier == "quick" else [2 ** 20 - 1, 2 ** 20 + 2, 2 ** 20 + 6000, 2 ** 21 + 5, 3 * 2 ** 20 + 17]
    for i, n in enumerate(ns):
        if i % nshards == shard:
            yield {"n": n, "dt": 0.005, "seed": 11 + i}


@enum_clause(CLAUSES, "giant-records", _giant_enum,
             rule="fixed very long records (about 1-3 million samples) at object and array level",
             oracle="reference model: long-double cumulative trapezoid (local bound + eps*(k+4)*running sum|increments|) at both levels; "
                    "peaks == max|.|",
             exhaustive_note="the listed lengths", quick_shards=2)
def giant_records(case, ctx):
    n, dt = case["n"], case["dt"]
    a = np.random.RandomState(case["seed"]).standard_normal(n) * np.hanning(n) + 0.01
    ctx.nt(True)
    asig = ctx.lib(eqsig.AccSignal, a, dt)
    _check_object(ctx, "AccSignal (n=%d)" % n, asig, a, dt, True, _read_order(case["seed"] * 37))
    v2, d2 = ctx.lib(disp_mod.calc_velo_and_disp_from_accel_arr, a, dt, trap=True)
    _check_series(ctx, "calc_velo_and_disp_from_accel_arr (n=%d)" % n, a, dt, v2, d2, True)


# ---------------------------------------------------------------------------
# mid-range sizes and option crosses (notes/brief_midrange.md).  A code path that exists only inside a window of record lengths
# (a blocked integration with a carry, a chunked maximum, a cache kept for mid-size records) is invisible between the drawn lengths
# (<= 5000, a few 60 000..150 000) and the giant ones (>= 2^20).  One length per logarithmic bin (placed by VERIF_SEED) plus lengths
# aimed at the integer literals of the tree under test; at every length BOTH integration rules, BOTH array-level entry points, the
# object level with a hashed read order, a history (switch the rule, hand over a new record of another length), linearity and the
# closed forms - every sample of every output is held to the reference model.

_MID_DTS = [0.0025, 0.004, 0.005, 0.01, 0.02, 1.0 / 128, 0.05]
_MID_CONT = ["int", "list", "view", "negstride", "readonly"]


def _mid_record(n, seed, kind="burst"):
    """Ordinary, nowhere-zero data whose every stretch is distinct: noise x envelope + sine + offset (non-zero mean)."""
    rs = np.random.RandomState(seed % (2 ** 31 - 1))
    t = (np.arange(n) + 1.0) / n
    if kind == "walk":
        x = np.cumsum(rs.standard_normal(n)) / math.sqrt(n) + 0.1 * rs.standard_normal(n) + 0.02
    elif kind == "sines":
        x = np.sin(2 * math.pi * (3 + seed % 17) * t + 0.4) + 0.5 * np.sin(2 * math.pi * (0.37 * n / (5 + seed % 7)) * t) + 0.03 * rs.standard_normal(n) - 0.04
    else:
        env = 0.15 + 1.8 * (4 * t) ** 2 * np.exp(-4 * t)
        x = rs.standard_normal(n) * env + 0.3 * np.sin(2 * math.pi * (5 + seed % 23) * t + 0.7) + 0.05
    return x * 10.0 ** (seed % 5 - 2)


def _mid_container(a, how):
    if how == "int":
        top = float(np.max(np.abs(a)))
        arg = np.array(np.round(a * (1e5 / top)), dtype=np.int64)
        return arg, arg.astype(float)
    arg = gen.as_container({"as": how}, a)
    return arg, np.array(arg, dtype=float)


def _mid_sizes(tier, tag):
    if tier == "quick":
        return gen.size_ladder(2000, 300000, 14, tag, mined_limit=8)
    return gen.size_ladder(2000, 2000000, 36, tag + ":t", mined_limit=24)


def _mid_enum(tier, shard, nshards):
    for i, n in enumerate(_mid_sizes(tier, "c08:n")):
        if i % nshards == shard:
            h = _hh(gen.run_seed(), "c08:mid", i, n)
            yield {"n": int(n), "seed": h % (2 ** 31 - 1), "dt": _MID_DTS[h % len(_MID_DTS)], "i": i}


@enum_clause(CLAUSES, "mid-range", _mid_enum, quick_shards=4,
             rule="record lengths: one per logarithmic bin of [2 000, 300 000] (14 bins; thorough 36 bins to 2 000 000) placed by VERIF_SEED, plus "
                  "lengths c-1, c, c+1, 2c+1, 3c+2 for integer literals c of the tree under test; at every length: both rules x both "
                  "array-level entry points, one container variant, object level with hashed read order, history (rule switched, new "
                  "record of another length through reset_values), linearity, closed forms; non-trivial = always (nowhere-zero burst / "
                  "walk / sine records with an offset)",
             oracle="reference model on every sample of every output: local increment bound + long-double running sum (velocity and "
                    "displacement), peaks == max|.|; linearity and closed forms as `consequences`",
             exhaustive_note="the laddered and mined lengths x {trapezoid, rectangle} x {array level, alias, object level}")
def mid_range(case, ctx):
    n, seed, dt = int(case["n"]), int(case["seed"]), case["dt"]
    kind = ["burst", "burst", "walk", "sines"][seed % 4]
    a = _mid_record(n, seed, kind)
    ctx.nt(True)
    ctx.cls("kind=" + kind, gen.size_class(n))
    calc, alias = disp_mod.calc_velo_and_disp_from_accel_arr, disp_mod.velocity_and_displacement_from_acceleration
    form = core.call_form(case)
    # 1. array level, both rules, both entry points (the spelling of the flag alternates)
    for trap in (True, False):
        for fn, fm in ((calc, form), (alias, "kw" if form == "pos" else "pos")):
            v, d = ctx.libf(fm, fn, ["trap"], a, dt, trap=trap)
            _check_series(ctx, "%s(trap=%s)" % (fn.__name__, trap), a, dt, v, d, trap)
    v, d = ctx.lib(calc, a, dt)
    _check_series(ctx, "calc_velo_and_disp_from_accel_arr (default trap)", a, dt, v, d, True)
    # 2. a container variant of the same record
    how = _MID_CONT[(seed // 7) % len(_MID_CONT)]
    trap_c = bool((seed // 3) % 2)
    arg, ac = _mid_container(a, how)
    ctx.cls("as=" + how)
    v, d = ctx.libf(form, calc, ["trap"], arg, dt, trap=trap_c)
    _check_series(ctx, "calc_velo_and_disp_from_accel_arr(%s record, trap=%s)" % (how, trap_c), ac, dt, v, d, trap_c)
    pk = ctx.lib(im.calc_peak, arg)
    ctx.check(pk == _maxabs(ac), "calc_peak(%s record) = %r, max|.| = %r (n=%d)" % (how, pk, _maxabs(ac), n))
    # 2b. raw counts in a narrow integer type (full range), both rules, array and object level
    dtype = gen.NARROW_DTYPES[seed % 3]
    cn, exn = gen.narrow_int(a, dtype)
    ctx.cls("narrow=" + dtype)
    dti = [2, np.int16(2), 3, np.int64(2)][(seed // 3) % 4]
    for trap in (True, False):
        for dtn in (dt, dti):  # the float time step of the case and an integer one (python / numpy int)
            v, d = ctx.libf(form, alias if trap else calc, ["trap"], cn, dtn, trap=_flag(trap, ["np", "int", "py"][seed % 3]))
            _check_series(ctx, "array level (%s record, dt=%r, trap=%s)" % (dtype, dtn, trap), exn, dtn, v, d, trap)
    pk = ctx.lib(im.calc_peak, cn)
    ctx.check(pk == _maxabs(exn), "calc_peak(%s record) = %r, max|.| = %r (n=%d)" % (dtype, pk, _maxabs(exn), n))
    _check_object(ctx, "AccSignal(%s record, n=%d)" % (dtype, n), ctx.lib(eqsig.AccSignal, cn, dt), exn, dt, True, _read_order(seed // 37))
    oi = ctx.lib(eqsig.AccSignal, cn, dti)
    ctx.lib(oi.generate_displacement_and_velocity_series, trap=False)
    _check_object(ctx, "AccSignal(%s record, dt=%r) after generate_displacement_and_velocity_series(trap=False):" % (dtype, dti), oi, exn, dti, False,
                  _order_first(3, seed // 41))
    # 3. object level, hashed read order; calc_peak on the three series
    order = _read_order(seed // 11)
    ctx.cls("first=" + order[0])
    asig = ctx.lib(eqsig.AccSignal, a, dt)
    got = _check_object(ctx, "AccSignal (n=%d)" % n, asig, a, dt, True, order)
    for name, ser in (("acceleration", a), ("velocity", np.asarray(got["velocity"])), ("displacement", np.asarray(got["displacement"]))):
        for s_ in (1.0, -1.0):
            pk = ctx.lib(im.calc_peak, s_ * ser)
            ctx.check(pk == _maxabs(ser), "calc_peak(%s%s) = %r, max|.| = %r (n=%d)" % ("-" if s_ < 0 else "", name, pk, _maxabs(ser), n))
    # 4. history: rectangle rule on the object whose trapezoid series and peaks were read, then a new record of another length
    ctx.libf(form, asig.generate_displacement_and_velocity_series, ["trap"], trap=False)
    _check_object(ctx, "after generate_displacement_and_velocity_series(trap=False) (n=%d):" % n, asig, a, dt, False, _order_first(3, seed // 13))
    fresh = ctx.lib(eqsig.AccSignal, arg, dt)
    ctx.lib(fresh.generate_displacement_and_velocity_series, trap=False)
    _check_object(ctx, "fresh %s object after generate_displacement_and_velocity_series(trap=False) (n=%d):" % (how, n), fresh, ac, dt, False,
                  _order_first(4 if seed % 2 else 1, seed // 17))
    n2 = max(2, int(n * (0.55 + 0.9 * _hu(seed, "n2"))))
    b = _mid_record(n2, seed // 5 + 1, ["walk", "burst", "sines"][seed % 3])
    ctx.lib(asig.reset_values, b)
    _check_object(ctx, "after reset_values(record of %d samples) on an object that held %d:" % (n2, n), asig, b, dt, True, _read_order(seed // 19))
    ctx.lib(asig.generate_displacement_and_velocity_series, trap=False)
    ctx.lib(asig.reset_values, a[::-1].copy())
    _check_object(ctx, "after reset_values(record of %d samples) on an object with rectangle-rule series of %d:" % (n, n2), asig, a[::-1], dt, True,
                  _order_first(1 if seed % 2 else 4, seed // 23))
    try:  # the library's own correction edits the record in place and hands it back through reset_values
        asig.set_zero_residual_velocity()
        cur = np.array(asig.values, dtype=float)
    except Exception:  # noqa  (which records a correction accepts is not C08's business)
        cur = None
    if cur is not None and np.all(np.isfinite(cur)):
        _check_object(ctx, "after set_zero_residual_velocity (n=%d):" % n, asig, cur, dt, True, _read_order(seed // 31))
    # 5. linearity at this length (one rule) and the closed forms
    al = (-1.0) ** (seed % 2) * 10.0 ** (4 * _hu(seed, "al") - 2)
    be = (-1.0) ** (seed // 2 % 2) * 10.0 ** (4 * _hu(seed, "be") - 2)
    bb = _mid_record(n, seed // 3 + 2, "walk")
    _linearity(ctx, a, bb, al, be, dt, bool(seed // 29 % 2))
    _closed_forms(ctx, 200 * _hu(seed, "c") - 100, (200 * _hu(seed, "s") - 100) * (seed % 3 != 0), n, dt, "const" if seed % 3 == 0 else "linear")


def _opt_enum(tier, shard, nshards):
    sizes = gen.ladder(600, 40000, 6 if tier == "quick" else 18, "c08:opt" + tier)
    k = 0
    for trap in (True, False):
        for entry in ("calc", "alias", "object-generate", "object-lazy"):
            for how in ["f64"] + _MID_CONT:
                for form in ("kw", "pos"):
                    for first in ("velocity", "displacement", "pgv", "pgd"):
                        if entry.startswith("object") or first == "velocity":
                            if entry == "object-lazy" and (not trap or form == "pos"):
                                continue  # the lazy path has no flag
                            if k % nshards == shard:
                                h = _hh(gen.run_seed(), "c08:opt", k)
                                yield {"n": int(sizes[h % len(sizes)]), "seed": h % (2 ** 31 - 1), "dt": [0.005, 0.01, 2.0 ** -7, 0.37, 2][k % 5],
                                       "trap": trap, "entry": entry, "as": how, "form": form, "first": first, "flag": ["py", "np", "int"][k % 3]}
                            k += 1


@enum_clause(CLAUSES, "mid-range-options", _opt_enum, quick_shards=2,
             rule="cross product {trapezoid, rectangle} x {calc_velo_and_disp_from_accel_arr, alias, AccSignal regenerated with the flag, "
                  "AccSignal lazily loaded} x {float64, int64, list, view, negative stride, read-only} x {flag by keyword, positionally} x "
                  "{velocity, displacement, pgv, pgd read first}; lengths from a ladder 600..40 000; dt incl. a python int",
             oracle="reference model on every sample (as `mid-range`); peaks == max|.|",
             exhaustive_note="the option cross product")
def mid_range_options(case, ctx):
    n, seed, dt, trap, how = int(case["n"]), int(case["seed"]), case["dt"], case["trap"], case["as"]
    a0 = _mid_record(n, seed, ["burst", "walk", "sines"][seed % 3])
    arg, a = _mid_container(a0, how) if how != "f64" else (a0, a0)
    ctx.nt(True)
    ctx.cls("entry=" + case["entry"], "as=" + how, "trap" if trap else "rect", "first=" + case["first"], "flag=" + case.get("flag", "py"))
    if not case["entry"].startswith("object"):
        fn = disp_mod.calc_velo_and_disp_from_accel_arr if case["entry"] == "calc" else disp_mod.velocity_and_displacement_from_acceleration
        v, d = ctx.libf(case["form"], fn, ["trap"], arg, dt, trap=_flag(trap, case.get("flag")))
        _check_series(ctx, "%s(%s record, trap=%r, %s)" % (fn.__name__, how, _flag(trap, case.get("flag")), case["form"]), a, dt, v, d, trap)
        return
    first = _READS.index(case["first"])
    order = _order_first(first, seed)
    asig = ctx.lib(eqsig.AccSignal, arg, dt)
    if case["entry"] == "object-generate":
        if seed % 2:  # with or without a previous read of the default series and peaks
            _ = [getattr(asig, nm) for nm in _read_order(seed // 2)]
            ctx.cls("regenerated-after-read")
        ctx.libf(case["form"], asig.generate_displacement_and_velocity_series, ["trap"], trap=_flag(trap, case.get("flag")))
    _check_object(ctx, "AccSignal(%s record), %s, trap=%s:" % (how, case["entry"], trap), asig, a, dt, trap, order)
