"""C10 - significant and bracketed durations locate threshold crossings exactly."""
from fractions import Fraction

import math

import numpy as np
from hypothesis import assume
from hypothesis import strategies as st

import eqsig
from eqsig import im

from pbt import gen
from pbt.core import clause, enum_clause
from pbt.ref import durations as ref

PROPERTY = "C10"
CLAUSES = []
ASSUMPTIONS = [
    "records: finite float64 (or int64 / int32 / int16 / int8 dtype - the narrow ones at the full range of the dtype with the most "
    "negative sample at the dtype's minimum, oracle at the exact values -, list / strided / read-only variants; float32 records are "
    "out of scope), 2 <= n <= ~5000 drawn by Hypothesis, laddered lengths 2000..300000 (thorough 2 000 000) in the "
    "mid-range enumerations; non-zero samples have "
    "1e-60 <= |a| <= 1e10 so that squares, cubes, squared velocities and their scalings stay in the normal range (smaller generated "
    "values are flushed to 0 before the record is used)",
    "the array-level entry points calc_sig_dur_vals / calc_significant_duration receive the same containers as AccSignal does "
    "(ndarray of float or int64 dtype, strided / read-only view, Python list: the docstring says array-like)",
    "the time step is handed over as a Python float, np.float64, np.float32 or a 0-d array of either precision; a single-precision "
    "step is taken at its exact double value (sample i is at i*float(np.float32(dt)))",
    "precondition of the statement (some sample strictly between the fractions) is constructed: the fractions are drawn after "
    "the record, on either side of an achieved cumulative level with a relative gap >= 1e-6; a case in which the reference "
    "finds no such sample even with the thresholds widened by 1e-9 is classified 'precondition-fails' and not asserted",
    "margin filter (DESIGN 2.4): strict comparisons are evaluated at thresholds moved by +-1e-9 (relative); when the first/last "
    "index depends on the direction the case is 'ambiguous' and the library's answer is only required to lie in the bracket; "
    "rounding of a running sum of n <= 5100 non-negative terms is <= n*eps = 1.2e-12 relative, three orders below the margin",
    "exact ties (clause ties) are asserted only where every operation is exact in binary floating point: dyadic records, "
    "dyadic fractions, rational measures (running sum of squares, user callables whose returned values are taken as given) "
    "and a representable product fraction*final value (verified per case).  Arias involves the irrational factor pi/(2g): a tie "
    "is asserted there only when a per-case proof succeeds that 27 floating-point evaluation orders (constant applied to the "
    "running sum / to every panel / to every sample, three spellings of the constant and of the panel) x 2 threshold forms "
    "(fraction*final, series/final) all classify every sample as the exact rational arithmetic does - in practice a fraction "
    "2^-p meeting a level exactly, where fl(c*L) == 2^-p*fl(c*T); otherwise bracket only",
    "user-supplied measures: the reference applies the statement to the values the callable returns for the same signal "
    "(the correctness of calc_cav / calc_isv / ... themselves is C09); callables are CUMULATIVE, i.e. non-decreasing with a final "
    "value > 0, and return an ndarray (the statement speaks of a cumulative intensity; for a series that is not monotone an "
    "implementation that bisects for the two crossings is as correct as one that masks, so nothing is asserted for such a "
    "callable - the former non-monotone measure 'wiggle' was removed for that reason)",
    "when the statement's precondition is only ambiguously satisfied (a sample lies between the fractions only if the thresholds "
    "are moved by 1e-9) nothing is asserted: the statement is conditional on the precondition",
    "prepended zeros: for trapezoid-type measures (Arias, CAV, ISV) the law is asserted for records that start with a zero "
    "sample, otherwise the new panel (0, a0) changes the cumulative intensity itself by a0^2*dt/2 and the statement's own "
    "definition gives a different answer; for running-sum measures it is asserted for every record",
    "amplitude scaling (2^k and general alpha): the scaled record's result is compared with the reference of the unscaled record "
    "(equality when unambiguous, the bracket otherwise); general alpha is skipped for the two measures that contain a comparison "
    "with half the peak (count, gated), whose classification is scale-invariant only up to rounding; prepended zeros are asserted "
    "only for unambiguous cases; fraction nesting for every case (an order statement)",
    "bracketed duration with record and threshold scaled together: 2^k for every case (exact), general alpha only when no |a_i| "
    "lies within 1e-9 (relative) of the threshold",
    "times: sample i is at i*dt; tolerance 4*eps*|t| on a time, 4*eps*end on a duration, 1e-12*(record length) for shifts",
    "mid-range enumerations: the margin of the strict comparisons is max(1e-9, 4*eps*n) (twice the worst-case rounding n*u of the two "
    "running sums involved; larger than 1e-9 only above 1.1e6 samples); fraction pairs are placed by the check itself from its own "
    "double-precision levels of the record (generator side), never from library output; the reference scans are vectorised "
    "(first True from the front / from the back) above 6000 samples",
    "options are crossed: both fractions passed, none (defaults 5-95 %), or exactly one of them left at its default; positional and "
    "keyword spelling; se in {True, False}; im None or a callable; the time step in seven forms",
    "deprecated AccSignal.generate_duration_stats: checked (sd_start, sd_end, t_595) only for records scaled so that "
    "max|a| <= 0.08 m/s2, i.e. below its smallest bracket threshold 0.01 g; above it the method's rms-acceleration lines "
    "call numpy.trapz, which NumPy >= 2.4 no longer has (DESIGN section 4, 'not findings'; rms acceleration is not part of C10)",
]
EPS = np.finfo(float).eps
LD = np.longdouble
FLUSH = 1e-60


# ---------------------------------------------------------------------------
# user-supplied cumulative measures (module-level so that cases are replayable by name)


def _m_cube(sig):
    """user lambda 1: running sum of |a|^3."""
    return np.cumsum(np.abs(np.asarray(sig.values, dtype=float)) ** 3)


def _m_count(sig):
    """user lambda 2: number of samples so far whose |a| exceeds half the peak (integer valued, plateau rich)."""
    v = np.abs(np.asarray(sig.values))
    return np.cumsum(v > 0.5 * np.max(v))


def _m_gated(sig):
    """user lambda 3: running sum of a^2 over the samples whose |a| exceeds half the peak (float valued, non-decreasing, long
    plateaus separated by jumps - the hard case for an implementation that searches a sorted series)."""
    v = np.abs(np.asarray(sig.values, dtype=float))
    return np.cumsum(np.where(v > 0.5 * np.max(v), v * v, 0.0))


# name -> (type, callable passed as `im`)   type: 'rect' = running sum, 'trap' = running trapezoid
MEASURES = {
    "arias": ("trap", None),
    "sumsq": ("rect", None),         # calc_sig_dur_vals
    "deprecated": ("rect", None),    # calc_significant_duration
    "cav": ("trap", im.calc_cav),
    "absacc": ("rect", im.calc_integral_of_abs_acceleration),
    "isv": ("trap", im.calc_isv),
    "cube": ("rect", _m_cube),
    "count": ("rect", _m_count),
    "gated": ("rect", _m_gated),
}
ARRAY_LEVEL = ("sumsq", "deprecated")
ALL_MEASURES = ["arias", "arias", "sumsq", "sumsq", "deprecated", "cav", "absacc", "isv", "cube", "count", "count", "gated", "gated"]
HALF_PEAK = ("count", "gated")   # contain a comparison with half the peak: scale-invariant only up to rounding
DT_FORMS = ["py", "py", "py", "np64", "f32", "0d32", "0d64"]
# record containers: int64, list, strided / reversed / read-only views, and the narrow integer dtypes of raw digitiser counts
# (gen.narrow_int: full range of the dtype, the most negative sample = the dtype's minimum; the oracle uses the exact values)
CONTAINERS = ["int", "list", "int", "list", "view", "negstride", "readonly", "int16", "int16", "int32", "int8"]


def _dt(case):
    """-> (time step as handed to the library, its exact value as a Python float)."""
    dt = case["dt"]
    dtv = case.get("dtv", "py")
    if dtv == "np64":
        return np.float64(dt), dt
    if dtv == "f32":
        return np.float32(dt), float(np.float32(dt))
    if dtv == "0d32":
        return np.array(dt, dtype=np.float32), float(np.float32(dt))
    if dtv == "0d64":
        return np.array(dt, dtype=np.float64), dt
    return dt, dt


def _seen(spec, z0=False):
    """Record spec -> (argument handed to the library, float array of what the library sees)."""
    a = gen.build(spec)
    a = np.where(np.abs(a) < FLUSH, 0.0, a)
    if z0:
        a = np.concatenate([[0.0], a])
    if spec.get("as") in gen.NARROW_DTYPES:
        return gen.narrow_int(a, spec["as"])   # (int16 / int32 / int8 container, its exact values)
    arg = gen.as_container(spec, a)
    return arg, np.array(arg, dtype=float)


def _trap(y):
    return np.concatenate([[0.0], np.cumsum((y[1:] + y[:-1]) * 0.5)])


def _levels_float(a, measure):
    """Normalised cumulative measure, plain float64, own formulas (generator side only: used to place the fractions)."""
    ab = np.abs(a)
    if measure == "arias":
        c = _trap(a * a)
    elif measure in ("sumsq", "deprecated"):
        c = np.cumsum(a * a)
    elif measure == "cav":
        c = _trap(ab)
    elif measure == "absacc":
        c = np.cumsum(ab)
    elif measure == "cube":
        c = np.cumsum(ab ** 3)
    elif measure == "count":
        c = np.cumsum(ab > 0.5 * ab.max()).astype(float)
    elif measure == "isv":
        v = _trap(a)
        c = _trap(v * v)
    elif measure == "gated":
        c = np.cumsum(np.where(ab > 0.5 * ab.max(), ab * ab, 0.0))
    else:
        raise ValueError(measure)
    total = c[-1]
    if not (np.isfinite(total) and total > 0):
        return None
    return c / total


_unit = st.floats(0.0, 1.0, exclude_max=True, allow_nan=False)
# one in twelve draws per side is deliberately placed on / within the margin of an achieved level (ambiguous class)
_MODES_S = ["mid"] * 4 + ["u"] * 8 + ["above-prev"] * 5 + ["below-cur"] * 5 + ["at-prev", "in-margin"]
_MODES_E = ["mid"] * 4 + ["u"] * 8 + ["below-next"] * 5 + ["above-cur"] * 5 + ["at-next", "in-margin"]


def _fix_int_amp(spec):
    # integer-dtype variant: keep the rounded record non-zero and its squares inside int64
    if spec.get("as") == "int" and "amp" in spec and spec["amp"] < 1:
        spec["amp"] = min(6, 1 - spec["amp"])
    return spec


@st.composite
def _sig_cases(draw, max_n=5000, measures=ALL_MEASURES, containers=True, laws=False):
    spec = _fix_int_amp(draw(gen.record_specs(min_n=3, max_n=max_n, allow_int=CONTAINERS if containers else False)))
    measure = draw(st.sampled_from(measures))
    z0 = bool(laws and draw(st.sampled_from([True, True, False])))
    _, a = _seen(spec, z0)
    lev = _levels_float(a, measure)
    assume(lev is not None)
    cand = np.flatnonzero((lev > 1e-6) & (lev < 1 - 2e-6))
    assume(len(cand) > 0)
    n = len(a)
    case = {"rec": spec, "dt": draw(gen.dts(1e-4, 1.0)), "measure": measure,
            "form": draw(st.sampled_from(["pos", "kw"])), "dtv": draw(st.sampled_from(DT_FORMS))}
    if not laws and draw(st.integers(0, 3)) == 0:
        case["hist"] = True   # afterwards: replace the object's values and ask again (a result kept on the object must not survive)
    if z0:
        case["z0"] = True
    use_default = draw(st.sampled_from([False] * 6 + [True])) and bool(np.any((lev > 0.05 * (1 + 1e-6)) & (lev < 0.95 * (1 - 1e-6))))
    if use_default:
        case["defaults"] = True
        s, e = 0.05, 0.95
    else:
        j = int(cand[min(len(cand) - 1, int(draw(_unit) * len(cand)))])
        lj = float(lev[j])
        # start fraction: aimed at a first sample i_s <= j
        i_s = int(draw(_unit) * (j + 1))
        prev, cur = (float(lev[i_s - 1]) if i_s > 0 else 0.0), float(lev[i_s])
        mode = draw(st.sampled_from(_MODES_S))
        if mode == "mid":
            s = 0.5 * (prev + cur)
        elif mode == "u":
            s = prev + draw(_unit) * (cur - prev)
        elif mode == "at-prev":
            s = prev
        elif mode == "above-prev":
            s = prev * (1 + 3e-9)
        elif mode == "in-margin":
            s = prev * (1 + 1e-10)
        else:
            s = cur * (1 - 3e-9)
        s = min(max(s, 1e-12), lj * (1 - 1e-6))
        # end fraction: aimed at a last sample i_e >= j (i_e <= n-2: the final value itself is never below e < 1)
        i_e = j + int(draw(_unit) * (n - 1 - j))
        cur, nxt = float(lev[i_e]), float(lev[i_e + 1])
        mode = draw(st.sampled_from(_MODES_E))
        if mode == "mid":
            e = 0.5 * (cur + nxt)
        elif mode == "u":
            e = cur + draw(_unit) * (nxt - cur)
        elif mode == "at-next":
            e = nxt
        elif mode == "below-next":
            e = nxt * (1 - 3e-9)
        elif mode == "in-margin":
            e = nxt * (1 - 1e-10)
        else:
            e = cur * (1 + 3e-9)
        e = max(min(e, 1 - 1e-12), lj * (1 + 1e-6))
    if not use_default and draw(st.integers(0, 5)) == 0:
        # one fraction left at its default, the other one passed (the statement's precondition still holds: lev[j] lies between)
        side = draw(st.sampled_from(["s", "e"]))
        if side == "s" and 0.05 < lj * (1 - 1e-6):
            s, case["partial"] = 0.05, "s"
        elif side == "e" and 0.95 > lj * (1 + 1e-6):
            e, case["partial"] = 0.95, "e"
    case["s"], case["e"] = float(s), float(e)
    if laws:
        case["k2"] = draw(st.integers(-8, 8))
        case["alpha"] = draw(gen.scalars())
        case["kz"] = draw(st.one_of(st.integers(1, 8), st.integers(9, 60)))
        case["s2"] = float(s * (1 - 0.999 * draw(_unit)))
        case["e2"] = float(e + (1 - e) * 0.999 * draw(_unit))
    return case


# ---------------------------------------------------------------------------
# calling the library / reference values


def _call_sig(ctx, measure, arr, asig, dt, s, e, se, form="kw", defaults=False, partial=None):
    """One call of the entry point that belongs to `measure` (dt: the time step as handed to the library).
    defaults: neither fraction is passed; partial='s' / 'e': that fraction is left at its default (the caller made sure that
    s == 0.05 / e == 0.95), the other one is passed - the options are exercised in every combination, not one at a time."""
    fn = MEASURES[measure][1]
    if measure in ARRAY_LEVEL:
        f, lead = (im.calc_sig_dur_vals if measure == "sumsq" else im.calc_significant_duration), (arr, dt)
        tail = {"se": se} if measure == "sumsq" else {}
    else:
        f, lead = im.calc_sig_dur, (asig,)
        if fn is not None:
            # user measures are typically anonymous functions, and the same signal object is typically analysed with several
            # of them in a row: an earlier call with ANOTHER anonymous measure must not influence this one
            decoy = (lambda s: _m_count(s)) if measure != "count" else (lambda s: _m_cube(s))
            try:
                im.calc_sig_dur(asig, im=decoy)
            except Exception:  # noqa  (the decoy's own precondition may fail on this record; irrelevant)
                pass
            fn = (lambda s, _f=fn: _f(s))
        tail = {"se": se} if fn is None else {"im": fn, "se": se}
    if defaults:
        args, kw = lead, dict(tail)
    elif partial == "s":
        args, kw = lead, dict(tail, end=e)
    elif partial == "e":
        args, kw = (lead + (s,), dict(tail)) if form == "pos" else (lead, dict(tail, start=s))
    elif form == "pos":
        # everything positionally, in the documented order (start, end[, im], se)
        args, kw = lead + (s, e) + ((fn,) if f is im.calc_sig_dur else ()) + ((se,) if "se" in tail else ()), {}
    else:
        args, kw = lead, dict(tail, start=s, end=e)
    return ctx.lib(f, *args, **kw)


def _representable(p):
    """Is the rational p exactly a double?"""
    try:
        return Fraction(float(p)) == p
    except OverflowError:
        return False


def _ref_values(ctx, measure, a, dt, asig, exact, s, e):
    """(cumulative values for the reference, margin).  LD ndarray (margin 1e-9) or list of Fractions."""
    fn = MEASURES[measure][1]
    if not exact:
        if measure in ARRAY_LEVEL:
            return ref.running_sum_of_squares_ld(a), ref.MARGIN
        if measure == "arias":
            return ref.arias_ld(a, dt), ref.MARGIN
        out = np.asarray(ctx.lib(fn, asig))
        ctx.shape(out, (len(a),), "user measure")
        return out.astype(LD), ref.MARGIN
    if measure in ARRAY_LEVEL:
        vals = ref.running_sum_of_squares_exact(a)
        c = 0.0
        ok = True
        for x, v in zip(a, vals):  # is the double-precision running sum exact on this record?
            c = c + float(x) * float(x)
            if Fraction(c) != v:
                ok = False
                break
    elif measure == "arias":
        # irrational factor pi/(2g): a tie is decidable only when every floating-point evaluation order reproduces the exact
        # classification of every sample (per-case proof, see ASSUMPTIONS; typically a fraction 2^-p on a level)
        vals = ref.arias_exact(a, dt)
        return vals, (0 if ref.arias_ties_robust(a, dt, s, e, vals) else ref.MARGIN)
    else:
        out = np.asarray(ctx.lib(fn, asig))
        ctx.shape(out, (len(a),), "user measure")
        vals = [Fraction(v) for v in out.tolist()]
        ok = True
    ok = ok and _representable(Fraction(float(s)) * vals[-1]) and _representable(Fraction(float(e)) * vals[-1])
    return vals, (0 if ok else ref.MARGIN)


def _t(i, dt):
    return LD(i) * LD(dt)


def _is_pair(x):
    """se=True returns the start and end times as a pair (tuple, list or array of two)."""
    try:
        return len(x) == 2 and all(v is None or np.ndim(v) == 0 for v in x)
    except TypeError:
        return False


def _assert_result(ctx, bt, dt, n, got_se, got_dur, what):
    """Compare library output with the reference bracket `bt` (ref.Between)."""
    rec_len = float(_t(n - 1, dt))
    t0 = t1 = None
    if got_se is not None:
        ctx.check(_is_pair(got_se), "%s: se=True returned %r" % (what, got_se))
        t0, t1 = float(got_se[0]), float(got_se[1])
        ctx.check(0 <= t0 <= t1 <= rec_len * (1 + 2 * EPS),
                  "%s: not 0 <= start <= end <= duration: start=%r end=%r duration=%r" % (what, t0, t1, rec_len))
    if got_dur is not None:
        ctx.check(np.ndim(got_dur) == 0, "%s: se=False returned %r" % (what, got_dur))
        got_dur = float(got_dur)
    i0a, i1a = bt.inner if bt.inner is not None else (None, None)
    o0, o1 = bt.outer
    if not bt.ambiguous:
        if t0 is not None:
            ctx.close(t0, _t(i0a, dt), 4 * EPS * float(_t(i0a, dt)), "%s: start time (first sample strictly between, index %d)" % (what, i0a))
            ctx.close(t1, _t(i1a, dt), 4 * EPS * float(_t(i1a, dt)), "%s: end time (last sample strictly between, index %d)" % (what, i1a))
        if got_dur is not None:
            ctx.close(got_dur, _t(i1a - i0a, dt), 4 * EPS * float(_t(i1a, dt)),
                      "%s: duration (samples %d..%d)" % (what, i0a, i1a))
    else:
        ctx.amb()
        lo0, hi0 = o0, (i0a if i0a is not None else o1)
        lo1, hi1 = (i1a if i1a is not None else o0), o1
        if t0 is not None:
            ctx.check(float(_t(lo0, dt)) * (1 - 4 * EPS) <= t0 <= float(_t(hi0, dt)) * (1 + 4 * EPS),
                      "%s: start %r outside bracket [%d, %d]*dt" % (what, t0, lo0, hi0))
            ctx.check(float(_t(lo1, dt)) * (1 - 4 * EPS) <= t1 <= float(_t(hi1, dt)) * (1 + 4 * EPS),
                      "%s: end %r outside bracket [%d, %d]*dt" % (what, t1, lo1, hi1))
        if got_dur is not None:
            dmin = float(_t(max(0, lo1 - hi0), dt))
            dmax = float(_t(hi1 - lo0, dt))
            tol = 4 * EPS * float(_t(o1, dt))
            ctx.check(dmin - tol <= got_dur <= dmax + tol, "%s: duration %r outside bracket [%r, %r]" % (what, got_dur, dmin, dmax))
    if t0 is not None and got_dur is not None:
        ctx.close(got_dur, LD(t1) - LD(t0), 4 * EPS * abs(t1), "%s: se=False value vs end - start of se=True" % what)


def _check_sig(case, ctx, exact):
    spec = case["rec"]
    arg, a = _seen(spec, case.get("z0", False))
    n = len(a)
    dt_arg, dt = _dt(case)
    measure = case["measure"]
    defaults = bool(case.get("defaults"))
    s, e = (0.05, 0.95) if defaults else (case["s"], case["e"])
    form = case.get("form", "kw")
    ctx.cls("m=" + measure, "kind=" + spec["k"], gen.size_class(n), "form=" + form, "dt=" + case.get("dtv", "py"))
    if spec.get("as"):
        ctx.cls("as=" + spec["as"])
    if defaults:
        ctx.cls("defaults")
    asig = None
    arr = None
    if measure in ARRAY_LEVEL:
        arr = arg  # the container as it is: ndarray (float / int64), strided or read-only view, list
    else:
        asig = ctx.lib(eqsig.AccSignal, arg, dt_arg)
    vals, margin = _ref_values(ctx, measure, a, dt, asig, exact, s, e)
    bt = ref.Between(vals, s, e, margin)
    if exact:
        ctx.cls("exact" if margin == 0 else "inexact")
        tie = any(v == bt.lo or v == bt.hi for v in vals)
        if tie:
            ctx.cls("tie")
            if margin == 0 and bt.nonstrict != bt.strict:
                ctx.cls("tie-decisive", "tie-decisive-" + ("arias" if measure == "arias" else "rational"))
    partial = case.get("partial")
    if partial:
        ctx.cls("one-fraction-default")
    _sig_assert(ctx, bt, measure, arr, asig, dt_arg, dt, n, s, e, form, defaults, partial=partial)
    if case.get("hist") and asig is not None and n >= 4 and np.asarray(asig.values).dtype.kind == "f":
        # the result belongs to the record the signal holds NOW: replace the values (same length) and ask again
        b = np.array(a[::-1]) * 0.5
        b[n // 3] += 0.25 * float(np.max(np.abs(a)))
        b_arg = b
        if n % 2:   # every other time the new values are raw digitiser counts (the object must analyse their exact values)
            b_arg, b = gen.narrow_int(b, "int16")
            ctx.cls("reset-to-int16")
        ctx.lib(asig.reset_values, b_arg)
        vals2, margin2 = _ref_values(ctx, measure, b, dt, asig, False, s, e)
        bt2 = ref.Between(vals2, s, e, margin2)
        ctx.cls("after-reset-values")
        _sig_assert(ctx, bt2, measure, arr, asig, dt_arg, dt, n, s, e, form, defaults, tag=" after reset_values", partial=partial)


def _sig_assert(ctx, bt, measure, arr, asig, dt_arg, dt, n, s, e, form, defaults, tag="", partial=None):
    """Call the entry point of `measure` with se=True and se=False and compare with the reference bracket `bt`."""
    if bt.fails:
        ctx.cls("precondition-fails")
        return
    if not bt.holds:
        # a sample lies between the fractions only if the thresholds are moved by the margin: the statement is conditional on
        # its precondition, so nothing is promised here
        ctx.cls("precondition-ambiguous")
        ctx.amb()
        return
    got_se = None
    if measure != "deprecated":
        got_se = _call_sig(ctx, measure, arr, asig, dt_arg, s, e, True, form, defaults, partial)
    got_dur = _call_sig(ctx, measure, arr, asig, dt_arg, s, e, False, form, defaults, partial)
    if bt.ambiguous:
        ctx.cls("ambiguous")
    elif not tag:
        i0, i1 = bt.inner
        ctx.nt(0 < i1 - i0 < n - 1)
        ctx.cls("start>0" if i0 > 0 else "start=0")
        if i1 == i0:
            ctx.cls("single-sample")
    _assert_result(ctx, bt, dt, n, got_se, got_dur, "%s(s=%r, e=%r)%s" % (measure, s, e, tag))
    if measure == "deprecated":
        # the deprecated alias must agree with its replacement
        d2 = ctx.lib(im.calc_sig_dur_vals, arr, dt_arg, start=s, end=e)  # (s, e are the defaults where they were left out)
        ctx.check(float(d2) == float(got_dur), "calc_significant_duration %r != calc_sig_dur_vals %r" % (got_dur, d2))


# ---------------------------------------------------------------------------
# clause 1: definition


@clause(CLAUSES, "definition", _sig_cases(), quick=1200, thorough=4000,
        rule="records of all kinds (n 3..5000, float/int/list), dt log-uniform [1e-4,1] + repo rates; measure in {Arias (im=None), "
             "running sum of squares (calc_sig_dur_vals), deprecated calc_significant_duration, callables CAV / integral |a| / "
             "ISV / user lambdas sum|a|^3 and exceedance count}; fractions drawn after the record on either side of an achieved "
             "level (mid-gap, uniform, on a level, just outside / inside the 1e-9 margin) or the defaults 5-95 %; positional and "
             "keyword call forms, se in {True, False}; non-trivial = unambiguous and 0 < duration < record length",
        oracle="reference model: long-double running sums + front/back scan with the statement's strict inequalities at thresholds "
               "moved by +-1e-9; equality (4 eps) when unambiguous, bracket otherwise; 0<=start<=end<=(n-1)dt; se=False == end-start",
        require={"m=arias": 0.1, "m=sumsq": 0.1, "m=count": 0.03, "defaults": 0.05, "start>0": 0.3, "form=pos": 0.3,
                 "ambiguous": 0.05, "one-fraction-default": 0.03, "after-reset-values": 0.08, "dt=f32": 0.05},
        min_nontrivial=0.4)
def definition(case, ctx):
    _check_sig(case, ctx, exact=False)


# ---------------------------------------------------------------------------
# clause 1b: exact ties (strictness of both inequalities)

TIE_MEASURES = ["sumsq", "sumsq", "deprecated", "cav", "absacc", "cube", "count", "isv", "arias", "arias", "arias", "gated"]


def _values_exact(a, dt, measure):
    """Exact cumulative values (generator side: guarantees the precondition for the drawn fractions)."""
    fa = [Fraction(float(x)) for x in a]
    fdt = Fraction(float(dt))
    ab = [abs(x) for x in fa]

    def trap(y):
        out = [Fraction(0)]
        for i in range(1, len(y)):
            out.append(out[-1] + fdt * (y[i - 1] + y[i]) / 2)
        return out

    def run(y):
        out = []
        c = Fraction(0)
        for v in y:
            c = c + v
            out.append(c)
        return out

    if measure in ("sumsq", "deprecated"):
        return run([x * x for x in fa])
    if measure == "arias":
        return trap([x * x for x in fa])
    if measure == "cav":
        return trap(ab)
    if measure == "absacc":
        return run([x * fdt for x in ab])
    if measure == "cube":
        return run([x ** 3 for x in ab])
    if measure == "count":
        mx = max(ab)
        return run([Fraction(int(x > mx / 2)) for x in ab])
    if measure == "isv":
        v = trap(fa)
        return trap([x * x for x in v])
    if measure == "gated":
        mx = max(ab)
        return run([(x * x if x > mx / 2 else Fraction(0)) for x in ab])
    raise ValueError(measure)


@st.composite
def _tie_cases(draw):
    fam = draw(st.sampled_from(["unit", "unit", "dyadic"]))
    if fam == "unit":
        # 2^q samples of equal magnitude 2^-j separated by short zero runs: every level is a dyadic fraction of the total
        q = draw(st.integers(2, 5))
        big_n = 2 ** q
        signs = draw(st.lists(st.sampled_from([-1, 1]), min_size=big_n, max_size=big_n))
        gaps = draw(st.lists(st.integers(0, 2), min_size=big_n + 1, max_size=big_n + 1))
        ints = []
        for k in range(big_n):
            ints += [0] * gaps[k] + [signs[k]]
        ints += [0] * gaps[big_n]
        spec = {"k": "dyadic", "ints": ints, "j": draw(st.integers(-3, 6))}
        den = 2 * big_n
    else:
        spec = draw(gen.record_specs(min_n=3, max_n=40, small_max=40, kinds=["dyadic", "levels"]))
        den = 64
    if draw(st.integers(0, 7)) == 0:
        spec["as"] = "list"
    measure = draw(st.sampled_from(TIE_MEASURES))
    if measure in ("sumsq", "deprecated", "cube", "count", "gated") and draw(st.booleans()):
        dt = draw(gen.dts(1e-4, 1.0))  # dt does not enter these measures
    else:
        dt = 2.0 ** draw(st.integers(-10, 2))
    m1 = draw(st.integers(1, den // 2))
    m2 = draw(st.integers(den // 2, den - 1))
    assume(m1 < m2)
    s, e = m1 / den, m2 / den
    if measure == "arias" and fam == "unit":
        # every pulse gets both of its trapezoid half-panels (the record starts and ends with a zero), so that the Arias levels are
        # the multiples of total/2^(q+1) and a fraction 2^-p meets one of them
        ints = list(spec["ints"])
        spec["ints"] = ([0] if ints[0] != 0 else []) + ints + ([0] if ints[-1] != 0 else [])
    if measure == "arias":
        # the irrational constant: a tie is decidable when the fraction is a power of two (see ASSUMPTIONS); the other fraction
        # is a power of two as well (1/2) or sits half a level away from every level (no tie there)
        p_max = max(2, den.bit_length() - 1)
        s = draw(st.sampled_from([2.0 ** -draw(st.integers(2, p_max)), (m1 - 0.5) / den]))
        e = draw(st.sampled_from([0.5, (m2 + 0.5) / den]))
        assume(0 < s < e < 1)
    _, a = _seen(spec)
    assume(len(a) >= 3 and np.any(a != 0))
    vals = _values_exact(a, dt, measure)
    assume(vals[-1] > 0)
    lo, hi = Fraction(s) * vals[-1], Fraction(e) * vals[-1]
    assume(any(lo < v < hi for v in vals))
    return {"rec": spec, "dt": dt, "measure": measure, "s": s, "e": e, "form": draw(st.sampled_from(["pos", "kw"])),
            "fam": fam}


@clause(CLAUSES, "ties", _tie_cases(), quick=800, thorough=3000,
        rule="exactly computable cases: (a) 2^q equal-magnitude samples (+-2^-j) separated by zero runs, (b) small dyadic / few-level "
             "records (n <= 46); dyadic dt; fractions m/2^p so that fraction*final value is exact and frequently coincides with an "
             "achieved level; measures: running sum of squares, deprecated alias, CAV, integral |a|, sum|a|^3, exceedance count, gated "
             "energy, ISV (asserted exactly) and Arias (fractions 2^-p / 1/2 / half a level off; asserted exactly when the per-case "
             "evaluation-order proof succeeds); non-trivial = unambiguous and 0 < duration < record length",
        oracle="reference model in exact rational arithmetic (fractions.Fraction): a sample whose cumulative value EQUALS a fraction of "
               "the final value is not strictly between; index equality, no margin, when the per-case exactness proof succeeds",
        require={"tie-decisive": 0.25, "exact": 0.6, "tie-decisive-arias": 0.02}, min_nontrivial=0.4)
def ties(case, ctx):
    ctx.cls("fam=" + case.get("fam", "?"))
    _check_sig(case, ctx, exact=True)


# ---------------------------------------------------------------------------
# clause 2: laws


@clause(CLAUSES, "laws", _sig_cases(max_n=4000, containers=False, laws=True), quick=600, thorough=2500,
        rule="same generator as `definition` (float ndarray records, 2 of 3 with a leading zero sample) plus a power-of-two factor "
             "2^k (|k|<=8), a general factor alpha, kz in 1..60 prepended zeros and a wider fraction pair (s2<=s, e2>=e); "
             "non-trivial = unambiguous and 0 < duration < record length",
        oracle="metamorphic against the reference of the unscaled record: 2^k and alpha scaling -> the same start / end / duration "
               "(equality when unambiguous, the bracket otherwise); kz zeros prepended -> start, end "
               "shift by kz*dt and duration unchanged (1e-12 of record length; running-sum measures always, trapezoid measures when the "
               "record starts at 0; unambiguous cases); nested fractions -> start2<=start, end2>=end, duration2>=duration (exact)",
        require={"prepend-checked": 0.4, "m=arias": 0.1}, min_nontrivial=0.5)
def laws(case, ctx):
    spec = case["rec"]
    _, a = _seen(spec, case.get("z0", False))
    n = len(a)
    dt_arg, dt = _dt(case)
    measure = case["measure"]
    s, e = (0.05, 0.95) if case.get("defaults") else (case["s"], case["e"])
    mtype = MEASURES[measure][0]
    ctx.cls("m=" + measure, "kind=" + spec["k"], gen.size_class(n), "dt=" + case.get("dtv", "py"))

    def run(arr, s_, e_):
        asig = None if measure in ARRAY_LEVEL else ctx.lib(eqsig.AccSignal, arr, dt_arg)
        got_se = None
        if measure != "deprecated":
            got_se = _call_sig(ctx, measure, arr, asig, dt_arg, s_, e_, True)
            ctx.check(_is_pair(got_se), "se=True returned %r" % (got_se,))
            got_se = (float(got_se[0]), float(got_se[1]))
        return got_se, float(_call_sig(ctx, measure, arr, asig, dt_arg, s_, e_, False))

    asig0 = None if measure in ARRAY_LEVEL else ctx.lib(eqsig.AccSignal, a, dt_arg)
    vals, margin = _ref_values(ctx, measure, a, dt, asig0, False, s, e)
    bt = ref.Between(vals, s, e, margin)
    if not bt.holds:
        ctx.cls("precondition-fails")
        return
    if bt.ambiguous:
        ctx.cls("ambiguous")
        ctx.amb()
    else:
        i0, i1 = bt.inner
        ctx.nt(0 < i1 - i0 < n - 1)
    se0, d0 = run(a, s, e)
    _assert_result(ctx, bt, dt, n, se0, d0, "%s(s=%r, e=%r)" % (measure, s, e))
    # (1) amplitude scaling: the result is that of the unscaled record (the reference classification is scale invariant: exactly
    # for 2^k, to 2 ulp - far inside the 1e-9 margin - for a general factor)
    k = case["k2"]
    se1, d1 = run(a * 2.0 ** k, s, e)
    _assert_result(ctx, bt, dt, n, se1, d1, "%s of the record scaled by 2^%d" % (measure, k))
    al = case["alpha"]
    if measure not in HALF_PEAK:  # those contain a comparison with half the peak: scale-invariant only up to rounding of alpha*a
        se1, d1 = run(a * al, s, e)
        _assert_result(ctx, bt, dt, n, se1, d1, "%s of the record scaled by %r" % (measure, al))
    # (2) prepended zeros
    kz = case["kz"]
    if (mtype == "rect" or a[0] == 0) and not bt.ambiguous:
        ctx.cls("prepend-checked")
        se2, d2 = run(np.concatenate([np.zeros(kz), a]), s, e)
        tol = 1e-12 * float(_t(n + kz - 1, dt))
        if se0 is not None:
            ctx.close(se2[0], LD(se0[0]) + _t(kz, dt), tol, "start after prepending %d zeros" % kz)
            ctx.close(se2[1], LD(se0[1]) + _t(kz, dt), tol, "end after prepending %d zeros" % kz)
        ctx.close(d2, d0, tol, "duration after prepending %d zeros" % kz)
    # (3) widening the fraction interval never shortens
    s2, e2 = case["s2"], case["e2"]
    se3, d3 = run(a, s2, e2)
    ctx.check(d3 >= d0, "widening (%r, %r) -> (%r, %r) shortened the duration: %r -> %r" % (s, e, s2, e2, d0, d3))
    if se0 is not None:
        ctx.check(se3[0] <= se0[0] and se3[1] >= se0[1],
                  "widening (%r, %r) -> (%r, %r) moved start/end inwards: %r -> %r" % (s, e, s2, e2, se0, se3))


# ---------------------------------------------------------------------------
# clause 3: bracketed duration

_THR_MODES = ["zero", "sample", "sample", "below-sample", "frac", "frac", "max", "above"]


@st.composite
def _brac_cases(draw):
    spec = _fix_int_amp(draw(gen.record_specs(min_n=2, max_n=5000, allow_int=CONTAINERS)))
    _, a = _seen(spec)
    ab = np.abs(a)
    mx = float(ab.max())
    thr, modes = [], []
    for _ in range(2):
        mode = draw(st.sampled_from(_THR_MODES))
        if mode == "zero":
            t = 0.0
        elif mode == "sample":
            t = float(ab[int(draw(_unit) * len(ab))])
        elif mode == "below-sample":
            t = float(np.nextafter(ab[int(draw(_unit) * len(ab))], 0.0))
        elif mode == "frac":
            t = draw(_unit) * mx
        elif mode == "max":
            t = mx
        else:
            t = mx * (1 + draw(_unit)) + (1.0 if mx == 0 else 0.0)
        thr.append(float(t))
        modes.append(mode)
    return {"rec": spec, "dt": draw(gen.dts(1e-4, 1.0)), "thr": thr, "modes": modes, "k2": draw(st.integers(-8, 8)),
            "alpha": draw(gen.scalars()), "dtv": draw(st.sampled_from(DT_FORMS))}


def _brac_expected(ctx, a, dt, thr, d, se, what):
    n = len(a)
    fl = ref.scan_exceeding(np.abs(a).tolist() if len(a) <= 6000 else np.abs(a), thr)
    ctx.check(_is_pair(se), "%s: se=True returned %r" % (what, se))
    if fl is None:
        ctx.check(d is not None and np.ndim(d) == 0 and d == 0, "%s: no sample exceeds, expected 0, got %r" % (what, d))
        ctx.check(se[0] is None and se[1] is None, "%s: no sample exceeds, expected (None, None), got %r" % (what, se))
        return None
    i0, i1 = fl
    ctx.check(se[0] is not None and se[1] is not None, "%s: samples %d..%d exceed but se=True gave %r" % (what, i0, i1, se))
    ctx.check(d is not None and np.ndim(d) == 0, "%s: se=False returned %r" % (what, d))
    ctx.close(float(se[0]), _t(i0, dt), 4 * EPS * float(_t(i0, dt)), "%s: start (first |a|>thr at index %d)" % (what, i0))
    ctx.close(float(se[1]), _t(i1, dt), 4 * EPS * float(_t(i1, dt)), "%s: end (last |a|>thr at index %d)" % (what, i1))
    ctx.close(float(d), _t(i1 - i0, dt), 4 * EPS * float(_t(i1, dt)), "%s: duration (samples %d..%d)" % (what, i0, i1))
    ctx.check(0 <= float(se[0]) <= float(se[1]) <= float(_t(n - 1, dt)) * (1 + 2 * EPS), "%s: not 0<=start<=end<=duration: %r" % (what, se))
    return fl


@clause(CLAUSES, "bracketed", _brac_cases(), quick=800, thorough=3000,
        rule="records of all kinds (n 2..5000, float/int/list); two thresholds each from {0, |a_i| of a drawn sample, the double just "
             "below it, U(0,1)*max|a|, max|a|, above max|a|}; non-trivial = for some threshold 0 < duration < record length",
        oracle="reference model: front/back scan for |a_i| > thr (exact comparison, no arithmetic), times i*dt (4 eps); none -> 0 and "
               "(None, None); metamorphic: non-increasing in thr (exact), record and threshold scaled by 2^k (always) or by a general "
               "factor (no |a_i| within 1e-9 of thr) -> the same first / last sample; "
               "differential: deprecated calc_bracketed_duration == calc_brac_dur",
        require={"none-exceed": 0.1, "thr=sample": 0.2, "thr=zero": 0.1, "some-exceed": 0.5}, min_nontrivial=0.3)
def bracketed(case, ctx):
    spec = case["rec"]
    arg, a = _seen(spec)
    n = len(a)
    dt_arg, dt = _dt(case)
    ctx.cls("kind=" + spec["k"], gen.size_class(n), "dt=" + case.get("dtv", "py"))
    if spec.get("as"):
        ctx.cls("as=" + spec["as"])
    asig = ctx.lib(eqsig.AccSignal, arg, dt_arg)
    _brac_checks(ctx, asig, a, dt_arg, dt, case["thr"], case.get("modes"), case.get("k2", 0), case.get("alpha"))
    _brac_after_reset(ctx, asig, a, dt_arg, dt)


def _brac_after_reset(ctx, asig, a, dt_arg, dt):
    """The result belongs to the record the signal holds NOW: replace the values by raw digitiser counts (int16, the most negative
    sample at the dtype's minimum) and ask again, with a threshold that only the largest |sample| exceeds."""
    if len(a) < 2 or not np.any(a):
        return
    b_arg, b = gen.narrow_int(a[::-1], "int16")
    ctx.lib(asig.reset_values, b_arg)
    ctx.cls("reset-to-int16")
    mb = float(np.max(np.abs(b)))
    _brac_checks(ctx, asig, b, dt_arg, dt, [float(np.nextafter(mb, 0.0)), 0.5 * mb], None, 1, None)


def _brac_checks(ctx, asig, a, dt_arg, dt, thrs, modes, k, alpha):
    """calc_brac_dur of the signal `asig` (holding the record `a`) at every threshold of `thrs`: definition, (None, None) / 0,
    deprecated alias, record and threshold scaled together, non-increasing in the threshold."""
    n = len(a)
    asig_k = ctx.lib(eqsig.AccSignal, a * 2.0 ** k, dt_arg)
    asig_al = ctx.lib(eqsig.AccSignal, a * alpha, dt_arg) if alpha else None
    ab = np.abs(a)
    res = []
    for j, thr in enumerate(thrs):
        ctx.cls("thr=" + modes[j] if modes else None)
        thr_arg = 0 if (thr == 0 and j == 0) else thr  # integer 0 as well as 0.0
        d = ctx.lib(im.calc_brac_dur, asig, thr_arg)
        se = ctx.lib(im.calc_brac_dur, asig, thr_arg, True) if j % 2 == 0 else ctx.lib(im.calc_brac_dur, asig, threshold=thr_arg, se=True)
        fl = _brac_expected(ctx, a, dt, thr, d, se, "calc_brac_dur(thr=%r)" % thr)
        if fl is None:
            ctx.cls("none-exceed")
        else:
            ctx.cls("some-exceed")
            ctx.nt(0 < fl[1] - fl[0] < n - 1)
            if fl == (0, n - 1):
                ctx.cls("full-length")
            if fl[0] == fl[1]:
                ctx.cls("one-exceeds")
        dd = ctx.lib(im.calc_bracketed_duration, asig, thr_arg)
        ctx.check(dd == d, "deprecated calc_bracketed_duration %r != calc_brac_dur %r" % (dd, d))
        # record and threshold scaled together: 2^k commutes with every comparison (exact) ...
        dk = ctx.lib(im.calc_brac_dur, asig_k, thr * 2.0 ** k)
        sek = ctx.lib(im.calc_brac_dur, asig_k, thr * 2.0 ** k, se=True)
        _brac_expected(ctx, a, dt, thr, dk, sek, "calc_brac_dur of record and threshold %r scaled by 2^%d" % (thr, k))
        # ... a general factor only when no sample sits within the margin of the threshold (alpha*a_i and alpha*thr are rounded)
        if asig_al is not None and not np.any((np.abs(ab - thr) <= 1e-9 * thr) & (ab != thr)):
            ctx.cls("general-alpha")
            ta = abs(alpha) * thr
            da = ctx.lib(im.calc_brac_dur, asig_al, ta)
            sea = ctx.lib(im.calc_brac_dur, asig_al, ta, se=True)
            _brac_expected(ctx, a, dt, thr, da, sea, "calc_brac_dur of record and threshold %r scaled by %r" % (thr, alpha))
        res.append((thr, float(d), se))
    # non-increasing in the threshold
    res.sort(key=lambda r: r[0])
    for (ta, da, sa), (tb, db, sb) in zip(res[:-1], res[1:]):
        ctx.check(da >= db, "bracketed duration increased with the threshold: thr %r -> %r, thr %r -> %r" % (ta, da, tb, db))
        if sb[0] is not None:
            ctx.check(sa[0] is not None and sa[0] <= sb[0] and sa[1] >= sb[1],
                      "bracket at the higher threshold %r is not inside the bracket at %r: %r vs %r" % (tb, ta, tuple(sb), tuple(sa)))


# ---------------------------------------------------------------------------
# clause 4: deprecated object-level statistics


@st.composite
def _stats_cases(draw):
    spec = draw(gen.record_specs(min_n=3, max_n=2000, allow_int=False))
    _, a = _seen(spec)
    assume(np.any(a != 0))
    lev = _levels_float(a, "sumsq")
    assume(lev is not None and bool(np.any((lev > 0.05 * (1 + 1e-6)) & (lev < 0.95 * (1 - 1e-6)))))
    return {"rec": spec, "dt": draw(gen.dts(1e-4, 1.0))}


@clause(CLAUSES, "deprecated-stats", _stats_cases(), quick=200, thorough=800,
        rule="records of all kinds (n 3..2000) rescaled by a power of two so that 0.04 < max|a| <= 0.08 m/s2, with a sample strictly "
             "between 5 % and 95 % of the final running sum of squares; non-trivial = unambiguous and 0 < duration < record length",
        oracle="reference model (as `definition`, running sum of squares, fractions 0.05 / 0.95) for AccSignal.generate_duration_stats: "
               "sd_start, sd_end, t_595 = sd_end - sd_start",
        min_nontrivial=0.5)
def deprecated_stats(case, ctx):
    spec = case["rec"]
    _, a = _seen(spec)
    mx = float(np.max(np.abs(a)))
    if mx == 0:
        ctx.cls("precondition-fails")
        return
    a = a * 2.0 ** int(np.floor(np.log2(0.08 / mx)))
    if not np.max(np.abs(a)) <= 0.08:  # log2 rounding at an exact power of two
        a = a * 0.5
    n = len(a)
    dt = case["dt"]
    ctx.cls("kind=" + spec["k"], gen.size_class(n))
    bt = ref.Between(ref.running_sum_of_squares_ld(a), 0.05, 0.95, ref.MARGIN)
    if not bt.holds:
        ctx.cls("precondition-fails")
        return
    asig = ctx.lib(eqsig.AccSignal, a, dt)
    ctx.lib(asig.generate_duration_stats)
    if bt.ambiguous:
        ctx.cls("ambiguous")
    else:
        ctx.nt(0 < bt.inner[1] - bt.inner[0] < n - 1)
    _assert_result(ctx, bt, dt, n, (asig.sd_start, asig.sd_end), asig.t_595, "generate_duration_stats")


# ---------------------------------------------------------------------------
# mid-range sizes (DESIGN 8.5): a code path that exists only inside a window of record lengths.  Deterministic enumerations;
# lengths from gen.size_ladder (one per logarithmic bin, placed by VERIF_SEED, plus lengths aimed at the integer literals of the
# tree under test); records, fractions and thresholds are a pure function of the case.  The outputs are two numbers, but they depend
# on the whole series: several fraction pairs / thresholds per record put the first and the last qualifying sample into many
# different stretches of the record.

MID_KINDS = ["quake", "sines", "walk", "noise"]
MID_CONTAINERS = ["ndarray", "ndarray", "ndarray", "list", "view", "negstride", "readonly", "int", "int16", "int32"]
MID_MEASURES = ["arias", "sumsq", "deprecated", "cav", "absacc", "isv", "cube", "count", "gated", "stats"]
_S_MODES = ["mid", "u", "u", "above-prev", "below-cur"]
_E_MODES = ["mid", "u", "u", "below-next", "above-cur"]


def _hu(*parts):
    """Uniform [0,1) from a hash of (VERIF_SEED, parts)."""
    return (gen._h(gen.run_seed(), "c10", *parts) % 10 ** 9) / 1e9


def _sd(*parts):
    return int(gen._h(gen.run_seed(), "c10seed", *parts) % (2 ** 31 - 1))


def _pick(seq, *parts):
    return seq[int(_hu(*parts) * len(seq)) % len(seq)]


def _deal(cases, shard, nshards):
    order = sorted(range(len(cases)), key=lambda i: -float(cases[i].get("cost", 0)))
    for rank, i in enumerate(order):
        if rank % nshards == shard:
            c = dict(cases[i])
            c.pop("cost", None)
            yield c


def _mid_record(n, seed, kind):
    """Ordinary data that keep an error visible: no trailing all-zero stretch, non-zero mean, every stretch different."""
    rs = np.random.RandomState(seed)
    t = np.arange(n, dtype=float)
    amp = 10.0 ** rs.uniform(-2.0, 1.5)
    if kind == "quake":
        x = (t + 1.0) / n
        env = x ** 2 * np.exp(-5.0 * x)
        a = rs.standard_normal(n) * (0.1 + env / env.max()) + 0.004
    elif kind == "sines":
        a = np.full(n, 0.013)
        for _ in range(3):
            a = a + rs.uniform(0.2, 1.0) * np.sin(2 * math.pi * rs.uniform(3.0, n / 9.0) * t / n + rs.uniform(0, 6.28))
    elif kind == "walk":
        a = np.cumsum(rs.standard_normal(n)) / math.sqrt(n) + 0.05 * rs.standard_normal(n) + 0.02
    else:
        a = rs.standard_normal(n) * (1.0 + 0.5 * np.sin(t * (7.0 / n))) + 0.006
    return a * amp


def _mid_container(a, how):
    if how == "int":
        return np.array(np.round(a * (1000.0 / max(1e-300, float(np.max(np.abs(a)))))), dtype=np.int64)
    if how == "ndarray":
        return a
    if how in gen.NARROW_DTYPES:
        return gen.narrow_int(a, how)[0]
    return gen.as_container({"as": how}, a)


def _mid_sizes(tier, tag, count_q, count_t, hi_q=300000, hi_t=2000000, lo=2000):
    """Laddered lengths + one anchor just above the nominal end (a window that opens anywhere below the end is entered)."""
    if tier == "quick":
        top = int(hi_q * (1 + 0.1 * _hu("top", tag)))
        return sorted(set(gen.size_ladder(lo, hi_q, count_q, "c10:" + tag)) | {top})
    top = int(hi_t * (1 + 0.05 * _hu("top:t", tag)))
    return sorted(set(gen.size_ladder(lo, hi_t, count_t, "c10:t:" + tag, mined_limit=16)) | set(gen.ladder(lo, hi_q, count_q, "c10:" + tag)) | {top})


def _mid_margin(n):
    """Margin of the strict comparisons for a record of n samples: 1e-9, or twice the worst-case rounding of two running sums of n
    non-negative terms (n*u each, u = eps/2) when that is larger (n > 1.1e6)."""
    return max(ref.MARGIN, 4 * EPS * n)


def _place(lev, uj, us, ue, ms, me, r1, r2):
    """Fraction pair aimed at a first sample <= j <= a last sample (the deterministic twin of the drawing in _sig_cases)."""
    n = len(lev)
    cand = np.flatnonzero((lev > 1e-6) & (lev < 1 - 2e-6))
    if not len(cand):
        return None
    j = int(cand[min(len(cand) - 1, int(uj * len(cand)))])
    lj = float(lev[j])
    i_s = int(us * (j + 1))
    prev, cur = (float(lev[i_s - 1]) if i_s > 0 else 0.0), float(lev[i_s])
    s = {"mid": 0.5 * (prev + cur), "u": prev + r1 * (cur - prev), "above-prev": prev * (1 + 3e-9), "below-cur": cur * (1 - 3e-9)}[ms]
    s = min(max(s, 1e-12), lj * (1 - 1e-6))
    i_e = j + int(ue * (n - 1 - j))
    cur, nxt = float(lev[i_e]), float(lev[i_e + 1])
    e = {"mid": 0.5 * (cur + nxt), "u": cur + r2 * (nxt - cur), "below-next": nxt * (1 - 3e-9), "above-cur": cur * (1 + 3e-9)}[me]
    e = max(min(e, 1 - 1e-12), lj * (1 + 1e-6))
    return float(s), float(e)


def _mid_sig_cases(tier):
    quick = tier == "quick"
    cases = []
    dts = [0.001, 0.002, 0.004, 0.005, 0.01, 0.02, 0.05]
    npairs = 6 if quick else 10
    for i, n in enumerate(_mid_sizes(tier, "sig", 14, 36)):
        for m in MID_MEASURES:
            how = _pick(MID_CONTAINERS, "how", i, m)
            if how == "list" and n > 60000:
                how = "readonly"
            if m == "stats":
                how = "ndarray"
            pairs = [[round(_hu("p", i, m, q, c), 6) for c in range(3)] + [_pick(_S_MODES, "ps", i, m, q), _pick(_E_MODES, "pe", i, m, q)]
                     + [round(_hu("r", i, m, q, c), 6) for c in range(2)] for q in range(npairs)]
            cases.append({"n": int(n), "seed": _sd("sig", i, m), "kind": _pick(MID_KINDS, "kind", i, m), "measure": m, "as": how,
                          "dt": _pick(dts, "dt", i, m) if _hu("dtk", i, m) < 0.6 else round(10 ** (-4 + 3.5 * _hu("dtv", i, m)), 7),
                          "dtv": _pick(DT_FORMS, "dtf", i, m), "form": _pick(["pos", "kw"], "form", i, m), "pairs": pairs,
                          "cost": n * (2 if m in ("isv", "count", "gated") else 1)})
    return cases


def _mid_sig_enum(tier, shard, nshards):
    return _deal(_mid_sig_cases(tier), shard, nshards)


@enum_clause(CLAUSES, "mid-range", _mid_sig_enum,
             rule="record lengths gen.size_ladder(2000, 300000, 14) + one just above 300000 (thorough: to 2 000 000, 36 + 14 rungs; plus lengths "
                  "aimed at the integer literals of the tree under test) x every entry point / measure (Arias, running sum of squares, deprecated "
                  "alias, CAV, integral |a|, ISV, sum|a|^3, exceedance count, gated energy, AccSignal.generate_duration_stats); noise x envelope / "
                  "sines / walk / modulated noise; container, dt and its form, call form by hash; per record 6 (thorough 10) fraction pairs whose "
                  "first and last qualifying samples are aimed at hash-chosen positions all over the record (mid-gap, uniform, 3e-9 outside a level) "
                  "+ the defaults 5-95 %; then the object's values are replaced and two pairs asked again",
             oracle="as definition: long-double running sums over the WHOLE record (vectorised) + first / last sample strictly between the thresholds "
                    "moved by +-max(1e-9, 4 eps n); equality (4 eps) when unambiguous, bracket otherwise; se=False == end - start",
             exhaustive_note="the laddered lengths of the run's VERIF_SEED", quick_shards=4)
def mid_range(case, ctx):
    n = int(case["n"])
    measure = case["measure"]
    a0 = _mid_record(n, case["seed"], case["kind"])
    dt_arg, dt = _dt(case)
    ctx.cls("m=" + measure, "kind=" + case["kind"], "as=" + case["as"], "dt=" + case["dtv"], "n>50000" if n > 50000 else "n<=50000")
    if measure == "stats":
        _mid_stats(ctx, a0, dt_arg, dt)
        return
    arg = _mid_container(a0, case["as"])
    a = np.array(arg, dtype=float)
    form = case["form"]
    asig = arr = None
    if measure in ARRAY_LEVEL:
        arr = arg
    else:
        asig = ctx.lib(eqsig.AccSignal, arg, dt_arg)
    margin = _mid_margin(n)

    def round_of_checks(rec, pairs, tag):
        lev = _levels_float(rec, measure)
        if lev is None:
            return
        vals, _m = _ref_values(ctx, measure, rec, dt, asig, False, 0.05, 0.95)
        todo = [(_place(lev, *p), False) for p in pairs] + [((0.05, 0.95), True)]
        for k, (se_, defaults) in enumerate(todo):
            if se_ is None:
                continue
            s, e = se_
            bt = ref.Between(vals, s, e, margin)
            _sig_assert(ctx, bt, measure, arr, asig, dt_arg, dt, len(rec), s, e, form if k % 2 == 0 else ("kw" if form == "pos" else "pos"),
                        defaults, tag=tag)

    round_of_checks(a, case["pairs"], "")
    if asig is not None and np.asarray(asig.values).dtype.kind == "f":
        # the result belongs to the record the signal holds NOW
        b = np.array(a[::-1]) * 0.5 + 0.1 * _mid_record(n, case["seed"] + 1, "noise") * (float(np.max(np.abs(a))) / 40.0)
        ctx.lib(asig.reset_values, b)
        ctx.cls("after-reset-values")
        round_of_checks(b, case["pairs"][:2], " after reset_values")


def _mid_stats(ctx, a, dt_arg, dt):
    """Deprecated AccSignal.generate_duration_stats on a long record (scaled below its smallest bracket threshold, see ASSUMPTIONS)."""
    n = len(a)
    mx = float(np.max(np.abs(a)))
    a = a * 2.0 ** int(np.floor(np.log2(0.08 / mx)))
    if not np.max(np.abs(a)) <= 0.08:
        a = a * 0.5
    bt = ref.Between(ref.running_sum_of_squares_ld(a), 0.05, 0.95, _mid_margin(n))
    if not bt.holds:
        ctx.cls("precondition-fails")
        return
    asig = ctx.lib(eqsig.AccSignal, a, dt_arg)
    ctx.lib(asig.generate_duration_stats)
    if bt.ambiguous:
        ctx.cls("ambiguous")
    else:
        ctx.nt(0 < bt.inner[1] - bt.inner[0] < n - 1)
    _assert_result(ctx, bt, dt, n, (asig.sd_start, asig.sd_end), asig.t_595, "generate_duration_stats (n=%d)" % n)


# ---- bracketed duration at mid-range lengths

_BRAC_MODES = ["zero", "max", "below-max", "kth", "kth", "kth", "sample", "sample", "below-sample", "below-sample", "frac", "frac", "above"]


def _mid_brac_cases(tier):
    quick = tier == "quick"
    cases = []
    nthr = 8 if quick else 12
    for i, n in enumerate(_mid_sizes(tier, "brac", 16, 40)):
        for rep in range(2):
            how = _pick(MID_CONTAINERS, "bhow", i, rep)
            if how == "list" and n > 60000:
                how = "negstride"
            thr = [[_pick(_BRAC_MODES, "bm", i, rep, q), round(_hu("bu", i, rep, q), 9)] for q in range(nthr)]
            thr[0][0] = "below-max"      # exactly one sample exceeds (by one ulp)
            thr[1][0] = "kth"
            cases.append({"n": int(n), "seed": _sd("brac", i, rep), "kind": _pick(MID_KINDS, "bk", i, rep), "as": how,
                          "dt": _pick([0.001, 0.002, 0.005, 0.01, 0.02], "bdt", i, rep), "dtv": _pick(DT_FORMS, "bdf", i, rep), "thr": thr,
                          "k2": int(_pick([-7, -3, -1, 1, 2, 6], "bk2", i, rep)),
                          "alpha": float((-1 if _hu("bas", i, rep) < 0.5 else 1) * 10 ** (-3 + 6 * _hu("bal", i, rep))), "cost": n})
    return cases


def _mid_brac_enum(tier, shard, nshards):
    return _deal(_mid_brac_cases(tier), shard, nshards)


@enum_clause(CLAUSES, "mid-range-bracketed", _mid_brac_enum,
             rule="record lengths gen.size_ladder(2000, 300000, 16) + one just above (thorough: to 2 000 000, 40 + 16), two records per length; "
                  "container, dt form by hash; 8 (thorough 12) thresholds per record from {0, max|a|, the double just below max|a| (one sample "
                  "exceeds by an ulp), the k-th largest |a| for k = 2..n/3 log-uniform (the exceeding samples are scattered over the record), |a_j| of "
                  "a hash-chosen sample, the double just below it, U*max|a|, above max|a|}",
             oracle="as bracketed: first / last |a_i| > thr by exact comparison over the whole record (vectorised), times i*dt (4 eps); none -> 0 and "
                    "(None, None); deprecated alias; record and threshold scaled by 2^k / a general factor; non-increasing along the sorted thresholds",
             exhaustive_note="the laddered lengths of the run's VERIF_SEED", quick_shards=4)
def mid_range_bracketed(case, ctx):
    n = int(case["n"])
    a0 = _mid_record(n, case["seed"], case["kind"])
    arg = _mid_container(a0, case["as"])
    a = np.array(arg, dtype=float)
    dt_arg, dt = _dt(case)
    ctx.cls("kind=" + case["kind"], "as=" + case["as"], "dt=" + case["dtv"], "n>50000" if n > 50000 else "n<=50000")
    ab = np.abs(a)
    mx = float(ab.max())
    srt = None
    thrs, modes = [], []
    for mode, u in case["thr"]:
        if mode == "zero":
            t = 0.0
        elif mode == "max":
            t = mx
        elif mode == "below-max":
            t = float(np.nextafter(mx, 0.0))
        elif mode == "kth":
            if srt is None:
                srt = np.sort(ab)
            k = int(round(math.exp(math.log(2) + u * (math.log(max(3, n // 3)) - math.log(2)))))
            t = float(srt[n - min(k, n)])
        elif mode == "sample":
            t = float(ab[int(u * n)])
        elif mode == "below-sample":
            t = float(np.nextafter(ab[int(u * n)], 0.0))
        elif mode == "frac":
            t = u * mx
        else:
            t = mx * (1.0 + u) + 1e-300
        thrs.append(t)
        modes.append(mode)
    asig = ctx.lib(eqsig.AccSignal, arg, dt_arg)
    _brac_checks(ctx, asig, a, dt_arg, dt, thrs, modes, int(case["k2"]), float(case["alpha"]))
    _brac_after_reset(ctx, asig, a, dt_arg, dt)
